(* C09 - proofs about the models of C09_Model.v *)
From Coq Require Import ZArith List Bool Lia ZifyBool Znumtheory.
Require Import C09_Model.
Import ListNotations.
Open Scope Z_scope.

(* ================================================================ sparse columns: sortedness, entries *)
Fixpoint rows_gt (r : Z) (s : svec) : Prop :=
  match s with [] => True | e :: t => r < fst e /\ rows_gt r t end.
Fixpoint sorted (s : svec) : Prop :=
  match s with [] => True | e :: t => rows_gt (fst e) t /\ sorted t end.
Definition nonzero (s : svec) : Prop := forall e, In e s -> snd e <> 0.
Definition reduced (p : Z) (s : svec) : Prop := forall e, In e s -> 0 <= snd e < p.

Lemma rows_gt_trans r r' s : r <= r' -> rows_gt r' s -> rows_gt r s.
Proof. induction s as [|e t IH]; simpl; intros Hle H; [exact I|]. destruct H as [H1 H2]. split; [lia|auto]. Qed.

Lemma rows_gt_sget r s : rows_gt r s -> forall r', r' <= r -> sget s r' = 0.
Proof.
  induction s as [|[r0 v] t IH]; simpl; intros H r' Hle; [reflexivity|].
  destruct H as [H1 H2]. simpl in H1. destruct (r0 =? r') eqn:E; [lia|]. apply IH; assumption.
Qed.
Lemma rows_gt_shas r s : rows_gt r s -> forall r', r' <= r -> shas s r' = false.
Proof.
  induction s as [|[r0 v] t IH]; simpl; intros H r' Hle; [reflexivity|].
  destruct H as [H1 H2]. simpl in H1. destruct (r0 =? r') eqn:E; [lia|]. simpl. apply IH; assumption.
Qed.
Lemma sget_shas_false s r : shas s r = false -> sget s r = 0.
Proof.
  induction s as [|[r0 v] t IH]; simpl; intros H; [reflexivity|].
  destruct (r0 =? r); simpl in H; [discriminate|auto].
Qed.

Lemma sget_map f s r : sget (map (fun e => (fst e, f (snd e))) s) r = if shas s r then f (sget s r) else 0.
Proof.
  induction s as [|[r0 v] t IH]; simpl; [reflexivity|].
  destruct (r0 =? r); simpl; [reflexivity|exact IH].
Qed.
Lemma shas_map f s r : shas (map (fun e => (fst e, f (snd e))) s) r = shas s r.
Proof. induction s as [|[r0 v] t IH]; simpl; [reflexivity|]. rewrite IH. reflexivity. Qed.
Lemma rows_gt_map f r s : rows_gt r s -> rows_gt r (map (fun e => (fst e, f (snd e))) s).
Proof. induction s as [|e t IH]; simpl; intros H; [exact I|]. destruct H; split; auto. Qed.
Lemma sorted_map f s : sorted s -> sorted (map (fun e => (fst e, f (snd e))) s).
Proof. induction s as [|e t IH]; simpl; intros H; [exact I|]. destruct H; split; [apply rows_gt_map; assumption|auto]. Qed.

(* ---------------------------------------------------------------- the generic merge, entry by entry *)
Definition merged_value (ft fs : Z -> Z) (fu : Z -> Z -> Z) (t s : svec) (r : Z) : Z :=
  match shas t r, shas s r with
  | true, true => fu (sget t r) (sget s r)
  | true, false => ft (sget t r)
  | false, true => fs (sget s r)
  | false, false => 0
  end.

Lemma gmerge_nil_l ft fs fu s : gmerge ft fs fu [] s = map (fun e => (fst e, fs (snd e))) s.
Proof. destruct s; reflexivity. Qed.

Lemma gmerge_cons ft fs fu rt vt t' rs vs s' :
  gmerge ft fs fu ((rt, vt) :: t') ((rs, vs) :: s') =
    if rt <? rs then (rt, ft vt) :: gmerge ft fs fu t' ((rs, vs) :: s')
    else if rs <? rt then (rs, fs vs) :: gmerge ft fs fu ((rt, vt) :: t') s'
    else if fu vt vs =? 0 then gmerge ft fs fu t' s' else (rt, fu vt vs) :: gmerge ft fs fu t' s'.
Proof. reflexivity. Qed.

Lemma gmerge_rows_gt ft fs fu r t : forall s, rows_gt r t -> rows_gt r s -> rows_gt r (gmerge ft fs fu t s).
Proof.
  induction t as [|[rt vt] t' IHt]; intros s Ht Hs.
  - rewrite gmerge_nil_l. apply rows_gt_map. exact Hs.
  - induction s as [|[rs vs] s' IHs].
    + simpl. simpl in Ht. destruct Ht as [H1 H2]. split; [exact H1|]. apply rows_gt_map. exact H2.
    + simpl in Ht, Hs. destruct Ht as [Ht1 Ht2]. destruct Hs as [Hs1 Hs2]. simpl in Ht1, Hs1.
      cbn [gmerge]. destruct (rt <? rs) eqn:E1.
      * simpl. split; [exact Ht1|]. apply IHt; [exact Ht2|]. simpl. split; assumption.
      * destruct (rs <? rt) eqn:E2.
        -- simpl. split; [exact Hs1|]. apply IHs. exact Hs2.
        -- destruct (fu vt vs =? 0); [apply IHt; assumption|]. simpl. split; [exact Ht1|]. apply IHt; assumption.
Qed.

Lemma gmerge_sorted ft fs fu t : forall s, sorted t -> sorted s -> sorted (gmerge ft fs fu t s).
Proof.
  induction t as [|[rt vt] t' IHt]; intros s Ht Hs.
  - rewrite gmerge_nil_l. apply sorted_map. exact Hs.
  - induction s as [|[rs vs] s' IHs].
    + change (sorted (map (fun e => (fst e, ft (snd e))) ((rt, vt) :: t'))). apply sorted_map. exact Ht.
    + destruct Ht as [Ht1 Ht2]. destruct Hs as [Hs1 Hs2]. simpl in Ht1, Hs1.
      cbn [gmerge]. destruct (rt <? rs) eqn:E1.
      * simpl. split; [|apply IHt; [exact Ht2|simpl; split; assumption]].
        apply gmerge_rows_gt; [exact Ht1|]. simpl. split; [lia|]. apply rows_gt_trans with rs; [lia|exact Hs1].
      * destruct (rs <? rt) eqn:E2.
        -- simpl. split; [|apply IHs; exact Hs2].
           apply (gmerge_rows_gt ft fs fu rs ((rt, vt) :: t') s'); [|exact Hs1].
           simpl. split; [lia|]. apply rows_gt_trans with rt; [lia|exact Ht1].
        -- assert (rt = rs) by lia. subst rs.
           destruct (fu vt vs =? 0); [apply IHt; assumption|]. simpl. split; [|apply IHt; assumption].
           apply gmerge_rows_gt; assumption.
Qed.

Lemma gmerge_get ft fs fu t : forall s r, sorted t -> sorted s ->
  sget (gmerge ft fs fu t s) r = merged_value ft fs fu t s r.
Proof.
  induction t as [|[rt vt] t' IHt]; intros s r Ht Hs.
  - rewrite gmerge_nil_l, sget_map. unfold merged_value. simpl. destruct (shas s r); reflexivity.
  - induction s as [|[rs vs] s' IHs].
    + change (gmerge ft fs fu ((rt, vt) :: t') []) with (map (fun e => (fst e, ft (snd e))) ((rt, vt) :: t')).
      rewrite sget_map. unfold merged_value. cbn [shas]. destruct (shas ((rt, vt) :: t') r); reflexivity.
    + destruct Ht as [Ht1 Ht2]. destruct Hs as [Hs1 Hs2]. simpl in Ht1, Hs1.
      rewrite gmerge_cons. destruct (rt <? rs) eqn:E1.
      * (* target entry first *)
        cbn [sget]. unfold merged_value. cbn [shas sget]. destruct (rt =? r) eqn:Er.
        -- assert (rs =? r = false) as -> by lia. cbn [orb].
           rewrite (rows_gt_shas rs s' Hs1 r) by lia. reflexivity.
        -- rewrite IHt; [|exact Ht2|simpl; split; assumption]. unfold merged_value. cbn [shas sget orb]. reflexivity.
      * destruct (rs <? rt) eqn:E2.
        -- (* source entry first *)
           cbn [sget]. destruct (rs =? r) eqn:Er.
           ++ unfold merged_value. cbn [shas sget]. rewrite Er. assert (rt =? r = false) as -> by lia. cbn [orb].
              rewrite (rows_gt_shas rt t' Ht1 r) by lia. reflexivity.
           ++ rewrite IHs by exact Hs2. unfold merged_value. cbn [shas sget]. rewrite Er. cbn [orb]. reflexivity.
        -- assert (rt = rs) by lia. subst rs.
           assert (Hrest : sget (gmerge ft fs fu t' s') r = merged_value ft fs fu t' s' r) by (apply IHt; assumption).
           unfold merged_value. cbn [shas sget]. destruct (rt =? r) eqn:Er.
           ++ cbn [orb]. destruct (fu vt vs =? 0) eqn:Ez.
              ** rewrite Hrest. unfold merged_value.
                 rewrite (rows_gt_shas rt t' Ht1 r), (rows_gt_shas rt s' Hs1 r) by lia. lia.
              ** cbn [sget]. rewrite Er. reflexivity.
           ++ cbn [orb]. destruct (fu vt vs =? 0) eqn:Ez.
              ** rewrite Hrest. reflexivity.
              ** cbn [sget]. rewrite Er. rewrite Hrest. reflexivity.
Qed.

(* every entry of the merge comes from ft on a target value, fs on a source value, or a non-zero fu *)
Lemma gmerge_nonzero ft fs fu t : forall s,
  (forall e, In e t -> ft (snd e) <> 0) -> (forall e, In e s -> fs (snd e) <> 0) -> nonzero (gmerge ft fs fu t s).
Proof.
  induction t as [|[rt vt] t' IHt]; intros s Ht Hs.
  - rewrite gmerge_nil_l. intros e He. apply in_map_iff in He. destruct He as [e0 [<- He0]]. simpl. apply Hs. exact He0.
  - induction s as [|[rs vs] s' IHs].
    + change (gmerge ft fs fu ((rt, vt) :: t') []) with (map (fun e => (fst e, ft (snd e))) ((rt, vt) :: t')).
      intros e He. apply in_map_iff in He. destruct He as [e0 [<- He0]]. simpl. apply Ht. exact He0.
    + rewrite gmerge_cons. destruct (rt <? rs).
      * intros e [<-|He]; [simpl; apply (Ht (rt, vt)); left; reflexivity|].
        revert e He. apply IHt; [intros e He; apply Ht; right; exact He|exact Hs].
      * destruct (rs <? rt).
        -- intros e [<-|He]; [simpl; apply (Hs (rs, vs)); left; reflexivity|].
           revert e He. apply IHs. intros e He. apply Hs. right. exact He.
        -- assert (Hrec : nonzero (gmerge ft fs fu t' s')).
           { apply IHt; intros e He; [apply Ht|apply Hs]; right; exact He. }
           destruct (fu vt vs =? 0) eqn:Ez; [exact Hrec|].
           intros e [<-|He]; [simpl; lia|apply Hrec; exact He].
Qed.

(* ---------------------------------------------------------------- the three specialisations = dense axpy *)
Lemma reduced_sget p s r : 0 < p -> reduced p s -> 0 <= sget s r < p.
Proof.
  intros Hp. induction s as [|[r0 v] t IH]; simpl; intros H; [lia|].
  destruct (r0 =? r); [apply (H (r0, v)); left; reflexivity|]. apply IH. intros e He. apply H. right. exact He.
Qed.

Theorem sp_add_dense p t s r : 0 < p -> sorted t -> sorted s -> reduced p t -> reduced p s ->
  sget (sp_add p t s) r = (sget t r + sget s r) mod p.
Proof.
  intros Hp Ht Hs Rt Rs. unfold sp_add. rewrite gmerge_get by assumption. unfold merged_value, fadd.
  pose proof (reduced_sget p t r Hp Rt). pose proof (reduced_sget p s r Hp Rs).
  destruct (shas t r) eqn:E1; destruct (shas s r) eqn:E2;
    try rewrite (sget_shas_false t r E1); try rewrite (sget_shas_false s r E2);
    rewrite ?Z.add_0_r, ?Z.add_0_l, ?Z.mod_small by lia; reflexivity.
Qed.

Theorem sp_mta_dense p val t s r : 0 < p -> 0 <= val < p -> sorted t -> sorted s -> reduced p t -> reduced p s ->
  sget (sp_mta p val t s) r = (val * sget t r + sget s r) mod p.
Proof.
  intros Hp Hv Ht Hs Rt Rs. unfold sp_mta.
  pose proof (reduced_sget p s r Hp Rs) as Bs.
  destruct (val =? 0) eqn:Ev.
  - assert (val = 0) by lia. subst val. rewrite gmerge_get by (simpl; auto). unfold merged_value. cbn [shas sget].
    destruct (shas s r) eqn:E2; [|rewrite (sget_shas_false s r E2)]; rewrite Z.mul_0_l, Z.add_0_l, Z.mod_small by lia; reflexivity.
  - rewrite gmerge_get by assumption. unfold merged_value, fadd, fmul.
    destruct (shas t r) eqn:E1; destruct (shas s r) eqn:E2;
      try rewrite (sget_shas_false t r E1); try rewrite (sget_shas_false s r E2).
    + rewrite Zplus_mod_idemp_l. f_equal. lia.
    + rewrite Z.add_0_r. f_equal. lia.
    + rewrite Z.mul_0_r, Z.add_0_l, Z.mod_small by lia. reflexivity.
    + rewrite Z.mul_0_r. reflexivity.
Qed.

Theorem sp_msa_dense p val t s r : 0 < p -> 0 <= val < p -> sorted t -> sorted s -> reduced p t -> reduced p s ->
  sget (sp_msa p val t s) r = (sget t r + val * sget s r) mod p.
Proof.
  intros Hp Hv Ht Hs Rt Rs. unfold sp_msa.
  pose proof (reduced_sget p t r Hp Rt) as Bt.
  destruct (val =? 0) eqn:Ev.
  - assert (val = 0) by lia. subst val. rewrite Z.mul_0_l, Z.add_0_r, Z.mod_small by lia. reflexivity.
  - rewrite gmerge_get by assumption. unfold merged_value, fadd, fmul.
    destruct (shas t r) eqn:E1; destruct (shas s r) eqn:E2;
      try rewrite (sget_shas_false t r E1); try rewrite (sget_shas_false s r E2).
    + rewrite Zplus_mod_idemp_l. f_equal. lia.
    + rewrite Z.mul_0_r, Z.add_0_r, Z.mod_small by lia. reflexivity.
    + rewrite Z.add_0_l. f_equal. lia.
    + rewrite Z.mul_0_r. reflexivity.
Qed.

(* the three specialisations keep the column sorted *)
Theorem sp_ops_sorted p val t s : sorted t -> sorted s ->
  sorted (sp_add p t s) /\ sorted (sp_mta p val t s) /\ sorted (sp_msa p val t s).
Proof.
  intros Ht Hs. unfold sp_add, sp_mta, sp_msa. repeat split.
  - apply gmerge_sorted; assumption.
  - destruct (val =? 0); apply gmerge_sorted; simpl; auto.
  - destruct (val =? 0); [exact Ht|apply gmerge_sorted; assumption].
Qed.

(* a prime characteristic has no zero divisors among the residues *)
Lemma prime_mul_nonzero p a b : prime p -> 0 < a < p -> 0 < b < p -> (a * b) mod p <> 0.
Proof.
  intros Hp Ha Hb Hz.
  assert (Hd : (p | a * b)). { apply Z.mod_divide; [destruct Hp; lia|exact Hz]. }
  destruct (prime_mult p Hp a b Hd) as [H|H]; apply Z.divide_pos_le in H; lia.
Qed.

(* ... and zero-free, for a prime characteristic *)
Theorem sp_ops_nonzero p val t s : prime p -> 0 <= val < p -> reduced p t -> reduced p s -> nonzero t -> nonzero s ->
  nonzero (sp_add p t s) /\ nonzero (sp_mta p val t s) /\ nonzero (sp_msa p val t s).
Proof.
  intros Hp Hv Rt Rs Nt Ns.
  assert (Hscale : forall u, In u t \/ In u s -> val <> 0 -> fmul p (snd u) val <> 0).
  { intros u Hu Hval. unfold fmul. apply prime_mul_nonzero; [exact Hp| |lia].
    destruct Hu as [Hu|Hu]; [pose proof (Rt u Hu); pose proof (Nt u Hu)|pose proof (Rs u Hu); pose proof (Ns u Hu)]; lia. }
  unfold sp_add, sp_mta, sp_msa. repeat split.
  - apply gmerge_nonzero; assumption.
  - destruct (val =? 0) eqn:Ev.
    + apply gmerge_nonzero; [intros e []|exact Ns].
    + apply gmerge_nonzero; [|exact Ns]. intros e He. apply Hscale; [left; exact He|lia].
  - destruct (val =? 0) eqn:Ev; [exact Nt|].
    apply gmerge_nonzero; [exact Nt|]. intros e He. apply Hscale; [right; exact He|lia].
Qed.

(* zero-free and sorted: an entry is stored iff the value is not zero (is_non_zero reads the structure) *)
Lemma shas_iff_nonzero s r : nonzero s -> (shas s r = true <-> sget s r <> 0).
Proof.
  induction s as [|[r0 v] t IH]; simpl; intros N; [split; [discriminate|congruence]|].
  destruct (r0 =? r); simpl.
  - split; [intros _; apply (N (r0, v)); left; reflexivity|reflexivity].
  - apply IH. intros e He. apply N. right. exact He.
Qed.

(* ================================================================ heap column: content = sum of the duplicates *)
Lemma hsum_range p l r : 0 < p -> 0 <= hsum p l r < p.
Proof.
  intros Hp. induction l as [|e t IH]; simpl; [lia|]. change (fold_right _ 0 t) with (hsum p t r).
  destruct (fst e =? r); [unfold fadd; apply Z.mod_pos_bound; lia|exact IH].
Qed.
Lemma hsum_app p l s r : 0 < p -> hsum p (l ++ s) r = (hsum p l r + hsum p s r) mod p.
Proof.
  intros Hp. induction l as [|e t IH]; simpl.
  - change (fold_right _ 0 s) with (hsum p s r). rewrite Z.mod_small; [reflexivity|apply hsum_range; exact Hp].
  - change (fold_right _ 0 (t ++ s)) with (hsum p (t ++ s) r). change (fold_right _ 0 t) with (hsum p t r).
    destruct (fst e =? r).
    + rewrite IH. unfold fadd. rewrite Zplus_mod_idemp_r, Zplus_mod_idemp_l. f_equal. lia.
    + exact IH.
Qed.
Lemma hsum_scale p val l r : 0 < p ->
  hsum p (map (fun e => (fst e, fmul p (snd e) val)) l) r = (val * hsum p l r) mod p.
Proof.
  intros Hp. induction l as [|e t IH]; simpl; [rewrite Z.mul_0_r; reflexivity|].
  change (fold_right _ 0 (map _ t)) with (hsum p (map (fun e => (fst e, fmul p (snd e) val)) t) r).
  change (fold_right _ 0 t) with (hsum p t r).
  destruct (fst e =? r); [|exact IH].
  rewrite IH. unfold fadd, fmul. rewrite Zplus_mod_idemp_l, Zplus_mod_idemp_r, Zmult_mod_idemp_r. f_equal. lia.
Qed.
Lemma hsum_sdel_same p l r : hsum p (sdel l r) r = 0.
Proof.
  induction l as [|e t IH]; simpl; [reflexivity|]. destruct (fst e =? r) eqn:E; simpl; [exact IH|].
  rewrite E. exact IH.
Qed.
Lemma hsum_sdel_other p l r r' : r <> r' -> hsum p (sdel l r) r' = hsum p l r'.
Proof.
  intros Hn. induction l as [|e t IH]; simpl; [reflexivity|].
  change (fold_right _ 0 t) with (hsum p t r').
  destruct (fst e =? r) eqn:E; simpl.
  - assert (fst e =? r' = false) as -> by lia. exact IH.
  - change (fold_right _ 0 (sdel t r)) with (hsum p (sdel t r) r'). rewrite IH. reflexivity.
Qed.
Lemma hmax_cons2 a b t : hmax (a :: b :: t) = Z.max (fst a) (hmax (b :: t)).
Proof. reflexivity. Qed.
Lemma hmax_ge l : forall e, In e l -> fst e <= hmax l.
Proof.
  induction l as [|a t IH]; [intros e []|]. intros e He. destruct t as [|b t'].
  - destruct He as [<-|[]]. simpl. lia.
  - rewrite hmax_cons2. destruct He as [<-|Hin]; [lia|]. specialize (IH e Hin). lia.
Qed.
Lemma hsum_notin p l r : (forall e, In e l -> fst e <> r) -> hsum p l r = 0.
Proof.
  induction l as [|e t IH]; simpl; intros H; [reflexivity|]. change (fold_right _ 0 t) with (hsum p t r).
  destruct (fst e =? r) eqn:E.
  - specialize (H e (or_introl eq_refl)). lia.
  - apply IH. intros e' He'. apply H. right. exact He'.
Qed.
Lemma hsum_above_max p l r : hmax l < r -> hsum p l r = 0.
Proof. intros H. apply hsum_notin. intros e He. pose proof (hmax_ge l e He). lia. Qed.
Lemma length_sdel l r : (length (sdel l r) <= length l)%nat.
Proof. unfold sdel. induction l as [|e t IH]; simpl; [lia|]. destruct (negb (fst e =? r)); simpl; lia. Qed.
Lemma hmax_in l : l <> [] -> exists v, In (hmax l, v) l.
Proof.
  induction l as [|[r0 v0] t IH]; [congruence|]. intros _. destruct t as [|e t'].
  - exists v0. left. reflexivity.
  - rewrite hmax_cons2. destruct (IH ltac:(congruence)) as [v Hv]. cbn [fst].
    destruct (Z.max_spec r0 (hmax (e :: t'))) as [[_ ->]|[_ ->]].
    + exists v. right. exact Hv.
    + exists v0. left. reflexivity.
Qed.
Lemma length_sdel_in l m v : In (m, v) l -> (length (sdel l m) < length l)%nat.
Proof.
  induction l as [|e t IH]; [intros []|]. intros Hin. unfold sdel. cbn [filter length].
  fold (sdel t m). pose proof (length_sdel t m) as Hle.
  destruct Hin as [->|Hin].
  - cbn [fst]. rewrite Z.eqb_refl. cbn [negb]. lia.
  - specialize (IH Hin). destruct (negb (fst e =? m)); cbn [length]; lia.
Qed.
Lemma length_sdel_max l : l <> [] -> (length (sdel l (hmax l)) < length l)%nat.
Proof. intros Hne. destruct (hmax_in l Hne) as [v Hv]. apply length_sdel_in with v. exact Hv. Qed.

(* _pop_pivot: the entry returned carries the content at its row, the rest has the same content elsewhere *)
Lemma hp_pop_spec p : 0 < p -> forall fuel l, (length l < fuel)%nat ->
  match hp_pop fuel p l with
  | (Some (r, v), rest) => v = hsum p l r /\ v <> 0 /\ hsum p rest r = 0 /\ (forall r', r' <> r -> hsum p rest r' = hsum p l r') /\
                           (forall r', r < r' -> hsum p l r' = 0) /\ (length rest < length l)%nat
  | (None, rest) => forall r, hsum p l r = 0
  end.
Proof.
  intros Hp. induction fuel as [|f IH]; intros l Hlen; [lia|].
  destruct l as [|e t]; [simpl; reflexivity|].
  cbn [hp_pop]. set (l := e :: t). set (r := hmax l). set (v := hsum p l r). set (rest := sdel l r).
  assert (Hne : l <> []) by (unfold l; congruence).
  assert (Hll : length l = S (length t)) by reflexivity.
  pose proof (length_sdel_max l Hne) as Hlt. fold r rest in Hlt.
  destruct (v =? 0) eqn:Ev.
  - assert (Hrec := IH rest ltac:(simpl in Hlen; lia)).
    destruct (hp_pop f p rest) as [[[r1 v1]|] rest1].
    + destruct Hrec as [H1 [H2 [H3 [H4 [H5 H6]]]]].
      assert (r1 <> r). { intro; subst r1. unfold rest in H1. rewrite hsum_sdel_same in H1. lia. }
      repeat split.
      * rewrite H1. unfold rest. apply hsum_sdel_other. congruence.
      * exact H2.
      * exact H3.
      * intros r' Hr'. rewrite H4 by exact Hr'. destruct (Z.eq_dec r' r) as [->|Hn].
        -- unfold rest. rewrite hsum_sdel_same. fold v. lia.
        -- unfold rest. apply hsum_sdel_other. congruence.
      * intros r' Hr'. destruct (Z.eq_dec r' r) as [->|Hn]; [fold v; lia|].
        rewrite <- (hsum_sdel_other p l r r') by congruence. apply H5. exact Hr'.
      * lia.
    + intros r'. destruct (Z.eq_dec r' r) as [->|Hn]; [fold v; lia|].
      rewrite <- (hsum_sdel_other p l r r') by congruence. apply Hrec.
  - repeat split.
    + lia.
    + unfold rest. apply hsum_sdel_same.
    + intros r' Hr'. unfold rest. apply hsum_sdel_other. congruence.
    + intros r' Hr'. apply hsum_above_max. fold r. lia.
    + exact Hlt.
Qed.

(* emptiness test of the heap column = the content is zero everywhere *)
Theorem heap_is_empty_iff p c : 0 < p -> (hp_is_empty p c = true <-> forall r, hsum p (fst c) r = 0).
Proof.
  intros Hp. unfold hp_is_empty.
  pose proof (hp_pop_spec p Hp (S (length (fst c))) (fst c) ltac:(lia)) as H.
  destruct (hp_pop (S (length (fst c))) p (fst c)) as [[[r v]|] rest].
  - destruct H as [H1 [H2 _]]. split; [discriminate|]. intros Hz. specialize (Hz r). lia.
  - split; [intros _; exact H|reflexivity].
Qed.

(* _prune body keeps the content *)
Lemma hp_pop_all_content p : 0 < p -> forall fuel l, (length l < fuel)%nat ->
  forall r, hsum p (hp_pop_all fuel p l) r = hsum p l r.
Proof.
  intros Hp. induction fuel as [|f IH]; intros l Hlen r; [lia|].
  cbn [hp_pop_all].
  pose proof (hp_pop_spec p Hp (S (length l)) l ltac:(lia)) as H.
  destruct (hp_pop (S (length l)) p l) as [[[r1 v1]|] rest].
  - destruct H as [H1 [H2 [H3 [H4 [H5 H6]]]]].
    cbn [hsum fold_right fst snd]. change (fold_right _ 0 (hp_pop_all f p rest)) with (hsum p (hp_pop_all f p rest) r).
    rewrite IH by lia. destruct (r1 =? r) eqn:E.
    + assert (r1 = r) by lia. subst r1. rewrite H3. unfold fadd. rewrite Z.add_0_r, H1.
      apply Z.mod_small. apply hsum_range. exact Hp.
    + apply H4. lia.
  - simpl. symmetry. apply H.
Qed.

Theorem heap_prune_content p c r : 0 < p -> hsum p (fst (hp_prune p c)) r = hsum p (fst c) r.
Proof.
  intros Hp. unfold hp_prune. destruct (snd c =? 0); [reflexivity|]. cbn [fst]. apply hp_pop_all_content; [exact Hp|lia].
Qed.
Lemma heap_maybe_prune_content p c r : 0 < p -> hsum p (fst (hp_maybe_prune p c)) r = hsum p (fst c) r.
Proof. intros Hp. unfold hp_maybe_prune. destruct (_ <? _); [apply heap_prune_content; exact Hp|reflexivity]. Qed.

Theorem heap_content_add p c s r : 0 < p -> hsum p (fst (hp_add p c s)) r = (hsum p (fst c) r + hsum p s r) mod p.
Proof.
  intros Hp. unfold hp_add. destruct s as [|e s'].
  - simpl. rewrite Z.add_0_r, Z.mod_small; [reflexivity|apply hsum_range; exact Hp].
  - destruct c as [[|e0 l] n]; cbn [fst snd].
    + simpl (hsum p [] r). rewrite Z.add_0_l, Z.mod_small; [reflexivity|apply hsum_range; exact Hp].
    + rewrite heap_maybe_prune_content by exact Hp. cbn [fst]. apply hsum_app. exact Hp.
Qed.

Theorem heap_content_mul_target p val c s r : 0 < p -> 0 <= val < p ->
  hsum p (fst (hp_mta p val c s)) r = (val * hsum p (fst c) r + hsum p s r) mod p.
Proof.
  intros Hp Hv. unfold hp_mta.
  assert (Hs : hsum p s r = (hsum p s r) mod p) by (symmetry; apply Z.mod_small; apply hsum_range; exact Hp).
  destruct (val =? 0) eqn:Ev.
  - assert (val = 0) by lia. subst val. cbn [fst snd]. rewrite Z.mul_0_l, Z.add_0_l. exact Hs.
  - destruct c as [[|e0 l] n]; cbn [fst snd].
    + simpl (hsum p [] r). rewrite Z.mul_0_r, Z.add_0_l. exact Hs.
    + rewrite heap_maybe_prune_content by exact Hp. cbn [fst]. rewrite hsum_app by exact Hp.
      rewrite (hsum_scale p val (e0 :: l) r Hp). rewrite Zplus_mod_idemp_l. reflexivity.
Qed.

(* the repaired code (fixed = true) *)
Theorem heap_content_mul_source p val c s r : 0 < p -> 0 <= val < p ->
  hsum p (fst (hp_msa true p val c s)) r = (hsum p (fst c) r + val * hsum p s r) mod p.
Proof.
  intros Hp Hv. unfold hp_msa.
  assert (Hc : hsum p (fst c) r = (hsum p (fst c) r) mod p) by (symmetry; apply Z.mod_small; apply hsum_range; exact Hp).
  destruct (val =? 0) eqn:Ev.
  - assert (val = 0) by lia. subst val. rewrite Z.mul_0_l, Z.add_0_r. exact Hc.
  - destruct s as [|e s'].
    + simpl (hsum p [] r). rewrite Z.mul_0_r, Z.add_0_r. exact Hc.
    + destruct c as [[|e0 l] n]; cbn [fst snd].
      * simpl (hsum p [] r). rewrite Z.add_0_l. apply (hsum_scale p val (e :: s') r Hp).
      * rewrite heap_maybe_prune_content by exact Hp. cbn [fst]. rewrite hsum_app by exact Hp.
        rewrite (hsum_scale p val (e :: s') r Hp). rewrite Zplus_mod_idemp_r. reflexivity.
Qed.

(* the code as found (before commit 9d12171ad): scaling by 2 into an empty column over Z_5 copies the source unscaled *)
Theorem heap_mul_source_empty_refuted :
  exists p val c s r, 0 < p /\ 0 <= val < p /\
    hsum p (fst (hp_msa false p val c s)) r <> (hsum p (fst c) r + val * hsum p s r) mod p.
Proof. exists 5, 2, ([], 0), [(0, 1); (2, 3)], 0. vm_compute. repeat split; congruence. Qed.

Theorem heap_clear_row_content p c r r' : 0 < p ->
  hsum p (fst (hp_clear_row p c r)) r' = if r' =? r then 0 else hsum p (fst c) r'.
Proof.
  intros Hp. unfold hp_clear_row. cbn [fst]. change (filter _ ?l) with (sdel l r).
  destruct (r' =? r) eqn:E.
  - assert (r' = r) by lia. subst r'. apply hsum_sdel_same.
  - rewrite hsum_sdel_other by lia. apply hp_pop_all_content; [exact Hp|lia].
Qed.

(* ================================================================ lazy vector column *)
Definition lz_wf (c : svec * list Z) : Prop :=
  sorted (fst c) /\ nonzero (fst c) /\ NoDup (snd c) /\ (forall r, In r (snd c) -> shas (fst c) r = true).

Lemma zmem_In r l : zmem r l = true <-> In r l.
Proof.
  unfold zmem. rewrite existsb_exists. split.
  - intros [x [Hx Hr]]. assert (x = r) by lia. subst. exact Hx.
  - intros H. exists r. split; [exact H|lia].
Qed.

Lemma rows_gt_filter f r s : rows_gt r s -> rows_gt r (filter f s).
Proof. induction s as [|e t IH]; simpl; intros H; [exact I|]. destruct H. destruct (f e); simpl; auto. Qed.
Lemma sorted_filter f s : sorted s -> sorted (filter f s).
Proof.
  induction s as [|e t IH]; simpl; intros H; [exact I|]. destruct H as [H1 H2].
  destruct (f e); simpl; [split; [apply rows_gt_filter; exact H1|auto]|auto].
Qed.
Lemma lz_live_sorted c : sorted (fst c) -> sorted (lz_live c).
Proof. apply sorted_filter. Qed.
Lemma lz_live_in c e : In e (lz_live c) -> In e (fst c).
Proof. unfold lz_live. intros H. apply filter_In in H. tauto. Qed.

(* the content of a lazy column is the content of its live entries *)
Lemma lz_get_live c r : lz_get c r = sget (lz_live c) r.
Proof.
  unfold lz_get, lz_live. destruct c as [l er]. cbn [fst snd]. destruct (zmem r er) eqn:Em.
  - induction l as [|[r0 v] t IH]; [reflexivity|]. cbn [filter fst].
    destruct (r0 =? r) eqn:E.
    + assert (r0 = r) by lia. subst r0. rewrite Em. cbn [negb]. exact IH.
    + destruct (negb (zmem r0 er)); [cbn [sget]; rewrite E|]; exact IH.
  - induction l as [|[r0 v] t IH]; [reflexivity|]. cbn [filter fst sget].
    destruct (r0 =? r) eqn:E.
    + assert (r0 = r) by lia. subst r0. rewrite Em. cbn [negb sget]. rewrite Z.eqb_refl. reflexivity.
    + destruct (negb (zmem r0 er)); [cbn [sget]; rewrite E|]; exact IH.
Qed.

(* zeroing an entry which is not stored is a no-op (repaired clear(row), without row access) *)
Theorem lazyvec_clear_absent c r : shas (fst c) r = false -> lz_clear_row true false c r = c.
Proof. intros H. unfold lz_clear_row. destruct (zmem r (snd c)); [reflexivity|]. rewrite H. reflexivity. Qed.

Theorem lazyvec_clear_content fixed c r r' :
  lz_get (lz_clear_row fixed false c r) r' = if r' =? r then 0 else lz_get c r'.
Proof.
  unfold lz_clear_row.
  assert (Hadd : lz_get (fst c, r :: snd c) r' = if r' =? r then 0 else lz_get c r').
  { unfold lz_get. cbn [fst snd zmem existsb]. destruct (r' =? r) eqn:E.
    - assert (r =? r' = true) as -> by lia. reflexivity.
    - assert (r =? r' = false) as -> by lia. reflexivity. }
  assert (Hsame : zmem r (snd c) = true \/ shas (fst c) r = false -> lz_get c r' = if r' =? r then 0 else lz_get c r').
  { intros H. destruct (r' =? r) eqn:E; [|reflexivity]. assert (r' = r) by lia. subst r'. unfold lz_get.
    destruct H as [H|H]; [rewrite H; reflexivity|]. destruct (zmem r (snd c)); [reflexivity|apply sget_shas_false; exact H]. }
  destruct (zmem r (snd c)) eqn:Em; [apply Hsame; left; reflexivity|].
  destruct fixed; [|exact Hadd].
  destruct (shas (fst c) r) eqn:Es; [exact Hadd|apply Hsame; right; reflexivity].
Qed.

(* the invariant "erased rows are stored rows" is kept by the repaired clear(row) ... *)
Theorem lazyvec_clear_wf c r : lz_wf c -> lz_wf (lz_clear_row true false c r).
Proof.
  intros [H1 [H2 [H3 H4]]]. unfold lz_clear_row. destruct (zmem r (snd c)) eqn:Em; [repeat split; assumption|].
  destruct (shas (fst c) r) eqn:Es; [|repeat split; assumption].
  repeat split; cbn [fst snd]; try assumption.
  - constructor; [|exact H3]. intro Hin. apply zmem_In in Hin. congruence.
  - intros r' [<-|Hin]; [exact Es|apply H4; exact Hin].
Qed.

(* ... and under it is_empty() is exact *)
Lemma filter_length_erased l : sorted l -> forall er, NoDup er -> (forall r, In r er -> shas l r = true) ->
  (length (filter (fun e => negb (zmem (fst e) er)) l) + length er = length l)%nat.
Proof.
  induction l as [|[r0 v] t IH]; intros Hs er Hnd Hsub.
  - destruct er as [|r er']; [reflexivity|]. specialize (Hsub r (or_introl eq_refl)). discriminate.
  - destruct Hs as [Hs1 Hs2]. simpl in Hs1. cbn [filter fst].
    destruct (zmem r0 er) eqn:Em.
    + (* r0 erased: remove it from er *)
      apply zmem_In in Em. destruct (in_split _ _ Em) as [e1 [e2 ->]].
      assert (Hnd' : NoDup (e1 ++ e2)) by (apply NoDup_remove_1 with r0; exact Hnd).
      assert (Hnot : ~ In r0 (e1 ++ e2)) by (apply NoDup_remove_2; exact Hnd).
      assert (Hsub' : forall r, In r (e1 ++ e2) -> shas t r = true).
      { intros r Hr. assert (Hin : In r (e1 ++ r0 :: e2)) by (apply in_or_app; apply in_app_or in Hr; simpl; tauto).
        specialize (Hsub r Hin). cbn [shas] in Hsub. destruct (r0 =? r) eqn:E; [|exact Hsub].
        assert (r0 = r) by lia. subst r. contradiction. }
      specialize (IH Hs2 (e1 ++ e2) Hnd' Hsub').
      assert (Hf : filter (fun e => negb (zmem (fst e) (e1 ++ r0 :: e2))) t = filter (fun e => negb (zmem (fst e) (e1 ++ e2))) t).
      { apply filter_ext_in. intros e He. f_equal.
        assert (fst e <> r0). { intro Heq. pose proof (rows_gt_shas r0 t Hs1 (fst e) ltac:(lia)) as Hf.
          assert (shas t (fst e) = true). { clear -He. induction t as [|[a b] t IH]; [destruct He|]. simpl. destruct He as [<-|He]; simpl; [rewrite Z.eqb_refl; reflexivity|rewrite IH by exact He; apply orb_true_r]. }
          congruence. }
        apply eq_true_iff_eq. rewrite !zmem_In. split; intros Hin; apply in_or_app; apply in_app_or in Hin; simpl in *; intuition congruence. }
      simpl negb. cbv iota. rewrite Hf. rewrite app_length in *. simpl. lia.
    + simpl negb. cbv iota. simpl length.
      assert (Hsub' : forall r, In r er -> shas t r = true).
      { intros r Hr. specialize (Hsub r Hr). cbn [shas] in Hsub. destruct (r0 =? r) eqn:E; [|exact Hsub].
        assert (r0 = r) by lia. subst r. apply zmem_In in Hr. congruence. }
      specialize (IH Hs2 er Hnd Hsub'). lia.
Qed.

Theorem lazyvec_is_empty_iff c : lz_wf c -> (lz_is_empty c = true <-> forall r, lz_get c r = 0).
Proof.
  intros [H1 [H2 [H3 H4]]]. unfold lz_is_empty.
  pose proof (filter_length_erased (fst c) H1 (snd c) H3 H4) as Hlen. fold (lz_live c) in Hlen.
  rewrite Nat.eqb_eq. split.
  - intros Heq r. rewrite lz_get_live. assert (Hl : lz_live c = []) by (destruct (lz_live c); [reflexivity|simpl in Hlen; lia]).
    rewrite Hl. reflexivity.
  - intros Hz. destruct (lz_live c) as [|[r v] t] eqn:El; [simpl in Hlen; lia|].
    specialize (Hz r). rewrite lz_get_live, El in Hz. simpl in Hz. rewrite Z.eqb_refl in Hz.
    assert (Hin : In (r, v) (fst c)) by (apply lz_live_in; rewrite El; left; reflexivity).
    specialize (H2 (r, v) Hin). simpl in H2. congruence.
Qed.

(* the code as found (before commit 1589a1a02): after zeroing an absent entry of [0,2,0,0] the column claims to be empty *)
Theorem lazyvec_clear_absent_refuted :
  exists c r, lz_wf c /\ shas (fst c) r = false /\
    lz_is_empty (lz_clear_row false false c r) = true /\ lz_get (lz_clear_row false false c r) 1 = 2.
Proof.
  exists ([(1, 2)], []), 3. split; [|split; [reflexivity|split; reflexivity]].
  unfold lz_wf. cbn [fst snd]. split; [simpl; tauto|]. split; [intros e [<-|[]]; simpl; congruence|].
  split; [constructor|intros r []].
Qed.

(* additions of lazy columns = dense axpy of their contents *)
Lemma reduced_live p c : reduced p (fst c) -> reduced p (lz_live c).
Proof. intros H e He. apply H. apply lz_live_in. exact He. Qed.

Lemma lz_live_no_erased l : lz_live (l, []) = l.
Proof. unfold lz_live. cbn [fst snd]. induction l as [|a l IH]; [reflexivity|]. simpl. simpl in IH. rewrite IH. reflexivity. Qed.

Theorem lazyvec_content_add p c s r : 0 < p -> sorted (fst c) -> sorted (fst s) -> reduced p (fst c) -> reduced p (fst s) ->
  lz_get (lz_add p c s) r = (lz_get c r + lz_get s r) mod p.
Proof.
  intros Hp Sc Ss Rc Rs. rewrite !lz_get_live.
  pose proof (reduced_sget p (lz_live c) r Hp (reduced_live p c Rc)) as Bc.
  pose proof (reduced_sget p (lz_live s) r Hp (reduced_live p s Rs)) as Bs.
  assert (Hls : fst s = [] -> lz_live s = []) by (intros E; unfold lz_live; rewrite E; reflexivity).
  assert (Hlc : fst c = [] -> lz_live c = []) by (intros E; unfold lz_live; rewrite E; reflexivity).
  assert (Hdense : sget (sp_add p (lz_live c) (lz_live s)) r = (sget (lz_live c) r + sget (lz_live s) r) mod p).
  { apply sp_add_dense; try assumption; try (apply lz_live_sorted; assumption); apply reduced_live; assumption. }
  unfold lz_add. destruct (fst s) eqn:Es.
  - rewrite (Hls eq_refl). cbn [sget]. rewrite Z.add_0_r, Z.mod_small by lia. reflexivity.
  - destruct (fst c) eqn:Ec.
    + rewrite (Hlc eq_refl). cbn [sget]. rewrite lz_live_no_erased. rewrite Z.add_0_l, Z.mod_small by lia. reflexivity.
    + rewrite lz_live_no_erased. exact Hdense.
Qed.

Theorem lazyvec_content_mul_target p val c s r : 0 < p -> 0 <= val < p ->
  sorted (fst c) -> sorted (fst s) -> reduced p (fst c) -> reduced p (fst s) ->
  lz_get (lz_mta p val c s) r = (val * lz_get c r + lz_get s r) mod p.
Proof.
  intros Hp Hv Sc Ss Rc Rs. rewrite !lz_get_live.
  pose proof (reduced_sget p (lz_live s) r Hp (reduced_live p s Rs)) as Bs.
  assert (Hdense : sget (sp_mta p val (lz_live c) (lz_live s)) r = (val * sget (lz_live c) r + sget (lz_live s) r) mod p).
  { apply sp_mta_dense; try assumption; try (apply lz_live_sorted; assumption); apply reduced_live; assumption. }
  assert (Hcopy : sget (lz_live (lz_live s, [])) r = sget (lz_live s) r) by (f_equal; apply lz_live_no_erased).
  destruct c as [lc ec]. unfold lz_mta. destruct (val =? 0) eqn:Ev; cbv beta iota zeta; cbn [fst snd].
  - assert (val = 0) by lia. subst val. etransitivity; [exact Hcopy|].
    rewrite Z.mul_0_l, Z.add_0_l, Z.mod_small by lia. reflexivity.
  - destruct lc as [|e0 lc'].
    + etransitivity; [exact Hcopy|]. change (sget (lz_live ([], ec)) r) with 0.
      rewrite Z.mul_0_r, Z.add_0_l, Z.mod_small by lia. reflexivity.
    + etransitivity; [|exact Hdense]. f_equal. apply lz_live_no_erased.
Qed.

Theorem lazyvec_content_mul_source p val c s r : 0 < p -> 0 <= val < p ->
  sorted (fst c) -> sorted (fst s) -> reduced p (fst c) -> reduced p (fst s) ->
  lz_get (lz_msa p val c s) r = (lz_get c r + val * lz_get s r) mod p.
Proof.
  intros Hp Hv Sc Ss Rc Rs. rewrite !lz_get_live.
  pose proof (reduced_sget p (lz_live c) r Hp (reduced_live p c Rc)) as Bc.
  assert (Hls : fst s = [] -> lz_live s = []) by (intros E; unfold lz_live; rewrite E; reflexivity).
  assert (Hdense : sget (sp_msa p val (lz_live c) (lz_live s)) r = (sget (lz_live c) r + val * sget (lz_live s) r) mod p).
  { apply sp_msa_dense; try assumption; try (apply lz_live_sorted; assumption); apply reduced_live; assumption. }
  unfold lz_msa. destruct (val =? 0) eqn:Ev.
  - assert (val = 0) by lia. subst val. rewrite Z.mul_0_l, Z.add_0_r, Z.mod_small by lia. reflexivity.
  - destruct (fst s) eqn:Es.
    + rewrite (Hls eq_refl). cbn [sget]. rewrite Z.mul_0_r, Z.add_0_r, Z.mod_small by lia. reflexivity.
    + etransitivity; [|exact Hdense]. f_equal. apply lz_live_no_erased.
Qed.

(* ================================================================ the three representations, one statement:
   adding columns of the same kind adds their contents *)
Definition c_wf (p : Z) (c : acol) : Prop :=
  match c with
  | ASp l => sorted l /\ reduced p l
  | AHeap _ => True
  | ALazy z => sorted (fst z) /\ reduced p (fst z)
  end.
Definition same_kind (a b : acol) : Prop :=
  match a, b with ASp _, ASp _ => True | AHeap _, AHeap _ => True | ALazy _, ALazy _ => True | _, _ => False end.

Theorem column_add_content p t s r : 0 < p -> c_wf p t -> c_wf p s -> same_kind t s ->
  c_get p (c_add p t s) r = (c_get p t r + c_get p s r) mod p.
Proof.
  intros Hp Wt Ws K. destruct t as [lt|ht|zt]; destruct s as [ls|hs|zs]; try contradiction; cbn [c_add c_get c_raw].
  - destruct Wt, Ws. apply sp_add_dense; assumption.
  - apply heap_content_add. exact Hp.
  - destruct Wt, Ws. apply lazyvec_content_add; assumption.
Qed.
Theorem column_mul_target_content p val t s r : 0 < p -> 0 <= val < p -> c_wf p t -> c_wf p s -> same_kind t s ->
  c_get p (c_mta p val t s) r = (val * c_get p t r + c_get p s r) mod p.
Proof.
  intros Hp Hv Wt Ws K. destruct t as [lt|ht|zt]; destruct s as [ls|hs|zs]; try contradiction; cbn [c_mta c_get c_raw].
  - destruct Wt, Ws. apply sp_mta_dense; assumption.
  - apply heap_content_mul_target; assumption.
  - destruct Wt, Ws. apply lazyvec_content_mul_target; assumption.
Qed.
Theorem column_mul_source_content p val t s r : 0 < p -> 0 <= val < p -> c_wf p t -> c_wf p s -> same_kind t s ->
  c_get p (c_msa (all_fixed false) p val t s) r = (c_get p t r + val * c_get p s r) mod p.
Proof.
  intros Hp Hv Wt Ws K. destruct t as [lt|ht|zt]; destruct s as [ls|hs|zs]; try contradiction; cbn [c_msa c_get c_raw all_fixed f_heap_fix].
  - destruct Wt, Ws. apply sp_msa_dense; assumption.
  - apply heap_content_mul_source; assumption.
  - destruct Wt, Ws. apply lazyvec_content_mul_source; assumption.
Qed.

(* ================================================================ lazy row swaps *)
Lemma dget_dset_nat v n x k : (n < length v)%nat -> nth k (dset_nat v n x) 0 = if Nat.eqb k n then x else nth k v 0.
Proof.
  revert n k. induction v as [|h t IH]; intros n k Hn; [simpl in Hn; lia|].
  destruct n as [|n']; destruct k as [|k']; simpl; try reflexivity.
  apply IH. simpl in Hn. lia.
Qed.
Lemma length_dset_nat v n x : length (dset_nat v n x) = length v.
Proof. revert n. induction v as [|h t IH]; intros n; [reflexivity|]. destruct n; simpl; [reflexivity|rewrite IH; reflexivity]. Qed.

Lemma pget_pset l r x k : 0 <= r < Z.of_nat (length l) -> 0 <= k ->
  pget (pset l r x) k = if k =? r then x else pget l k.
Proof.
  intros Hr Hk. unfold pget, pset, dset.
  assert (r <? 0 = false) as -> by lia. assert (k <? 0 = false) as -> by lia.
  destruct (k =? r) eqn:E.
  - assert (k = r) by lia. subst k.
    rewrite (nth_indep _ r 0) by (rewrite length_dset_nat; lia).
    rewrite dget_dset_nat by lia. rewrite Nat.eqb_refl. reflexivity.
  - destruct (Nat.lt_ge_cases (Z.to_nat k) (length l)) as [Hlt|Hge].
    + rewrite (nth_indep _ k 0) by (rewrite length_dset_nat; lia). rewrite dget_dset_nat by lia.
      assert (Nat.eqb (Z.to_nat k) (Z.to_nat r) = false) as -> by (apply Nat.eqb_neq; lia).
      apply nth_indep. exact Hlt.
    + rewrite !nth_overflow by (rewrite ?length_dset_nat; lia). reflexivity.
Qed.

Lemma dget_dswap v r1 r2 k : 0 <= r1 < Z.of_nat (length v) -> 0 <= r2 < Z.of_nat (length v) -> 0 <= k ->
  dget (dswap v r1 r2) k = dget v (if k =? r1 then r2 else if k =? r2 then r1 else k).
Proof.
  intros H1 H2 Hk. unfold dswap, dget, dset.
  assert (r1 <? 0 = false) as -> by lia. assert (r2 <? 0 = false) as -> by lia. assert (k <? 0 = false) as -> by lia.
  rewrite dget_dset_nat by (rewrite length_dset_nat; lia). rewrite dget_dset_nat by lia.
  destruct (k =? r1) eqn:E1; destruct (k =? r2) eqn:E2.
  - assert (Nat.eqb (Z.to_nat k) (Z.to_nat r2) = true) as -> by (apply Nat.eqb_eq; lia).
    assert (r2 <? 0 = false) as -> by lia. f_equal. lia.
  - assert (Nat.eqb (Z.to_nat k) (Z.to_nat r2) = false) as -> by (apply Nat.eqb_neq; lia).
    assert (Nat.eqb (Z.to_nat k) (Z.to_nat r1) = true) as -> by (apply Nat.eqb_eq; lia).
    assert (r2 <? 0 = false) as -> by lia. reflexivity.
  - assert (Nat.eqb (Z.to_nat k) (Z.to_nat r2) = true) as -> by (apply Nat.eqb_eq; lia).
    assert (r1 <? 0 = false) as -> by lia. reflexivity.
  - assert (Nat.eqb (Z.to_nat k) (Z.to_nat r2) = false) as -> by (apply Nat.eqb_neq; lia).
    assert (Nat.eqb (Z.to_nat k) (Z.to_nat r1) = false) as -> by (apply Nat.eqb_neq; lia).
    assert (k <? 0 = false) as -> by lia. reflexivity.
Qed.

(* reading a column through the dictionary: the dense vector of a_abs *)
Definition read_col (p : Z) (nr : nat) (i2r : list Z) (c : acol) : dvec :=
  map (fun r => c_get p c (pget i2r (Z.of_nat r))) (seq 0 nr).
Lemma nth_map_seq (f : nat -> Z) n k : (k < n)%nat -> nth k (map f (seq 0 n)) 0 = f k.
Proof.
  intros H. rewrite (nth_indep _ 0 (f O)) by (rewrite map_length, seq_length; lia).
  rewrite map_nth. rewrite seq_nth by lia. reflexivity.
Qed.
Lemma read_col_get p nr i2r c k : 0 <= k < Z.of_nat nr -> dget (read_col p nr i2r c) k = c_get p c (pget i2r k).
Proof.
  intros Hk. unfold dget, read_col. assert (k <? 0 = false) as -> by lia.
  rewrite nth_map_seq by lia. rewrite Z2Nat.id by lia. reflexivity.
Qed.
Lemma dvec_ext (u v : dvec) : length u = length v -> (forall k, 0 <= k < Z.of_nat (length u) -> dget u k = dget v k) -> u = v.
Proof.
  intros Hl H. apply (nth_ext u v 0 0 Hl). intros n Hn. specialize (H (Z.of_nat n) ltac:(lia)).
  unfold dget in H. assert (Z.of_nat n <? 0 = false) as E by lia. rewrite E in H. rewrite Nat2Z.id in H. exact H.
Qed.
Lemma length_dswap v r1 r2 : length (dswap v r1 r2) = length v.
Proof. unfold dswap, dset. destruct (r1 <? 0); destruct (r2 <? 0); rewrite ?length_dset_nat; reflexivity. Qed.

(* swap_rows only touches the dictionaries, and what is read through them is the eagerly swapped matrix *)
Theorem swap_rows_lazy_eq_eager p nr m r1 r2 :
  length (a_i2r m) = nr -> 0 <= r1 < Z.of_nat nr -> 0 <= r2 < Z.of_nat nr ->
  a_abs p nr (a_swap_rows m r1 r2) = d_swap_rows (a_abs p nr m) r1 r2.
Proof.
  intros Hlen H1 H2. unfold a_abs, d_swap_rows, a_swap_rows. cbn [a_cols a_next a_i2r d_cols d_next d_cls]. f_equal.
  rewrite map_map. apply map_ext. intros [c|]; [|reflexivity]. f_equal.
  change (read_col p nr (pset (pset (a_i2r m) r1 (pget (a_i2r m) r2)) r2 (pget (a_i2r m) r1)) c = dswap (read_col p nr (a_i2r m) c) r1 r2).
  assert (Hl : length (read_col p nr (a_i2r m) c) = nr) by (unfold read_col; rewrite map_length, seq_length; reflexivity).
  apply dvec_ext.
  - rewrite length_dswap. unfold read_col. rewrite !map_length. reflexivity.
  - intros k Hk. assert (Hk' : 0 <= k < Z.of_nat nr) by (unfold read_col in Hk; rewrite map_length, seq_length in Hk; exact Hk).
    rewrite read_col_get by exact Hk'. rewrite dget_dswap by lia.
    assert (Hsel : 0 <= (if k =? r1 then r2 else if k =? r2 then r1 else k) < Z.of_nat nr)
      by (destruct (k =? r1); [lia|destruct (k =? r2); lia]).
    rewrite read_col_get by exact Hsel. f_equal.
    assert (Hlp : length (pset (a_i2r m) r1 (pget (a_i2r m) r2)) = nr).
    { unfold pset, dset. destruct (r1 <? 0); rewrite ?length_dset_nat; exact Hlen. }
    rewrite pget_pset by lia. rewrite pget_pset by lia.
    destruct (k =? r2) eqn:E2; destruct (k =? r1) eqn:E1; try reflexivity.
    assert (k = r1) by lia. assert (k = r2) by lia. subst. reflexivity.
Qed.

(* ================================================================ rows are the transpose *)
Lemma pget_idperm nr r : 0 <= r < Z.of_nat nr -> pget (idperm nr) r = r.
Proof.
  intros Hr. unfold pget, idperm. assert (r <? 0 = false) as -> by lia.
  rewrite (nth_indep _ r (Z.of_nat O)) by (rewrite map_length, seq_length; lia).
  rewrite map_nth. rewrite seq_nth by lia. lia.
Qed.
(* columns whose stored entries are exactly their non-zero content (what the row containers link) *)
Definition c_rowview_ok (c : acol) : Prop :=
  match c with ASp l => nonzero l | ALazy z => nonzero (fst z) /\ snd z = [] | AHeap _ => False end.
Lemma c_rowview_get p c r : c_rowview_ok c -> c_get p c r = sget (c_linked c) r /\ (shas (c_linked c) r = true <-> sget (c_linked c) r <> 0).
Proof.
  destruct c as [l|h|z]; cbn [c_rowview_ok c_get c_linked c_raw]; intros H.
  - split; [reflexivity|apply shas_iff_nonzero; exact H].
  - contradiction.
  - destruct H as [H1 H2]. split; [unfold lz_get; rewrite H2; reflexivity|apply shas_iff_nonzero; exact H1].
Qed.

Theorem rows_are_transpose p nr m r : a_i2r m = idperm nr -> 0 <= r < Z.of_nat nr ->
  (forall c, In (Some c) (a_cols m) -> c_rowview_ok c) -> a_row m r = d_row (a_abs p nr m) r.
Proof.
  intros Hid Hr Hok. unfold a_row, d_row, a_abs. cbn [d_cols]. rewrite Hid. generalize 0 as j.
  induction (a_cols m) as [|o t IH]; intros j; [reflexivity|].
  cbn [a_row_aux d_row_aux map]. rewrite IH by (intros c Hc; apply Hok; right; exact Hc). f_equal.
  destruct o as [c|]; [|reflexivity].
  change (map (fun r0 : nat => c_get p c (pget (idperm nr) (Z.of_nat r0))) (seq 0 nr)) with (read_col p nr (idperm nr) c).
  rewrite read_col_get by exact Hr. rewrite pget_idperm by exact Hr.
  destruct (c_rowview_get p c r (Hok c (or_introl eq_refl))) as [Hg Hs]. rewrite Hg.
  destruct (shas (c_linked c) r) eqn:E.
  - assert (sget (c_linked c) r <> 0) by (apply Hs; reflexivity). assert (sget (c_linked c) r =? 0 = false) as -> by lia. reflexivity.
  - assert (sget (c_linked c) r = 0) by (apply sget_shas_false; exact E). assert (sget (c_linked c) r =? 0 = true) as -> by lia. reflexivity.
Qed.

(* ================================================================ the deferred reordering (_orderRows) is invisible *)
Fixpoint distinct (l : svec) : Prop := match l with [] => True | e :: t => shas t (fst e) = false /\ distinct t end.
Definition rows_in (nr : nat) (l : svec) : Prop := forall e, In e l -> 0 <= fst e < Z.of_nat nr.
Definition relabel (f : Z -> Z) (l : svec) : svec := map (fun e => (f (fst e), snd e)) l.

Lemma sorted_distinct l : sorted l -> distinct l.
Proof.
  induction l as [|e t IH]; simpl; intros H; [exact I|]. destruct H as [H1 H2]. split; [|auto].
  apply rows_gt_shas with (fst e); [exact H1|lia].
Qed.
Lemma shas_sinsert e s r : shas (sinsert e s) r = (fst e =? r) || shas s r.
Proof.
  induction s as [|h t IH]; [destruct e; simpl; rewrite orb_false_r; reflexivity|].
  cbn [sinsert]. destruct (fst e <? fst h).
  - destruct e; reflexivity.
  - destruct h as [rh vh]. cbn [shas]. rewrite IH. destruct (fst e =? r); destruct (rh =? r); reflexivity.
Qed.
Lemma sget_sinsert e s r : shas s (fst e) = false -> sget (sinsert e s) r = if fst e =? r then snd e else sget s r.
Proof.
  induction s as [|h t IH]; intros Hn; [destruct e; reflexivity|].
  cbn [sinsert]. destruct (fst e <? fst h).
  - destruct e; reflexivity.
  - destruct h as [rh vh]. cbn [shas] in Hn. apply orb_false_iff in Hn. destruct Hn as [Hn1 Hn2].
    cbn [sget]. rewrite IH by exact Hn2. destruct (rh =? r) eqn:E1; destruct (fst e =? r) eqn:E2; try reflexivity. lia.
Qed.
Lemma shas_ssort l r : shas (ssort l) r = shas l r.
Proof.
  induction l as [|e t IH]; [reflexivity|]. unfold ssort. cbn [fold_right]. fold (ssort t).
  rewrite shas_sinsert, IH. destruct e; reflexivity.
Qed.
Lemma sget_ssort l r : distinct l -> sget (ssort l) r = sget l r.
Proof.
  induction l as [|e t IH]; intros Hd; [reflexivity|]. destruct Hd as [H1 H2].
  unfold ssort. cbn [fold_right]. fold (ssort t). rewrite sget_sinsert by (rewrite shas_ssort; exact H1).
  rewrite IH by exact H2. destruct e; reflexivity.
Qed.

Section Relabel.
  Variables (nr : nat) (f g : Z -> Z).
  Hypothesis Hfg : forall q, 0 <= q < Z.of_nat nr -> 0 <= f q < Z.of_nat nr /\ g (f q) = q.
  Hypothesis Hgf : forall k, 0 <= k < Z.of_nat nr -> 0 <= g k < Z.of_nat nr /\ f (g k) = k.

  Lemma relabel_eqb q k : 0 <= q < Z.of_nat nr -> 0 <= k < Z.of_nat nr -> (f q =? k) = (q =? g k).
  Proof.
    intros Hq Hk. destruct (Hfg q Hq) as [_ H1]. destruct (Hgf k Hk) as [_ H2].
    destruct (f q =? k) eqn:E1; destruct (q =? g k) eqn:E2; try reflexivity.
    - assert (f q = k) by lia. subst k. lia.
    - assert (q = g k) by lia. subst q. lia.
  Qed.
  Lemma sget_relabel l k : rows_in nr l -> 0 <= k < Z.of_nat nr -> sget (relabel f l) k = sget l (g k).
  Proof.
    intros Hin Hk. induction l as [|[q v] t IH]; [reflexivity|]. cbn [relabel map sget fst snd].
    rewrite relabel_eqb by (try exact Hk; apply (Hin (q, v)); left; reflexivity).
    destruct (q =? g k); [reflexivity|]. apply IH. intros e He. apply Hin. right. exact He.
  Qed.
  Lemma shas_relabel l k : rows_in nr l -> 0 <= k < Z.of_nat nr -> shas (relabel f l) k = shas l (g k).
  Proof.
    intros Hin Hk. induction l as [|[q v] t IH]; [reflexivity|]. cbn [relabel map shas fst snd].
    rewrite relabel_eqb by (try exact Hk; apply (Hin (q, v)); left; reflexivity).
    f_equal. apply IH. intros e He. apply Hin. right. exact He.
  Qed.
  Lemma hsum_relabel p l k : rows_in nr l -> 0 <= k < Z.of_nat nr -> hsum p (relabel f l) k = hsum p l (g k).
  Proof.
    intros Hin Hk. induction l as [|[q v] t IH]; [reflexivity|]. cbn [relabel map hsum fold_right fst snd].
    change (fold_right _ 0 (map _ t)) with (hsum p (relabel f t) k). change (fold_right _ 0 t) with (hsum p t (g k)).
    rewrite relabel_eqb by (try exact Hk; apply (Hin (q, v)); left; reflexivity).
    rewrite IH by (intros e He; apply Hin; right; exact He). reflexivity.
  Qed.
  Lemma distinct_relabel l : rows_in nr l -> distinct l -> distinct (relabel f l).
  Proof.
    induction l as [|[q v] t IH]; intros Hin Hd; [exact I|]. destruct Hd as [H1 H2]. cbn [relabel map distinct fst snd].
    assert (Hq : 0 <= q < Z.of_nat nr) by (apply (Hin (q, v)); left; reflexivity).
    assert (Ht : rows_in nr t) by (intros e He; apply Hin; right; exact He).
    split; [|apply IH; assumption].
    change (map _ t) with (relabel f t). destruct (Hfg q Hq) as [Hr Hinv]. rewrite shas_relabel by assumption.
    rewrite Hinv. exact H1.
  Qed.
End Relabel.

Lemma rows_in_filter nr f l : rows_in nr l -> rows_in nr (filter f l).
Proof. intros H e He. apply filter_In in He. apply H. tauto. Qed.
Lemma distinct_filter f l : distinct l -> distinct (filter f l).
Proof.
  induction l as [|e t IH]; intros H; [exact I|]. destruct H as [H1 H2]. cbn [filter].
  assert (Hs : forall r, shas t r = false -> shas (filter f t) r = false).
  { clear. induction t as [|[a b] t IH]; intros r H; [reflexivity|]. cbn [shas] in H. apply orb_false_iff in H. destruct H.
    cbn [filter]. destruct (f (a, b)); [cbn [shas]; rewrite IH by assumption; rewrite H; reflexivity|auto]. }
  destruct (f e); [split; [apply Hs; exact H1|auto]|auto].
Qed.

(* entries returned by _pop_pivot come from the column *)
Lemma in_sdel l r e : In e (sdel l r) -> In e l.
Proof. unfold sdel. intros H. apply filter_In in H. tauto. Qed.
Lemma hp_pop_in p : forall fuel l o rest, hp_pop fuel p l = (o, rest) ->
  (forall e, In e rest -> In e l) /\ (forall r v, o = Some (r, v) -> exists v', In (r, v') l).
Proof.
  induction fuel as [|f IH]; intros l o rest H.
  - simpl in H. inversion H; subst. split; [auto|discriminate].
  - destruct l as [|e t]; [simpl in H; inversion H; subst; split; [auto|discriminate]|].
    cbn [hp_pop] in H. set (l := e :: t) in *. remember (hmax l) as mx eqn:Emx. remember (hsum p l mx) as vv eqn:Evv.
    destruct (vv =? 0).
    + destruct (IH _ _ _ H) as [H1 H2]. split.
      * intros e0 He0. apply in_sdel with mx. apply H1. exact He0.
      * intros r v Ho. destruct (H2 r v Ho) as [v' Hv']. exists v'. apply in_sdel with mx. exact Hv'.
    + injection H as Ho Hr. subst rest. split.
      * intros e0 He0. apply in_sdel with mx. exact He0.
      * intros r v Ho'. rewrite <- Ho in Ho'. injection Ho' as Hr' _. subst r. rewrite Emx. apply hmax_in. unfold l. congruence.
Qed.
Lemma hp_pop_all_rows_in p nr : forall fuel l, rows_in nr l -> rows_in nr (hp_pop_all fuel p l).
Proof.
  induction fuel as [|f IH]; intros l Hin; [intros e []|].
  cbn [hp_pop_all]. destruct (hp_pop (S (length l)) p l) as [[[r v]|] rest] eqn:E; [|intros e []].
  destruct (hp_pop_in p _ _ _ _ E) as [H1 H2].
  intros e [<-|He].
  - destruct (H2 r v eq_refl) as [v' Hv']. apply (Hin (r, v')). exact Hv'.
  - apply (IH rest); [|exact He]. intros e0 He0. apply Hin. apply H1. exact He0.
Qed.

Definition c_ok (nr : nat) (c : acol) : Prop :=
  match c with
  | ASp l => sorted l /\ rows_in nr l
  | AHeap h => rows_in nr (fst h)
  | ALazy z => sorted (fst z) /\ rows_in nr (fst z)
  end.

(* a column relabelled by f reads at row k what it read at row g k, when g inverts f on the rows *)
Lemma c_reorder_get p nr f g c k : 0 < p ->
  (forall q, 0 <= q < Z.of_nat nr -> 0 <= f q < Z.of_nat nr /\ g (f q) = q) ->
  (forall k, 0 <= k < Z.of_nat nr -> 0 <= g k < Z.of_nat nr /\ f (g k) = k) ->
  c_ok nr c -> 0 <= k < Z.of_nat nr -> c_get p (c_reorder p f c) k = c_get p c (g k).
Proof.
  intros Hp Hfg Hgf Hok Hk. destruct c as [l|h|z]; cbn [c_reorder c_get c_ok] in *.
  - destruct Hok as [Hs Hin]. change (map _ l) with (relabel f l).
    rewrite sget_ssort by (apply (distinct_relabel nr f g Hfg Hgf); [exact Hin|apply sorted_distinct; exact Hs]).
    apply (sget_relabel nr f g Hfg Hgf); assumption.
  - unfold hp_reorder. cbn [fst]. change (map _ ?L) with (relabel f L).
    rewrite (hsum_relabel nr f g Hfg Hgf) by (try exact Hk; apply hp_pop_all_rows_in; exact Hok).
    apply hp_pop_all_content; [exact Hp|lia].
  - destruct Hok as [Hs Hin]. unfold lz_reorder. change (map _ ?L) with (relabel f L).
    unfold lz_get at 1. cbn [fst snd zmem existsb].
    assert (Hlin : rows_in nr (lz_live z)) by (apply rows_in_filter; exact Hin).
    assert (Hld : distinct (lz_live z)) by (apply distinct_filter; apply sorted_distinct; exact Hs).
    rewrite sget_ssort by (apply (distinct_relabel nr f g Hfg Hgf); assumption).
    rewrite (sget_relabel nr f g Hfg Hgf) by assumption. symmetry. apply lz_get_live.
Qed.

Lemma length_pset l r x : length (pset l r x) = length l.
Proof. unfold pset, dset. destruct (r <? 0); [reflexivity|apply length_dset_nat]. Qed.
Lemma pget_reset_below : forall n l i k, 0 <= i -> i + Z.of_nat n <= Z.of_nat (length l) -> 0 <= k ->
  pget (reset_below l i n) k = if (i <=? k) && (k <? i + Z.of_nat n) then k else pget l k.
Proof.
  induction n as [|n IH]; intros l i k Hi Hn Hk.
  - cbn [reset_below]. destruct ((i <=? k) && (k <? i + Z.of_nat 0)) eqn:E; [lia|reflexivity].
  - cbn [reset_below]. rewrite IH by (rewrite ?length_pset; lia). rewrite pget_pset by lia.
    destruct (i + 1 <=? k) eqn:E1; destruct (k <? i + 1 + Z.of_nat n) eqn:E2; destruct (i <=? k) eqn:E3;
      destruct (k <? i + Z.of_nat (S n)) eqn:E4; destruct (k =? i) eqn:E5; cbn [andb]; try reflexivity; lia.
Qed.

Theorem order_rows_invisible p nr mapc ra m : 0 < p ->
  length (a_i2r m) = nr -> length (a_r2i m) = nr ->
  (forall r, 0 <= r < Z.of_nat nr -> 0 <= pget (a_i2r m) r < Z.of_nat nr /\ pget (a_r2i m) (pget (a_i2r m) r) = r) ->
  (forall q, 0 <= q < Z.of_nat nr -> 0 <= pget (a_r2i m) q < Z.of_nat nr /\ pget (a_i2r m) (pget (a_r2i m) q) = q) ->
  (forall c, In (Some c) (a_cols m) -> c_ok nr c) ->
  a_abs p nr (a_order (all_fixed ra) mapc p m) = a_abs p nr m.
Proof.
  intros Hp Hl1 Hl2 Hir Hri Hok. unfold a_order. destruct (a_sw m); [|reflexivity].
  unfold a_abs. cbn [a_cols a_next a_i2r all_fixed f_order_fix]. f_equal.
  rewrite map_map. apply map_ext_in. intros [c|] Hc; [|reflexivity]. f_equal.
  change (read_col p nr (reset_below (a_i2r m) 0 (length (a_i2r m))) (c_reorder p (pget (a_r2i m)) c) = read_col p nr (a_i2r m) c).
  apply dvec_ext.
  - unfold read_col. rewrite !map_length. reflexivity.
  - intros k Hk. assert (Hk' : 0 <= k < Z.of_nat nr) by (unfold read_col in Hk; rewrite map_length, seq_length in Hk; exact Hk).
    rewrite !read_col_get by exact Hk'.
    rewrite pget_reset_below by lia.
    assert ((0 <=? k) && (k <? 0 + Z.of_nat (length (a_i2r m))) = true) as -> by lia.
    apply (c_reorder_get p nr (pget (a_r2i m)) (pget (a_i2r m))); try assumption. apply Hok. exact Hc.
Qed.

(* the code as found (before commit 6b7166ead): with more rows than columns the deferred reordering leaves the
   dictionaries half reset, and what is read changes although no operation happened *)
Theorem order_rows_as_found_refuted :
  exists p nr m, let fl := {| f_heap_fix := true; f_lazy_fix := true; f_order_fix := false; f_ra := false |} in
    a_abs p nr (a_order fl false p m) <> a_abs p nr m.
Proof.
  exists 5, 3%nat, (a_swap_rows (a_insert (all_fixed false) false 0 5 (a_empty 3) [(0, 1)]) 0 2).
  vm_compute. congruence.
Qed.
(* ... while the repaired reordering is invisible on the same state *)
Example order_rows_fixed_example :
  let m := a_swap_rows (a_insert (all_fixed false) false 0 5 (a_empty 3) [(0, 1)]) 0 2 in
  a_abs 5 3 (a_order (all_fixed false) false 5 m) = a_abs 5 3 m.
Proof. vm_compute. reflexivity. Qed.

(* ================================================================ non-vacuity of the hypotheses *)
Example ex_prime_5 : prime 5.
Proof.
  apply prime_intro; [lia|]. intros n Hn. assert (n = 1 \/ n = 2 \/ n = 3 \/ n = 4) as [-> | [-> | [-> | ->]]] by lia;
    apply Zgcd_1_rel_prime; reflexivity.
Qed.
Example ex_sparse_wf : sorted [(0, 1); (2, 3)] /\ reduced 5 [(0, 1); (2, 3)] /\ nonzero [(0, 1); (2, 3)].
Proof.
  split; [simpl; intuition lia|]. split; intros e0 [<-|[<-|[]]]; simpl; lia.
Qed.
Example ex_lazy_wf : lz_wf ([(1, 2); (3, 1)], [3]).
Proof.
  unfold lz_wf. cbn [fst snd]. split; [simpl; intuition lia|]. split; [intros e0 [<-|[<-|[]]]; simpl; lia|].
  split; [constructor; [simpl; tauto|constructor]|]. intros r0 [<-|[]]. reflexivity.
Qed.
Example ex_sparse_axpy : sp_mta 5 3 [(0, 1); (2, 3)] [(0, 2); (1, 4); (2, 1)] = [(1, 4)].
Proof. reflexivity. Qed.

Example ex_order_rows_hypotheses :
  let m := a_swap_rows (a_insert (all_fixed false) false 0 5 (a_empty 3) [(0, 1); (2, 3)]) 0 2 in
  length (a_i2r m) = 3%nat /\ length (a_r2i m) = 3%nat /\ a_sw m = true /\
  (forall r, 0 <= r < 3 -> 0 <= pget (a_i2r m) r < 3 /\ pget (a_r2i m) (pget (a_i2r m) r) = r) /\
  (forall q, 0 <= q < 3 -> 0 <= pget (a_r2i m) q < 3 /\ pget (a_i2r m) (pget (a_r2i m) q) = q) /\
  (forall c, In (Some c) (a_cols m) -> c_ok 3 c).
Proof.
  cbv zeta. split; [reflexivity|]. split; [reflexivity|]. split; [reflexivity|].
  split; [|split].
  - intros r Hr. assert (H : r = 0 \/ r = 1 \/ r = 2) by lia. destruct H as [-> | [-> | ->]]; vm_compute; (split; [split; congruence|reflexivity]).
  - intros r Hr. assert (H : r = 0 \/ r = 1 \/ r = 2) by lia. destruct H as [-> | [-> | ->]]; vm_compute; (split; [split; congruence|reflexivity]).
  - intros c [Hc|[]]. vm_compute in Hc. injection Hc as <-. cbn [c_ok]. split.
    + simpl. intuition lia.
    + intros e [<-|[<-|[]]]; simpl; lia.
Qed.

(* ================================================================ matrix level: one step of add_to / multiply_*_and_add_to
   on the algorithm model = the dense operation on its abstraction (for any row dictionary) *)
Lemma map_lset {A B} (F : option A -> option B) (l : list (option A)) n x :
  F None = None -> map F (lset l n None x) = lset (map F l) n None (F x).
Proof.
  intros HF. revert l. induction n as [|n IH]; intros l; destruct l as [|h t]; cbn [lset map]; try reflexivity.
  - rewrite HF. f_equal. apply (IH []).
  - f_equal. apply IH.
Qed.
Lemma lget_map {A B} (F : option A -> option B) (l : list (option A)) j : F None = None -> lget (map F l) j = F (lget l j).
Proof.
  intros HF. unfold lget. destruct (j <? 0); [symmetry; exact HF|].
  rewrite <- HF at 1. apply map_nth.
Qed.
Lemma dget_daxpy p a x b y k : 0 < p -> length x = length y -> 0 <= k ->
  dget (daxpy p a x b y) k = (a * dget x k + b * dget y k) mod p.
Proof.
  intros Hp Hl Hk. unfold dget, daxpy. assert (k <? 0 = false) as -> by lia.
  set (f := fun uv : Z * Z => (a * fst uv + b * snd uv) mod p).
  assert (Hf0 : f (0, 0) = 0) by (unfold f; cbn [fst snd]; rewrite !Z.mul_0_r; reflexivity).
  rewrite <- Hf0 at 1. rewrite map_nth. rewrite combine_nth by exact Hl. reflexivity.
Qed.
Lemma length_daxpy p a x b y : length x = length y -> length (daxpy p a x b y) = length x.
Proof. intros H. unfold daxpy. rewrite map_length, combine_length. lia. Qed.
Lemma length_read_col p nr i2r c : length (read_col p nr i2r c) = nr.
Proof. unfold read_col. rewrite map_length, seq_length. reflexivity. Qed.

Definition abs_col (p : Z) (nr : nat) (i2r : list Z) (o : option acol) : option dvec :=
  match o with Some c => Some (read_col p nr i2r c) | None => None end.
Lemma a_abs_cols p nr m : d_cols (a_abs p nr m) = map (abs_col p nr (a_i2r m)) (a_cols m).
Proof. reflexivity. Qed.

(* f on columns acts on the contents as the dense axpy with coefficients a b, at every physical row *)
Lemma a_upd2_refines p nr m s t f a b ct cs : 0 < p ->
  a_col m t = Some ct -> a_col m s = Some cs -> 0 <= t ->
  (forall q, c_get p (f ct cs) q = (a * c_get p ct q + b * c_get p cs q) mod p) ->
  match a_upd2 m s t f with
  | Some m' => Some (a_abs p nr m') = d_axpy p (a_abs p nr m) a t b s
  | None => False
  end.
Proof.
  intros Hp Ht Hs Ht0 Hf. unfold a_upd2. rewrite Ht, Hs. unfold d_axpy, d_col. rewrite !a_abs_cols.
  rewrite !lget_map by reflexivity. unfold a_col in Ht, Hs. rewrite Ht, Hs. cbn [abs_col].
  f_equal. unfold a_abs. cbn [a_with_cols a_cols a_next a_i2r d_cols d_next d_cls]. f_equal.
  change (map (fun o => match o with Some c => Some (map (fun r => c_get p c (pget (a_i2r m) (Z.of_nat r))) (seq 0 nr)) | None => None end))
    with (map (abs_col p nr (a_i2r m))).
  rewrite map_lset by reflexivity. f_equal. cbn [abs_col]. f_equal.
  apply dvec_ext.
  - rewrite length_daxpy, !length_read_col; rewrite ?length_read_col; reflexivity.
  - intros k Hk. rewrite length_read_col in Hk. rewrite dget_daxpy by (rewrite ?length_read_col; lia).
    rewrite !read_col_get by exact Hk. apply Hf.
Qed.

Theorem matrix_add_refines p nr m s t ct cs : 0 < p -> s <> t -> 0 <= t ->
  a_col m t = Some ct -> a_col m s = Some cs -> c_wf p ct -> c_wf p cs -> same_kind ct cs ->
  match a_add p m s t with Some m' => Some (a_abs p nr m') = d_add p (a_abs p nr m) s t | None => False end.
Proof.
  intros Hp Hne Ht0 Ht Hs Wt Ws K. unfold a_add, d_add. assert (s =? t = false) as -> by lia.
  apply a_upd2_refines with ct cs; try assumption. intros q. rewrite column_add_content by assumption. f_equal. lia.
Qed.
Theorem matrix_mul_target_refines p nr m s c t ct cs : 0 < p -> s <> t -> 0 <= t ->
  a_col m t = Some ct -> a_col m s = Some cs -> c_wf p ct -> c_wf p cs -> same_kind ct cs ->
  match a_mta p m s c t with Some m' => Some (a_abs p nr m') = d_mta p (a_abs p nr m) s c t | None => False end.
Proof.
  intros Hp Hne Ht0 Ht Hs Wt Ws K. unfold a_mta, d_mta. assert (s =? t = false) as -> by lia.
  apply a_upd2_refines with ct cs; try assumption. intros q.
  rewrite column_mul_target_content by (try assumption; apply Z.mod_pos_bound; lia). f_equal. lia.
Qed.
Theorem matrix_mul_source_refines p nr m c s t ct cs : 0 < p -> s <> t -> 0 <= t ->
  a_col m t = Some ct -> a_col m s = Some cs -> c_wf p ct -> c_wf p cs -> same_kind ct cs ->
  match a_msa (all_fixed false) p m c s t with Some m' => Some (a_abs p nr m') = d_msa p (a_abs p nr m) c s t | None => False end.
Proof.
  intros Hp Hne Ht0 Ht Hs Wt Ws K. unfold a_msa, d_msa. assert (s =? t = false) as -> by lia.
  apply a_upd2_refines with ct cs; try assumption. intros q.
  rewrite column_mul_source_content by (try assumption; apply Z.mod_pos_bound; lia). f_equal. lia.
Qed.

(* the column invariant used above is kept by the three operations *)
Lemma gmerge_forall (P : Z -> Prop) ft fs fu t : forall s,
  (forall e, In e t -> P (ft (snd e))) -> (forall e, In e s -> P (fs (snd e))) -> (forall a b, P (fu a b)) ->
  forall e, In e (gmerge ft fs fu t s) -> P (snd e).
Proof.
  induction t as [|[rt vt] t' IHt]; intros s Ht Hs Hu.
  - rewrite gmerge_nil_l. intros e He. apply in_map_iff in He. destruct He as [e0 [<- He0]]. simpl. apply Hs. exact He0.
  - induction s as [|[rs vs] s' IHs].
    + change (gmerge ft fs fu ((rt, vt) :: t') []) with (map (fun e => (fst e, ft (snd e))) ((rt, vt) :: t')).
      intros e He. apply in_map_iff in He. destruct He as [e0 [<- He0]]. simpl. apply Ht. exact He0.
    + rewrite gmerge_cons. destruct (rt <? rs).
      * intros e [<-|He]; [simpl; apply (Ht (rt, vt)); left; reflexivity|].
        revert e He. apply IHt; [intros e He; apply Ht; right; exact He|exact Hs|exact Hu].
      * destruct (rs <? rt).
        -- intros e [<-|He]; [simpl; apply (Hs (rs, vs)); left; reflexivity|].
           revert e He. apply IHs. intros e He. apply Hs. right. exact He.
        -- assert (Hrec : forall e, In e (gmerge ft fs fu t' s') -> P (snd e)).
           { apply IHt; [intros e He; apply Ht|intros e He; apply Hs|exact Hu]; right; exact He. }
           destruct (fu vt vs =? 0); [exact Hrec|].
           intros e [<-|He]; [simpl; apply Hu|apply Hrec; exact He].
Qed.
Theorem sp_ops_reduced p val t s : 0 < p -> reduced p t -> reduced p s ->
  reduced p (sp_add p t s) /\ reduced p (sp_mta p val t s) /\ reduced p (sp_msa p val t s).
Proof.
  intros Hp Rt Rs. unfold sp_add, sp_mta, sp_msa.
  assert (Hm : forall x, 0 <= x mod p < p) by (intros x; apply Z.mod_pos_bound; lia).
  assert (G : forall ft fs fu t0 s0, (forall e, In e t0 -> 0 <= ft (snd e) < p) -> (forall e, In e s0 -> 0 <= fs (snd e) < p) ->
              (forall a b, 0 <= fu a b < p) -> reduced p (gmerge ft fs fu t0 s0)).
  { intros ft fs fu t0 s0 H1 H2 H3. unfold reduced. apply (gmerge_forall (fun v => 0 <= v < p)); assumption. }
  split; [|split].
  - apply G; [exact Rt|exact Rs|intros a b; apply Hm].
  - destruct (val =? 0); apply G; try exact Rs; try (intros a b; apply Hm); try (intros e []); intros e He; apply Hm.
  - destruct (val =? 0); [exact Rt|]. apply G; [exact Rt|intros e He; apply Hm|intros a b; apply Hm].
Qed.
Theorem column_ops_keep_wf p val t s : 0 < p -> c_wf p t -> c_wf p s -> same_kind t s ->
  c_wf p (c_add p t s) /\ c_wf p (c_mta p val t s) /\ c_wf p (c_msa (all_fixed false) p val t s).
Proof.
  intros Hp Wt Ws K. destruct t as [lt|ht|zt]; destruct s as [ls|hs|zs]; try contradiction; cbn [c_add c_mta c_msa c_wf c_raw] in *.
  - destruct Wt as [S1 R1]. destruct Ws as [S2 R2].
    destruct (sp_ops_sorted p val lt ls S1 S2) as [A1 [A2 A3]]. destruct (sp_ops_reduced p val lt ls Hp R1 R2) as [B1 [B2 B3]]. tauto.
  - tauto.
  - destruct Wt as [S1 R1]. destruct Ws as [S2 R2].
    assert (L1 : sorted (lz_live zt)) by (apply lz_live_sorted; exact S1). assert (L2 : sorted (lz_live zs)) by (apply lz_live_sorted; exact S2).
    assert (Q1 : reduced p (lz_live zt)) by (apply reduced_live; exact R1). assert (Q2 : reduced p (lz_live zs)) by (apply reduced_live; exact R2).
    destruct (sp_ops_sorted p val (lz_live zt) (lz_live zs) L1 L2) as [A1 [A2 A3]].
    destruct (sp_ops_reduced p val (lz_live zt) (lz_live zs) Hp Q1 Q2) as [B1 [B2 B3]].
    unfold lz_add, lz_mta, lz_msa. split; [split|split; split].
    + destruct (fst zs); [exact S1|]. destruct (fst zt); [exact L2|exact A1].
    + destruct (fst zs); [exact R1|]. destruct (fst zt); [exact Q2|exact B1].
    + destruct (val =? 0); cbv beta iota zeta; cbn [fst snd]; [exact L2|]. destruct zt as [[|e0 l0] er]; cbn [fst snd]; [exact L2|exact A2].
    + destruct (val =? 0); cbv beta iota zeta; cbn [fst snd]; [exact Q2|]. destruct zt as [[|e0 l0] er]; cbn [fst snd]; [exact Q2|exact B2].
    + destruct (val =? 0); [exact S1|]. destruct (fst zs); [exact S1|exact A3].
    + destruct (val =? 0); [exact R1|]. destruct (fst zs); [exact R1|exact B3].
Qed.

(* ================================================================ source index = target index: the column is scaled *)
Lemma c_scale_content p v c q : 0 < p -> c_get p (c_scale p v c) q = (v * c_get p c q) mod p.
Proof.
  intros Hp. unfold c_scale.
  assert (Hz : v mod p = 0 -> forall x, 0 = (v * x) mod p).
  { intros H x. rewrite <- Zmult_mod_idemp_l, H. reflexivity. }
  assert (Hs : forall l, sget (map (fun e => (fst e, fmul p (snd e) (v mod p))) l) q = (v * sget l q) mod p).
  { intros l. rewrite (sget_map (fun x => fmul p x (v mod p))). destruct (shas l q) eqn:E.
    - unfold fmul. rewrite Zmult_mod_idemp_r. f_equal. lia.
    - rewrite (sget_shas_false l q E), Z.mul_0_r. reflexivity. }
  destruct c as [l|h|z]; cbn [c_get].
  - destruct (v mod p =? 0) eqn:E; cbn [c_get]; [apply Hz; lia|apply Hs].
  - destruct (v mod p =? 0) eqn:E; cbn [c_get fst]; [apply Hz; lia|].
    rewrite hsum_scale by exact Hp. rewrite Zmult_mod_idemp_l. reflexivity.
  - destruct (v mod p =? 0) eqn:E; cbn [c_get]; [apply Hz; lia|].
    unfold lz_get. cbn [fst snd]. destruct (zmem q (snd z)); [rewrite Z.mul_0_r; reflexivity|apply Hs].
Qed.

Theorem matrix_self_add_refines p nr m t ct : 0 < p -> 0 <= t -> a_col m t = Some ct ->
  match a_add p m t t with Some m' => Some (a_abs p nr m') = d_add p (a_abs p nr m) t t | None => False end.
Proof.
  intros Hp Ht0 Ht. unfold a_add, d_add. rewrite Z.eqb_refl.
  apply a_upd2_refines with ct ct; try assumption. intros q. rewrite c_scale_content by exact Hp. f_equal. lia.
Qed.
Theorem matrix_self_mul_target_refines p nr m c t ct : 0 < p -> 0 <= t -> a_col m t = Some ct ->
  match a_mta p m t c t with Some m' => Some (a_abs p nr m') = d_mta p (a_abs p nr m) t c t | None => False end.
Proof.
  intros Hp Ht0 Ht. unfold a_mta, d_mta. rewrite Z.eqb_refl.
  apply a_upd2_refines with ct ct; try assumption. intros q. rewrite c_scale_content by exact Hp. f_equal. lia.
Qed.
Theorem matrix_self_mul_source_refines fl p nr m c t ct : 0 < p -> 0 <= t -> a_col m t = Some ct ->
  match a_msa fl p m c t t with Some m' => Some (a_abs p nr m') = d_msa p (a_abs p nr m) c t t | None => False end.
Proof.
  intros Hp Ht0 Ht. unfold a_msa, d_msa. rewrite Z.eqb_refl.
  apply a_upd2_refines with ct ct; try assumption. intros q. rewrite c_scale_content by exact Hp. f_equal. lia.
Qed.

(* ================================================================ zero_entry (through the row dictionary) and zero_column *)
Lemma sget_sdel l q q' : sget (sdel l q) q' = if q' =? q then 0 else sget l q'.
Proof.
  unfold sdel. induction l as [|[r0 v] t IH]; cbn [filter sget fst]; [destruct (q' =? q); reflexivity|].
  destruct (r0 =? q) eqn:E1; cbn [negb].
  - rewrite IH. destruct (q' =? q) eqn:E2; [reflexivity|]. assert (r0 =? q' = false) as -> by lia. reflexivity.
  - cbn [sget]. rewrite IH. destruct (r0 =? q') eqn:E3; [|reflexivity]. assert (q' =? q = false) as -> by lia. reflexivity.
Qed.
Lemma c_clear_row_content fl p c q q' : 0 < p ->
  c_get p (c_clear_row fl p c q) q' = if q' =? q then 0 else c_get p c q'.
Proof.
  intros Hp. destruct c as [l|h|z]; cbn [c_clear_row c_get].
  - apply sget_sdel.
  - apply heap_clear_row_content. exact Hp.
  - destruct (f_ra fl) eqn:Era.
    + unfold lz_clear_row. destruct (shas (lz_live z) q) eqn:E.
      * unfold lz_get. cbn [fst snd]. rewrite sget_sdel. destruct (zmem q' (snd z)); destruct (q' =? q); reflexivity.
      * destruct (q' =? q) eqn:E2; [|reflexivity]. assert (q' = q) by lia. subst q'.
        rewrite lz_get_live. apply sget_shas_false. exact E.
    + apply lazyvec_clear_content.
Qed.
Lemma dget_dset v r x k : 0 <= r < Z.of_nat (length v) -> 0 <= k -> dget (dset v r x) k = if k =? r then x else dget v k.
Proof.
  intros Hr Hk. unfold dget, dset. assert (r <? 0 = false) as -> by lia. assert (k <? 0 = false) as -> by lia.
  rewrite dget_dset_nat by lia. destruct (k =? r) eqn:E.
  - assert (Nat.eqb (Z.to_nat k) (Z.to_nat r) = true) as -> by (apply Nat.eqb_eq; lia). reflexivity.
  - assert (Nat.eqb (Z.to_nat k) (Z.to_nat r) = false) as -> by (apply Nat.eqb_neq; lia). reflexivity.
Qed.
Lemma length_dset v r x : length (dset v r x) = length v.
Proof. unfold dset. destruct (r <? 0); [reflexivity|apply length_dset_nat]. Qed.

Lemma a_upd1_refines p nr m c f g x : 0 <= c -> a_col m c = Some x ->
  read_col p nr (a_i2r m) (f x) = g (read_col p nr (a_i2r m) x) ->
  match a_upd1 m c f with Some m' => Some (a_abs p nr m') = d_upd (a_abs p nr m) c g | None => False end.
Proof.
  intros Hc Hx Hfg. unfold a_upd1. rewrite Hx. unfold d_upd, d_col. rewrite !a_abs_cols.
  rewrite lget_map by reflexivity. unfold a_col in Hx. rewrite Hx. cbn [abs_col].
  f_equal. unfold a_abs. cbn [a_with_cols a_cols a_next a_i2r d_cols d_next d_cls]. f_equal.
  change (map (fun o => match o with Some c => Some (map (fun r => c_get p c (pget (a_i2r m) (Z.of_nat r))) (seq 0 nr)) | None => None end))
    with (map (abs_col p nr (a_i2r m))).
  rewrite map_lset by reflexivity. f_equal. cbn [abs_col]. f_equal. exact Hfg.
Qed.

Theorem matrix_zero_entry_refines fl p nr m c r x : 0 < p -> 0 <= c -> a_col m c = Some x ->
  0 <= r < Z.of_nat nr ->
  (forall k, 0 <= k < Z.of_nat nr -> pget (a_r2i m) (pget (a_i2r m) k) = k) ->
  match a_zero_entry fl p m c r with Some m' => Some (a_abs p nr m') = d_zero_entry (a_abs p nr m) c r | None => False end.
Proof.
  intros Hp Hc Hx Hr Hinv. unfold a_zero_entry, d_zero_entry. apply a_upd1_refines with x; try assumption.
  apply dvec_ext.
  - rewrite length_dset, !length_read_col. reflexivity.
  - intros k Hk. rewrite length_read_col in Hk. rewrite dget_dset by (rewrite ?length_read_col; lia).
    rewrite !read_col_get by exact Hk. rewrite c_clear_row_content by exact Hp.
    destruct (k =? r) eqn:E.
    + assert (k = r) by lia. subst k. rewrite Z.eqb_refl. reflexivity.
    + destruct (pget (a_i2r m) k =? pget (a_i2r m) r) eqn:E2; [|reflexivity].
      assert (pget (a_i2r m) k = pget (a_i2r m) r) as Heq by lia.
      pose proof (Hinv k Hk) as H1. pose proof (Hinv r Hr) as H2. rewrite Heq in H1. lia.
Qed.

Lemma c_clear_content p c q : c_get p (c_clear c) q = 0.
Proof. destruct c; reflexivity. Qed.
Theorem matrix_zero_column_refines p nr m c x : 0 <= c -> a_col m c = Some x ->
  match a_zero_col m c with Some m' => Some (a_abs p nr m') = d_zero_col nr (a_abs p nr m) c | None => False end.
Proof.
  intros Hc Hx. unfold a_zero_col, d_zero_col. apply a_upd1_refines with x; try assumption.
  unfold read_col, dzero. rewrite (map_ext _ (fun _ => 0)) by (intros a; apply c_clear_content).
  generalize 0%nat. induction nr as [|n IH]; intros st; [reflexivity|]. cbn [seq map repeat]. rewrite IH. reflexivity.
Qed.

(* ================================================================ column container operations *)
Theorem matrix_swap_columns_refines ra p nr m c1 c2 x1 x2 : 0 <= c1 -> 0 <= c2 ->
  a_col m c1 = Some x1 -> a_col m c2 = Some x2 ->
  match a_swap_cols ra m c1 c2 with Some m' => Some (a_abs p nr m') = d_swap_cols (a_abs p nr m) c1 c2 | None => False end.
Proof.
  intros H1 H2 Hx1 Hx2. unfold a_swap_cols. rewrite Hx1, Hx2. unfold d_swap_cols, d_col. rewrite !a_abs_cols.
  rewrite !lget_map by reflexivity. unfold a_col in Hx1, Hx2. rewrite Hx1, Hx2. cbn [abs_col].
  f_equal. unfold a_abs. cbn [a_cols a_next a_i2r d_cols d_next d_cls]. f_equal.
  change (map (fun o => match o with Some c => Some (map (fun r => c_get p c (pget (a_i2r m) (Z.of_nat r))) (seq 0 nr)) | None => None end))
    with (map (abs_col p nr (a_i2r m))).
  rewrite !map_lset by reflexivity. reflexivity.
Qed.
Theorem matrix_remove_refines p nr m idx :
  a_abs p nr (a_remove_col m idx) = d_remove_col (a_abs p nr m) idx /\
  a_abs p nr (a_remove_last m) = d_remove_last (a_abs p nr m).
Proof.
  split.
  - unfold a_remove_col, d_remove_col, a_abs. cbn [a_with_cols a_cols a_next a_i2r d_cols d_next d_cls]. f_equal.
    change (map (fun o => match o with Some c => Some (map (fun r => c_get p c (pget (a_i2r m) (Z.of_nat r))) (seq 0 nr)) | None => None end))
      with (map (abs_col p nr (a_i2r m))).
    rewrite map_lset by reflexivity. reflexivity.
  - unfold a_remove_last, d_remove_last. change (d_next (a_abs p nr m)) with (a_next m).
    destruct (a_next m =? 0); [reflexivity|].
    unfold a_abs. cbn [a_with_cols a_cols a_next a_i2r d_cols d_next d_cls]. f_equal.
    change (map (fun o => match o with Some c => Some (map (fun r => c_get p c (pget (a_i2r m) (Z.of_nat r))) (seq 0 nr)) | None => None end))
      with (map (abs_col p nr (a_i2r m))).
    rewrite map_lset by reflexivity. reflexivity.
Qed.

(* insert_column at the end: the column built from a sorted range of (row, value) pairs reads as the dense column *)
Lemma length_dense_of_entries p nr es : length (dense_of_entries p nr es) = nr.
Proof.
  induction es as [|[r v] t IH]; cbn [dense_of_entries]; [apply repeat_length|]. rewrite length_dset. exact IH.
Qed.
Lemma dget_dzero nr k : dget (dzero nr) k = 0.
Proof.
  unfold dget, dzero. destruct (k <? 0); [reflexivity|]. generalize (Z.to_nat k). induction nr as [|n IH]; intros [|j]; simpl; auto.
Qed.
Lemma dense_of_entries_get p nr es k : rows_in nr es -> 0 <= k ->
  dget (dense_of_entries p nr es) k = sget (entries_of p es) k.
Proof.
  intros Hin Hk. induction es as [|[r v] t IH]; cbn [dense_of_entries entries_of map sget fst snd]; [apply dget_dzero|].
  assert (Hr : 0 <= r < Z.of_nat nr) by (apply (Hin (r, v)); left; reflexivity).
  rewrite dget_dset by (rewrite ?length_dense_of_entries; lia).
  assert (Ht : rows_in nr t) by (intros e He; apply Hin; right; exact He).
  destruct (k =? r) eqn:E.
  - assert (r =? k = true) as -> by lia. reflexivity.
  - assert (r =? k = false) as -> by lia. apply IH. exact Ht.
Qed.
Lemma hsum_distinct p l q : 0 < p -> distinct l -> reduced p l -> hsum p l q = sget l q.
Proof.
  intros Hp. induction l as [|[r v] t IH]; intros Hd Hr; [reflexivity|]. destruct Hd as [H1 H2].
  cbn [hsum fold_right sget fst snd]. change (fold_right _ 0 t) with (hsum p t q).
  assert (Rt : reduced p t) by (intros e He; apply Hr; right; exact He).
  destruct (r =? q) eqn:E; [|apply IH; assumption].
  assert (r = q) by lia. subst q. rewrite IH by assumption. cbn [fst] in H1. rewrite (sget_shas_false t r H1).
  unfold fadd. rewrite Z.add_0_r. apply Z.mod_small. apply (Hr (r, v)). left. reflexivity.
Qed.
Lemma entries_of_sorted p es : sorted es -> sorted (entries_of p es).
Proof. unfold entries_of. apply (sorted_map (fun v => v mod p)). Qed.
Lemma entries_of_reduced p es : 0 < p -> reduced p (entries_of p es).
Proof.
  intros Hp e He. unfold entries_of in He. apply in_map_iff in He. destruct He as [e0 [<- _]]. cbn [snd]. apply Z.mod_pos_bound. lia.
Qed.
Lemma c_make_content kind p es q : 0 < p -> sorted es -> c_get p (c_make kind p es) q = sget (entries_of p es) q.
Proof.
  intros Hp Hs. unfold c_make. destruct (kind =? 1); [|destruct (kind =? 2)]; cbn [c_get fst].
  - apply hsum_distinct; [exact Hp|apply sorted_distinct; apply entries_of_sorted; exact Hs|apply entries_of_reduced; exact Hp].
  - reflexivity.
  - reflexivity.
Qed.
Lemma fill_holes_same {A} (l : list (option A)) n z : fill_holes l n n z = l.
Proof. destruct n as [|k]; [reflexivity|]. cbn [fill_holes]. assert (Nat.leb (S k) k = false) as -> by (apply Nat.leb_gt; lia). reflexivity. Qed.

Theorem matrix_insert_refines mapc kind p nr m es : 0 < p -> 0 <= a_next m ->
  a_sw m = false -> a_i2r m = idperm nr -> sorted es -> rows_in nr es ->
  a_abs p nr (a_insert (all_fixed false) mapc kind p m es) = d_insert mapc p nr (a_abs p nr m) es.
Proof.
  intros Hp Hn Hsw Hid Hs Hin. unfold a_insert, a_insert_at, d_insert, d_insert_at, a_order. rewrite Hsw.
  change (d_next (a_abs p nr m)) with (a_next m). rewrite !fill_holes_same.
  assert (Hsame : forall (A : Type) (x : A), (if mapc then x else x) = x) by (intros; destruct mapc; reflexivity).
  rewrite !Hsame.
  unfold a_abs. cbn [a_with_cols a_cols a_next a_i2r d_cols d_next d_cls]. f_equal.
  change (map (fun o => match o with Some c => Some (map (fun r => c_get p c (pget (a_i2r m) (Z.of_nat r))) (seq 0 nr)) | None => None end))
    with (map (abs_col p nr (a_i2r m))).
  rewrite map_lset by reflexivity. f_equal. cbn [abs_col]. f_equal. rewrite Hid.
  apply dvec_ext.
  - rewrite length_read_col, length_dense_of_entries. reflexivity.
  - intros k Hk. rewrite length_read_col in Hk. rewrite read_col_get by exact Hk. rewrite pget_idperm by exact Hk.
    rewrite c_make_content by assumption. symmetry. apply dense_of_entries_get; [exact Hin|lia].
Qed.

(* ================================================================ histories: one invariant, kept by every operation *)
Definition c_kind (c : acol) : Z := match c with ASp _ => 0 | AHeap _ => 1 | ALazy _ => 2 end.
Definition col_inv (p : Z) (nr : nat) (kind : Z) (c : acol) : Prop := c_wf p c /\ c_ok nr c /\ c_kind c = kind.
Definition perm_inv (nr : nat) (i2r r2i : list Z) : Prop :=
  length i2r = nr /\ length r2i = nr /\
  (forall r, 0 <= r < Z.of_nat nr -> 0 <= pget i2r r < Z.of_nat nr /\ pget r2i (pget i2r r) = r) /\
  (forall q, 0 <= q < Z.of_nat nr -> 0 <= pget r2i q < Z.of_nat nr /\ pget i2r (pget r2i q) = q).
Definition m_inv (p : Z) (nr : nat) (kind : Z) (m : amat) : Prop :=
  0 < p /\ 0 <= a_next m /\ perm_inv nr (a_i2r m) (a_r2i m) /\
  (a_sw m = false -> a_i2r m = idperm nr /\ a_r2i m = idperm nr) /\
  (forall c, In (Some c) (a_cols m) -> col_inv p nr kind c).

Lemma same_kind_of_kind a b : c_kind a = c_kind b -> same_kind a b.
Proof. destruct a; destruct b; cbn; intros H; try exact I; discriminate. Qed.

(* ---- dictionaries *)
Lemma length_idperm nr : length (idperm nr) = nr.
Proof. unfold idperm. rewrite map_length, seq_length. reflexivity. Qed.
Lemma perm_inv_id nr : perm_inv nr (idperm nr) (idperm nr).
Proof.
  unfold perm_inv. rewrite length_idperm. split; [reflexivity|]. split; [reflexivity|].
  split; intros r Hr; rewrite (pget_idperm nr r) by lia; rewrite (pget_idperm nr r) by lia; lia.
Qed.
Lemma perm_inv_swap nr i2r r2i r1 r2 : perm_inv nr i2r r2i -> 0 <= r1 < Z.of_nat nr -> 0 <= r2 < Z.of_nat nr ->
  perm_inv nr (pset (pset i2r r1 (pget i2r r2)) r2 (pget i2r r1))
              (pset (pset r2i (pget i2r r1) (pget r2i (pget i2r r2))) (pget i2r r2) (pget r2i (pget i2r r1))).
Proof.
  intros [L1 [L2 [H1 H2]]] Hr1 Hr2.
  destruct (H1 r1 Hr1) as [B1 E1]. destruct (H1 r2 Hr2) as [B2 E2].
  set (i1 := pget i2r r1) in *. set (i2 := pget i2r r2) in *.
  assert (G1 : forall k, 0 <= k -> pget (pset (pset i2r r1 i2) r2 i1) k = if k =? r2 then i1 else if k =? r1 then i2 else pget i2r k).
  { intros k Hk. rewrite pget_pset by (rewrite ?length_pset; lia). rewrite pget_pset by lia. reflexivity. }
  assert (G2 : forall k, 0 <= k -> pget (pset (pset r2i i1 (pget r2i i2)) i2 (pget r2i i1)) k =
                                  if k =? i2 then pget r2i i1 else if k =? i1 then pget r2i i2 else pget r2i k).
  { intros k Hk. rewrite pget_pset by (rewrite ?length_pset; lia). rewrite pget_pset by lia. reflexivity. }
  unfold perm_inv. rewrite !length_pset. split; [exact L1|]. split; [exact L2|]. split.
  - intros r Hr. destruct (H1 r Hr) as [Br Er]. rewrite G1 by lia.
    destruct (r =? r2) eqn:Ea; [|destruct (r =? r1) eqn:Eb].
    + split; [lia|]. rewrite G2 by lia. destruct (i1 =? i2) eqn:Ec.
      * assert (r1 = r2) by (rewrite <- E1, <- E2; f_equal; lia). lia.
      * rewrite Z.eqb_refl. lia.
    + split; [lia|]. rewrite G2 by lia. rewrite Z.eqb_refl. lia.
    + split; [lia|]. rewrite G2 by lia.
      destruct (pget i2r r =? i2) eqn:Ec; [assert (r = r2) by (rewrite <- Er, <- E2; f_equal; lia); lia|].
      destruct (pget i2r r =? i1) eqn:Ed; [assert (r = r1) by (rewrite <- Er, <- E1; f_equal; lia); lia|]. exact Er.
  - intros q Hq. destruct (H2 q Hq) as [Bq Eq]. rewrite G2 by lia.
    destruct (q =? i2) eqn:Ea; [|destruct (q =? i1) eqn:Eb].
    + rewrite E1. split; [lia|]. rewrite G1 by lia. destruct (r1 =? r2) eqn:Ec; [subst i1 i2; assert (r1 = r2) by lia; subst; lia|].
      rewrite Z.eqb_refl. lia.
    + rewrite E2. split; [lia|]. rewrite G1 by lia. rewrite Z.eqb_refl. lia.
    + split; [lia|]. rewrite G1 by lia.
      destruct (pget r2i q =? r2) eqn:Ec; [assert (q = i2) by (rewrite <- Eq; unfold i2; f_equal; lia); lia|].
      destruct (pget r2i q =? r1) eqn:Ed; [assert (q = i1) by (rewrite <- Eq; unfold i1; f_equal; lia); lia|]. exact Eq.
Qed.
Lemma length_reset_below : forall k (l0 : list Z) i, length (reset_below l0 i k) = length l0.
Proof. induction k as [|k IH]; intros l0 i; [reflexivity|]. cbn [reset_below]. rewrite IH, length_pset. reflexivity. Qed.
Lemma reset_below_full l : reset_below l 0 (length l) = idperm (length l).
Proof.
  apply (nth_ext _ _ 0 0).
  - rewrite length_idperm. apply length_reset_below.
  - intros n Hn. rewrite length_reset_below in Hn.
    pose proof (pget_reset_below (length l) l 0 (Z.of_nat n) ltac:(lia) ltac:(lia) ltac:(lia)) as H.
    assert ((0 <=? Z.of_nat n) && (Z.of_nat n <? 0 + Z.of_nat (length l)) = true) as E by lia. rewrite E in H.
    pose proof (pget_idperm (length l) (Z.of_nat n) ltac:(lia)) as H'.
    unfold pget in H, H'. assert (Z.of_nat n <? 0 = false) as E2 by lia. rewrite E2 in H, H'. rewrite Nat2Z.id in H, H'.
    rewrite (nth_indep _ 0 (Z.of_nat n)) by (rewrite length_reset_below; exact Hn).
    rewrite (nth_indep (idperm (length l)) 0 (Z.of_nat n)) by (rewrite length_idperm; exact Hn).
    rewrite H, H'. reflexivity.
Qed.

(* ---- rows of the results stay in range *)
Lemma gmerge_rows_in nr ft fs fu t : forall s, rows_in nr t -> rows_in nr s -> rows_in nr (gmerge ft fs fu t s).
Proof.
  induction t as [|[rt vt] t' IHt]; intros s Ht Hs.
  - rewrite gmerge_nil_l. intros e He. apply in_map_iff in He. destruct He as [e0 [<- He0]]. simpl. apply Hs. exact He0.
  - induction s as [|[rs vs] s' IHs].
    + change (gmerge ft fs fu ((rt, vt) :: t') []) with (map (fun e => (fst e, ft (snd e))) ((rt, vt) :: t')).
      intros e He. apply in_map_iff in He. destruct He as [e0 [<- He0]]. simpl. apply Ht. exact He0.
    + assert (Ht' : rows_in nr t') by (intros e He; apply Ht; right; exact He).
      assert (Hs' : rows_in nr s') by (intros e He; apply Hs; right; exact He).
      rewrite gmerge_cons. destruct (rt <? rs).
      * intros e [<-|He]; [apply (Ht (rt, vt)); left; reflexivity|]. revert e He. apply IHt; assumption.
      * destruct (rs <? rt).
        -- intros e [<-|He]; [apply (Hs (rs, vs)); left; reflexivity|]. revert e He. apply IHs. exact Hs'.
        -- destruct (fu vt vs =? 0); [apply IHt; assumption|].
           intros e [<-|He]; [apply (Ht (rt, vt)); left; reflexivity|]. revert e He. apply IHt; assumption.
Qed.
Lemma rows_in_map nr f l : rows_in nr l -> rows_in nr (map (fun e => (fst e, f (snd e))) l).
Proof. intros H e He. apply in_map_iff in He. destruct He as [e0 [<- He0]]. simpl. apply H. exact He0. Qed.
Lemma rows_in_app nr a b : rows_in nr a -> rows_in nr b -> rows_in nr (a ++ b).
Proof. intros Ha Hb e He. apply in_app_or in He. destruct He; [apply Ha|apply Hb]; assumption. Qed.
Lemma rows_in_nil nr : rows_in nr [].
Proof. intros e []. Qed.
Lemma reduced_filter p f l : reduced p l -> reduced p (filter f l).
Proof. intros H e He. apply filter_In in He. apply H. tauto. Qed.
Lemma reduced_scale p v l : 0 < p -> reduced p (map (fun e => (fst e, fmul p (snd e) v)) l).
Proof. intros Hp e He. apply in_map_iff in He. destruct He as [e0 [<- _]]. simpl. unfold fmul. apply Z.mod_pos_bound. lia. Qed.
Lemma hp_maybe_prune_rows_in p nr c : rows_in nr (fst c) -> rows_in nr (fst (hp_maybe_prune p c)).
Proof.
  intros H. unfold hp_maybe_prune, hp_prune. destruct (_ <? _); [|exact H]. destruct (snd c =? 0); [exact H|].
  cbn [fst]. apply hp_pop_all_rows_in. exact H.
Qed.

Lemma sp_ops_rows_in p nr val t s : rows_in nr t -> rows_in nr s ->
  rows_in nr (sp_add p t s) /\ rows_in nr (sp_mta p val t s) /\ rows_in nr (sp_msa p val t s).
Proof.
  intros Ht Hs. unfold sp_add, sp_mta, sp_msa. split; [|split].
  - apply gmerge_rows_in; assumption.
  - destruct (val =? 0); apply gmerge_rows_in; try assumption. apply rows_in_nil.
  - destruct (val =? 0); [exact Ht|apply gmerge_rows_in; assumption].
Qed.

(* the entries another column reads from a column in range are in range *)
Lemma c_raw_rows_in nr c : c_ok nr c -> rows_in nr (c_raw c).
Proof. destruct c; cbn [c_ok c_raw]; tauto. Qed.

Lemma column_ops_keep_inv p nr kind val t s : 0 < p -> col_inv p nr kind t -> col_inv p nr kind s ->
  col_inv p nr kind (c_add p t s) /\ col_inv p nr kind (c_mta p val t s) /\ col_inv p nr kind (c_msa (all_fixed false) p val t s).
Proof.
  intros Hp [Wt [Ot Kt]] [Ws [Os Ks]].
  assert (K : same_kind t s) by (apply same_kind_of_kind; congruence).
  destruct (column_ops_keep_wf p val t s Hp Wt Ws K) as [W1 [W2 W3]].
  unfold col_inv.
  destruct t as [lt|ht|zt]; destruct s as [ls|hs|zs]; try contradiction; cbn [c_add c_mta c_msa c_ok c_kind c_raw c_wf] in *.
  - destruct Ot as [St Rt]. destruct Os as [Ss Rs].
    destruct (sp_ops_rows_in p nr val lt ls Rt Rs) as [R1 [R2 R3]]. tauto.
  - destruct hs as [ls n]. cbn [fst] in *.
    assert (H1 : rows_in nr (fst (hp_add p ht ls))).
    { unfold hp_add. destruct ls as [|e hs']; [exact Ot|]. destruct ht as [[|e0 ht'] n0]; cbn [fst snd]; [exact Os|].
      apply hp_maybe_prune_rows_in. cbn [fst]. apply rows_in_app; assumption. }
    assert (H2 : rows_in nr (fst (hp_mta p val ht ls))).
    { unfold hp_mta. destruct (val =? 0); cbv beta iota zeta; cbn [fst snd]; [exact Os|].
      destruct ht as [[|e0 ht'] n0]; cbn [fst snd]; [exact Os|].
      apply hp_maybe_prune_rows_in. cbn [fst]. apply rows_in_app; [apply (rows_in_map nr (fun x => fmul p x val)); exact Ot|exact Os]. }
    assert (H3 : rows_in nr (fst (hp_msa true p val ht ls))).
    { unfold hp_msa. destruct (val =? 0); [exact Ot|]. destruct ls as [|e hs']; [exact Ot|].
      destruct ht as [[|e0 ht'] n0]; cbn [fst snd].
      * apply (rows_in_map nr (fun x => fmul p x val)). exact Os.
      * apply hp_maybe_prune_rows_in. cbn [fst]. apply rows_in_app; [exact Ot|apply (rows_in_map nr (fun x => fmul p x val)); exact Os]. }
    cbn [all_fixed f_heap_fix]. tauto.
  - destruct Ot as [St Rt]. destruct Os as [Ss Rs].
    assert (Lt : rows_in nr (lz_live zt)) by (apply rows_in_filter; exact Rt).
    assert (Ls : rows_in nr (lz_live zs)) by (apply rows_in_filter; exact Rs).
    destruct (sp_ops_rows_in p nr val (lz_live zt) (lz_live zs) Lt Ls) as [R1 [R2 R3]].
    assert (H1 : rows_in nr (fst (lz_add p zt zs))).
    { unfold lz_add. destruct (fst zs); [exact Rt|]. destruct (fst zt); [exact Ls|exact R1]. }
    assert (H2 : rows_in nr (fst (lz_mta p val zt zs))).
    { unfold lz_mta. destruct (val =? 0); cbv beta iota zeta; cbn [fst snd]; [exact Ls|]. destruct zt as [[|e0 l0] er]; cbn [fst snd]; [exact Ls|exact R2]. }
    assert (H3 : rows_in nr (fst (lz_msa p val zt zs))).
    { unfold lz_msa. destruct (val =? 0); [exact Rt|]. destruct (fst zs); [exact Rt|exact R3]. }
    tauto.
Qed.

(* ---- scaling, zeroing, relabelling, construction keep the column invariant *)
Lemma reduced_nil p : reduced p [].
Proof. intros e []. Qed.
Lemma c_scale_keeps_inv p nr kind v c : 0 < p -> col_inv p nr kind c -> col_inv p nr kind (c_scale p v c).
Proof.
  intros Hp [W [O K]]. unfold col_inv, c_scale.
  destruct c as [l|h|z]; cbn [c_wf c_ok c_kind] in *; destruct (v mod p =? 0); cbn [c_wf c_ok c_kind fst snd].
  - pose proof (reduced_nil p). pose proof (rows_in_nil nr). cbn [sorted]. tauto.
  - destruct W as [S R]. destruct O as [_ Ri].
    split; [split; [apply (sorted_map (fun x => fmul p x (v mod p))); exact S|apply reduced_scale; exact Hp]|].
    split; [split; [apply (sorted_map (fun x => fmul p x (v mod p))); exact S|apply (rows_in_map nr (fun x => fmul p x (v mod p))); exact Ri]|exact K].
  - split; [exact I|]. split; [apply rows_in_nil|exact K].
  - split; [exact I|]. split; [apply (rows_in_map nr (fun x => fmul p x (v mod p))); exact O|exact K].
  - pose proof (reduced_nil p). pose proof (rows_in_nil nr). cbn [sorted]. tauto.
  - destruct W as [S R]. destruct O as [_ Ri].
    split; [split; [apply (sorted_map (fun x => fmul p x (v mod p))); exact S|apply reduced_scale; exact Hp]|].
    split; [split; [apply (sorted_map (fun x => fmul p x (v mod p))); exact S|apply (rows_in_map nr (fun x => fmul p x (v mod p))); exact Ri]|exact K].
Qed.

Lemma c_clear_row_keeps_inv fl p nr kind c q : col_inv p nr kind c -> col_inv p nr kind (c_clear_row fl p c q).
Proof.
  intros [W [O K]]. unfold col_inv.
  destruct c as [l|h|z]; cbn [c_clear_row c_wf c_ok c_kind] in *.
  - destruct W as [S R]. destruct O as [_ Ri]. unfold sdel.
    split; [split; [apply sorted_filter; exact S|apply reduced_filter; exact R]|].
    split; [split; [apply sorted_filter; exact S|apply rows_in_filter; exact Ri]|exact K].
  - split; [exact I|]. split; [|exact K]. unfold hp_clear_row. cbn [fst]. apply rows_in_filter. apply hp_pop_all_rows_in. exact O.
  - destruct W as [S R]. destruct O as [_ Ri].
    assert (H : sorted (fst (lz_clear_row (f_lazy_fix fl) (f_ra fl) z q)) /\ reduced p (fst (lz_clear_row (f_lazy_fix fl) (f_ra fl) z q)) /\
                rows_in nr (fst (lz_clear_row (f_lazy_fix fl) (f_ra fl) z q))).
    { unfold lz_clear_row. destruct (f_ra fl).
      - destruct (shas (lz_live z) q); [|tauto]. cbn [fst]. unfold sdel.
        split; [apply sorted_filter; exact S|]. split; [apply reduced_filter; exact R|apply rows_in_filter; exact Ri].
      - destruct (zmem q (snd z)); [tauto|]. destruct (f_lazy_fix fl); [destruct (shas (fst z) q)|]; cbn [fst]; tauto. }
    tauto.
Qed.
Lemma c_clear_keeps_inv p nr kind c : col_inv p nr kind c -> col_inv p nr kind (c_clear c).
Proof.
  intros [W [O K]]. unfold col_inv. pose proof (reduced_nil p). pose proof (rows_in_nil nr).
  destruct c; cbn [c_clear c_wf c_ok c_kind fst sorted] in *; tauto.
Qed.

(* sorting the relabelled entries *)
Lemma rows_gt_sinsert r e s : r < fst e -> rows_gt r s -> rows_gt r (sinsert e s).
Proof.
  induction s as [|h t IH]; intros H1 H2; [simpl; auto|]. cbn [sinsert]. destruct H2 as [H2 H3].
  destruct (fst e <? fst h); simpl; auto.
Qed.
Lemma sorted_sinsert e s : sorted s -> shas s (fst e) = false -> sorted (sinsert e s).
Proof.
  induction s as [|h t IH]; intros Hs Hn; [simpl; auto|]. cbn [sinsert]. destruct Hs as [H1 H2].
  destruct h as [rh vh]. cbn [shas] in Hn. apply orb_false_iff in Hn. destruct Hn as [Hn1 Hn2]. cbn [fst] in *.
  destruct (fst e <? rh) eqn:E.
  - simpl. split; [split; [lia|apply rows_gt_trans with rh; [lia|exact H1]]|split; assumption].
  - simpl. split; [apply rows_gt_sinsert; [lia|exact H1]|apply IH; assumption].
Qed.
Lemma sorted_ssort l : distinct l -> sorted (ssort l).
Proof.
  induction l as [|e t IH]; intros Hd; [exact I|]. destruct Hd as [H1 H2].
  unfold ssort. cbn [fold_right]. fold (ssort t). apply sorted_sinsert; [apply IH; exact H2|rewrite shas_ssort; exact H1].
Qed.
Lemma in_sinsert e s x : In x (sinsert e s) <-> x = e \/ In x s.
Proof.
  induction s as [|h t IH]; [simpl; intuition|]. cbn [sinsert]. destruct (fst e <? fst h); simpl; [intuition|].
  rewrite IH. intuition.
Qed.
Lemma in_ssort l x : In x (ssort l) <-> In x l.
Proof.
  induction l as [|e t IH]; [reflexivity|]. unfold ssort. cbn [fold_right]. fold (ssort t). rewrite in_sinsert, IH. simpl. intuition.
Qed.

Lemma c_reorder_keeps_inv p nr kind f g c : 0 < p ->
  (forall q, 0 <= q < Z.of_nat nr -> 0 <= f q < Z.of_nat nr /\ g (f q) = q) ->
  (forall k, 0 <= k < Z.of_nat nr -> 0 <= g k < Z.of_nat nr /\ f (g k) = k) ->
  col_inv p nr kind c -> col_inv p nr kind (c_reorder p f c).
Proof.
  intros Hp Hfg Hgf [W [O K]]. unfold col_inv.
  assert (Hrel : forall l, rows_in nr l -> rows_in nr (relabel f l)).
  { intros l Hl e He. unfold relabel in He. apply in_map_iff in He. destruct He as [e0 [<- He0]]. cbn [fst]. apply Hfg. apply Hl. exact He0. }
  assert (Hsorted : forall l, sorted l -> rows_in nr l -> reduced p l ->
            sorted (ssort (relabel f l)) /\ reduced p (ssort (relabel f l)) /\ rows_in nr (ssort (relabel f l))).
  { intros l Sl Rl Pl. split; [apply sorted_ssort; apply (distinct_relabel nr f g Hfg Hgf); [exact Rl|apply sorted_distinct; exact Sl]|]. split.
    - intros e He. apply (proj1 (in_ssort _ _)) in He. unfold relabel in He. apply in_map_iff in He. destruct He as [e0 [<- He0]]. cbn [snd]. apply Pl. exact He0.
    - intros e He. apply (proj1 (in_ssort _ _)) in He. apply (Hrel l Rl). exact He. }
  destruct c as [l|h|z]; cbn [c_reorder c_wf c_ok c_kind] in *.
  - destruct W as [S R]. destruct O as [_ Ri]. change (map _ l) with (relabel f l). destruct (Hsorted l S Ri R) as [A [B C]]. tauto.
  - split; [exact I|]. split; [|exact K]. unfold hp_reorder. cbn [fst]. change (map _ ?L) with (relabel f L).
    apply Hrel. apply hp_pop_all_rows_in. exact O.
  - destruct W as [S R]. destruct O as [_ Ri]. unfold lz_reorder. cbn [fst]. change (map _ ?L) with (relabel f L).
    destruct (Hsorted (lz_live z) (lz_live_sorted z S) (rows_in_filter nr _ _ Ri) (reduced_live p z R)) as [A [B C]]. tauto.
Qed.

Lemma c_make_inv kind p nr es : 0 < p -> kind = 0 \/ kind = 1 \/ kind = 2 -> sorted es -> rows_in nr es -> col_inv p nr kind (c_make kind p es).
Proof.
  intros Hp Hk Hs Hin. unfold col_inv, c_make.
  assert (S : sorted (entries_of p es)) by (apply entries_of_sorted; exact Hs).
  assert (R : reduced p (entries_of p es)) by (apply entries_of_reduced; exact Hp).
  assert (I' : rows_in nr (entries_of p es)) by (unfold entries_of; apply (rows_in_map nr (fun v => v mod p)); exact Hin).
  destruct Hk as [-> | [-> | ->]]; cbn [Z.eqb Pos.eqb c_wf c_ok c_kind fst]; tauto.
Qed.
Lemma c_empty_inv kind p nr : kind = 0 \/ kind = 1 \/ kind = 2 -> col_inv p nr kind (c_empty kind).
Proof.
  intros Hk. unfold col_inv, c_empty. pose proof (reduced_nil p). pose proof (rows_in_nil nr).
  destruct Hk as [-> | [-> | ->]]; cbn [Z.eqb Pos.eqb c_wf c_ok c_kind fst sorted]; tauto.
Qed.

(* ---- one step of any operation keeps the matrix invariant and commutes with the abstraction *)
Inductive op :=
  | OAdd (s t : Z) | OMta (s c t : Z) | OMsa (c s t : Z) | OZe (c r : Z) | OZc (c : Z)
  | OSr (r1 r2 : Z) | OSc (c1 c2 : Z) | OOrder | ORc (idx : Z) | ORl | OIns (es : svec).
Definition opt_or {A} (o : option A) (d : A) : A := match o with Some x => x | None => d end.
Definition a_step (mapc ra : bool) (kind p : Z) (m : amat) (o : op) : amat :=
  match o with
  | OAdd s t => opt_or (a_add p m s t) m
  | OMta s c t => opt_or (a_mta p m s c t) m
  | OMsa c s t => opt_or (a_msa (all_fixed ra) p m c s t) m
  | OZe c r => opt_or (a_zero_entry (all_fixed ra) p m c r) m
  | OZc c => opt_or (a_zero_col m c) m
  | OSr r1 r2 => a_swap_rows m r1 r2
  | OSc c1 c2 => opt_or (a_swap_cols ra m c1 c2) m
  | OOrder => a_order (all_fixed ra) mapc p m
  | ORc idx => a_remove_col m idx
  | ORl => a_remove_last m
  | OIns es => a_insert (all_fixed ra) mapc kind p m es
  end.
Definition d_step (mapc : bool) (p : Z) (nr : nat) (d : dmat) (o : op) : dmat :=
  match o with
  | OAdd s t => opt_or (d_add p d s t) d
  | OMta s c t => opt_or (d_mta p d s c t) d
  | OMsa c s t => opt_or (d_msa p d c s t) d
  | OZe c r => opt_or (d_zero_entry d c r) d
  | OZc c => opt_or (d_zero_col nr d c) d
  | OSr r1 r2 => d_swap_rows d r1 r2
  | OSc c1 c2 => opt_or (d_swap_cols d c1 c2) d
  | OOrder => d
  | ORc idx => d_remove_col d idx
  | ORl => d_remove_last d
  | OIns es => d_insert mapc p nr d es
  end.
Definition op_ok (nr : nat) (o : op) : Prop :=
  match o with
  | OAdd s t => 0 <= t
  | OMta s c t => 0 <= t
  | OMsa c s t => 0 <= t
  | OZe c r => 0 <= c /\ 0 <= r < Z.of_nat nr
  | OZc c => 0 <= c
  | OSr r1 r2 => 0 <= r1 < Z.of_nat nr /\ 0 <= r2 < Z.of_nat nr
  | OSc c1 c2 => 0 <= c1 /\ 0 <= c2
  | OOrder => True
  | ORc idx => 0 <= idx
  | ORl => True
  | OIns es => sorted es /\ rows_in nr es
  end.

Lemma in_lset_some {A} (l : list (option A)) n x c : In (Some c) (lset l n None (Some x)) -> c = x \/ In (Some c) l.
Proof.
  revert l. induction n as [|n IH]; intros l H; destruct l as [|h t]; cbn [lset] in H.
  - destruct H as [H|[]]. left. congruence.
  - destruct H as [H|H]; [left; congruence|right; right; exact H].
  - destruct H as [H|H]; [discriminate|]. destruct (IH [] H) as [E|[]]. left. exact E.
  - destruct H as [H|H]; [right; left; exact H|]. destruct (IH t H) as [E|E]; [left; exact E|right; right; exact E].
Qed.
Lemma in_lset_none {A} (l : list (option A)) n c : In (Some c) (lset l n None None) -> In (Some c) l.
Proof.
  revert l. induction n as [|n IH]; intros l H; destruct l as [|h t]; cbn [lset] in H.
  - destruct H as [H|[]]. discriminate.
  - destruct H as [H|H]; [discriminate|right; exact H].
  - destruct H as [H|H]; [discriminate|]. destruct (IH [] H).
  - destruct H as [H|H]; [left; exact H|right; apply IH; exact H].
Qed.
Lemma a_col_in m j c : a_col m j = Some c -> In (Some c) (a_cols m).
Proof.
  unfold a_col, lget. destruct (j <? 0); [discriminate|]. intros H.
  destruct (Nat.lt_ge_cases (Z.to_nat j) (length (a_cols m))) as [Hlt|Hge].
  - rewrite <- H. apply nth_In. exact Hlt.
  - rewrite nth_overflow in H by exact Hge. discriminate.
Qed.
Lemma abs_col_none p nr m j : a_col m j = None -> d_col (a_abs p nr m) j = None.
Proof. intros H. unfold d_col. rewrite a_abs_cols, lget_map by reflexivity. unfold a_col in H. rewrite H. reflexivity. Qed.
Lemma c_msa_flags ra p v t s : c_msa (all_fixed ra) p v t s = c_msa (all_fixed false) p v t s.
Proof. destruct t; destruct s; reflexivity. Qed.

Section Step.
  Variables (mapc ra : bool) (kind p : Z) (nr : nat).
  Hypothesis Hkind : kind = 0 \/ kind = 1 \/ kind = 2.

  Lemma m_inv_with_cols m cols nx : m_inv p nr kind m -> 0 <= nx ->
    (forall c, In (Some c) cols -> col_inv p nr kind c) -> m_inv p nr kind (a_with_cols m cols nx).
  Proof. intros [H1 [H2 [H3 [H4 H5]]]] Hn Hc. unfold m_inv. cbn [a_with_cols a_next a_i2r a_r2i a_sw a_cols]. tauto. Qed.

  (* the fused operations, source different from or equal to the target *)
  Lemma step_upd2 m s t f a b :
    m_inv p nr kind m -> 0 <= t ->
    (forall ct cs, a_col m t = Some ct -> a_col m s = Some cs ->
        col_inv p nr kind (f ct cs) /\ forall q, c_get p (f ct cs) q = (a * c_get p ct q + b * c_get p cs q) mod p) ->
    m_inv p nr kind (opt_or (a_upd2 m s t f) m) /\
    a_abs p nr (opt_or (a_upd2 m s t f) m) = opt_or (d_axpy p (a_abs p nr m) a t b s) (a_abs p nr m).
  Proof.
    intros Hinv Ht Hf. pose proof Hinv as [Hp _].
    destruct (a_col m t) as [ct|] eqn:Et; [destruct (a_col m s) as [cs|] eqn:Es|].
    - destruct (Hf ct cs eq_refl eq_refl) as [Hci Hget].
      pose proof (a_upd2_refines p nr m s t f a b ct cs Hp Et Es Ht Hget) as Href.
      unfold a_upd2 in *. rewrite Et, Es in *. cbn [opt_or]. split.
      + apply m_inv_with_cols; [exact Hinv|destruct Hinv as [_ [Hn _]]; exact Hn|].
        intros c Hc. destruct (in_lset_some _ _ _ _ Hc) as [->|Hin]; [exact Hci|]. destruct Hinv as [_ [_ [_ [_ H5]]]]. apply H5. exact Hin.
      + destruct (d_axpy p (a_abs p nr m) a t b s); [injection Href as ->; reflexivity|discriminate].
    - unfold a_upd2. rewrite Et, Es. cbn [opt_or]. split; [exact Hinv|].
      unfold d_axpy. rewrite (abs_col_none p nr m s Es). destruct (d_col (a_abs p nr m) t); reflexivity.
    - unfold a_upd2. rewrite Et. cbn [opt_or]. split; [exact Hinv|].
      unfold d_axpy. rewrite (abs_col_none p nr m t Et). reflexivity.
  Qed.

  Lemma step_upd1 m c f g :
    m_inv p nr kind m -> 0 <= c ->
    (forall x, a_col m c = Some x -> col_inv p nr kind (f x) /\ read_col p nr (a_i2r m) (f x) = g (read_col p nr (a_i2r m) x)) ->
    m_inv p nr kind (opt_or (a_upd1 m c f) m) /\
    a_abs p nr (opt_or (a_upd1 m c f) m) = opt_or (d_upd (a_abs p nr m) c g) (a_abs p nr m).
  Proof.
    intros Hinv Hc Hf. destruct (a_col m c) as [x|] eqn:Ex.
    - destruct (Hf x eq_refl) as [Hci Hrd].
      pose proof (a_upd1_refines p nr m c f g x Hc Ex Hrd) as Href.
      unfold a_upd1 in *. rewrite Ex in *. cbn [opt_or]. split.
      + apply m_inv_with_cols; [exact Hinv|destruct Hinv as [_ [Hn _]]; exact Hn|].
        intros c0 Hc0. destruct (in_lset_some _ _ _ _ Hc0) as [->|Hin]; [exact Hci|]. destruct Hinv as [_ [_ [_ [_ H5]]]]. apply H5. exact Hin.
      + destruct (d_upd (a_abs p nr m) c g); [injection Href as ->; reflexivity|discriminate].
    - unfold a_upd1. rewrite Ex. cbn [opt_or]. split; [exact Hinv|].
      unfold d_upd. rewrite (abs_col_none p nr m c Ex). reflexivity.
  Qed.

  Lemma m_inv_order m : m_inv p nr kind m ->
    m_inv p nr kind (a_order (all_fixed ra) mapc p m) /\ a_sw (a_order (all_fixed ra) mapc p m) = false /\
    a_next (a_order (all_fixed ra) mapc p m) = a_next m /\ a_abs p nr (a_order (all_fixed ra) mapc p m) = a_abs p nr m.
  Proof.
    intros Hinv. pose proof Hinv as [Hp [Hn [[L1 [L2 [P1 P2]]] [Hsw Hcols]]]].
    assert (Habs : a_abs p nr (a_order (all_fixed ra) mapc p m) = a_abs p nr m).
    { apply order_rows_invisible; try assumption. intros c Hc. destruct (Hcols c Hc) as [_ [Ho _]]. exact Ho. }
    split; [|split; [|split; [|exact Habs]]].
    - unfold a_order. destruct (a_sw m) eqn:Es; [|exact Hinv].
      cbn [all_fixed f_order_fix]. unfold m_inv. cbn [a_next a_i2r a_r2i a_sw a_cols].
      assert (E1 : reset_below (a_i2r m) 0 (length (a_i2r m)) = idperm nr) by (rewrite reset_below_full, L1; reflexivity).
      assert (E2 : reset_below (a_r2i m) 0 (length (a_i2r m)) = idperm nr) by (rewrite L1, <- L2, reset_below_full, L2; reflexivity).
      rewrite E1, E2. split; [exact Hp|]. split; [exact Hn|]. split; [apply perm_inv_id|]. split; [intros _; split; reflexivity|].
      intros c Hc. apply in_map_iff in Hc. destruct Hc as [[c0|] [Hc0 Hin]]; [|discriminate]. injection Hc0 as <-.
      apply (c_reorder_keeps_inv p nr kind (pget (a_r2i m)) (pget (a_i2r m))); try assumption. apply Hcols. exact Hin.
    - unfold a_order. destruct (a_sw m) eqn:Es; [reflexivity|exact Es].
    - unfold a_order. destruct (a_sw m); reflexivity.
  Qed.

  Theorem step_refines m o : m_inv p nr kind m -> op_ok nr o ->
    m_inv p nr kind (a_step mapc ra kind p m o) /\ a_abs p nr (a_step mapc ra kind p m o) = d_step mapc p nr (a_abs p nr m) o.
  Proof.
    intros Hinv Hok. pose proof Hinv as [Hp [Hn [[L1 [L2 [P1 P2]]] [Hsw Hcols]]]].
    assert (Hci : forall j c, a_col m j = Some c -> col_inv p nr kind c) by (intros j c Hc; apply Hcols; apply (a_col_in m j); exact Hc).
    destruct o as [s t|s c t|c s t|c r|c|r1 r2|c1 c2| |idx| |es]; cbn [a_step d_step op_ok] in *.
    - (* add *) unfold a_add, d_add. destruct (s =? t) eqn:E.
      + assert (s = t) by lia. subst s. apply step_upd2; [exact Hinv|exact Hok|]. intros ct cs Ht Hs. rewrite Ht in Hs. injection Hs as <-.
        split; [apply c_scale_keeps_inv; [exact Hp|apply (Hci t); exact Ht]|]. intros q. rewrite c_scale_content by exact Hp. f_equal. lia.
      + apply step_upd2; [exact Hinv|exact Hok|]. intros ct cs Ht Hs.
        destruct (column_ops_keep_inv p nr kind 0 ct cs Hp (Hci t ct Ht) (Hci s cs Hs)) as [H1 _]. split; [exact H1|].
        intros q. destruct (Hci t ct Ht) as [W1 [_ K1]]. destruct (Hci s cs Hs) as [W2 [_ K2]].
        rewrite column_add_content by (try assumption; apply same_kind_of_kind; congruence). f_equal. lia.
    - (* multiply target and add *) unfold a_mta, d_mta. destruct (s =? t) eqn:E.
      + assert (s = t) by lia. subst s. apply step_upd2; [exact Hinv|exact Hok|]. intros ct cs Ht Hs. rewrite Ht in Hs. injection Hs as <-.
        split; [apply c_scale_keeps_inv; [exact Hp|apply (Hci t); exact Ht]|]. intros q. rewrite c_scale_content by exact Hp. f_equal. lia.
      + apply step_upd2; [exact Hinv|exact Hok|]. intros ct cs Ht Hs.
        destruct (column_ops_keep_inv p nr kind (c mod p) ct cs Hp (Hci t ct Ht) (Hci s cs Hs)) as [_ [H2 _]]. split; [exact H2|].
        intros q. destruct (Hci t ct Ht) as [W1 [_ K1]]. destruct (Hci s cs Hs) as [W2 [_ K2]].
        rewrite column_mul_target_content by (try assumption; try (apply Z.mod_pos_bound; lia); apply same_kind_of_kind; congruence). f_equal. lia.
    - (* multiply source and add *) unfold a_msa, d_msa. destruct (s =? t) eqn:E.
      + assert (s = t) by lia. subst s. apply step_upd2; [exact Hinv|exact Hok|]. intros ct cs Ht Hs. rewrite Ht in Hs. injection Hs as <-.
        split; [apply c_scale_keeps_inv; [exact Hp|apply (Hci t); exact Ht]|]. intros q. rewrite c_scale_content by exact Hp. f_equal. lia.
      + apply step_upd2; [exact Hinv|exact Hok|]. intros ct cs Ht Hs. rewrite c_msa_flags.
        destruct (column_ops_keep_inv p nr kind (c mod p) ct cs Hp (Hci t ct Ht) (Hci s cs Hs)) as [_ [_ H3]]. split; [exact H3|].
        intros q. destruct (Hci t ct Ht) as [W1 [_ K1]]. destruct (Hci s cs Hs) as [W2 [_ K2]].
        rewrite column_mul_source_content by (try assumption; try (apply Z.mod_pos_bound; lia); apply same_kind_of_kind; congruence). f_equal. lia.
    - (* zero_entry *) destruct Hok as [Hc Hr]. unfold a_zero_entry, d_zero_entry. apply step_upd1; [exact Hinv|exact Hc|].
      intros x Hx. split; [apply c_clear_row_keeps_inv; apply (Hci c); exact Hx|].
      apply dvec_ext.
      + rewrite length_dset, !length_read_col. reflexivity.
      + intros k Hk. rewrite length_read_col in Hk. rewrite dget_dset by (rewrite ?length_read_col; lia).
        rewrite !read_col_get by exact Hk. rewrite c_clear_row_content by exact Hp.
        destruct (k =? r) eqn:E.
        * assert (k = r) by lia. subst k. rewrite Z.eqb_refl. reflexivity.
        * destruct (pget (a_i2r m) k =? pget (a_i2r m) r) eqn:E2; [|reflexivity].
          assert (pget (a_i2r m) k = pget (a_i2r m) r) as Heq by lia.
          destruct (P1 k Hk) as [_ H1]. destruct (P1 r Hr) as [_ H2]. rewrite Heq in H1. lia.
    - (* zero_column *) unfold a_zero_col, d_zero_col. apply step_upd1; [exact Hinv|exact Hok|].
      intros x Hx. split; [apply c_clear_keeps_inv; apply (Hci c); exact Hx|].
      unfold read_col, dzero. rewrite (map_ext _ (fun _ => 0)) by (intros a; apply c_clear_content).
      generalize 0%nat. clear. induction nr as [|n IH]; intros st; [reflexivity|]. cbn [seq map repeat]. rewrite IH. reflexivity.
    - (* swap_rows *) destruct Hok as [Hr1 Hr2]. split; [|apply swap_rows_lazy_eq_eager; assumption].
      unfold m_inv, a_swap_rows. cbn [a_next a_i2r a_r2i a_sw a_cols]. split; [exact Hp|]. split; [exact Hn|].
      split; [apply perm_inv_swap; [unfold perm_inv; tauto|exact Hr1|exact Hr2]|]. split; [discriminate|exact Hcols].
    - (* swap_columns *) destruct Hok as [Hc1 Hc2].
      destruct (a_col m c1) as [x1|] eqn:E1; [destruct (a_col m c2) as [x2|] eqn:E2|].
      + pose proof (matrix_swap_columns_refines ra p nr m c1 c2 x1 x2 Hc1 Hc2 E1 E2) as Href.
        unfold a_swap_cols in *. rewrite E1, E2 in *. cbn [opt_or]. split.
        * unfold m_inv. cbn [a_next a_i2r a_r2i a_sw a_cols]. split; [exact Hp|]. split; [exact Hn|]. split; [unfold perm_inv; tauto|].
          split; [intros Hf; apply orb_false_iff in Hf; destruct Hf as [Hf _]; apply Hsw; exact Hf|].
          intros c Hc. destruct (in_lset_some _ _ _ _ Hc) as [->|Hin]; [apply (Hci c1); exact E1|].
          destruct (in_lset_some _ _ _ _ Hin) as [->|Hin2]; [apply (Hci c2); exact E2|apply Hcols; exact Hin2].
        * destruct (d_swap_cols (a_abs p nr m) c1 c2); [injection Href as ->; reflexivity|discriminate].
      + unfold a_swap_cols. rewrite E1, E2. cbn [opt_or]. split; [exact Hinv|].
        unfold d_swap_cols. rewrite (abs_col_none p nr m c2 E2). destruct (d_col (a_abs p nr m) c1); reflexivity.
      + unfold a_swap_cols. rewrite E1. cbn [opt_or]. split; [exact Hinv|].
        unfold d_swap_cols. rewrite (abs_col_none p nr m c1 E1). reflexivity.
    - (* order *) destruct (m_inv_order m Hinv) as [H1 [_ [_ H4]]]. split; assumption.
    - (* remove_column *) split; [|apply matrix_remove_refines].
      unfold a_remove_col. apply m_inv_with_cols; [exact Hinv|destruct (idx =? a_next m - 1) eqn:E; lia|].
      intros c Hc. apply Hcols. apply in_lset_none in Hc. exact Hc.
    - (* remove_last *) split; [|apply matrix_remove_refines; exact 0].
      unfold a_remove_last. destruct (a_next m =? 0) eqn:E; [exact Hinv|].
      apply m_inv_with_cols; [exact Hinv|lia|]. intros c Hc. apply Hcols. apply in_lset_none in Hc. exact Hc.
    - (* insert_column *) destruct Hok as [Hs Hin].
      destruct (m_inv_order m Hinv) as [Hinv' [Hsw' [Hn' Habs']]].
      set (m' := a_order (all_fixed ra) mapc p m) in *.
      assert (Hsame : a_insert (all_fixed ra) mapc kind p m es = a_insert (all_fixed ra) mapc kind p m' es).
      { assert (Hord : a_order (all_fixed ra) mapc p m' = m') by (unfold a_order; rewrite Hsw'; reflexivity).
        unfold a_insert, a_insert_at. change (a_order (all_fixed ra) mapc p m) with m'. rewrite Hord, Hn'. reflexivity. }
      rewrite Hsame. pose proof Hinv' as [_ [Hn2 [_ [Hsw2 Hcols2]]]]. destruct (Hsw2 Hsw') as [Hid _].
      split.
      + unfold a_insert, a_insert_at. unfold a_order. rewrite Hsw'. rewrite fill_holes_same.
        assert (Hsm : forall (A : Type) (x : A), (if mapc then x else x) = x) by (intros; destruct mapc; reflexivity). rewrite Hsm.
        apply m_inv_with_cols; [exact Hinv'|destruct (a_next m' <=? a_next m'); lia|].
        intros c Hc. destruct (in_lset_some _ _ _ _ Hc) as [->|Hin2]; [apply c_make_inv; assumption|apply Hcols2; exact Hin2].
      + rewrite <- Habs'. replace (all_fixed ra) with (all_fixed ra) by reflexivity.
        assert (Hfl : a_insert (all_fixed ra) mapc kind p m' es = a_insert (all_fixed false) mapc kind p m' es).
        { unfold a_insert, a_insert_at, a_order. rewrite Hsw'. reflexivity. }
        rewrite Hfl. apply matrix_insert_refines; assumption.
  Qed.

  (* every history of operations: the algorithm model, read through its row dictionary, is the dense matrix of the history *)
  Theorem history_refines ops : forall m, m_inv p nr kind m -> Forall (op_ok nr) ops ->
    m_inv p nr kind (fold_left (a_step mapc ra kind p) ops m) /\
    a_abs p nr (fold_left (a_step mapc ra kind p) ops m) = fold_left (d_step mapc p nr) ops (a_abs p nr m).
  Proof.
    induction ops as [|o ops IH]; intros m Hinv Hok; [split; [exact Hinv|reflexivity]|].
    inversion Hok as [|? ? Ho Hrest]; subst. destruct (step_refines m o Hinv Ho) as [H1 H2].
    cbn [fold_left]. rewrite <- H2. apply IH; assumption.
  Qed.
End Step.

(* the empty matrix satisfies the invariant *)
Lemma m_inv_empty p nr kind : 0 < p -> m_inv p nr kind (a_empty nr).
Proof.
  intros Hp. unfold m_inv, a_empty. cbn [a_next a_i2r a_r2i a_sw a_cols]. split; [exact Hp|]. split; [lia|].
  split; [apply perm_inv_id|]. split; [intros _; split; reflexivity|intros c []].
Qed.

Example ex_history_ops_ok :
  Forall (op_ok 4) [OIns [(0, 1); (2, 3)]; OIns []; OIns [(1, 7); (3, 4)]; OMsa 2 0 1; OSr 0 3; OZe 0 3; OAdd 0 0; OMta 0 (-1) 2;
                    OSc 0 2; OOrder; OZc 1; ORl; ORc 0; OAdd 5 1].
Proof.
  repeat constructor; simpl; try lia; try exact I; try (intros e0 [<-|[<-|[]]]; simpl; lia); try (intros e0 []).
  all: simpl in *; intuition (subst; simpl; lia).
Qed.
Example ex_history_run :
  let ops := [OIns [(0, 1); (2, 3)]; OIns []; OIns [(1, 7); (3, 4)]; OMsa 2 0 1; OSr 0 3; OZe 0 3; OAdd 0 0; OMta 0 (-1) 2] in
  d_cols (fold_left (d_step false 5 4) ops (a_abs 5 4 (a_empty 4))) = [Some [0; 0; 1; 0]; Some [0; 0; 1; 2]; Some [1; 3; 1; 0]].
Proof. vm_compute. reflexivity. Qed.

(* ================================================================ emptiness and zero-entry tests through histories:
   the zero-freeness invariant (prime characteristic) *)
Definition c_zf (c : acol) : Prop :=
  match c with
  | ASp l => nonzero l
  | AHeap _ => True
  | ALazy z => nonzero (fst z) /\ NoDup (snd z) /\ (forall r, In r (snd z) -> shas (fst z) r = true)
  end.

Lemma nonzero_filter f l : nonzero l -> nonzero (filter f l).
Proof. intros H e He. apply filter_In in He. apply H. tauto. Qed.
Lemma nonzero_nil : nonzero [].
Proof. intros e []. Qed.
Lemma nonzero_scale p v l : prime p -> v mod p <> 0 -> reduced p l -> nonzero l ->
  nonzero (map (fun e => (fst e, fmul p (snd e) (v mod p))) l).
Proof.
  intros Hp Hv R N e He. apply in_map_iff in He. destruct He as [e0 [<- He0]]. cbn [snd]. unfold fmul.
  assert (0 < p) by (destruct Hp; lia).
  apply prime_mul_nonzero; [exact Hp| |pose proof (Z.mod_pos_bound v p ltac:(lia)); lia].
  pose proof (R e0 He0). pose proof (N e0 He0). lia.
Qed.
Lemma shas_filter_other f l r : (forall e, In e l -> fst e = r -> f e = true) -> shas (filter f l) r = shas l r.
Proof.
  induction l as [|[a b] t IH]; intros H; [reflexivity|]. cbn [filter shas].
  assert (Ht : forall e, In e t -> fst e = r -> f e = true) by (intros e He; apply H; right; exact He).
  destruct (f (a, b)) eqn:E; cbn [shas].
  - rewrite IH by exact Ht. reflexivity.
  - rewrite IH by exact Ht. destruct (a =? r) eqn:E2; [|reflexivity].
    assert (a = r) by lia. subst a. rewrite (H (r, b)) in E; [discriminate|left; reflexivity|reflexivity].
Qed.

Lemma lz_zf_fresh l : nonzero l -> c_zf (ALazy (l, [])).
Proof. intros H. cbn [c_zf fst snd]. split; [exact H|]. split; [constructor|intros r []]. Qed.
Lemma nonzero_live z : nonzero (fst z) -> nonzero (lz_live z).
Proof. intros H. apply nonzero_filter. exact H. Qed.

Lemma column_ops_keep_zf p val t s : prime p -> 0 <= val < p -> c_wf p t -> c_wf p s -> same_kind t s -> c_zf t -> c_zf s ->
  c_zf (c_add p t s) /\ c_zf (c_mta p val t s) /\ c_zf (c_msa (all_fixed false) p val t s).
Proof.
  intros Hp Hv Wt Ws K Zt Zs.
  destruct t as [lt|ht|zt]; destruct s as [ls|hs|zs]; try contradiction; cbn [c_add c_mta c_msa c_wf c_zf c_raw] in *.
  - destruct Wt, Ws. apply sp_ops_nonzero; assumption.
  - tauto.
  - destruct Wt as [St Rt]. destruct Ws as [Ss Rs]. destruct Zt as [Nt [Dt Et]]. destruct Zs as [Ns [Ds Es]].
    destruct (sp_ops_nonzero p val (lz_live zt) (lz_live zs) Hp Hv (reduced_live p zt Rt) (reduced_live p zs Rs)
                (nonzero_live zt Nt) (nonzero_live zs Ns)) as [A1 [A2 A3]].
    assert (NLs : nonzero (lz_live zs)) by (apply nonzero_live; exact Ns).
    assert (Zt : c_zf (ALazy zt)) by (cbn [c_zf]; tauto).
    split; [|split].
    + unfold lz_add. destruct (fst zs); [exact Zt|]. destruct (fst zt); apply lz_zf_fresh; [exact NLs|exact A1].
    + unfold lz_mta. destruct (val =? 0); cbv beta iota zeta; cbn [fst snd]; [apply lz_zf_fresh; exact NLs|].
      destruct zt as [[|e0 l0] er]; cbn [fst snd]; apply lz_zf_fresh; [exact NLs|exact A2].
    + unfold lz_msa. destruct (val =? 0); [exact Zt|]. destruct (fst zs); [exact Zt|apply lz_zf_fresh; exact A3].
Qed.

Lemma c_scale_keeps_zf p v c : prime p -> c_wf p c -> c_zf c -> c_zf (c_scale p v c).
Proof.
  intros Hp W Z. unfold c_scale. destruct c as [l|h|z]; cbn [c_wf c_zf] in *.
  - destruct (v mod p =? 0) eqn:E; cbn [c_zf]; [apply nonzero_nil|]. destruct W. apply nonzero_scale; try assumption. lia.
  - destruct (v mod p =? 0); exact I.
  - destruct (v mod p =? 0) eqn:E; cbn [c_zf fst snd]; [split; [apply nonzero_nil|split; [constructor|intros r []]]|].
    destruct W as [S R]. destruct Z as [N [D Es]]. split; [apply nonzero_scale; try assumption; lia|]. split; [exact D|].
    intros r Hr. rewrite (shas_map (fun x => fmul p x (v mod p))). apply Es. exact Hr.
Qed.

Lemma c_clear_row_keeps_zf ra p c q : c_wf p c -> c_zf c -> c_zf (c_clear_row (all_fixed ra) p c q).
Proof.
  intros W Z. destruct c as [l|h|z]; cbn [c_clear_row c_zf c_wf all_fixed f_lazy_fix f_ra] in *.
  - unfold sdel. apply nonzero_filter. exact Z.
  - exact I.
  - destruct Z as [N [D Es]]. destruct ra.
    + unfold lz_clear_row. destruct (shas (lz_live z) q) eqn:E; [|cbn [c_zf]; tauto]. cbn [c_zf fst snd].
      split; [unfold sdel; apply nonzero_filter; exact N|]. split; [exact D|].
      intros r Hr. unfold sdel. rewrite shas_filter_other; [apply Es; exact Hr|].
      intros e He Hfe. cbn beta. destruct (fst e =? q) eqn:E2; [|reflexivity].
      (* q is live, hence not erased, hence different from the erased row r *)
      assert (Hq : fst e = q) by lia. assert (Hrq : r = q) by congruence.
      assert (Hz : zmem q (snd z) = true) by (apply zmem_In; rewrite <- Hrq; exact Hr).
      assert (Hl : shas (lz_live z) q = false).
      { unfold lz_live. clear -Hz. induction (fst z) as [|[a b] t IH]; [reflexivity|]. cbn [filter fst].
        destruct (zmem a (snd z)) eqn:Ea; cbn [negb]; [exact IH|]. cbn [shas]. rewrite IH.
        destruct (a =? q) eqn:Eq; [assert (a = q) by lia; subst a; congruence|reflexivity]. }
      congruence.
    + pose proof (lazyvec_clear_wf z q) as Hwf. unfold lz_wf in Hwf. destruct W as [S R].
      specialize (Hwf (conj S (conj N (conj D Es)))). tauto.
Qed.
Lemma c_clear_keeps_zf c : c_zf (c_clear c).
Proof. destruct c; cbn [c_clear c_zf fst snd]; [apply nonzero_nil|exact I|]. split; [apply nonzero_nil|split; [constructor|intros r []]]. Qed.
Lemma c_reorder_keeps_zf p f c : c_zf c -> c_zf (c_reorder p f c).
Proof.
  intros Z. assert (H : forall l, nonzero l -> nonzero (ssort (relabel f l))).
  { intros l N e He. apply (proj1 (in_ssort _ _)) in He. unfold relabel in He. apply in_map_iff in He.
    destruct He as [e0 [<- He0]]. cbn [snd]. apply N. exact He0. }
  destruct c as [l|h|z]; cbn [c_reorder c_zf] in *.
  - change (map _ l) with (relabel f l). apply H. exact Z.
  - exact I.
  - unfold lz_reorder. change (map _ ?L) with (relabel f L). apply lz_zf_fresh. apply H. apply nonzero_live. tauto.
Qed.
Lemma c_make_zf kind p es : (forall e, In e es -> snd e mod p <> 0) -> c_zf (c_make kind p es).
Proof.
  intros H. assert (N : nonzero (entries_of p es)).
  { intros e He. unfold entries_of in He. apply in_map_iff in He. destruct He as [e0 [<- He0]]. cbn [snd]. apply H. exact He0. }
  unfold c_make. destruct (kind =? 1); [exact I|]. destruct (kind =? 2); [apply lz_zf_fresh; exact N|exact N].
Qed.

(* the tests answer the content, column by column *)
Lemma c_nonzero_content p c q : c_zf c -> c_nonzero p c q = negb (c_get p c q =? 0).
Proof.
  intros Z. destruct c as [l|h|z]; cbn [c_nonzero c_get c_zf] in *.
  - destruct (shas l q) eqn:E.
    + assert (sget l q <> 0) by (apply shas_iff_nonzero; assumption). symmetry. apply negb_true_iff. lia.
    + rewrite (sget_shas_false l q E). reflexivity.
  - reflexivity.
  - destruct Z as [N _]. unfold lz_nonzero, lz_get. destruct (zmem q (snd z)); [reflexivity|]. cbn [negb andb].
    destruct (shas (fst z) q) eqn:E.
    + assert (sget (fst z) q <> 0) by (apply shas_iff_nonzero; assumption). symmetry. apply negb_true_iff. lia.
    + rewrite (sget_shas_false (fst z) q E). reflexivity.
Qed.
Lemma c_is_empty_content p c : 0 < p -> c_wf p c -> c_zf c -> (c_is_empty p c = true <-> forall q, c_get p c q = 0).
Proof.
  intros Hp W Z. destruct c as [l|h|z]; cbn [c_is_empty c_get c_zf c_wf] in *.
  - destruct l as [|[r v] t]; [split; [reflexivity|reflexivity]|]. split; [discriminate|].
    intros H. specialize (H r). cbn [sget] in H. rewrite Z.eqb_refl in H. specialize (Z (r, v) (or_introl eq_refl)). cbn [snd] in Z. contradiction.
  - apply heap_is_empty_iff. exact Hp.
  - apply lazyvec_is_empty_iff. unfold lz_wf. tauto.
Qed.

Definition m_zf (m : amat) : Prop := forall c, In (Some c) (a_cols m) -> c_zf c.
Definition op_ok2 (p : Z) (o : op) : Prop :=
  match o with OIns es => forall e, In e es -> snd e mod p <> 0 | _ => True end.

Lemma zf_upd2 m s t f : m_zf m ->
  (forall ct cs, a_col m t = Some ct -> a_col m s = Some cs -> c_zf (f ct cs)) -> m_zf (opt_or (a_upd2 m s t f) m).
Proof.
  intros Hz Hf. unfold a_upd2. destruct (a_col m t) as [ct|] eqn:Et; [|exact Hz]. destruct (a_col m s) as [cs|] eqn:Es; [|exact Hz].
  cbn [opt_or]. intros c Hc. cbn [a_with_cols a_cols] in Hc. destruct (in_lset_some _ _ _ _ Hc) as [->|Hin]; [apply Hf; reflexivity|apply Hz; exact Hin].
Qed.
Lemma zf_upd1 m c f : m_zf m -> (forall x, a_col m c = Some x -> c_zf (f x)) -> m_zf (opt_or (a_upd1 m c f) m).
Proof.
  intros Hz Hf. unfold a_upd1. destruct (a_col m c) as [x|] eqn:Ex; [|exact Hz].
  cbn [opt_or]. intros c0 Hc. cbn [a_with_cols a_cols] in Hc. destruct (in_lset_some _ _ _ _ Hc) as [->|Hin]; [apply Hf; reflexivity|apply Hz; exact Hin].
Qed.
Lemma zf_order mapc ra p m : m_zf m -> m_zf (a_order (all_fixed ra) mapc p m).
Proof.
  intros Hz. unfold a_order. destruct (a_sw m); [|exact Hz]. intros c Hc. cbn [a_cols] in Hc.
  apply in_map_iff in Hc. destruct Hc as [[c0|] [Hc0 Hin]]; [|discriminate]. injection Hc0 as <-. apply c_reorder_keeps_zf. apply Hz. exact Hin.
Qed.

Theorem step_keeps_zero_free mapc ra kind p nr m o : prime p -> m_inv p nr kind m -> m_zf m -> op_ok nr o -> op_ok2 p o ->
  m_zf (a_step mapc ra kind p m o).
Proof.
  intros Hpr Hinv Hz Hok Hok2. pose proof Hinv as [Hp [Hn [_ [_ Hcols]]]].
  assert (Hci : forall j c, a_col m j = Some c -> col_inv p nr kind c /\ c_zf c).
  { intros j c Hc. pose proof (a_col_in m j c Hc). split; [apply Hcols|apply Hz]; assumption. }
  assert (Hmod : forall v, 0 <= v mod p < p) by (intros v; apply Z.mod_pos_bound; lia).
  destruct o as [s t|s c t|c s t|c r|c|r1 r2|c1 c2| |idx| |es]; cbn [a_step] in *.
  - unfold a_add. apply zf_upd2; [exact Hz|]. intros ct cs Ht Hs.
    destruct (Hci t ct Ht) as [[W1 [_ K1]] Z1]. destruct (Hci s cs Hs) as [[W2 [_ K2]] Z2].
    destruct (s =? t); [apply c_scale_keeps_zf; assumption|].
    apply (column_ops_keep_zf p 0 ct cs); try assumption; try lia; apply same_kind_of_kind; congruence.
  - unfold a_mta. apply zf_upd2; [exact Hz|]. intros ct cs Ht Hs.
    destruct (Hci t ct Ht) as [[W1 [_ K1]] Z1]. destruct (Hci s cs Hs) as [[W2 [_ K2]] Z2].
    destruct (s =? t); [apply c_scale_keeps_zf; assumption|].
    apply (column_ops_keep_zf p (c mod p) ct cs); try assumption; [apply Hmod|apply same_kind_of_kind; congruence].
  - unfold a_msa. apply zf_upd2; [exact Hz|]. intros ct cs Ht Hs.
    destruct (Hci t ct Ht) as [[W1 [_ K1]] Z1]. destruct (Hci s cs Hs) as [[W2 [_ K2]] Z2].
    destruct (s =? t); [apply c_scale_keeps_zf; assumption|]. rewrite c_msa_flags.
    apply (column_ops_keep_zf p (c mod p) ct cs); try assumption; [apply Hmod|apply same_kind_of_kind; congruence].
  - unfold a_zero_entry. apply zf_upd1; [exact Hz|]. intros x Hx. destruct (Hci c x Hx) as [[W _] Z]. apply c_clear_row_keeps_zf; assumption.
  - unfold a_zero_col. apply zf_upd1; [exact Hz|]. intros x Hx. apply c_clear_keeps_zf.
  - exact Hz.
  - unfold a_swap_cols. destruct (a_col m c1) as [x1|] eqn:E1; [|exact Hz]. destruct (a_col m c2) as [x2|] eqn:E2; [|exact Hz].
    cbn [opt_or]. intros c Hc. cbn [a_cols] in Hc.
    destruct (in_lset_some _ _ _ _ Hc) as [->|Hin]; [apply (Hci c1); exact E1|].
    destruct (in_lset_some _ _ _ _ Hin) as [->|Hin2]; [apply (Hci c2); exact E2|apply Hz; exact Hin2].
  - apply zf_order. exact Hz.
  - unfold a_remove_col. intros c Hc. cbn [a_with_cols a_cols] in Hc. apply Hz. apply in_lset_none in Hc. exact Hc.
  - unfold a_remove_last. destruct (a_next m =? 0); [exact Hz|]. intros c Hc. cbn [a_with_cols a_cols] in Hc. apply Hz. apply in_lset_none in Hc. exact Hc.
  - unfold a_insert, a_insert_at. intros c Hc. cbn [a_with_cols a_cols] in Hc.
    assert (Hord : m_zf (a_order (all_fixed ra) mapc p m)) by (apply zf_order; exact Hz).
    assert (Hn' : a_next (a_order (all_fixed ra) mapc p m) = a_next m) by (unfold a_order; destruct (a_sw m); reflexivity).
    rewrite Hn', fill_holes_same in Hc.
    assert (Hsm : forall (A : Type) (x : A), (if mapc then x else x) = x) by (intros; destruct mapc; reflexivity). rewrite Hsm in Hc.
    destruct (in_lset_some _ _ _ _ Hc) as [->|Hin]; [apply c_make_zf; exact Hok2|apply Hord; exact Hin].
Qed.

(* outside the rows of the matrix a column reads 0 *)
Lemma sget_notin l q : (forall e, In e l -> fst e <> q) -> sget l q = 0.
Proof.
  induction l as [|[r v] t IH]; intros H; [reflexivity|]. cbn [sget]. destruct (r =? q) eqn:E.
  - specialize (H (r, v) (or_introl eq_refl)). cbn [fst] in H. lia.
  - apply IH. intros e He. apply H. right. exact He.
Qed.
Lemma c_get_outside p nr c q : c_ok nr c -> ~ (0 <= q < Z.of_nat nr) -> c_get p c q = 0.
Proof.
  intros Ho Hq.
  assert (H : forall l, rows_in nr l -> forall e, In e l -> fst e <> q) by (intros l Hl e He Heq; apply Hq; rewrite <- Heq; apply Hl; exact He).
  destruct c as [l|h|z]; cbn [c_get c_ok] in *.
  - apply sget_notin. apply H. tauto.
  - apply hsum_notin. apply H. exact Ho.
  - unfold lz_get. destruct (zmem q (snd z)); [reflexivity|]. apply sget_notin. apply H. tauto.
Qed.

(* the zero-entry and zero-column tests of the algorithm model answer what the dense matrix answers *)
Theorem tests_read_dense p nr kind m c r : prime p -> m_inv p nr kind m -> m_zf m -> 0 <= r < Z.of_nat nr ->
  a_is_zero_entry p m c r = d_is_zero_entry (a_abs p nr m) c r /\ a_is_zero_col p m c = d_is_zero_col (a_abs p nr m) c.
Proof.
  intros Hpr Hinv Hz Hr. pose proof Hinv as [Hp [Hn [[L1 [L2 [P1 P2]]] [_ Hcols]]]].
  unfold a_is_zero_entry, a_is_zero_col, d_is_zero_entry, d_is_zero_col, d_col. rewrite a_abs_cols, lget_map by reflexivity.
  fold (a_col m c). destruct (a_col m c) as [x|] eqn:Ex; cbn [abs_col]; [|split; reflexivity].
  pose proof (a_col_in m c x Ex) as Hin. destruct (Hcols x Hin) as [W [O _]]. pose proof (Hz x Hin) as Zx.
  split; f_equal.
  - rewrite read_col_get by exact Hr. rewrite c_nonzero_content by exact Zx. apply negb_involutive.
  - apply eq_true_iff_eq. rewrite (c_is_empty_content p x Hp W Zx). unfold dis_zero. rewrite forallb_forall. split.
    + intros Hall v Hv. unfold read_col in Hv. apply in_map_iff in Hv. destruct Hv as [k [<- _]]. rewrite Hall. reflexivity.
    + intros Hall q. destruct (Z_lt_dec q 0) as [Hneg|Hnn]; [apply (c_get_outside p nr x q O); lia|].
      destruct (Z_lt_dec q (Z.of_nat nr)) as [Hlt|Hge]; [|apply (c_get_outside p nr x q O); lia].
      destruct (P2 q ltac:(lia)) as [Bq Eq].
      assert (Hv : In (c_get p x (pget (a_i2r m) (pget (a_r2i m) q))) (read_col p nr (a_i2r m) x)).
      { unfold read_col. apply in_map_iff. exists (Z.to_nat (pget (a_r2i m) q)). split; [rewrite Z2Nat.id by lia; reflexivity|].
        apply in_seq. lia. }
      specialize (Hall _ Hv). rewrite Eq in Hall. lia.
Qed.

(* ... after every history *)
Theorem history_tests_read_dense mapc ra kind p nr ops : kind = 0 \/ kind = 1 \/ kind = 2 -> prime p ->
  Forall (op_ok nr) ops -> Forall (op_ok2 p) ops ->
  forall c r, 0 <= r < Z.of_nat nr ->
  let m := fold_left (a_step mapc ra kind p) ops (a_empty nr) in
  let d := fold_left (d_step mapc p nr) ops (a_abs p nr (a_empty nr)) in
  d_col (a_abs p nr m) c = d_col d c /\ a_is_zero_entry p m c r = d_is_zero_entry d c r /\ a_is_zero_col p m c = d_is_zero_col d c.
Proof.
  intros Hk Hpr Hok Hok2 c r Hr. cbv zeta.
  assert (Hp : 0 < p) by (destruct Hpr; lia).
  assert (Hgen : forall ops m, m_inv p nr kind m -> m_zf m -> Forall (op_ok nr) ops -> Forall (op_ok2 p) ops ->
            m_zf (fold_left (a_step mapc ra kind p) ops m)).
  { clear ops Hok Hok2. induction ops as [|o ops IH]; intros m Hinv Hz H1 H2; [exact Hz|].
    inversion H1; subst. inversion H2; subst. cbn [fold_left]. apply IH; try assumption.
    - apply (step_refines mapc ra kind p nr Hk m o); assumption.
    - apply (step_keeps_zero_free mapc ra kind p nr m o); assumption. }
  pose proof (m_inv_empty p nr kind Hp) as He.
  assert (Hze : m_zf (a_empty nr)) by (intros x []).
  destruct (history_refines mapc ra kind p nr Hk ops (a_empty nr) He Hok) as [Hinv Habs].
  pose proof (Hgen ops (a_empty nr) He Hze Hok Hok2) as Hzf.
  destruct (tests_read_dense p nr kind _ c r Hpr Hinv Hzf Hr) as [T1 T2].
  rewrite <- Habs. split; [reflexivity|]. split; assumption.
Qed.

(* rows (ordered sparse representations, kind 0): once the pending permutation is applied, every row of the algorithm model
   lists exactly the non-zero entries of that row of the dense matrix of the history *)
Theorem history_rows_read_dense mapc ra p nr ops : prime p ->
  Forall (op_ok nr) ops -> Forall (op_ok2 p) ops ->
  forall r, 0 <= r < Z.of_nat nr ->
  let m := a_order (all_fixed ra) mapc p (fold_left (a_step mapc ra 0 p) ops (a_empty nr)) in
  let d := fold_left (d_step mapc p nr) ops (a_abs p nr (a_empty nr)) in
  a_row m r = d_row d r.
Proof.
  intros Hpr Hok Hok2 r Hr. cbv zeta.
  assert (Hk : 0 = 0 \/ 0 = 1 \/ 0 = 2) by (left; reflexivity).
  assert (Hp : 0 < p) by (destruct Hpr; lia).
  assert (Hgen : forall ops m, m_inv p nr 0 m -> m_zf m -> Forall (op_ok nr) ops -> Forall (op_ok2 p) ops ->
            m_zf (fold_left (a_step mapc ra 0 p) ops m)).
  { clear ops Hok Hok2. induction ops as [|o ops IH]; intros m Hinv Hz H1 H2; [exact Hz|].
    inversion H1; subst. inversion H2; subst. cbn [fold_left]. apply IH; try assumption.
    - apply (step_refines mapc ra 0 p nr Hk m o); assumption.
    - apply (step_keeps_zero_free mapc ra 0 p nr m o); assumption. }
  pose proof (m_inv_empty p nr 0 Hp) as He.
  assert (Hze : m_zf (a_empty nr)) by (intros x []).
  destruct (history_refines mapc ra 0 p nr Hk ops (a_empty nr) He Hok) as [Hinv Habs].
  pose proof (Hgen ops (a_empty nr) He Hze Hok Hok2) as Hzf.
  set (m0 := fold_left (a_step mapc ra 0 p) ops (a_empty nr)) in *.
  destruct (m_inv_order mapc ra 0 p nr m0 Hinv) as [Hinv' [Hsw' [_ Habs']]].
  pose proof (zf_order mapc ra p m0 Hzf) as Hzf'.
  rewrite <- Habs, <- Habs'.
  destruct Hinv' as [_ [_ [_ [Hid Hcols']]]]. destruct (Hid Hsw') as [Hi _].
  apply rows_are_transpose; [exact Hi|exact Hr|].
  intros c Hc. destruct (Hcols' c Hc) as [_ [_ Kc]]. pose proof (Hzf' c Hc) as Zc.
  destruct c as [l|h|z]; cbn [c_kind] in Kc; try discriminate. exact Zc.
Qed.
