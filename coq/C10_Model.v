(* C10 — coefficient fields.  Algorithm models (following the C++ statement by statement, unsigned 32-bit
   wrap-around written out) and specification (exact arithmetic on Z).  No proofs here. *)
From Coq Require Import ZArith List Bool.
Import ListNotations.
Local Open Scope Z_scope.

(* ---------------------------------------------------------------- machine words *)
Definition W32 : Z := 4294967296.
Definition wrap32 (x : Z) : Z := x mod W32.
Definition UINT_MAX : Z := 4294967295.
Definition W64 : Z := 18446744073709551616.
(* conversion of a mathematical integer to C 'int' / 'long' (two's complement) *)
Definition to_signed (w x : Z) : Z := let y := x mod w in if y <? w / 2 then y else y - w.
(* C's truncating remainder *)
Definition crem (a b : Z) : Z := Z.rem a b.
Definition cquot (a b : Z) : Z := Z.quot a b.

(* ---------------------------------------------------------------- specification *)
Definition spec_val (p x : Z) : Z := x mod p.
Definition spec_add (p a b : Z) : Z := (a + b) mod p.
Definition spec_sub (p a b : Z) : Z := (a - b) mod p.
Definition spec_mul (p a b : Z) : Z := (a * b) mod p.
Definition spec_mad (p e m a : Z) : Z := (e * m + a) mod p.
Definition spec_aam (p e a m : Z) : Z := ((e + a) * m) mod p.
Definition spec_is_inverse (p x v : Z) : bool := (x * v) mod p =? 1 mod p.

Fixpoint is_prime_aux (fuel : nat) (p d : Z) : bool :=
  match fuel with
  | O => true
  | S f => if p <? d * d then true else if p mod d =? 0 then false else is_prime_aux f p (d + 1)
  end.
Definition is_prime (p : Z) : bool := (1 <? p) && is_prime_aux (Z.to_nat (Z.sqrt p)) p 2.

Fixpoint primes_between_aux (fuel : nat) (lo : Z) : list Z :=
  match fuel with
  | O => []
  | S f => (if is_prime lo then [lo] else []) ++ primes_between_aux f (lo + 1)
  end.
Definition primes_between (lo hi : Z) : list Z := primes_between_aux (Z.to_nat (hi - lo + 1)) lo.
Definition product (l : list Z) : Z := fold_right Z.mul 1 l.

(* the specification of a partial inverse, as a decidable predicate on the answer (v, T):
   T is the product of the primes q of the range that divide Q and do not divide x;
   v is the inverse of x modulo each such q and 0 modulo every other prime of the range; 0 <= v < P *)
Definition spec_T (primes : list Z) (x Q : Z) : Z :=
  product (filter (fun q => (Q mod q =? 0) && negb (x mod q =? 0)) primes).
Definition spec_pinv_ok (primes : list Z) (x Q v T : Z) : bool :=
  let P := product primes in
  (T =? spec_T primes x Q) && (0 <=? v) && (v <? P) &&
  forallb (fun q => if (Q mod q =? 0) && negb (x mod q =? 0) then (v * x) mod q =? 1 mod q else v mod q =? 0) primes.
(* partial multiplicative identity w.r.t. Q: 1 modulo the primes dividing Q, 0 modulo the others *)
Definition spec_pmid_ok (primes : list Z) (Q v : Z) : bool :=
  let P := product primes in
  (0 <=? v) && (v <? P) &&
  forallb (fun q => if Q mod q =? 0 then v mod q =? 1 mod q else v mod q =? 0) primes.

(* ---------------------------------------------------------------- Zp_field_operators / Zp_field_element /
   Shared_Zp_field_element / the small multi-fields: the private helpers _add, _subtract, _multiply *)
Definition zp_add (e1 e2 p : Z) : Z :=
  if UINT_MAX - e1 <? e2 then wrap32 (wrap32 (e1 + e2) - p)
  else let s := wrap32 (e1 + e2) in if p <=? s then wrap32 (s - p) else s.

Definition zp_sub (e1 e2 p : Z) : Z :=
  let e1' := if e1 <? e2 then wrap32 (e1 + p) else e1 in wrap32 (e1' - e2).

Definition zp_mul_step (a e1 e2 p : Z) : Z * Z * Z :=
  let e1' := if Z.odd a
             then let e1a := if wrap32 (p - e1) <=? e2 then wrap32 (e1 - p) else e1 in wrap32 (e1a + e2)
             else e1 in
  let tb := if wrap32 (p - e2) <=? e2 then wrap32 (e2 - p) else e2 in
  (Z.shiftr a 1, e1', wrap32 (e2 + tb)).

Fixpoint zp_mul_loop (fuel : nat) (a e1 e2 p : Z) : Z :=
  match fuel with
  | O => e1
  | S f => if a =? 0 then e1 else
             let '(a', e1', e2') := zp_mul_step a e1 e2 p in zp_mul_loop f a' e1' e2' p
  end.
Definition zp_mul (e1 e2 p : Z) : Z := zp_mul_loop 32 e1 0 e2 p.
(* the small multi-field variant swaps so that the smaller operand drives the loop *)
Definition mfs_mul (a b p : Z) : Z := if b <? a then zp_mul_loop 32 b 0 a p else zp_mul_loop 32 a 0 b p.

(* get_value on an unsigned operand *)
Definition zp_get_value_u (e p : Z) : Z := if e <? p then e else e mod p.
(* get_value on a signed operand of width w (2^32 for int, 2^64 for long), as repaired:
   the remainder is taken in the signed type *)
Definition zp_get_value_s (w e p : Z) : Z :=
  let e1 := if e <? - p then crem e p else e in
  if e1 <? 0 then wrap32 (e1 + p)
  else if e1 <? p then e1 else crem e1 p.
(* the same as it stood before the repair, for 'int': e % characteristic_ converts e to unsigned *)
Definition zp_get_value_s_unrepaired (e p : Z) : Z :=
  let e1 := if e <? - p then to_signed W32 (wrap32 e mod p) else e in
  if e1 <? 0 then wrap32 (e1 + p)
  else if e1 <? p then e1 else crem e1 p.

(* fused operations of the operator classes: computed in 32 bits, then reduced *)
Definition zp_mad (e m a p : Z) : Z := zp_get_value_u (wrap32 (wrap32 (e * m) + a)) p.
(* add_and_multiply as repaired: multiply (add e a) m through the overflow-free helpers *)
Definition zp_aam (e a m p : Z) : Z :=
  zp_mul (zp_get_value_u (zp_add (zp_get_value_u e p) (zp_get_value_u a p) p) p) (zp_get_value_u m p) p.
(* as it stood: (e + a) * m in 32 bits, then reduced *)
Definition zp_aam_unrepaired (e a m p : Z) : Z := zp_get_value_u (wrap32 (wrap32 (e + a) * m)) p.
(* the small multi-field operators, as repaired: add (multiply e m) a  /  multiply (add e a) m *)
Definition mfs_mad (e m a p : Z) : Z :=
  zp_add (zp_get_value_u (mfs_mul (zp_get_value_u e p) (zp_get_value_u m p) p) p) (zp_get_value_u a p) p.
Definition mfs_aam (e a m p : Z) : Z :=
  mfs_mul (zp_get_value_u (zp_add (zp_get_value_u e p) (zp_get_value_u a p) p) p) (zp_get_value_u m p) p.
Definition mfs_mad_unrepaired (e m a p : Z) : Z := zp_get_value_u (wrap32 (wrap32 (e * m) + a)) p.

(* the O(p^2) inverse table of set_characteristic / Field_Zp::init: None = exception *)
Fixpoint inv_search (fuel : nat) (i p inv mult : Z) : option Z :=
  match fuel with
  | O => None
  | S f => if mult mod p =? 1 then Some inv
           else if mult =? p then None
           else inv_search f i p (inv + 1) (wrap32 ((inv + 1) * i))
  end.
Definition zp_inverse_entry (i p : Z) : option Z := inv_search (Z.to_nat p + 2) i p 1 (wrap32 i).
Fixpoint zp_table_ok (fuel : nat) (i p : Z) : bool :=
  match fuel with
  | O => true
  | S f => if p <=? i then true else
           match zp_inverse_entry i p with None => false | Some _ => zp_table_ok f (i + 1) p end
  end.
(* set_characteristic p: true = accepted, false = refused by exception *)
Definition zp_set_characteristic (p : Z) : bool := (1 <? p) && zp_table_ok (Z.to_nat p) 1 p.

(* extended Euclid of Zp_field_element::_get_inverse and of the small multi-fields (ints) *)
Fixpoint egcd_loop (fuel : nat) (A M x y : Z) : Z :=
  match fuel with
  | O => x
  | S f => if A <=? 1 then x else
           if M =? 0 then x else
           let q := cquot A M in
           egcd_loop f M (crem A M) y (x - q * y)
  end.
Definition egcd_inverse (e m : Z) : Z :=
  let x := egcd_loop 100 e m 1 0 in if x <? 0 then x + m else x.

(* ---------------------------------------------------------------- cohomology engine: Field_Zp (int) *)
Definition fz_plus_times_equal (x y w p : Z) : Z :=
  let r := crem (x + w * y) p in if r <? 0 then r + p else r.
Definition fz_times_minus (x y p : Z) : Z :=
  let r := crem (- x * y) p in if r <? 0 then r + p else r.
Definition fz_init (p : Z) : bool :=
  if 46337 <? p then false else if p <=? 1 then false else zp_table_ok (Z.to_nat p) 1 p.

(* ---------------------------------------------------------------- multi-fields *)
(* power by squaring with the modular product f *)
Fixpoint pow_loop (f : Z -> Z -> Z) (fuel : nat) (base exp acc : Z) : Z :=
  match fuel with
  | O => acc
  | S n => if exp <=? 0 then acc else
           let acc' := if Z.odd exp then f acc base else acc in
           pow_loop f n (f base base) (Z.shiftr exp 1) acc'
  end.
Definition mfs_partial (P p : Z) : Z := pow_loop (fun a b => mfs_mul a b P) 32 (P / p) (p - 1) 1.
Definition mfs_partials (primes : list Z) : list Z := let P := product primes in map (mfs_partial P) primes.
Definition mfs_pmid (primes : list Z) (Q : Z) : Z :=
  let P := product primes in
  if Q =? 0 then 1 else
  fold_left (fun acc qp => if Q mod (fst qp) =? 0 then zp_add acc (snd qp) P else acc)
            (combine primes (mfs_partials primes)) 0.
(* get_partial_inverse as repaired: the gcd is taken with Q *)
Definition mfs_pinv (primes : list Z) (e Q : Z) : Z * Z :=
  let P := product primes in
  let g := Z.gcd e Q in
  if g =? Q then (0, 1) else
  let QT := Q / g in
  let inv_qt := egcd_inverse e QT in
  (mfs_mul (mfs_pmid primes QT) (wrap32 inv_qt) P, QT).
(* as it stood: gcd with the product of all characteristics *)
Definition mfs_pinv_unrepaired (primes : list Z) (e Q : Z) : Z * Z :=
  let P := product primes in
  let g := Z.gcd e P in
  if g =? Q then (0, 1) else
  let QT := Q / g in
  let inv_qt := egcd_inverse e QT in
  (mfs_mul (mfs_pmid primes QT) (wrap32 inv_qt) P, QT).

(* GMP multi-fields (exact integers): CRT idempotents U_q = (P/q)^(q-1) mod P *)
Definition pow_mod (b e m : Z) : Z := pow_loop (fun x y => (x * y) mod m) 64 (b mod m) e (1 mod m).
Definition mf_partials (primes : list Z) : list Z :=
  let P := product primes in map (fun q => pow_mod (P / q) (q - 1) P) primes.
Definition mf_pmid (primes : list Z) (Q : Z) : Z :=
  let P := product primes in
  fold_left (fun acc qp => if Q mod (fst qp) =? 0 then (acc + snd qp) mod P else acc)
            (combine primes (mf_partials primes)) 0.
(* modular inverse by search-free extended Euclid on Z *)
Fixpoint zegcd (fuel : nat) (a b x0 x1 : Z) : Z * Z :=   (* returns (g, x) with a0*x = g mod b0 *)
  match fuel with
  | O => (a, x0)
  | S f => if b =? 0 then (a, x0) else zegcd f b (a mod b) x1 (x0 - (a / b) * x1)
  end.
Definition mod_inverse (x m : Z) : Z := let '(g, c) := zegcd 200 (x mod m) m 1 0 in c mod m.
Definition mf_pinv (primes : list Z) (x QS : Z) : Z * Z :=
  let P := product primes in
  let QR := Z.gcd x QS in
  if QR =? QS then (0, mf_pmid primes P) else
  let QT := QS / QR in
  ((mod_inverse x QT * mf_pmid primes QT) mod P, QT).
Definition mf_times_minus (x y P : Z) : Z := (P - (x * y) mod P) mod P.       (* as repaired *)
Definition mf_times_minus_unrepaired (x y P : Z) : Z := P - (x * y) mod P.
Definition mf_plus_times_equal (x y w P : Z) : Z := (x + w * y) mod P.
