(* C10 — proofs that the algorithm models of C10_Model.v compute exact modular arithmetic. *)
From Coq Require Import ZArith List Bool Lia Znumtheory.
From Coq Require Import ZifyBool.
Require Import C10_Model.
Import ListNotations.
Local Open Scope Z_scope.
Ltac Zify.zify_post_hook ::= Z.div_mod_to_equations.

Lemma W32_val : W32 = 4294967296. Proof. reflexivity. Qed.
Lemma UINT_MAX_val : UINT_MAX = 4294967295. Proof. reflexivity. Qed.
Global Opaque W32 UINT_MAX.

Lemma wrap32_small x : 0 <= x < W32 -> wrap32 x = x.
Proof. intros; unfold wrap32; rewrite W32_val in *; apply Z.mod_small; lia. Qed.
Lemma wrap32_neg x : - W32 <= x < 0 -> wrap32 x = x + W32.
Proof. intros; unfold wrap32; rewrite W32_val in *; lia. Qed.
Lemma wrap32_over x : W32 <= x < 2 * W32 -> wrap32 x = x - W32.
Proof. intros; unfold wrap32; rewrite W32_val in *; lia. Qed.

(* ---------------------------------------------------------------- _add *)
Lemma zp_add_correct a b p :
  1 < p < W32 -> 0 <= a < p -> 0 <= b < p -> zp_add a b p = spec_add p a b.
Proof.
  intros Hp Ha Hb. unfold zp_add, spec_add. rewrite UINT_MAX_val. rewrite W32_val in Hp.
  destruct (4294967295 - a <? b) eqn:E.
  - rewrite (wrap32_over (a + b)) by (rewrite W32_val; lia).
    rewrite wrap32_neg by (rewrite W32_val; lia). rewrite W32_val.
    apply Z.mod_unique with 1; lia.
  - rewrite (wrap32_small (a + b)) by (rewrite W32_val; lia).
    destruct (p <=? a + b) eqn:E2.
    + rewrite wrap32_small by (rewrite W32_val; lia). apply Z.mod_unique with 1; lia.
    + symmetry. apply Z.mod_small. lia.
Qed.

Lemma zp_add_range a b p : 1 < p < W32 -> 0 <= a < p -> 0 <= b < p -> 0 <= zp_add a b p < p.
Proof. intros. rewrite zp_add_correct by assumption. unfold spec_add. apply Z.mod_pos_bound. lia. Qed.

(* ---------------------------------------------------------------- _subtract *)
Lemma zp_sub_correct a b p :
  1 < p < W32 -> 0 <= a < p -> 0 <= b < p -> zp_sub a b p = spec_sub p a b.
Proof.
  intros Hp Ha Hb. unfold zp_sub, spec_sub. rewrite W32_val in Hp.
  destruct (a <? b) eqn:E.
  - assert (0 <= a + p - b < p) by lia.
    destruct (Z_lt_dec (a + p) 4294967296).
    + rewrite (wrap32_small (a + p)) by (rewrite W32_val; lia).
      rewrite wrap32_small by (rewrite W32_val; lia). apply Z.mod_unique with (-1); lia.
    + rewrite (wrap32_over (a + p)) by (rewrite W32_val; lia).
      rewrite wrap32_neg by (rewrite W32_val; lia). rewrite W32_val.
      apply Z.mod_unique with (-1); lia.
  - rewrite wrap32_small by (rewrite W32_val; lia). symmetry. apply Z.mod_small. lia.
Qed.

(* ---------------------------------------------------------------- _multiply *)
Lemma addmod_step e1 e2 p :
  1 < p < W32 -> 0 <= e1 < p -> 0 <= e2 < p ->
  wrap32 ((if wrap32 (p - e1) <=? e2 then wrap32 (e1 - p) else e1) + e2) = (e1 + e2) mod p.
Proof.
  intros Hp H1 H2. rewrite W32_val in Hp.
  rewrite (wrap32_small (p - e1)) by (rewrite W32_val; lia).
  destruct (p - e1 <=? e2) eqn:E.
  - rewrite (wrap32_neg (e1 - p)) by (rewrite W32_val; lia).
    rewrite wrap32_over by (rewrite W32_val; lia). rewrite W32_val.
    apply Z.mod_unique with 1; lia.
  - rewrite wrap32_small by (rewrite W32_val; lia). symmetry. apply Z.mod_small; lia.
Qed.

Lemma double_step e2 p :
  1 < p < W32 -> 0 <= e2 < p ->
  wrap32 (e2 + (if wrap32 (p - e2) <=? e2 then wrap32 (e2 - p) else e2)) = (2 * e2) mod p.
Proof.
  intros Hp H2. rewrite Z.add_comm. rewrite addmod_step by assumption. f_equal. lia.
Qed.

Lemma zp_mul_step_spec a e1 e2 p :
  1 < p < W32 -> 0 <= a -> 0 <= e1 < p -> 0 <= e2 < p ->
  zp_mul_step a e1 e2 p = (a / 2, (e1 + (a mod 2) * e2) mod p, (2 * e2) mod p).
Proof.
  intros Hp Ha H1 H2. unfold zp_mul_step.
  rewrite double_step by assumption.
  rewrite Z.shiftr_div_pow2 by lia. change (2 ^ 1) with 2.
  f_equal. f_equal.
  rewrite Zodd_mod. destruct (Zeq_bool (a mod 2) 1) eqn:E.
  - apply Zeq_bool_eq in E. rewrite E. rewrite addmod_step by assumption. f_equal. lia.
  - apply Zeq_bool_neq in E. assert (a mod 2 = 0) by lia. rewrite H. rewrite Z.mul_0_l, Z.add_0_r.
    symmetry. apply Z.mod_small. lia.
Qed.

Lemma mod_combine A B C p : p <> 0 -> (A mod p + B * (C mod p)) mod p = (A + B * C) mod p.
Proof.
  intros. rewrite Z.add_mod_idemp_l by auto. rewrite <- Z.add_mod_idemp_r by auto.
  rewrite Z.mul_mod_idemp_r by auto. rewrite Z.add_mod_idemp_r by auto. reflexivity.
Qed.

Lemma zp_mul_loop_correct p : 1 < p < W32 ->
  forall fuel a e1 e2, 0 <= a < 2 ^ Z.of_nat fuel -> 0 <= e1 < p -> 0 <= e2 < p ->
  zp_mul_loop fuel a e1 e2 p = (e1 + a * e2) mod p.
Proof.
  intros Hp. induction fuel as [|fuel IH]; intros a e1 e2 Ha H1 H2.
  - cbn [zp_mul_loop]. change (2 ^ Z.of_nat 0) with 1 in Ha. assert (a = 0) by lia. subst.
    rewrite Z.mul_0_l, Z.add_0_r. symmetry. apply Z.mod_small. lia.
  - cbn [zp_mul_loop]. destruct (a =? 0) eqn:E.
    + assert (a = 0) by lia. subst. rewrite Z.mul_0_l, Z.add_0_r. symmetry. apply Z.mod_small. lia.
    + rewrite zp_mul_step_spec by (try assumption; lia).
      rewrite IH.
      * rewrite mod_combine by lia.
        f_equal. rewrite (Z.div_mod a 2) at 3 by lia. ring.
      * rewrite Nat2Z.inj_succ, Z.pow_succ_r in Ha by lia. split; [apply Z.div_pos; lia|].
        apply Z.div_lt_upper_bound; lia.
      * apply Z.mod_pos_bound. lia.
      * apply Z.mod_pos_bound. lia.
Qed.

Lemma zp_mul_correct a b p :
  1 < p < W32 -> 0 <= a < p -> 0 <= b < p -> zp_mul a b p = spec_mul p a b.
Proof.
  intros Hp Ha Hb. unfold zp_mul, spec_mul. rewrite zp_mul_loop_correct; try assumption; try lia.
  - f_equal.
  - rewrite W32_val in Hp. change (2 ^ Z.of_nat 32) with 4294967296. lia.
Qed.

Lemma mfs_mul_correct a b p :
  1 < p < W32 -> 0 <= a < p -> 0 <= b < p -> mfs_mul a b p = spec_mul p a b.
Proof.
  intros Hp Ha Hb. unfold mfs_mul, spec_mul.
  assert (H32 : 2 ^ Z.of_nat 32 = 4294967296) by reflexivity. rewrite W32_val in Hp.
  destruct (b <? a); rewrite zp_mul_loop_correct; try (rewrite W32_val); try lia; f_equal; lia.
Qed.

(* ---------------------------------------------------------------- get_value *)
Lemma zp_get_value_u_correct e p : 0 < p -> 0 <= e -> zp_get_value_u e p = spec_val p e.
Proof.
  intros. unfold zp_get_value_u, spec_val. destruct (e <? p) eqn:E; [|reflexivity].
  symmetry. apply Z.mod_small. lia.
Qed.

Lemma crem_neg e p : 0 < p -> e < 0 -> crem e p = - ((- e) mod p).
Proof.
  intros Hp He. unfold crem. rewrite <- (Z.opp_involutive e) at 1. rewrite Z.rem_opp_l' .
  f_equal. apply Z.rem_mod_nonneg; lia.
Qed.

Lemma crem_nonneg e p : 0 < p -> 0 <= e -> crem e p = e mod p.
Proof. intros. unfold crem. apply Z.rem_mod_nonneg; lia. Qed.

(* conversion of a signed machine integer (any width: the statement does not depend on it as long as
   the value is representable and p fits the positive range of 'int') *)
Lemma zp_get_value_s_correct w e p :
  1 < p < 2147483648 -> zp_get_value_s w e p = spec_val p e.
Proof.
  intros Hp. unfold zp_get_value_s, spec_val.
  destruct (e <? - p) eqn:E1.
  - rewrite crem_neg by lia.
    set (r := (- e) mod p). assert (Hr : 0 <= r < p) by (apply Z.mod_pos_bound; lia).
    assert (Hre : exists q, - e = p * q + r) by (exists ((- e) / p); unfold r; apply Z.div_mod; lia).
    destruct Hre as [q Hq].
    destruct (- r <? 0) eqn:E2.
    + rewrite wrap32_small by (rewrite W32_val; lia).
      apply Z.mod_unique with (- q - 1); lia.
    + assert (r = 0) by lia. subst r. rewrite H in *. simpl (- 0).
      destruct (0 <? p) eqn:E3; [|lia]. apply Z.mod_unique with (- q); lia.
  - destruct (e <? 0) eqn:E2.
    + rewrite wrap32_small by (rewrite W32_val; lia). apply Z.mod_unique with (-1); lia.
    + destruct (e <? p) eqn:E3.
      * symmetry. apply Z.mod_small. lia.
      * apply crem_nonneg; lia.
Qed.

Lemma zp_get_value_s_unrepaired_refuted :
  exists e p, 1 < p < 65536 /\ - 2147483648 <= e < 2147483648 /\ zp_get_value_s_unrepaired e p <> spec_val p e.
Proof. exists (-7), 5. split; [lia|]. split; [lia|]. vm_compute. discriminate. Qed.

(* ---------------------------------------------------------------- fused operations *)
Lemma zp_mad_correct e m a p :
  1 < p < 65536 -> 0 <= e < p -> 0 <= m < p -> 0 <= a < p -> zp_mad e m a p = spec_mad p e m a.
Proof.
  intros Hp He Hm Ha. unfold zp_mad, spec_mad.
  assert (0 <= e * m <= (p - 1) * (p - 1)) by nia.
  assert ((p - 1) * (p - 1) + p < 4294967296) by nia.
  rewrite (wrap32_small (e * m)) by (rewrite W32_val; lia).
  rewrite wrap32_small by (rewrite W32_val; lia).
  apply zp_get_value_u_correct; lia.
Qed.

Lemma zp_aam_correct e a m p :
  1 < p < W32 -> 0 <= e < p -> 0 <= a < p -> 0 <= m < p -> zp_aam e a m p = spec_aam p e a m.
Proof.
  intros Hp He Ha Hm. unfold zp_aam, spec_aam.
  rewrite (zp_get_value_u_correct e), (zp_get_value_u_correct a), (zp_get_value_u_correct m) by lia. unfold spec_val.
  rewrite (Z.mod_small e), (Z.mod_small a), (Z.mod_small m) by lia.
  rewrite zp_add_correct by assumption. unfold spec_add.
  rewrite zp_get_value_u_correct by (try apply Z.mod_pos_bound; lia). unfold spec_val. rewrite Z.mod_mod by lia.
  rewrite zp_mul_correct; try assumption; [|apply Z.mod_pos_bound; lia].
  unfold spec_mul. apply Z.mul_mod_idemp_l. lia.
Qed.

Lemma zp_aam_unrepaired_refuted :
  exists e a m p, 1 < p < 65536 /\ 0 <= e < p /\ 0 <= a < p /\ 0 <= m < p /\ zp_aam_unrepaired e a m p <> spec_aam p e a m.
Proof. exists 11237, 60365, 65520, 65521. repeat (split; [lia|]). vm_compute. discriminate. Qed.

Lemma mfs_mad_correct e m a p :
  1 < p < W32 -> 0 <= e < p -> 0 <= m < p -> 0 <= a < p -> mfs_mad e m a p = spec_mad p e m a.
Proof.
  intros Hp He Hm Ha. unfold mfs_mad, spec_mad.
  rewrite (zp_get_value_u_correct e), (zp_get_value_u_correct a), (zp_get_value_u_correct m) by lia. unfold spec_val.
  rewrite (Z.mod_small e), (Z.mod_small a), (Z.mod_small m) by lia.
  rewrite mfs_mul_correct by assumption. unfold spec_mul.
  rewrite zp_get_value_u_correct by (try apply Z.mod_pos_bound; lia). unfold spec_val. rewrite Z.mod_mod by lia.
  rewrite zp_add_correct; try assumption; [|apply Z.mod_pos_bound; lia].
  unfold spec_add. apply Z.add_mod_idemp_l. lia.
Qed.

Lemma mfs_aam_correct e a m p :
  1 < p < W32 -> 0 <= e < p -> 0 <= a < p -> 0 <= m < p -> mfs_aam e a m p = spec_aam p e a m.
Proof.
  intros Hp He Ha Hm. unfold mfs_aam, spec_aam.
  rewrite (zp_get_value_u_correct e), (zp_get_value_u_correct a), (zp_get_value_u_correct m) by lia. unfold spec_val.
  rewrite (Z.mod_small e), (Z.mod_small a), (Z.mod_small m) by lia.
  rewrite zp_add_correct by assumption. unfold spec_add.
  rewrite zp_get_value_u_correct by (try apply Z.mod_pos_bound; lia). unfold spec_val. rewrite Z.mod_mod by lia.
  rewrite mfs_mul_correct; try assumption; [|apply Z.mod_pos_bound; lia].
  unfold spec_mul. apply Z.mul_mod_idemp_l. lia.
Qed.

Lemma mfs_mad_unrepaired_refuted :
  exists e m a p, 1 < p < W32 /\ 0 <= e < p /\ 0 <= m < p /\ 0 <= a < p /\ mfs_mad_unrepaired e m a p <> spec_mad p e m a.
Proof. exists 510509, 510509, 0, 510510. rewrite W32_val. repeat (split; [lia|]). vm_compute. discriminate. Qed.

(* ---------------------------------------------------------------- cohomology engine Field_Zp (int arithmetic) *)
Definition fits_int (x : Z) : Prop := - 2147483648 <= x < 2147483648.

Lemma fz_plus_times_equal_correct x y w p :
  1 < p <= 46337 -> 0 <= x < p -> 0 <= y < p -> 0 <= w < p ->
  fits_int (w * y) /\ fits_int (x + w * y) /\ fz_plus_times_equal x y w p = spec_add p x (w * y).
Proof.
  intros Hp Hx Hy Hw. unfold fits_int.
  assert (0 <= w * y <= 46336 * 46336) by nia.
  split; [lia|]. split; [lia|].
  unfold fz_plus_times_equal, spec_add. rewrite crem_nonneg by lia.
  destruct ((x + w * y) mod p <? 0) eqn:E; [|reflexivity].
  pose proof (Z.mod_pos_bound (x + w * y) p). lia.
Qed.

Lemma fz_times_minus_correct x y p :
  1 < p <= 46337 -> 0 <= x < p -> 0 <= y < p ->
  fits_int (- x * y) /\ fz_times_minus x y p = spec_val p (- (x * y)).
Proof.
  intros Hp Hx Hy. unfold fits_int.
  assert (0 <= x * y <= 46336 * 46336) by nia.
  split; [lia|].
  unfold fz_times_minus, spec_val.
  replace (- x * y) with (- (x * y)) by ring.
  destruct (Z.eq_dec (x * y) 0) as [H0|H0].
  - rewrite H0. simpl (- 0). unfold crem. rewrite Z.rem_0_l by lia. simpl. rewrite Z.mod_0_l by lia. reflexivity.
  - rewrite crem_neg by lia. rewrite Z.opp_involutive.
    set (r := (x * y) mod p). assert (Hr : 0 <= r < p) by (apply Z.mod_pos_bound; lia).
    assert (Hq : x * y = p * ((x * y) / p) + r) by (unfold r; apply Z.div_mod; lia).
    destruct (- r <? 0) eqn:E.
    + apply Z.mod_unique with (- ((x * y) / p) - 1); lia.
    + assert (r = 0) by lia. rewrite H1 in *. simpl (- 0).
      apply Z.mod_unique with (- ((x * y) / p)); lia.
Qed.

(* ---------------------------------------------------------------- inverse table: what it returns is an inverse *)
(* soundness without any range bookkeeping: whatever the search returns passed the test *)
Lemma inv_search_sound p i : forall fuel inv mult v,
  inv_search fuel i p inv mult = Some v -> exists m, m mod p = 1 /\ inv <= v.
Proof.
  induction fuel as [|fuel IH]; intros inv mult v H; [discriminate|].
  cbn [inv_search] in H.
  destruct (mult mod p =? 1) eqn:E1.
  - inversion H; subst. exists mult. split; lia.
  - destruct (mult =? p); [discriminate|].
    apply IH in H. destruct H as [m [Hm Hle]]. exists m. split; [exact Hm|lia].
Qed.

(* the precise statement: the entry returned for i is the least inv >= 1 with inv * i = 1 (mod p) *)
Lemma inv_search_exact p i : 1 < p < 65536 -> 0 < i < p ->
  forall fuel inv v, 0 < inv -> inv + Z.of_nat fuel <= 65538 ->
  inv_search fuel i p inv (wrap32 (inv * i)) = Some v ->
  inv <= v /\ (v * i) mod p = 1 /\ forall k, inv <= k < v -> (k * i) mod p <> 1.
Proof.
  intros Hp Hi. induction fuel as [|fuel IH]; intros inv v Hinv Hf H; [discriminate|].
  cbn [inv_search] in H.
  assert (Hw : wrap32 (inv * i) = inv * i) by (apply wrap32_small; rewrite W32_val; nia).
  rewrite Hw in H.
  destruct ((inv * i) mod p =? 1) eqn:E1.
  - inversion H; subst. split; [lia|]. split; [lia|]. intros k Hk. lia.
  - destruct (inv * i =? p) eqn:E2; [discriminate|].
    apply IH in H; [|lia|lia].
    destruct H as (Hle & Hv & Hmin). split; [lia|]. split; [exact Hv|].
    intros k Hk. destruct (Z.eq_dec k inv) as [->|Hne]; [lia|]. apply Hmin. lia.
Qed.

Lemma zp_inverse_entry_sound p i v : 1 < p < 65536 -> 0 < i < p ->
  zp_inverse_entry i p = Some v -> spec_is_inverse p i v = true.
Proof.
  intros Hp Hi H. unfold zp_inverse_entry in H.
  replace (wrap32 i) with (wrap32 (1 * i)) in H by (f_equal; lia).
  apply inv_search_exact in H; try lia.
  destruct H as (_ & Hv & _). unfold spec_is_inverse. rewrite (Z.mod_small 1 p) by lia.
  rewrite Z.mul_comm. lia.
Qed.

(* for a prime characteristic every non-zero residue has an entry (the search finds it before giving up) *)
Lemma inv_search_complete p i : 1 < p < 65536 -> 0 < i < p ->
  forall fuel inv k, 0 < inv <= k -> k < p -> (k * i) mod p = 1 ->
  (forall j, 0 < j < k -> j * i <> p) ->
  (Z.to_nat (k - inv) < fuel)%nat ->
  exists v, inv_search fuel i p inv (wrap32 (inv * i)) = Some v.
Proof.
  intros Hp Hi. induction fuel as [|fuel IH]; intros inv k Hinv Hk Hk1 Hnp Hf; [lia|].
  cbn [inv_search].
  assert (Hw : wrap32 (inv * i) = inv * i) by (apply wrap32_small; rewrite W32_val; nia).
  rewrite Hw.
  destruct ((inv * i) mod p =? 1) eqn:E1; [eexists; reflexivity|].
  destruct (inv * i =? p) eqn:E2.
  - exfalso. destruct (Z.eq_dec inv k) as [->|Hne]; [lia|]. apply (Hnp inv); lia.
  - destruct (Z.eq_dec inv k) as [->|Hne]; [lia|].
    apply (IH (inv + 1) k); try lia; assumption.
Qed.

Lemma prime_has_inverse p i : prime p -> 0 < i < p -> exists k, 0 < k < p /\ (k * i) mod p = 1.
Proof.
  intros Hp Hi.
  assert (Hrel : rel_prime i p).
  { apply rel_prime_sym. apply prime_rel_prime; [exact Hp|]. intro Hd.
    apply Z.divide_pos_le in Hd; lia. }
  destruct (rel_prime_bezout _ _ Hrel) as [u v Huv].
  assert (Hp1 : 1 < p) by (destruct Hp; lia).
  exists (u mod p). split.
  - assert (0 <= u mod p < p) by (apply Z.mod_pos_bound; lia).
    destruct (Z.eq_dec (u mod p) 0) as [H0|H0]; [|lia]. exfalso.
    assert ((u * i) mod p = 1).
    { replace (u * i) with (1 + (- v) * p) by lia. rewrite Z.mod_add by lia. apply Z.mod_small; lia. }
    rewrite <- Z.mul_mod_idemp_l in H1 by lia. rewrite H0 in H1. rewrite Z.mul_0_l, Z.mod_0_l in H1 by lia. lia.
  - rewrite Z.mul_mod_idemp_l by lia.
    replace (u * i) with (1 + (- v) * p) by lia. rewrite Z.mod_add by lia. apply Z.mod_small; lia.
Qed.

Lemma zp_inverse_entry_complete p i : prime p -> p < 65536 -> 0 < i < p ->
  exists v, zp_inverse_entry i p = Some v /\ spec_is_inverse p i v = true.
Proof.
  intros Hp Hlt Hi.
  assert (Hp1 : 1 < p) by (destruct Hp; lia).
  destruct (prime_has_inverse p i Hp Hi) as [k [Hk Hk1]].
  assert (Hnp : forall j, 0 < j < k -> j * i <> p).
  { intros j Hj Hji. destruct Hp as [_ Hrp].
    destruct (Z.eq_dec i 1) as [->|Hi1].
    - lia.
    - assert (rel_prime i p) by (apply Hrp; lia).
      assert (Hd : (i | p)) by (exists j; lia).
      assert (Hd1 : (i | 1)) by (apply H; [apply Z.divide_refl|exact Hd]).
      apply Z.divide_1_r_nonneg in Hd1; lia. }
  destruct (inv_search_complete p i ltac:(lia) Hi (Z.to_nat p + 2) 1 k ltac:(lia) ltac:(lia) Hk1 Hnp ltac:(lia)) as [v Hv].
  exists v. unfold zp_inverse_entry. replace (wrap32 i) with (wrap32 (1 * i)) by (f_equal; lia).
  split; [exact Hv|].
  apply zp_inverse_entry_sound with (p := p); try lia.
  unfold zp_inverse_entry. replace (wrap32 i) with (wrap32 (1 * i)) by (f_equal; lia). exact Hv.
Qed.

(* ---------------------------------------------------------------- GMP multi-field of the cohomology engine *)
Lemma mf_times_minus_correct x y P : 0 < P -> mf_times_minus x y P = spec_val P (- (x * y)).
Proof.
  intros HP. unfold mf_times_minus, spec_val.
  set (r := (x * y) mod P). assert (Hr : 0 <= r < P) by (apply Z.mod_pos_bound; lia).
  assert (Hq : x * y = P * ((x * y) / P) + r) by (unfold r; apply Z.div_mod; lia).
  destruct (Z.eq_dec r 0) as [H0|H0].
  - rewrite H0, Z.sub_0_r, Z.mod_same by lia. apply Z.mod_unique with (- ((x * y) / P)); lia.
  - rewrite Z.mod_small by lia. apply Z.mod_unique with (- ((x * y) / P) - 1); lia.
Qed.

Lemma mf_times_minus_unrepaired_refuted :
  exists x y P, 0 < P /\ 0 <= x < P /\ 0 <= y < P /\ mf_times_minus_unrepaired x y P <> spec_val P (- (x * y)).
Proof. exists 2, 3, 6. repeat (split; [lia|]). vm_compute. discriminate. Qed.

Lemma mf_plus_times_equal_correct x y w P : mf_plus_times_equal x y w P = spec_add P x (w * y).
Proof. reflexivity. Qed.

Lemma mfs_pinv_unrepaired_refuted :
  exists primes x Q, primes = primes_between 2 5 /\ Q = 6 /\
    let '(v, T) := mfs_pinv_unrepaired primes x Q in spec_pinv_ok primes x Q v T = false.
Proof. exists (primes_between 2 5), 5, 6. split; [reflexivity|]. split; [reflexivity|]. vm_compute. reflexivity. Qed.

(* non-vacuity / sanity: concrete instances of the hypotheses and of the partial-inverse specification *)
Example ex_mul : zp_mul 65520 65520 65521 = 1. Proof. vm_compute. reflexivity. Qed.
Example ex_add_wrap : zp_add 4294967290 4294967290 4294967291 = 4294967289. Proof. vm_compute. reflexivity. Qed.
Example ex_pinv : let ps := primes_between 2 5 in
  forallb (fun x => forallb (fun Q => let '(v, T) := mfs_pinv ps x Q in spec_pinv_ok ps x Q v T) [1;2;3;5;6;10;15;30])
          [0;1;2;3;4;5;6;7;10;15;29] = true.
Proof. vm_compute. reflexivity. Qed.
Example ex_pinv_gmp : let ps := primes_between 2 7 in
  forallb (fun x => forallb (fun Q => let '(v, T) := mf_pinv ps x Q in spec_pinv_ok ps x Q v T) [1;2;3;5;7;6;35;210])
          [0;1;2;3;4;5;6;7;10;15;29;209] = true.
Proof. vm_compute. reflexivity. Qed.
