(* C10 — further proofs: a composite characteristic is refused by the O(p^2) inverse-table construction of
   Zp_field_operators::set_characteristic / Field_Zp::init (the loop throws when inv * i reaches p). *)
From Coq Require Import ZArith List Bool Lia Znumtheory.
From Coq Require Import ZifyBool.
Require Import C10_Model C10_Proofs.
Import ListNotations.
Local Open Scope Z_scope.
Ltac Zify.zify_post_hook ::= Z.div_mod_to_equations.

(* for a proper divisor i of p the search walks inv = 1, 2, ... with inv * i < p never congruent to 1, and stops with
   the exception exactly when inv * i = p *)
Lemma inv_search_divisor p i q : 1 < p < 65536 -> 1 < i -> p = q * i ->
  forall fuel inv, 0 < inv <= q -> (Z.to_nat (q - inv) < fuel)%nat ->
  inv_search fuel i p inv (wrap32 (inv * i)) = None.
Proof.
  intros Hp Hi Hq. induction fuel as [|fuel IH]; intros inv Hinv Hf; [lia|].
  cbn [inv_search].
  assert (Hw : wrap32 (inv * i) = inv * i) by (apply wrap32_small; rewrite W32_val; nia).
  rewrite Hw.
  destruct (Z.eq_dec inv q) as [->|Hne].
  - rewrite <- Hq. rewrite Z.mod_same by lia. replace (0 =? 1) with false by reflexivity.
    rewrite Z.eqb_refl. reflexivity.
  - assert (Hlt : inv * i < p) by nia.
    rewrite Z.mod_small by nia.
    destruct (inv * i =? 1) eqn:E1; [nia|].
    destruct (inv * i =? p) eqn:E2; [lia|].
    apply IH; lia.
Qed.

Lemma zp_inverse_entry_divisor p i : 1 < p < 65536 -> 1 < i < p -> (i | p) -> zp_inverse_entry i p = None.
Proof.
  intros Hp Hi [q Hq]. unfold zp_inverse_entry.
  replace (wrap32 i) with (wrap32 (1 * i)) by (f_equal; lia).
  apply (inv_search_divisor p i q Hp ltac:(lia) Hq); nia.
Qed.

(* the table loop visits every i in [i0, min(p, i0 + fuel)) *)
Lemma zp_table_ok_all p : forall fuel i0, zp_table_ok fuel i0 p = true ->
  forall i, i0 <= i < p -> i < i0 + Z.of_nat fuel -> zp_inverse_entry i p <> None.
Proof.
  induction fuel as [|fuel IH]; intros i0 H i Hi Hf; [lia|].
  cbn [zp_table_ok] in H.
  destruct (p <=? i0) eqn:E; [lia|].
  destruct (zp_inverse_entry i0 p) as [v|] eqn:Ev; [|discriminate].
  destruct (Z.eq_dec i i0) as [->|Hne]; [rewrite Ev; discriminate|].
  apply (IH (i0 + 1) H); lia.
Qed.

Theorem composite_refused p : 1 < p < 65536 -> ~ prime p -> zp_set_characteristic p = false.
Proof.
  intros Hp Hnp. unfold zp_set_characteristic.
  destruct (zp_table_ok (Z.to_nat p) 1 p) eqn:E; [|apply andb_false_r].
  exfalso. destruct (not_prime_divide p ltac:(lia) Hnp) as [i [Hi Hd]].
  apply (zp_table_ok_all p (Z.to_nat p) 1 E i); [lia|lia|].
  apply zp_inverse_entry_divisor; assumption.
Qed.

(* Field_Zp::init of the cohomology engine: same loop, bound 46337 *)
Theorem fz_composite_refused p : ~ prime p -> fz_init p = false.
Proof.
  intros Hnp. unfold fz_init.
  destruct (46337 <? p) eqn:E1; [reflexivity|].
  destruct (p <=? 1) eqn:E2; [reflexivity|].
  destruct (zp_table_ok (Z.to_nat p) 1 p) eqn:E; [|reflexivity].
  exfalso. destruct (not_prime_divide p ltac:(lia) Hnp) as [i [Hi Hd]].
  apply (zp_table_ok_all p (Z.to_nat p) 1 E i); [lia|lia|].
  apply zp_inverse_entry_divisor; try assumption; lia.
Qed.

(* and a prime is accepted *)
Lemma zp_table_ok_prime p : prime p -> p < 65536 -> forall fuel i0, 0 < i0 -> zp_table_ok fuel i0 p = true.
Proof.
  intros Hp Hb. induction fuel as [|fuel IH]; intros i0 Hi0; [reflexivity|].
  cbn [zp_table_ok]. destruct (p <=? i0) eqn:E; [reflexivity|].
  destruct (zp_inverse_entry_complete p i0 Hp Hb ltac:(lia)) as [v [Hv _]]. rewrite Hv. apply IH. lia.
Qed.
Theorem prime_accepted p : prime p -> p < 65536 -> zp_set_characteristic p = true.
Proof.
  intros Hp Hb. unfold zp_set_characteristic. destruct Hp as [H1 H2].
  replace (1 <? p) with true by lia. apply zp_table_ok_prime; [split; assumption|lia|lia].
Qed.

(* ---------------------------------------------------------------- extended Euclid (Zp_field_element::_get_inverse,
   the small multi-fields): the returned value is an inverse, and the fuel of the model is never exhausted below 2^31 *)
Lemma rem_lt_half A M : 0 < M <= A -> 2 * (A mod M) < A.
Proof. intros H. assert (A mod M < M) by (apply Z.mod_pos_bound; lia). assert (A = M * (A / M) + A mod M) by (apply Z.div_mod; lia).
  assert (1 <= A / M) by (apply Z.div_le_lower_bound; lia). nia. Qed.

Lemma egcd_loop_inv m0 e : 0 < m0 ->
  forall fuel A M x y, 0 <= M < A -> Z.gcd A M = 1 -> A * M < 2 ^ Z.of_nat fuel ->
  (A - x * e) mod m0 = 0 -> (M - y * e) mod m0 = 0 ->
  (egcd_loop fuel A M x y * e - 1) mod m0 = 0.
Proof.
  intros Hm0. induction fuel as [|fuel IH]; intros A M x y HM Hg Hf HA HMc.
  - (* A * M < 1: M = 0, hence A = gcd = 1 *)
    cbn [egcd_loop]. change (2 ^ Z.of_nat 0) with 1 in Hf. assert (M = 0) by nia. subst M.
    rewrite Z.gcd_0_r in Hg. assert (A = 1) by lia. subst A.
    replace (x * e - 1) with (- (1 - x * e)) by ring. rewrite Z.mod_opp_l_z; lia.
  - cbn [egcd_loop]. destruct (A <=? 1) eqn:E1.
    + assert (A = 1) by lia. subst A. replace (x * e - 1) with (- (1 - x * e)) by ring. rewrite Z.mod_opp_l_z; lia.
    + destruct (M =? 0) eqn:E2.
      * exfalso. assert (M = 0) by lia. subst M. rewrite Z.gcd_0_r in Hg. lia.
      * unfold cquot, crem. rewrite Z.quot_div_nonneg by lia. rewrite Z.rem_mod_nonneg by lia.
        assert (Hr : 0 <= A mod M < M) by (apply Z.mod_pos_bound; lia).
        apply IH.
        -- lia.
        -- rewrite Z.gcd_comm. rewrite Z.gcd_mod by lia. rewrite Z.gcd_comm. exact Hg.
        -- pose proof (rem_lt_half A M ltac:(lia)) as Hh.
           rewrite Nat2Z.inj_succ, Z.pow_succ_r in Hf by lia. nia.
        -- exact HMc.
        -- assert (Hd : A mod M = A - M * (A / M)) by (pose proof (Z.div_mod A M ltac:(lia)); lia).
           rewrite Hd.
           replace (A - M * (A / M) - (x - A / M * y) * e) with ((A - x * e) + (- (A / M)) * (M - y * e)) by ring.
           rewrite Z.add_mod by lia. rewrite HA. rewrite Z.mul_mod by lia. rewrite HMc.
           rewrite Z.mul_0_r. reflexivity.
Qed.

Lemma egcd_loop_from_start f x p : prime p -> 0 < x < p -> p * x < 2 ^ Z.of_nat f ->
  (egcd_loop (S f) x p 1 0 * x - 1) mod p = 0.
Proof.
  intros Hp Hx Hf. pose proof (prime_ge_2 p Hp) as Hp2.
  assert (Hgcd : Z.gcd p x = 1).
  { apply Zgcd_1_rel_prime. apply rel_prime_sym. apply rel_prime_le_prime; [exact Hp|lia]. }
  (* the first iteration only exchanges the operands (x < p) *)
  cbn [egcd_loop].
  destruct (x <=? 1) eqn:E1.
  - assert (x = 1) by lia. subst x. replace (1 * 1 - 1) with 0 by ring. apply Z.mod_0_l. lia.
  - replace (p =? 0) with false by lia.
    unfold cquot, crem. rewrite Z.quot_div_nonneg by lia. rewrite Z.rem_mod_nonneg by lia.
    rewrite (Z.div_small x p) by lia. rewrite (Z.mod_small x p) by lia.
    apply (egcd_loop_inv p x ltac:(lia) f p x 0 (1 - 0 * 0)); try lia.
    + replace (p - 0 * x) with (1 * p) by ring. apply Z.mod_mul. lia.
    + replace (x - (1 - 0 * 0) * x) with 0 by ring. apply Z.mod_0_l. lia.
Qed.

Theorem egcd_inverse_correct p x : prime p -> p < 2147483648 -> 0 < x < p ->
  spec_is_inverse p x (egcd_inverse x p) = true.
Proof.
  intros Hp Hb Hx. pose proof (prime_ge_2 p Hp) as Hp2.
  assert (Hpow : p * x < 2 ^ Z.of_nat 99).
  { assert (p * x < 2 ^ 62) by (change (2 ^ 62) with 4611686018427387904; nia).
    assert (2 ^ 62 < 2 ^ Z.of_nat 99) by (apply Z.pow_lt_mono_r; lia). lia. }
  pose proof (egcd_loop_from_start 99 x p Hp Hx Hpow) as Hloop.
  unfold spec_is_inverse, egcd_inverse.
  change 100%nat with (S 99).
  generalize dependent (egcd_loop (S 99) x p 1 0). intros r Hloop.
  assert (Hr : (x * r) mod p = 1 mod p).
  { replace (x * r) with ((r * x - 1) + 1) by ring. rewrite Z.add_mod by lia. rewrite Hloop. rewrite Z.add_0_l.
    rewrite Z.mod_mod by lia. reflexivity. }
  destruct (r <? 0).
  - replace (x * (r + p)) with (x * r + x * p) by ring. rewrite Z.mod_add by lia. apply Z.eqb_eq. exact Hr.
  - apply Z.eqb_eq. exact Hr.
Qed.
