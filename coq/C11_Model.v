(* C11 - Ripser.  No proofs here (C11_Proofs.v).

   src/Ripser/include/gudhi/ripser.h

   SPECIFICATION MODEL (the oracle): the Vietoris-Rips filtration of a finite dissimilarity and its barcode.
     [simplices]   all cliques with at most dim_max+2 vertices of the threshold graph
     [sort_simplices]  ordered by (diameter, dimension, lexicographic)
     [boundary_matrix] signed boundary, columns as (row, coefficient) lists
     [barcode]     certified_lows / pairs_of_lows of ReduceExec.v (the pairing is canonical for every prime p,
                   Reduce.lows_unique), read as multiset of (dimension, birth value, death value | None),
                   zero-length intervals dropped, dimensions > dim_max dropped
     [enclosing_radius]  min_i max_j d(i,j)

   LEAF ALGORITHM MODELS (what the code computes, transcribed):
     [lower_off], [upper_off], [cm_index]     Compressed_distance_matrix::init_rows / operator()
     [log2up]                                 log2up
     [bf_enc], [bf_get_max]                   Bitfield_encoding::operator() / get_max_vertex
     [binom], [cns_enc], [get_max], [cns_get_max]   Cns_encoding table / operator() / get_max / get_max_vertex
     [simplex_index], [decode]                index of a simplex (sum of the encodings of its vertices, as built by
                                              get_edge_index and the coboundary enumerators) / get_simplex_vertices
     [pack], [unpack_index], [unpack_coeff]   entry_with_coeff_t / get_index / get_coefficient
     [dispatch]                               help1 (choice of the encoding from the bit budget)
   The reduction engine (Persistent_cohomology of ripser.h: clearing, apparent and emergent pairs, coboundary
   enumerators) is NOT modelled. *)
From Coq Require Import ZArith List Bool Arith.
Require Import Reduce ReduceExec.
Import ListNotations.
Local Open Scope Z_scope.

(* ================================================================== specification model *)
(* a dissimilarity on vertices 0..n-1: full matrix as list of rows; a negative entry = "no edge" (sparse inputs) *)
Definition dmatrix := list (list Z).
Definition dget (M : dmatrix) (i j : nat) : Z := nth j (nth i M []) (-1).
(* threshold: None = infinity *)
Definition edge_ok (M : dmatrix) (T : option Z) (i j : nat) : bool :=
  let d := dget M i j in
  (0 <=? d) && match T with None => true | Some t => d <=? t end.

(* all sublists s of vs (order kept) with at most k elements such that every element is accepted against the
   elements after it; with vs = 0..n-1 these are the cliques with at most k vertices, as increasing lists *)
Fixpoint cliques (ok : nat -> nat -> bool) (vs : list nat) (k : nat) : list (list nat) :=
  match vs with
  | [] => [[]]
  | v :: r =>
    let rest := cliques ok r k in
    rest ++ map (cons v) (filter (fun s => (length s <? k)%nat && forallb (ok v) s) rest)
  end.
Definition nonempty {A} (s : list A) : bool := match s with [] => false | _ => true end.
Definition simplices (M : dmatrix) (T : option Z) (n : nat) (dim_max : nat) : list (list nat) :=
  filter nonempty (cliques (edge_ok M T) (seq 0 n) (dim_max + 2)).

Fixpoint diam_to (M : dmatrix) (v : nat) (s : list nat) (acc : Z) : Z :=
  match s with [] => acc | w :: r => diam_to M v r (Z.max acc (dget M v w)) end.
Fixpoint diam_acc (M : dmatrix) (s : list nat) (acc : Z) : Z :=
  match s with [] => acc | v :: r => diam_acc M r (diam_to M v r acc) end.
(* diameter of a simplex: 0 for a vertex, else the largest pairwise dissimilarity *)
Definition diam (M : dmatrix) (s : list nat) : Z := diam_acc M s 0.

Fixpoint lex_le (a b : list nat) : bool :=
  match a, b with
  | [], _ => true
  | _ :: _, [] => false
  | x :: a', y :: b' => if (x <? y)%nat then true else if (y <? x)%nat then false else lex_le a' b'
  end.
(* (diameter, dimension, lexicographic) *)
Definition simplex_le (a b : Z * list nat) : bool :=
  if fst a <? fst b then true else if fst b <? fst a then false
  else if (length (snd a) <? length (snd b))%nat then true else if (length (snd b) <? length (snd a))%nat then false
  else lex_le (snd a) (snd b).
Fixpoint insert_sorted (x : Z * list nat) (l : list (Z * list nat)) : list (Z * list nat) :=
  match l with
  | [] => [x]
  | y :: r => if simplex_le x y then x :: l else y :: insert_sorted x r
  end.
Definition sort_simplices (l : list (Z * list nat)) : list (Z * list nat) := fold_right insert_sorted [] l.
Definition filtration (M : dmatrix) (T : option Z) (n dim_max : nat) : list (Z * list nat) :=
  sort_simplices (map (fun s => (diam M s, s)) (simplices M T n dim_max)).

Fixpoint list_eqb (a b : list nat) : bool :=
  match a, b with
  | [], [] => true
  | x :: a', y :: b' => (x =? y)%nat && list_eqb a' b'
  | _, _ => false
  end.
Fixpoint index_of (s : list nat) (F : list (Z * list nat)) (i : nat) : option nat :=
  match F with
  | [] => None
  | (_, t) :: r => if list_eqb s t then Some i else index_of s r (S i)
  end.
(* faces of [v0 < ... < vk] with the sign (-1)^i of the face omitting vi *)
Fixpoint faces_aux (pre : list nat) (s : list nat) (sign : Z) : list (list nat * Z) :=
  match s with
  | [] => []
  | v :: r => (rev pre ++ r, sign) :: faces_aux (v :: pre) r (- sign)
  end.
Definition faces (s : list nat) : list (list nat * Z) :=
  match s with
  | [_] => []                    (* the boundary of a vertex is zero (no empty simplex) *)
  | _ => faces_aux [] s 1
  end.
Definition boundary_col (F : list (Z * list nat)) (s : list nat) : option (list (nat * Z)) :=
  fold_right (fun fc acc =>
      match acc, index_of (fst fc) F 0 with
      | Some l, Some i => Some ((i, snd fc) :: l)
      | _, _ => None
      end) (Some []) (faces s).
Fixpoint all_some {A} (l : list (option A)) : option (list A) :=
  match l with
  | [] => Some []
  | Some x :: r => match all_some r with Some t => Some (x :: t) | None => None end
  | None :: _ => None
  end.
Definition boundary_matrix (F : list (Z * list nat)) : option (list (list (nat * Z))) :=
  all_some (map (fun ds => boundary_col F (snd ds)) F).

Definition interval := (nat * Z * option Z)%type.       (* dimension, birth, death (None = infinite) *)
Definition dim_of (F : list (Z * list nat)) (i : nat) : nat := pred (length (snd (nth i F (0, [])))).
Definition val_of (F : list (Z * list nat)) (i : nat) : Z := fst (nth i F (0, [])).
Definition keep_interval (dim_max : nat) (x : interval) : bool :=
  let '(d, b, e) := x in
  (d <=? dim_max)%nat && match e with Some z => negb (z =? b) | None => true end.
(* run-time check that the order is a filtration order: every face has a smaller index than its coface *)
Definition faces_precede (cols : list (list (nat * Z))) : bool :=
  forallb (fun jc => forallb (fun rc => (fst rc <? fst jc)%nat) (snd jc)) (combine (seq 0 (length cols)) cols).
(* None = a face is missing or does not precede its coface (cannot happen for a flag complex ordered by diameter) or the
   certificate of the reduction failed *)
Definition barcode (p : Z) (M : dmatrix) (T : option Z) (n dim_max : nat) : option (list interval) :=
  let F := filtration M T n dim_max in
  match boundary_matrix F with
  | None => None
  | Some cols =>
    if negb (faces_precede cols) then None else
    match certified_lows p (dense_of_sparse (length F) cols) with
    | None => None
    | Some l =>
      Some (filter (keep_interval dim_max)
             (map (fun bd => (dim_of F (fst bd), val_of F (fst bd),
                              match snd bd with Some j => Some (val_of F j) | None => None end))
                  (pairs_of_lows l)))
    end
  end.
Definition num_simplices (M : dmatrix) (T : option Z) (n dim_max : nat) : nat := length (simplices M T n dim_max).

(* enclosing radius of a dense dissimilarity: min over i of max over j of d(i,j)  (d(i,i) = 0 is the matrix diagonal) *)
Definition row_max (M : dmatrix) (n i : nat) : Z := fold_left (fun a j => Z.max a (dget M i j)) (seq 0 n) 0.
Definition enclosing_radius (M : dmatrix) (n : nat) : option Z :=
  fold_left (fun a i => match a with None => Some (row_max M n i) | Some t => Some (Z.min t (row_max M n i)) end)
            (seq 0 n) None.

(* ================================================================== leaf algorithm models *)
(* ---- Compressed_distance_matrix: init_rows.  rows[i] as an offset into [distances].
   LOWER: pointer = 0; for i = 1..n-1: rows[i] = pointer; pointer += i
   UPPER: pointer = -1; for i = 0..n-2: rows[i] = pointer; pointer += n - i - 2 *)
Fixpoint lower_off (i : nat) : Z :=
  match i with O => 0 | S i' => lower_off i' + Z.of_nat i' end.
Fixpoint upper_off (n : Z) (i : nat) : Z :=
  match i with O => -1 | S i' => upper_off n i' + (n - Z.of_nat i' - 2) end.
(* operator()(i,j): None = the diagonal (returns 0), Some k = distances[k] *)
Definition cm_index (lower : bool) (n : nat) (i j : nat) : option Z :=
  if (i =? j)%nat then None
  else if lower then
    if (i <? j)%nat then Some (lower_off j + Z.of_nat i) else Some (lower_off i + Z.of_nat j)
  else
    if (j <? i)%nat then Some (upper_off (Z.of_nat n) j + Z.of_nat i) else Some (upper_off (Z.of_nat n) i + Z.of_nat j).

(* ---- log2up(n): --n; k = 0; while (n > 0) { n >>= 1; ++k; } *)
Fixpoint bitlen (p : positive) : Z :=
  match p with xH => 1 | xO q => 1 + bitlen q | xI q => 1 + bitlen q end.
Definition log2up (n : Z) : Z := match n - 1 with Zpos p => bitlen p | _ => 0 end.

(* ---- Bitfield_encoding (b = bits_per_vertex) *)
Definition bf_enc (b : Z) (v : Z) (k : Z) : Z := if k =? 0 then 1 else Z.shiftl v (b * (k - 1)).
Definition bf_get_max (b : Z) (idx : Z) (k : Z) : Z := Z.shiftr idx (b * (k - 1)).

(* ---- Cns_encoding: the binomial coefficients C(i,j) (specification of the table B[j][i]) *)
Fixpoint binom (i j : nat) : Z :=
  match i, j with
  | _, O => 1
  | O, S _ => 0
  | S i', S j' => binom i' j' + binom i' j
  end.
(* the table as the constructor fills it: row i from row i-1 by B[j][i] = B[j-1][i-1] + B[j][i-1]
   (the C++ keeps only the columns j <= k; the entries agree where both exist) *)
Fixpoint zip_add (a b : list Z) : list Z :=
  match a, b with x :: a', y :: b' => (x + y) :: zip_add a' b' | _, _ => [] end.
Fixpoint pascal_row (i : nat) : list Z :=
  match i with O => [1] | S i' => let r := pascal_row i' in zip_add (0 :: r) (r ++ [0]) end.
Definition binom_tab (i j : nat) : Z := nth j (pascal_row i) 0.
Definition cns_enc (v : Z) (k : Z) : Z := binom_tab (Z.to_nat v) (Z.to_nat k).
(* the constructor on a W-bit unsigned type (W = 2^128): every addition wraps; after filling row i >= 2 it compares the entry
   B[mi][i], mi = min(i/2, k), with B[mi][i-1] and throws overflow_error when it decreased.  None = thrown.
   (The C++ keeps the columns j <= k only; column j of a row depends on the columns j-1, j of the previous row.) *)
Definition wrap_row (W : Z) (r : list Z) : list Z := map (fun x => x mod W) (zip_add (0 :: r) (r ++ [0])).
Fixpoint cns_ctor_rows (W : Z) (k : nat) (i : nat) : option (list Z) :=
  match i with
  | O => Some [1]
  | S i' =>
    match cns_ctor_rows W k i' with
    | None => None
    | Some r =>
      let r' := wrap_row W r in
      let mi := Nat.min (S i' / 2) k in
      if (1 <? S i')%nat && (nth mi r' 0 <? nth mi r 0) then None else Some r'
    end
  end.
Definition cns_ctor_ok (k n : nat) : bool :=
  match cns_ctor_rows (2 ^ 128) k n with Some _ => true | None => false end.

(* get_max(top, bottom, pred): binary search of the largest w in [bottom, top] with pred w *)
Fixpoint get_max_loop (fuel : nat) (pred : Z -> bool) (top count : Z) : Z :=
  match fuel with
  | O => top
  | S f =>
    if 0 <? count then
      let step := Z.shiftr count 1 in
      let mid := top - step in
      if negb (pred mid) then get_max_loop f pred (mid - 1) (count - (step + 1))
      else get_max_loop f pred top step
    else top
  end.
Definition get_max (top bottom : Z) (pred : Z -> bool) : Z :=
  if negb (pred top) then get_max_loop (S (Z.to_nat (top - bottom))) pred top (top - bottom) else top.
Definition cns_get_max (idx : Z) (k : Z) (n : Z) : Z :=
  get_max n (k - 1) (fun w => cns_enc w k <=? idx).

(* ---- the two encodings behind one interface *)
Inductive encoding := Bitfield (b : Z) | Cns.
Definition enc (e : encoding) (v k : Z) : Z :=
  match e with Bitfield b => bf_enc b v k | Cns => cns_enc v k end.
Definition enc_get_max (e : encoding) (idx k n : Z) : Z :=
  match e with Bitfield b => bf_get_max b idx k | Cns => cns_get_max idx k n end.

(* index of the simplex v_1 < v_2 < ... < v_k (given in increasing order): sum of enc(v_i, i) *)
Fixpoint simplex_index_from (e : encoding) (pos : Z) (vs : list Z) : Z :=
  match vs with [] => 0 | v :: r => enc e v pos + simplex_index_from e (pos + 1) r end.
Definition simplex_index (e : encoding) (vs : list Z) : Z := simplex_index_from e 1 vs.
(* get_simplex_vertices(idx, dim, n, out): --n; for k = dim+1 .. 2: n = get_max_vertex(idx, k, n); out n; idx -= enc(n,k);
   last vertex = idx.   Vertices come out in decreasing order; [decode] returns them in increasing order. *)
Fixpoint decode_loop (e : encoding) (k : nat) (idx n : Z) (acc : list Z) : list Z :=
  match k with
  | O => acc
  | S O => idx :: acc
  | S k' =>
    let v := enc_get_max e idx (Z.of_nat k) n in
    decode_loop e k' (idx - enc e v (Z.of_nat k)) v (v :: acc)
  end.
Definition decode (e : encoding) (idx : Z) (nverts : nat) (n : Z) : list Z := decode_loop e nverts idx (n - 1) [].

(* ---- entry_with_coeff_t: content = (index << c) | (coefficient - 1) *)
Definition pack (c : Z) (idx coeff : Z) : Z := Z.lor (Z.shiftl idx c) (coeff - 1).
Definition unpack_index (c : Z) (content : Z) : Z := Z.shiftr content c.
Definition unpack_coeff (c : Z) (content : Z) : Z := Z.land content (Z.shiftl 1 c - 1) + 1.

(* ---- help1: the dispatcher *)
Inductive choice := B64 | B128 | C128.
(* dim_max is clamped to n - 2 and to what dimension_t = int8_t can hold (dim_max + 2 <= 127) *)
Definition dim_limit : Z := 125.
Definition clamp_dim (n dim_max : Z) : Z :=
  let d := if n - 2 <? dim_max then n - 2 else dim_max in
  if dim_limit <? d then dim_limit else d.
Definition bitfield_size (n dim_max modulus : Z) : Z :=
  log2up n * (clamp_dim n dim_max + 2) + log2up (modulus - 1).
Definition dispatch (n dim_max modulus : Z) : choice :=
  let s := bitfield_size n dim_max modulus in
  if s <=? 64 then B64 else if s <=? 128 then B128 else C128.
Definition width (c : choice) : Z := match c with B64 => 64 | _ => 128 end.
Definition encoding_of (c : choice) (n : Z) : encoding :=
  match c with C128 => Cns | _ => Bitfield (log2up n) end.
(* spare bits left for the coefficient (num_extra_bits): bitfield: W - b*k; cns: W - log2up(C(n, min(n/2,k)) + 1) *)
Definition extra_bits (c : choice) (n k : Z) : Z :=
  match c with
  | C128 => 128 - log2up (binom_tab (Z.to_nat n) (Z.to_nat (Z.min (Z.shiftr n 1) k)) + 1)
  | _ => width c - log2up n * k
  end.
