(* C11 - proofs about the leaf algorithm models of C11_Model.v (all unbounded). *)
From Coq Require Import ZArith List Bool Arith Lia ZifyBool.
Require Import Reduce ReduceExec C11_Model.
Import ListNotations.
Local Open Scope Z_scope.

(* ================================================================== A. Compressed_distance_matrix *)
Lemma lower_off_closed i : 2 * lower_off i = Z.of_nat i * (Z.of_nat i - 1).
Proof. induction i as [|i IH]; cbn [lower_off]; [reflexivity|nia]. Qed.

Lemma upper_off_closed n i : 2 * upper_off n i = Z.of_nat i * (2 * n - Z.of_nat i - 3) - 2.
Proof. induction i as [|i IH]; cbn [upper_off]; [reflexivity|nia]. Qed.

Theorem cm_diag l n i : cm_index l n i i = None.
Proof. unfold cm_index. rewrite Nat.eqb_refl. reflexivity. Qed.

Theorem cm_sym l n i j : cm_index l n i j = cm_index l n j i.
Proof.
  unfold cm_index. destruct (Nat.eqb_spec i j) as [->|Hne].
  - rewrite Nat.eqb_refl. reflexivity.
  - destruct (Nat.eqb_spec j i) as [->|_]; [congruence|].
    destruct l; destruct (Nat.ltb_spec i j); destruct (Nat.ltb_spec j i); try reflexivity; lia.
Qed.

(* off the diagonal an entry of [distances] is addressed, inside the vector of n(n-1)/2 values *)
Theorem cm_range l n i j : (i < n)%nat -> (j < n)%nat -> i <> j ->
  exists k, cm_index l n i j = Some k /\ 0 <= k /\ 2 * k + 2 <= Z.of_nat n * (Z.of_nat n - 1).
Proof.
  intros Hi Hj Hne. unfold cm_index. destruct (Nat.eqb_spec i j); [contradiction|].
  destruct l.
  - destruct (Nat.ltb_spec i j).
    + eexists; split; [reflexivity|]. pose proof (lower_off_closed j). nia.
    + eexists; split; [reflexivity|]. pose proof (lower_off_closed i). nia.
  - destruct (Nat.ltb_spec j i).
    + eexists; split; [reflexivity|]. pose proof (upper_off_closed (Z.of_nat n) j). nia.
    + eexists; split; [reflexivity|]. pose proof (upper_off_closed (Z.of_nat n) i). nia.
Qed.

(* two different unordered pairs never share a cell *)
Theorem cm_inj l n i j i' j' : (i < j < n)%nat -> (i' < j' < n)%nat ->
  cm_index l n i j = cm_index l n i' j' -> i = i' /\ j = j'.
Proof.
  intros H H'. unfold cm_index.
  destruct (Nat.eqb_spec i j); [lia|]. destruct (Nat.eqb_spec i' j'); [lia|].
  destruct l.
  - destruct (Nat.ltb_spec i j); [|lia]. destruct (Nat.ltb_spec i' j'); [|lia].
    intros E. injection E as E.
    pose proof (lower_off_closed j). pose proof (lower_off_closed j').
    assert (j = j') by nia. subst. lia.
  - destruct (Nat.ltb_spec j i); [lia|]. destruct (Nat.ltb_spec j' i'); [lia|].
    intros E. injection E as E.
    pose proof (upper_off_closed (Z.of_nat n) i). pose proof (upper_off_closed (Z.of_nat n) i').
    assert (i = i') by nia. subst. lia.
Qed.

(* every cell of the vector is the cell of some pair *)
Lemma lower_surj n : forall k, 0 <= k -> 2 * k + 2 <= Z.of_nat n * (Z.of_nat n - 1) ->
  exists i j, (i < j < n)%nat /\ lower_off j + Z.of_nat i = k.
Proof.
  induction n as [|n IH]; intros k H0 H1; [lia|].
  destruct (Z_le_gt_dec (2 * k + 2) (Z.of_nat n * (Z.of_nat n - 1))) as [Hle|Hgt].
  - destruct (IH k H0 Hle) as (i & j & Hij & E). exists i, j. split; [lia|exact E].
  - pose proof (lower_off_closed n) as Hc.
    exists (Z.to_nat (k - lower_off n)), n. split; [nia|]. rewrite Z2Nat.id by nia. lia.
Qed.

Lemma upper_surj n m : (S m <= n)%nat -> forall k, 0 <= k -> k < upper_off (Z.of_nat n) m + Z.of_nat m + 1 ->
  exists i j, (i < j < n)%nat /\ upper_off (Z.of_nat n) i + Z.of_nat j = k.
Proof.
  induction m as [|m IH]; intros Hm k H0 H1.
  - cbn [upper_off] in H1. lia.
  - destruct (Z_lt_ge_dec k (upper_off (Z.of_nat n) m + Z.of_nat m + 1)) as [Hlt|Hge].
    + apply IH; [lia|exact H0|exact Hlt].
    + cbn [upper_off] in H1.
      exists m, (Z.to_nat (k - upper_off (Z.of_nat n) m)). split; [lia|]. rewrite Z2Nat.id by lia. lia.
Qed.

Theorem cm_surj l n k : 0 <= k -> 2 * k + 2 <= Z.of_nat n * (Z.of_nat n - 1) ->
  exists i j, (i < j < n)%nat /\ cm_index l n i j = Some k.
Proof.
  intros H0 H1. destruct l.
  - destruct (lower_surj n k H0 H1) as (i & j & Hij & E). exists i, j. split; [exact Hij|].
    unfold cm_index. destruct (Nat.eqb_spec i j); [lia|]. destruct (Nat.ltb_spec i j); [|lia]. rewrite E. reflexivity.
  - destruct n as [|n]; [lia|].
    destruct (upper_surj (S n) n (le_n _) k H0) as (i & j & Hij & E).
    + pose proof (upper_off_closed (Z.of_nat (S n)) n). nia.
    + exists i, j. split; [exact Hij|].
      unfold cm_index. destruct (Nat.eqb_spec i j); [lia|]. destruct (Nat.ltb_spec j i); [lia|]. rewrite E. reflexivity.
Qed.

(* ================================================================== B. log2up *)
Lemma bitlen_pos p : 1 <= bitlen p.
Proof. induction p; cbn [bitlen]; lia. Qed.
Lemma bitlen_spec p : Zpos p < 2 ^ bitlen p.
Proof.
  induction p as [q IH|q IH|]; cbn [bitlen].
  - pose proof (bitlen_pos q). rewrite Z.pow_add_r by lia. change (2 ^ 1) with 2. lia.
  - pose proof (bitlen_pos q). rewrite Z.pow_add_r by lia. change (2 ^ 1) with 2. lia.
  - reflexivity.
Qed.
Lemma log2up_nonneg n : 0 <= log2up n.
Proof. unfold log2up. destruct (n - 1); try lia. pose proof (bitlen_pos p). lia. Qed.
(* every x with 0 <= x < n fits in log2up n bits *)
Theorem log2up_spec n x : 0 <= x < n -> x < 2 ^ log2up n.
Proof.
  intros H. unfold log2up. destruct (n - 1) eqn:E.
  - assert (x = 0) by lia. subst. reflexivity.
  - pose proof (bitlen_spec p). lia.
  - lia.
Qed.

Lemma decode_loop_SS e m idx n acc :
  decode_loop e (S (S m)) idx n acc =
  decode_loop e (S m) (idx - enc e (enc_get_max e idx (Z.of_nat (S (S m))) n) (Z.of_nat (S (S m))))
              (enc_get_max e idx (Z.of_nat (S (S m))) n) (enc_get_max e idx (Z.of_nat (S (S m))) n :: acc).
Proof. reflexivity. Qed.

(* ================================================================== C. Bitfield_encoding and the coefficient packing *)
Section Bitfield.
Variable b : Z.
Hypothesis Hb : 0 <= b.

(* little-endian value in base 2^b *)
Fixpoint val (vs : list Z) : Z := match vs with [] => 0 | v :: r => v + 2 ^ b * val r end.
Definition digits (vs : list Z) : Prop := forall v, In v vs -> 0 <= v < 2 ^ b.

Lemma pow_b_pos : 0 < 2 ^ b. Proof. apply Z.pow_pos_nonneg; lia. Qed.

Lemma val_bound vs : digits vs -> 0 <= val vs < 2 ^ (b * Z.of_nat (length vs)).
Proof.
  induction vs as [|v r IH]; intros Hd.
  - cbn. rewrite Z.mul_0_r. cbn. lia.
  - assert (Hv : 0 <= v < 2 ^ b) by (apply Hd; left; reflexivity).
    assert (Hr : digits r) by (intros x Hx; apply Hd; right; exact Hx).
    specialize (IH Hr). cbn [val length]. rewrite Nat2Z.inj_succ.
    replace (b * Z.succ (Z.of_nat (length r))) with (b + b * Z.of_nat (length r)) by lia.
    rewrite Z.pow_add_r by nia. pose proof pow_b_pos. nia.
Qed.

Lemma index_from_val vs : forall pos, 1 <= pos ->
  simplex_index_from (Bitfield b) pos vs = 2 ^ (b * (pos - 1)) * val vs.
Proof.
  induction vs as [|v r IH]; intros pos Hp; cbn [simplex_index_from val].
  - lia.
  - rewrite IH by lia. cbn [enc]. unfold bf_enc. destruct (Z.eqb_spec pos 0); [lia|].
    rewrite Z.shiftl_mul_pow2 by nia.
    replace (b * (pos + 1 - 1)) with (b * (pos - 1) + b) by lia. rewrite Z.pow_add_r by nia. ring.
Qed.

Lemma simplex_index_val vs : simplex_index (Bitfield b) vs = val vs.
Proof. unfold simplex_index. rewrite index_from_val by lia. replace (b * (1 - 1)) with 0 by lia. rewrite Z.pow_0_r. lia. Qed.

Lemma val_snoc l x : val (l ++ [x]) = val l + x * 2 ^ (b * Z.of_nat (length l)).
Proof.
  induction l as [|v r IH]; cbn [val app length].
  - change (Z.of_nat 0) with 0. rewrite (Z.mul_0_r b), Z.pow_0_r. lia.
  - rewrite IH. rewrite Nat2Z.inj_succ.
    replace (b * Z.succ (Z.of_nat (length r))) with (b + b * Z.of_nat (length r)) by lia.
    rewrite Z.pow_add_r by nia. ring.
Qed.

Lemma decode_loop_bitfield l : forall acc n, l <> [] -> digits l ->
  decode_loop (Bitfield b) (length l) (val l) n acc = l ++ acc.
Proof.
  induction l as [|x l IH] using rev_ind; intros acc n Hne Hd; [congruence|].
  assert (Hx : 0 <= x < 2 ^ b) by (apply Hd; apply in_or_app; right; left; reflexivity).
  assert (Hl : digits l) by (intros y Hy; apply Hd; apply in_or_app; left; exact Hy).
  rewrite app_length. cbn [length]. rewrite Nat.add_1_r.
  destruct l as [|y l'].
  - cbn [length decode_loop app val]. f_equal. lia.
  - remember (y :: l') as l eqn:El.
    assert (Hlen : length l = S (length l')) by (subst; reflexivity).
    rewrite Hlen. rewrite decode_loop_SS. rewrite <- Hlen.
    cbn [enc_get_max enc]. unfold bf_get_max, bf_enc.
    destruct (Z.eqb_spec (Z.of_nat (S (length l))) 0); [lia|].
    replace (Z.of_nat (S (length l)) - 1) with (Z.of_nat (length l)) by lia.
    rewrite Z.shiftr_div_pow2 by nia.
    pose proof (val_bound l Hl) as Hvb.
    assert (Hpp : 0 < 2 ^ (b * Z.of_nat (length l))) by (apply Z.pow_pos_nonneg; nia).
    assert (Hq : val (l ++ [x]) / 2 ^ (b * Z.of_nat (length l)) = x).
    { rewrite val_snoc. rewrite Z.div_add by lia. rewrite Z.div_small by lia. lia. }
    rewrite Hq. rewrite Z.shiftl_mul_pow2 by nia.
    replace (val (l ++ [x]) - x * 2 ^ (b * Z.of_nat (length l))) with (val l) by (rewrite val_snoc; lia).
    rewrite IH; [|subst; discriminate|exact Hl]. rewrite <- app_assoc. reflexivity.
Qed.

(* encode / decode round trip for ANY tuple of vertices below 2^b, and the index uses b bits per vertex *)
Theorem bitfield_roundtrip vs n : vs <> [] -> digits vs ->
  decode (Bitfield b) (simplex_index (Bitfield b) vs) (length vs) n = vs /\
  0 <= simplex_index (Bitfield b) vs < 2 ^ (b * Z.of_nat (length vs)).
Proof.
  intros Hne Hd. rewrite simplex_index_val. split.
  - unfold decode. rewrite decode_loop_bitfield by assumption. apply app_nil_r.
  - apply val_bound. exact Hd.
Qed.
End Bitfield.

(* entry_with_coeff_t *)
Theorem pack_roundtrip c idx coeff : 0 <= c -> 0 <= idx -> 1 <= coeff <= 2 ^ c ->
  unpack_index c (pack c idx coeff) = idx /\ unpack_coeff c (pack c idx coeff) = coeff.
Proof.
  intros Hc Hi Hco. unfold unpack_index, unpack_coeff, pack.
  assert (Hp : 0 < 2 ^ c) by (apply Z.pow_pos_nonneg; lia).
  split.
  - rewrite Z.shiftr_lor. rewrite Z.shiftr_shiftl_l by lia. rewrite Z.sub_diag, Z.shiftl_0_r.
    rewrite (Z.shiftr_div_pow2 (coeff - 1)) by lia. rewrite Z.div_small by lia. apply Z.lor_0_r.
  - replace (Z.shiftl 1 c - 1) with (Z.ones c) by (unfold Z.ones; lia).
    rewrite Z.land_lor_distr_l. rewrite !Z.land_ones by lia.
    rewrite Z.shiftl_mul_pow2 by lia. rewrite Z.mod_mul by lia. rewrite Z.mod_small by lia.
    rewrite Z.lor_0_l. lia.
Qed.

Theorem pack_bound c w idx coeff : 0 <= c -> 0 <= w -> 0 <= idx < 2 ^ w -> 1 <= coeff <= 2 ^ c ->
  0 <= pack c idx coeff < 2 ^ (w + c).
Proof.
  intros Hc Hw Hi Hco.
  assert (Hp : 0 < 2 ^ c) by (apply Z.pow_pos_nonneg; lia).
  destruct (pack_roundtrip c idx coeff Hc (proj1 Hi) Hco) as [E _].
  unfold unpack_index in E. rewrite Z.shiftr_div_pow2 in E by lia.
  assert (Hnn : 0 <= pack c idx coeff).
  { unfold pack. apply Z.lor_nonneg. split; [apply Z.shiftl_nonneg; lia|lia]. }
  split; [exact Hnn|]. rewrite Z.pow_add_r by lia.
  pose proof (Z.mod_pos_bound (pack c idx coeff) (2 ^ c) Hp).
  pose proof (Z.div_mod (pack c idx coeff) (2 ^ c)). nia.
Qed.

(* ================================================================== D. the binary search get_max *)
Section GetMax.
Variable pred : Z -> bool.
(* pred is downward closed: once false, false above *)
Hypothesis Hmono : forall w w', w <= w' -> pred w = false -> pred w' = false.

Lemma get_max_loop_spec top0 : forall fuel top count,
  0 <= count -> (Z.to_nat count < fuel)%nat -> pred (top - count) = true -> top <= top0 ->
  (forall w, top < w <= top0 -> pred w = false) ->
  let r := get_max_loop fuel pred top count in
  top - count <= r <= top /\ pred r = true /\ forall w, r < w <= top0 -> pred w = false.
Proof.
  induction fuel as [|f IH]; intros top count Hc Hf Hlow Htop Habove; [lia|].
  cbn [get_max_loop]. destruct (Z.ltb_spec 0 count) as [Hpos|Hz].
  - rewrite Z.shiftr_div_pow2 by lia. change (2 ^ 1) with 2.
    assert (Hs : 0 <= count / 2 < count) by (split; [apply Z.div_pos; lia|apply Z.div_lt; lia]).
    destruct (pred (top - count / 2)) eqn:Em; cbn [negb].
    + (* pred mid: keep top, count := step *)
      destruct (IH top (count / 2)) as (A & B & C); try lia; try assumption.
      cbv zeta. split; [lia|]. split; assumption.
    + (* not pred mid: top := mid - 1 *)
      destruct (IH (top - count / 2 - 1) (count - (count / 2 + 1))) as (A & B & C); try lia.
      * replace (top - count / 2 - 1 - (count - (count / 2 + 1))) with (top - count) by lia. exact Hlow.
      * intros w Hw. destruct (Z_le_gt_dec w top).
        -- apply (Hmono (top - count / 2) w); [lia|exact Em].
        -- apply Habove. lia.
      * cbv zeta. split; [lia|]. split; assumption.
  - assert (count = 0) by lia. subst count. cbv zeta. rewrite Z.sub_0_r in Hlow.
    split; [lia|]. split; assumption.
Qed.

(* get_max returns the largest w of [bottom, top] satisfying pred *)
Theorem get_max_spec top bottom : bottom <= top -> pred bottom = true ->
  let r := get_max top bottom pred in
  bottom <= r <= top /\ pred r = true /\ forall w, r < w <= top -> pred w = false.
Proof.
  intros Hbt Hb. unfold get_max. destruct (pred top) eqn:Et; cbn [negb]; cbv zeta.
  - split; [lia|]. split; [exact Et|]. intros w Hw. lia.
  - destruct (get_max_loop_spec top (S (Z.to_nat (top - bottom))) top (top - bottom)) as (A & B & C); try lia.
    + replace (top - (top - bottom)) with bottom by lia. exact Hb.
    + cbv zeta in A, B, C. split; [lia|]. split; assumption.
Qed.
End GetMax.

(* ================================================================== E. binomial table and the combinatorial number system *)
Lemma binom_0 i : binom i 0 = 1.
Proof. destruct i; reflexivity. Qed.
Lemma binom_nonneg i : forall j, 0 <= binom i j.
Proof.
  induction i as [|i IH]; intros [|j]; cbn [binom]; try lia.
  pose proof (IH j). pose proof (IH (S j)). lia.
Qed.
Lemma binom_gt i : forall j, (i < j)%nat -> binom i j = 0.
Proof.
  induction i as [|i IH]; intros [|j] H; cbn [binom]; try lia.
  rewrite (IH j) by lia. rewrite (IH (S j)) by lia. reflexivity.
Qed.
Lemma binom_1 i : binom i 1 = Z.of_nat i.
Proof. induction i as [|i IH]; [reflexivity|]. cbn [binom]. rewrite binom_0. fold (binom i 1). rewrite IH. lia. Qed.
Lemma binom_step i j : binom i j <= binom (S i) j.
Proof. destruct j as [|j]; [rewrite !binom_0; lia|]. cbn [binom]. pose proof (binom_nonneg i j). lia. Qed.
Lemma binom_mono i i' j : (i <= i')%nat -> binom i j <= binom i' j.
Proof. induction 1 as [|m _ IH]; [lia|]. pose proof (binom_step m j). lia. Qed.

(* the table filled by Pascal's rule holds the binomial coefficients *)
Lemma zip_add_nth a : forall b j, length a = length b -> nth j (zip_add a b) 0 = nth j a 0 + nth j b 0.
Proof.
  induction a as [|x a IH]; intros [|y b] j H; cbn in H; try discriminate.
  - destruct j; reflexivity.
  - destruct j; cbn [zip_add nth]; [reflexivity|]. apply IH. lia.
Qed.
Lemma zip_add_length a : forall b, length a = length b -> length (zip_add a b) = length a.
Proof. induction a as [|x a IH]; intros [|y b] H; cbn in *; try discriminate; [reflexivity|]. rewrite IH; lia. Qed.
Lemma pascal_row_length i : length (pascal_row i) = S i.
Proof.
  induction i as [|i IH]; [reflexivity|]. cbn [pascal_row].
  rewrite zip_add_length; cbn [length]; rewrite ?app_length; cbn [length]; lia.
Qed.
Lemma nth_app_zero r : forall k, nth k (r ++ [0]) 0 = nth k r 0.
Proof. induction r as [|x r IH]; intros k; [destruct k as [|[|k]]; reflexivity|]. destruct k; cbn [app nth]; [reflexivity|apply IH]. Qed.
Theorem binom_tab_eq i : forall j, binom_tab i j = binom i j.
Proof.
  unfold binom_tab. induction i as [|i IH]; intros j.
  - destruct j as [|[|j]]; reflexivity.
  - cbn [pascal_row]. rewrite zip_add_nth by (cbn [length]; rewrite app_length, pascal_row_length; cbn [length]; lia).
    rewrite nth_app_zero. destruct j as [|j]; cbn [nth]; rewrite !IH.
    + rewrite binom_0. reflexivity.
    + reflexivity.
Qed.

Lemma cns_enc_binom v k : cns_enc v k = binom (Z.to_nat v) (Z.to_nat k).
Proof. unfold cns_enc. apply binom_tab_eq. Qed.

(* strictly increasing lists of integers >= lo *)
Fixpoint increasing (lo : Z) (vs : list Z) : Prop :=
  match vs with [] => True | v :: r => lo <= v /\ increasing (v + 1) r end.
Lemma increasing_snoc l : forall lo x,
  increasing lo (l ++ [x]) <-> increasing lo l /\ lo <= x /\ forall y, In y l -> y < x.
Proof.
  induction l as [|v r IH]; intros lo x; cbn [app increasing].
  - split; [intros [H _]; repeat split; [exact H|intros y []]|intros (_ & H & _); split; [exact H|exact I]].
  - rewrite IH. split.
    + intros (A & B & C & D). repeat split; try assumption; try lia. intros y [<-|Hy]; [lia|apply D; exact Hy].
    + intros ((A & B) & C & D). repeat split; try assumption.
      * specialize (D v (or_introl eq_refl)). lia.
      * intros y Hy. apply D. right. exact Hy.
Qed.
Lemma increasing_snoc_lb l : forall lo x, increasing lo (l ++ [x]) -> lo + Z.of_nat (length l) <= x.
Proof.
  induction l as [|v r IH]; intros lo x; cbn [app increasing length].
  - lia.
  - intros [A B]. specialize (IH _ _ B). lia.
Qed.

Lemma index_from_snoc e l : forall pos x,
  simplex_index_from e pos (l ++ [x]) = simplex_index_from e pos l + enc e x (pos + Z.of_nat (length l)).
Proof.
  induction l as [|v r IH]; intros pos x; cbn [app simplex_index_from length].
  - replace (pos + Z.of_nat 0) with pos by lia. lia.
  - rewrite IH. replace (pos + 1 + Z.of_nat (length r)) with (pos + Z.of_nat (S (length r))) by lia. lia.
Qed.
Lemma cns_index_snoc l x :
  simplex_index Cns (l ++ [x]) = simplex_index Cns l + binom (Z.to_nat x) (S (length l)).
Proof.
  unfold simplex_index. rewrite index_from_snoc. cbn [enc]. rewrite cns_enc_binom.
  replace (Z.to_nat (1 + Z.of_nat (length l))) with (S (length l)) by lia. reflexivity.
Qed.

Lemma cns_bound l : forall x, increasing 0 (l ++ [x]) ->
  0 <= simplex_index Cns (l ++ [x]) < binom (S (Z.to_nat x)) (S (length l)).
Proof.
  induction l as [|y l IH] using rev_ind; intros x H.
  - cbn [app] in *. destruct H as [H _]. unfold simplex_index. cbn [simplex_index_from enc length].
    rewrite cns_enc_binom. change (Z.to_nat 1) with 1%nat. rewrite !binom_1. lia.
  - apply increasing_snoc in H. destruct H as (H1 & H2 & H3).
    specialize (IH y H1). rewrite cns_index_snoc.
    assert (Hy : y < x) by (apply H3; apply in_or_app; right; left; reflexivity).
    assert (Hy0 : 0 <= y) by (pose proof (increasing_snoc_lb l 0 y H1); lia).
    rewrite app_length. cbn [length]. rewrite Nat.add_1_r.
    pose proof (binom_mono (S (Z.to_nat y)) (Z.to_nat x) (S (length l)) ltac:(lia)).
    pose proof (binom_nonneg (Z.to_nat x) (S (S (length l)))).
    change (binom (S (Z.to_nat x)) (S (S (length l))))
      with (binom (Z.to_nat x) (S (length l)) + binom (Z.to_nat x) (S (S (length l)))).
    lia.
Qed.

Lemma decode_loop_cns l : forall x acc top, increasing 0 (l ++ [x]) -> x <= top ->
  decode_loop Cns (length (l ++ [x])) (simplex_index Cns (l ++ [x])) top acc = (l ++ [x]) ++ acc.
Proof.
  induction l as [|y l IH] using rev_ind; intros x acc top H Htop.
  - cbn [app length decode_loop] in *. destruct H as [H _]. unfold simplex_index. cbn [simplex_index_from enc].
    rewrite cns_enc_binom. change (Z.to_nat 1) with 1%nat. rewrite binom_1. f_equal. lia.
  - pose proof H as Hall. apply increasing_snoc in H. destruct H as (H1 & H2 & H3).
    assert (Hy : y < x) by (apply H3; apply in_or_app; right; left; reflexivity).
    pose proof (increasing_snoc_lb _ 0 x Hall) as Hlb.
    pose proof (cns_bound _ x Hall) as Hb. pose proof (cns_bound _ y H1) as Hb1.
    rewrite app_length in Hlb, Hb. cbn [length] in Hlb, Hb. rewrite Nat.add_1_r in Hb.
    set (idx := simplex_index Cns ((l ++ [y]) ++ [x])) in *.
    assert (Hidx : idx = simplex_index Cns (l ++ [y]) + binom (Z.to_nat x) (S (S (length l)))).
    { unfold idx. rewrite cns_index_snoc. rewrite app_length. cbn [length]. rewrite Nat.add_1_r. reflexivity. }
    rewrite (app_length (l ++ [y])). rewrite app_length. cbn [length]. rewrite !Nat.add_1_r.
    rewrite decode_loop_SS. cbn [enc_get_max enc].
    set (k := Z.of_nat (S (S (length l)))).
    assert (Hk : Z.to_nat k = S (S (length l))) by (unfold k; lia).
    (* the binary search returns x *)
    assert (Hgm : cns_get_max idx k top = x).
    { unfold cns_get_max.
      pose proof (get_max_spec (fun w => cns_enc w k <=? idx)) as G. cbv zeta in G.
      destruct (G) with (top := top) (bottom := k - 1) as (A & B & C).
      - intros w w' Hw E. apply Z.leb_gt in E. apply Z.leb_gt. rewrite !cns_enc_binom in *.
        pose proof (binom_mono (Z.to_nat w) (Z.to_nat w') (Z.to_nat k) ltac:(lia)). lia.
      - unfold k. lia.
      - apply Z.leb_le. rewrite cns_enc_binom, Hk. rewrite binom_gt by (unfold k; lia). lia.
      - set (r := get_max top (k - 1) (fun w => cns_enc w k <=? idx)) in *.
        apply Z.leb_le in B. rewrite cns_enc_binom, Hk in B.
        destruct (Z_lt_le_dec r x) as [Hlt|Hge].
        + specialize (C x ltac:(lia)). apply Z.leb_gt in C. rewrite cns_enc_binom, Hk in C. lia.
        + destruct (Z.eq_dec r x) as [E|Hne]; [exact E|]. exfalso.
          pose proof (binom_mono (S (Z.to_nat x)) (Z.to_nat r) (S (S (length l))) ltac:(lia)). lia. }
    rewrite Hgm. rewrite cns_enc_binom, Hk.
    replace (idx - binom (Z.to_nat x) (S (S (length l)))) with (simplex_index Cns (l ++ [y])) by lia.
    replace (S (length l)) with (length (l ++ [y])) by (rewrite app_length; cbn [length]; lia).
    rewrite IH; [|exact H1|lia]. rewrite <- !app_assoc. reflexivity.
Qed.

(* the combinatorial number system: round trip and range, for every simplex on vertices < n *)
Theorem cns_roundtrip vs n : vs <> [] -> increasing 0 vs -> (forall v, In v vs -> v < n) ->
  decode Cns (simplex_index Cns vs) (length vs) n = vs /\
  0 <= simplex_index Cns vs < binom (Z.to_nat n) (length vs).
Proof.
  intros Hne Hinc Hlt. destruct (exists_last Hne) as (l & x & ->).
  assert (Hx : x < n) by (apply Hlt; apply in_or_app; right; left; reflexivity).
  split.
  - unfold decode. rewrite decode_loop_cns; [apply app_nil_r|exact Hinc|lia].
  - pose proof (cns_bound l x Hinc) as Hb. rewrite app_length. cbn [length]. rewrite Nat.add_1_r.
    pose proof (increasing_snoc_lb l 0 x Hinc).
    pose proof (binom_mono (S (Z.to_nat x)) (Z.to_nat n) (S (length l)) ltac:(lia)). lia.
Qed.

(* hence two different simplices of the same dimension have different indices *)
Theorem cns_injective vs ws n : vs <> [] -> ws <> [] -> increasing 0 vs -> increasing 0 ws ->
  (forall v, In v vs -> v < n) -> (forall v, In v ws -> v < n) -> length vs = length ws ->
  simplex_index Cns vs = simplex_index Cns ws -> vs = ws.
Proof.
  intros H1 H2 I1 I2 L1 L2 Hl E.
  destruct (cns_roundtrip vs n H1 I1 L1) as [R1 _]. destruct (cns_roundtrip ws n H2 I2 L2) as [R2 _].
  rewrite <- R1, <- R2, E, Hl. reflexivity.
Qed.

(* ================================================================== F. the dispatcher's budget *)
Lemma dispatch_budget n dim_max modulus :
  dispatch n dim_max modulus <> C128 ->
  log2up n * (clamp_dim n dim_max + 2) + log2up (modulus - 1) <= width (dispatch n dim_max modulus).
Proof.
  unfold dispatch, bitfield_size.
  destruct (Z.leb_spec (log2up n * (clamp_dim n dim_max + 2) + log2up (modulus - 1)) 64); [cbn [width]; lia|].
  destruct (Z.leb_spec (log2up n * (clamp_dim n dim_max + 2) + log2up (modulus - 1)) 128); [cbn [width]; lia|].
  congruence.
Qed.

(* whenever help1 selects a bitfield encoding (64 or 128 bits), every simplex with at most dim_max+2 vertices below n,
   packed with any non-zero coefficient, fits the chosen word without overflow and is read back exactly *)
Theorem dispatch_no_overflow n dim_max modulus vs coeff :
  2 <= modulus -> dispatch n dim_max modulus <> C128 ->
  vs <> [] -> Z.of_nat (length vs) <= clamp_dim n dim_max + 2 ->
  (forall v, In v vs -> 0 <= v < n) -> 1 <= coeff <= modulus - 1 ->
  let c := dispatch n dim_max modulus in
  let e := encoding_of c n in
  let cb := log2up (modulus - 1) in
  let idx := simplex_index e vs in
  let content := pack cb idx coeff in
  0 <= idx < 2 ^ (width c - cb) /\ 0 <= content < 2 ^ width c /\
  unpack_index cb content = idx /\ unpack_coeff cb content = coeff /\
  decode e (unpack_index cb content) (length vs) n = vs.
Proof.
  intros Hm Hc Hne Hlen Hv Hco. cbv zeta.
  pose proof (dispatch_budget n dim_max modulus Hc) as Hbud.
  set (c := dispatch n dim_max modulus) in *.
  assert (He : encoding_of c n = Bitfield (log2up n)) by (destruct c; [reflexivity|reflexivity|congruence]).
  rewrite He.
  pose proof (log2up_nonneg n) as Hb. pose proof (log2up_nonneg (modulus - 1)) as Hcb.
  set (b := log2up n) in *. set (cb := log2up (modulus - 1)) in *.
  assert (Hd : digits b vs) by (intros v Hin; specialize (Hv v Hin); split; [lia|apply log2up_spec; lia]).
  destruct (bitfield_roundtrip b Hb vs n Hne Hd) as [Hrt Hrange].
  assert (Hcoef : 1 <= coeff <= 2 ^ cb).
  { split; [lia|]. pose proof (log2up_spec (modulus - 1) (coeff - 1) ltac:(lia)). fold cb in H. lia. }
  assert (Hk : b * Z.of_nat (length vs) <= width c - cb) by nia.
  assert (Hlen0 : 0 <= b * Z.of_nat (length vs)) by nia.
  assert (Hidx : 0 <= simplex_index (Bitfield b) vs < 2 ^ (width c - cb)).
  { split; [lia|]. apply Z.lt_le_trans with (2 ^ (b * Z.of_nat (length vs))); [lia|].
    apply Z.pow_le_mono_r; lia. }
  destruct (pack_roundtrip cb (simplex_index (Bitfield b) vs) coeff Hcb (proj1 Hidx) Hcoef) as [U1 U2].
  pose proof (pack_bound cb (width c - cb) (simplex_index (Bitfield b) vs) coeff Hcb ltac:(lia) Hidx Hcoef) as Hpb.
  replace (width c - cb + cb) with (width c) in Hpb by lia.
  repeat split; try lia; try assumption. rewrite U1. exact Hrt.
Qed.

(* with the combinatorial number system: if the coefficient bits fit next to C(n, |vs|) (what num_extra_bits guarantees for
   the largest table entry), nothing overflows 128 bits and the entry is read back exactly *)
Theorem cns_no_overflow n modulus vs coeff :
  2 <= modulus -> vs <> [] -> increasing 0 vs -> (forall v, In v vs -> v < n) -> 1 <= coeff <= modulus - 1 ->
  let cb := log2up (modulus - 1) in
  binom (Z.to_nat n) (length vs) <= 2 ^ (128 - cb) -> cb <= 128 ->
  let idx := simplex_index Cns vs in
  let content := pack cb idx coeff in
  0 <= content < 2 ^ 128 /\ unpack_index cb content = idx /\ unpack_coeff cb content = coeff /\
  decode Cns (unpack_index cb content) (length vs) n = vs.
Proof.
  intros Hm Hne Hinc Hv Hco. cbv zeta. intros Hfit Hcb128.
  pose proof (log2up_nonneg (modulus - 1)) as Hcb. set (cb := log2up (modulus - 1)) in *.
  destruct (cns_roundtrip vs n Hne Hinc Hv) as [Hrt Hrange].
  assert (Hcoef : 1 <= coeff <= 2 ^ cb).
  { split; [lia|]. pose proof (log2up_spec (modulus - 1) (coeff - 1) ltac:(lia)). fold cb in H. lia. }
  assert (Hidx : 0 <= simplex_index Cns vs < 2 ^ (128 - cb)) by lia.
  destruct (pack_roundtrip cb (simplex_index Cns vs) coeff Hcb (proj1 Hidx) Hcoef) as [U1 U2].
  pose proof (pack_bound cb (128 - cb) (simplex_index Cns vs) coeff Hcb ltac:(lia) Hidx Hcoef) as Hpb.
  replace (128 - cb + cb) with 128 in Hpb by lia.
  repeat split; try lia; try assumption. rewrite U1. exact Hrt.
Qed.

(* every number below C(n,k) is the index of a k-subset of [0,n): with cns_roundtrip, a bijection *)
Theorem cns_surjective (k : nat) : forall (n N : Z), (1 <= k)%nat -> 0 <= N < binom (Z.to_nat n) k ->
  exists vs, length vs = k /\ increasing 0 vs /\ (forall v, In v vs -> v < n) /\ simplex_index Cns vs = N.
Proof.
  induction k as [|k IH]; intros n N Hk HN; [lia|].
  destruct k as [|k'].
  - rewrite binom_1 in HN. exists [N]. split; [reflexivity|]. split; [cbn; lia|]. split.
    + intros v [<-|[]]. lia.
    + unfold simplex_index. cbn [simplex_index_from enc]. rewrite cns_enc_binom.
      change (Z.to_nat 1) with 1%nat. rewrite binom_1. lia.
  - assert (HnK : (S (S k') <= Z.to_nat n)%nat).
    { destruct (le_lt_dec (S (S k')) (Z.to_nat n)) as [H|H]; [exact H|]. rewrite binom_gt in HN by exact H. lia. }
    pose proof (get_max_spec (fun w => binom (Z.to_nat w) (S (S k')) <=? N)) as G. cbv zeta in G.
    destruct G with (top := n - 1) (bottom := Z.of_nat (S (S k')) - 1) as (A & B & C).
    + intros w w' Hw E. apply Z.leb_gt in E. apply Z.leb_gt.
      pose proof (binom_mono (Z.to_nat w) (Z.to_nat w') (S (S k')) ltac:(lia)). lia.
    + lia.
    + apply Z.leb_le. rewrite binom_gt by lia. lia.
    + set (r := get_max (n - 1) (Z.of_nat (S (S k')) - 1) (fun w => binom (Z.to_nat w) (S (S k')) <=? N)) in *.
      apply Z.leb_le in B.
      assert (Hr1 : N < binom (S (Z.to_nat r)) (S (S k'))).
      { destruct (Z.eq_dec r (n - 1)) as [E|Hne].
        - replace (S (Z.to_nat r)) with (Z.to_nat n) by lia. lia.
        - specialize (C (r + 1) ltac:(lia)). apply Z.leb_gt in C.
          replace (Z.to_nat (r + 1)) with (S (Z.to_nat r)) in C by lia. exact C. }
      change (binom (S (Z.to_nat r)) (S (S k'))) with (binom (Z.to_nat r) (S k') + binom (Z.to_nat r) (S (S k'))) in Hr1.
      destruct (IH r (N - binom (Z.to_nat r) (S (S k')))) as (vs & L & I & V & E); [lia|lia|].
      exists (vs ++ [r]). split; [rewrite app_length; cbn [length]; lia|]. split.
      * apply increasing_snoc. split; [exact I|]. split; [lia|exact V].
      * split.
        -- intros v Hin. apply in_app_or in Hin. destruct Hin as [Hin|[<-|[]]]; [specialize (V v Hin); lia|lia].
        -- rewrite cns_index_snoc, E, L. lia.
Qed.

(* ================================================================== G. the largest table entry (unimodality) *)
Lemma binom_ratio n : forall j, (Z.of_nat j + 1) * binom n (S j) = (Z.of_nat n - Z.of_nat j) * binom n j.
Proof.
  induction n as [|n IH]; intros j.
  - destruct j; cbn [binom]; lia.
  - destruct j as [|j].
    + rewrite binom_1, binom_0. lia.
    + pose proof (IH j) as H1. pose proof (IH (S j)) as H2.
      change (binom (S n) (S (S j))) with (binom n (S j) + binom n (S (S j))).
      change (binom (S n) (S j)) with (binom n j + binom n (S j)).
      rewrite !Nat2Z.inj_succ in *. nia.
Qed.
Lemma binom_up n j : (2 * j + 1 <= n)%nat -> binom n j <= binom n (S j).
Proof. intros H. pose proof (binom_ratio n j). pose proof (binom_nonneg n j). pose proof (binom_nonneg n (S j)). nia. Qed.
Lemma binom_down n j : (n <= 2 * j + 1)%nat -> binom n (S j) <= binom n j.
Proof. intros H. pose proof (binom_ratio n j). pose proof (binom_nonneg n j). pose proof (binom_nonneg n (S j)). nia. Qed.
Lemma binom_up_le n j j' : (j <= j')%nat -> (2 * j' <= n)%nat -> binom n j <= binom n j'.
Proof.
  induction 1 as [|m Hm IH]; intros H; [lia|].
  pose proof (binom_up n m ltac:(lia)). specialize (IH ltac:(lia)). lia.
Qed.
Lemma binom_down_le n j j' : (j <= j')%nat -> (n <= 2 * j + 1)%nat -> binom n j' <= binom n j.
Proof.
  induction 1 as [|m Hm IH]; intros H; [lia|].
  pose proof (binom_down n m ltac:(lia)). specialize (IH ltac:(lia)). lia.
Qed.
(* the entry the constructor looks at, C(n, min(n/2, k)), is the largest of the columns 0..k of row n *)
Theorem binom_max_entry n k j : (j <= k)%nat -> binom n j <= binom n (Nat.min (n / 2) k).
Proof.
  intros Hj. pose proof (Nat.div_mod n 2 ltac:(lia)) as Hd. pose proof (Nat.mod_upper_bound n 2 ltac:(lia)) as Hm.
  destruct (le_lt_dec (n / 2) k) as [H|H].
  - rewrite Nat.min_l by exact H. destruct (le_lt_dec j (n / 2)).
    + apply binom_up_le; lia.
    + apply binom_down_le; lia.
  - rewrite Nat.min_r by lia. apply binom_up_le; lia.
Qed.

(* the guard of the Cns constructor / Rips_filtration constructor (num_extra_bits >= coefficient bits) is enough for every
   simplex with at most k vertices *)
Theorem cns_dispatch_no_overflow n k modulus vs coeff :
  2 <= modulus -> 0 <= n -> 0 <= k -> vs <> [] -> increasing 0 vs -> (forall v, In v vs -> v < n) ->
  1 <= coeff <= modulus - 1 -> Z.of_nat (length vs) <= k ->
  let cb := log2up (modulus - 1) in
  cb <= extra_bits C128 n k ->
  let idx := simplex_index Cns vs in
  let content := pack cb idx coeff in
  0 <= content < 2 ^ 128 /\ unpack_index cb content = idx /\ unpack_coeff cb content = coeff /\
  decode Cns (unpack_index cb content) (length vs) n = vs.
Proof.
  intros Hm Hn Hk Hne Hinc Hv Hco Hlen. cbv zeta. intros Hextra.
  apply cns_no_overflow; try assumption.
  - cbn [extra_bits] in Hextra. rewrite binom_tab_eq in Hextra.
    pose proof (log2up_nonneg (modulus - 1)).
    set (B := binom (Z.to_nat n) (Z.to_nat (Z.min (Z.shiftr n 1) k))) in *.
    assert (HB : 0 <= B) by apply binom_nonneg.
    pose proof (log2up_spec (B + 1) B ltac:(lia)) as HlB.
    assert (Hpow : 2 ^ log2up (B + 1) <= 2 ^ (128 - log2up (modulus - 1))) by (apply Z.pow_le_mono_r; lia).
    assert (Hmi : Z.to_nat (Z.min (Z.shiftr n 1) k) = Nat.min (Z.to_nat n / 2) (Z.to_nat k)).
    { rewrite Z.shiftr_div_pow2 by lia. change (2 ^ 1) with 2. rewrite Z2Nat.inj_min. rewrite Z2Nat.inj_div by lia. reflexivity. }
    pose proof (binom_max_entry (Z.to_nat n) (Z.to_nat k) (length vs) ltac:(lia)) as Hmax.
    unfold B in *. rewrite Hmi in *. lia.
  - cbn [extra_bits] in Hextra. pose proof (log2up_nonneg (binom_tab (Z.to_nat n) (Z.to_nat (Z.min (Z.shiftr n 1) k)) + 1)). lia.
Qed.

(* if the inspected entry of the last row fits, every entry of the table (rows 0..n, columns 0..k) fits: no addition wraps *)
Theorem binom_table_bounded n k W : binom n (Nat.min (n / 2) k) < W ->
  forall i j, (i <= n)%nat -> (j <= k)%nat -> 0 <= binom i j < W.
Proof.
  intros H i j Hi Hj. pose proof (binom_nonneg i j). pose proof (binom_mono i n j Hi).
  pose proof (binom_max_entry n k j Hj). lia.
Qed.

(* ================================================================== H. the overflow test of the Cns constructor *)
Definition Mx (k i : nat) : Z := binom i (Nat.min (i / 2) k).
Lemma Mx_mono k i : Mx k i <= Mx k (S i).
Proof.
  unfold Mx. pose proof (binom_mono i (S i) (Nat.min (i / 2) k) ltac:(lia)).
  pose proof (binom_max_entry (S i) k (Nat.min (i / 2) k) (Nat.le_min_r _ _)). lia.
Qed.
Lemma wrap_row_nth W r j : W <> 0 -> nth j (wrap_row W r) 0 = (nth j (0 :: r) 0 + nth j r 0) mod W.
Proof.
  intros HW. unfold wrap_row.
  set (L := zip_add (0 :: r) (r ++ [0])).
  assert (E : nth j (map (fun x => x mod W) L) 0 = (nth j L 0) mod W).
  { rewrite <- (map_nth (fun x => x mod W) L 0 j). cbv beta. rewrite Z.mod_0_l by exact HW. reflexivity. }
  rewrite E. unfold L. rewrite zip_add_nth by (cbn [length]; rewrite app_length; cbn [length]; lia).
  rewrite nth_app_zero. reflexivity.
Qed.

Lemma wrap_row_length W r : length (wrap_row W r) = S (length r).
Proof. unfold wrap_row. rewrite map_length, zip_add_length; cbn [length]; rewrite ?app_length; cbn [length]; lia. Qed.

(* the constructor returns (no overflow_error) exactly when the largest entry C(i, min(i/2,k)) fits, and then its table is exact *)
Theorem cns_ctor_spec W k : 2 <= W -> forall i,
  match cns_ctor_rows W k i with
  | Some r => Mx k i < W /\ forall j, (j <= k)%nat -> nth j r 0 = binom i j
  | None => W <= Mx k i
  end.
Proof.
  intros HW. induction i as [|i IH].
  - cbn [cns_ctor_rows]. split; [unfold Mx; cbn; lia|]. intros j _. destruct j as [|[|j]]; reflexivity.
  - cbn [cns_ctor_rows]. destruct (cns_ctor_rows W k i) as [r|].
    2:{ pose proof (Mx_mono k i). lia. }
    destruct IH as [Hfit Hex].
    (* every entry of the new row, columns <= k, is the binomial coefficient modulo W *)
    assert (Hnew : forall j, (j <= k)%nat -> nth j (wrap_row W r) 0 = binom (S i) j mod W).
    { intros j Hj. rewrite wrap_row_nth by lia. destruct j as [|j].
      - cbn [nth]. rewrite Hex by lia. rewrite !binom_0. reflexivity.
      - cbn [nth]. rewrite !Hex by lia. reflexivity. }
    assert (Hprev : forall j, (j <= k)%nat -> 0 <= binom i j < W).
    { intros j Hj. pose proof (binom_nonneg i j). pose proof (binom_max_entry i k j Hj). unfold Mx in Hfit. lia. }
    set (mi := Nat.min (S i / 2) k).
    assert (Hmi : (mi <= k)%nat) by apply Nat.le_min_r.
    destruct (Z_lt_le_dec (Mx k (S i)) W) as [Hlt|Hge].
    + (* fits: the row is exact and the test does not fire *)
      assert (Hexact : forall j, (j <= k)%nat -> nth j (wrap_row W r) 0 = binom (S i) j).
      { intros j Hj. rewrite Hnew by exact Hj. apply Z.mod_small.
        pose proof (binom_nonneg (S i) j). pose proof (binom_max_entry (S i) k j Hj). unfold Mx in Hlt. lia. }
      replace (nth mi (wrap_row W r) 0 <? nth mi r 0) with false.
      * rewrite andb_false_r. split; [exact Hlt|exact Hexact].
      * symmetry. apply Z.ltb_ge. rewrite Hexact, Hex by exact Hmi. apply binom_step.
    + (* does not fit: the wrapped entry is smaller than the entry above it *)
      pose proof Hge as Hge0. unfold Mx in Hge. fold mi in Hge.
      assert (Hi : (1 <= i)%nat).
      { destruct i; [|lia]. exfalso. unfold mi in Hge. cbn in Hge. lia. }
      destruct mi as [|m] eqn:Em.
      { rewrite binom_0 in Hge. lia. }
      replace (1 <? S i)%nat with true by (symmetry; apply Nat.ltb_lt; lia).
      replace (nth (S m) (wrap_row W r) 0 <? nth (S m) r 0) with true; [cbn [andb]; exact Hge0|].
      symmetry. apply Z.ltb_lt. rewrite Hnew, Hex by lia.
      change (binom (S i) (S m)) with (binom i m + binom i (S m)) in *.
      pose proof (Hprev m ltac:(lia)). pose proof (Hprev (S m) ltac:(lia)).
      assert (E : (binom i m + binom i (S m)) mod W = binom i m + binom i (S m) - W).
      { symmetry. apply Z.mod_unique with (q := 1); lia. }
      rewrite E. lia.
Qed.

Corollary cns_ctor_ok_iff k n : cns_ctor_ok k n = true <-> binom n (Nat.min (n / 2) k) < 2 ^ 128.
Proof.
  unfold cns_ctor_ok. pose proof (cns_ctor_spec (2 ^ 128) k ltac:(lia) n) as H.
  destruct (cns_ctor_rows (2 ^ 128) k n); unfold Mx in H.
  - split; [intros _; apply H|reflexivity].
  - split; [discriminate|lia].
Qed.

(* ================================================================== I. the oracle's run-time order check *)
Lemma in_combine_seq {A} (l : list A) : forall s j x, In (j, x) (combine (seq s (length l)) l) <-> (s <= j)%nat /\ nth_error l (j - s) = Some x.
Proof.
  induction l as [|y l IH]; intros s j x; cbn [length seq combine].
  - split; [intros []|]. intros [_ H]. destruct (j - s)%nat; discriminate.
  - cbn [In]. rewrite IH. split.
    + intros [E|[H1 H2]].
      * inversion E; subst. split; [lia|]. rewrite Nat.sub_diag. reflexivity.
      * split; [lia|]. replace (j - s)%nat with (S (j - S s)) by lia. exact H2.
    + intros [H1 H2]. destruct (Nat.eq_dec j s) as [->|Hne].
      * left. rewrite Nat.sub_diag in H2. cbn in H2. inversion H2. reflexivity.
      * right. split; [lia|]. replace (j - s)%nat with (S (j - S s)) in H2 by lia. exact H2.
Qed.
Lemma faces_precede_spec cols : faces_precede cols = true ->
  forall j col r c, nth_error cols j = Some col -> In (r, c) col -> (r < j)%nat.
Proof.
  unfold faces_precede. rewrite forallb_forall. intros H j col r c Hn Hin.
  specialize (H (j, col)). cbn [fst snd] in H. rewrite forallb_forall in H.
  assert (Hc : In (j, col) (combine (seq 0 (length cols)) cols)).
  { apply in_combine_seq. split; [lia|]. rewrite Nat.sub_0_r. exact Hn. }
  specialize (H Hc (r, c) Hin). cbn [fst] in H. apply Nat.ltb_lt in H. exact H.
Qed.
(* whenever the oracle answers, its matrix is the boundary matrix of an order in which faces precede cofaces, and the pairing was
   certified *)
Theorem barcode_some p M T n dim_max l : barcode p M T n dim_max = Some l ->
  exists cols lw, boundary_matrix (filtration M T n dim_max) = Some cols /\
    (forall j col r c, nth_error cols j = Some col -> In (r, c) col -> (r < j)%nat) /\
    certified_lows p (dense_of_sparse (length (filtration M T n dim_max)) cols) = Some lw.
Proof.
  unfold barcode. destruct (boundary_matrix (filtration M T n dim_max)) as [cols|]; [|discriminate].
  destruct (faces_precede cols) eqn:E; cbn [negb]; [|discriminate].
  destruct (certified_lows p (dense_of_sparse (length (filtration M T n dim_max)) cols)) as [lw|] eqn:EC; [|discriminate].
  intros _. exists cols, lw. split; [reflexivity|]. split; [apply faces_precede_spec; exact E|exact EC].
Qed.

(* ================================================================== J. the clamped dimension fits dimension_t = int8_t *)
Theorem clamp_dim_fits n dim_max : clamp_dim n dim_max + 2 <= 127 /\ clamp_dim n dim_max <= dim_max /\
  (dim_max <= n - 2 -> dim_max <= 125 -> clamp_dim n dim_max = dim_max).
Proof.
  unfold clamp_dim, dim_limit.
  destruct (Z.ltb_spec (n - 2) dim_max); destruct (Z.ltb_spec 125 (n - 2)); destruct (Z.ltb_spec 125 dim_max); lia.
Qed.

(* ================================================================== K. the oracle's complex is the flag complex of the threshold graph *)
Inductive subseq {A : Type} : list A -> list A -> Prop :=
| sub_nil : subseq [] []
| sub_skip s v r : subseq s r -> subseq s (v :: r)
| sub_take s v r : subseq s r -> subseq (v :: s) (v :: r).
Fixpoint pairwise {A : Type} (ok : A -> A -> bool) (s : list A) : bool :=
  match s with [] => true | v :: r => forallb (ok v) r && pairwise ok r end.

Lemma cliques_spec ok vs k : forall s,
  In s (cliques ok vs k) <-> subseq s vs /\ (length s <= k)%nat /\ pairwise ok s = true.
Proof.
  induction vs as [|v r IH]; intros s; cbn [cliques].
  - split.
    + intros [<-|[]]. split; [constructor|]. split; [cbn; lia|reflexivity].
    + intros (H & _ & _). inversion H. left. reflexivity.
  - rewrite in_app_iff, in_map_iff. split.
    + intros [H|(t & <- & H)].
      * apply IH in H. destruct H as (A & B & C). split; [constructor; exact A|]. split; assumption.
      * apply filter_In in H. destruct H as [H1 H2]. apply IH in H1. destruct H1 as (A & B & C).
        apply andb_true_iff in H2. destruct H2 as [H2 H3]. apply Nat.ltb_lt in H2.
        split; [constructor; exact A|]. split; [cbn [length]; lia|]. cbn [pairwise]. rewrite H3, C. reflexivity.
    + intros (A & B & C). inversion A as [|s' v' r' A'|s' v' r' A']; subst.
      * left. apply IH. split; [exact A'|]. split; assumption.
      * right. cbn [pairwise] in C. apply andb_true_iff in C. destruct C as [C1 C2]. cbn [length] in B.
        exists s'. split; [reflexivity|]. apply filter_In. split.
        -- apply IH. split; [exact A'|]. split; [lia|exact C2].
        -- apply andb_true_iff. split; [apply Nat.ltb_lt; lia|exact C1].
Qed.

(* the simplices of the oracle are exactly the non-empty subsequences of 0..n-1 with at most dim_max+2 elements that are pairwise
   joined by an edge of the threshold graph *)
Theorem simplices_spec M T n dim_max s :
  In s (simplices M T n dim_max) <->
  s <> [] /\ subseq s (seq 0 n) /\ (length s <= dim_max + 2)%nat /\ pairwise (edge_ok M T) s = true.
Proof.
  unfold simplices. rewrite filter_In, cliques_spec. split.
  - intros ((A & B & C) & D). split; [destruct s; [discriminate|congruence]|]. split; [exact A|]. split; assumption.
  - intros (A & B & C & D). split; [split; [exact B|split; assumption]|]. destruct s; [congruence|reflexivity].
Qed.

Lemma insert_sorted_in x y l : In x (insert_sorted y l) <-> y = x \/ In x l.
Proof.
  induction l as [|z l IH]; cbn [insert_sorted].
  - cbn. tauto.
  - destruct (simplex_le y z); cbn [In]; [tauto|]. rewrite IH. tauto.
Qed.
Lemma sort_simplices_in l x : In x (sort_simplices l) <-> In x l.
Proof.
  unfold sort_simplices. induction l as [|y l IH]; cbn [fold_right]; [tauto|].
  rewrite insert_sorted_in, IH. cbn [In]. tauto.
Qed.
(* the filtration lists exactly these simplices, each with its diameter *)
Theorem filtration_spec M T n dim_max d s :
  In (d, s) (filtration M T n dim_max) <-> In s (simplices M T n dim_max) /\ d = diam M s.
Proof.
  unfold filtration. rewrite sort_simplices_in, in_map_iff. split.
  - intros (t & E & H). inversion E; subst. split; [exact H|reflexivity].
  - intros [H ->]. exists s. split; [reflexivity|exact H].
Qed.

(* the diameter: the largest pairwise dissimilarity (0 for a vertex) *)
Lemma diam_to_spec M v s : forall acc,
  acc <= diam_to M v s acc /\ (forall w, In w s -> dget M v w <= diam_to M v s acc) /\
  (diam_to M v s acc = acc \/ exists w, In w s /\ diam_to M v s acc = dget M v w).
Proof.
  induction s as [|a s IH]; intros acc; cbn [diam_to].
  - split; [lia|]. split; [intros w []|left; reflexivity].
  - destruct (IH (Z.max acc (dget M v a))) as (A & B & C). split; [lia|]. split.
    + intros w [<-|H]; [lia|apply B; exact H].
    + destruct C as [C|(w & Hw & C)].
      * destruct (Z.max_spec acc (dget M v a)) as [[_ E]|[_ E]].
        -- right. exists a. split; [left; reflexivity|rewrite C; exact E].
        -- left. rewrite C. exact E.
      * right. exists w. split; [right; exact Hw|exact C].
Qed.
Lemma diam_acc_spec M s : forall acc,
  acc <= diam_acc M s acc /\
  (forall pre v post w, s = pre ++ v :: post -> In w post -> dget M v w <= diam_acc M s acc) /\
  (diam_acc M s acc = acc \/ exists pre v post w, s = pre ++ v :: post /\ In w post /\ diam_acc M s acc = dget M v w).
Proof.
  induction s as [|a s IH]; intros acc; cbn [diam_acc].
  - split; [lia|]. split; [|left; reflexivity]. intros pre v post w E. destruct pre; discriminate.
  - destruct (diam_to_spec M a s acc) as (A1 & B1 & C1).
    destruct (IH (diam_to M a s acc)) as (A & B & C). split; [lia|]. split.
    + intros pre v post w E Hw. destruct pre as [|x pre]; cbn [app] in E; inversion E; subst.
      * specialize (B1 w Hw). lia.
      * apply (B pre v post w eq_refl Hw).
    + destruct C as [C|(pre & v & post & w & E & Hw & C)].
      * destruct C1 as [C1|(w & Hw & C1)].
        -- left. lia.
        -- right. exists [], a, s, w. split; [reflexivity|]. split; [exact Hw|lia].
      * right. exists (a :: pre), v, post, w. split; [cbn [app]; rewrite E; reflexivity|]. split; [exact Hw|exact C].
Qed.
Theorem diam_spec M s :
  0 <= diam M s /\
  (forall pre v post w, s = pre ++ v :: post -> In w post -> dget M v w <= diam M s) /\
  (diam M s = 0 \/ exists pre v post w, s = pre ++ v :: post /\ In w post /\ diam M s = dget M v w).
Proof. unfold diam. apply diam_acc_spec. Qed.
