(* C11 - proofs about the leaf algorithm models of C11_Model.v (all unbounded). *)
From Coq Require Import ZArith List Bool Arith Lia ZifyBool.
Require Import C11_Model.
Import ListNotations.
Local Open Scope Z_scope.

(* ================================================================== A. Compressed_distance_matrix *)
Lemma lower_off_closed i : 2 * lower_off i = Z.of_nat i * (Z.of_nat i - 1).
Proof. induction i as [|i IH]; cbn [lower_off]; [reflexivity|nia]. Qed.

Lemma upper_off_closed n i : 2 * upper_off n i = Z.of_nat i * (2 * n - Z.of_nat i - 3) - 2.
Proof. induction i as [|i IH]; cbn [upper_off]; [reflexivity|nia]. Qed.

Theorem cm_diag l n i : cm_index l n i i = None.
Proof. unfold cm_index. rewrite Nat.eqb_refl. reflexivity. Qed.

Theorem cm_sym l n i j : cm_index l n i j = cm_index l n j i.
Proof.
  unfold cm_index. destruct (Nat.eqb_spec i j) as [->|Hne].
  - rewrite Nat.eqb_refl. reflexivity.
  - destruct (Nat.eqb_spec j i) as [->|_]; [congruence|].
    destruct l; destruct (Nat.ltb_spec i j); destruct (Nat.ltb_spec j i); try reflexivity; lia.
Qed.

(* off the diagonal an entry of [distances] is addressed, inside the vector of n(n-1)/2 values *)
Theorem cm_range l n i j : (i < n)%nat -> (j < n)%nat -> i <> j ->
  exists k, cm_index l n i j = Some k /\ 0 <= k /\ 2 * k + 2 <= Z.of_nat n * (Z.of_nat n - 1).
Proof.
  intros Hi Hj Hne. unfold cm_index. destruct (Nat.eqb_spec i j); [contradiction|].
  destruct l.
  - destruct (Nat.ltb_spec i j).
    + eexists; split; [reflexivity|]. pose proof (lower_off_closed j). nia.
    + eexists; split; [reflexivity|]. pose proof (lower_off_closed i). nia.
  - destruct (Nat.ltb_spec j i).
    + eexists; split; [reflexivity|]. pose proof (upper_off_closed (Z.of_nat n) j). nia.
    + eexists; split; [reflexivity|]. pose proof (upper_off_closed (Z.of_nat n) i). nia.
Qed.

(* two different unordered pairs never share a cell *)
Theorem cm_inj l n i j i' j' : (i < j < n)%nat -> (i' < j' < n)%nat ->
  cm_index l n i j = cm_index l n i' j' -> i = i' /\ j = j'.
Proof.
  intros H H'. unfold cm_index.
  destruct (Nat.eqb_spec i j); [lia|]. destruct (Nat.eqb_spec i' j'); [lia|].
  destruct l.
  - destruct (Nat.ltb_spec i j); [|lia]. destruct (Nat.ltb_spec i' j'); [|lia].
    intros E. injection E as E.
    pose proof (lower_off_closed j). pose proof (lower_off_closed j').
    assert (j = j') by nia. subst. lia.
  - destruct (Nat.ltb_spec j i); [lia|]. destruct (Nat.ltb_spec j' i'); [lia|].
    intros E. injection E as E.
    pose proof (upper_off_closed (Z.of_nat n) i). pose proof (upper_off_closed (Z.of_nat n) i').
    assert (i = i') by nia. subst. lia.
Qed.

(* every cell of the vector is the cell of some pair *)
Lemma lower_surj n : forall k, 0 <= k -> 2 * k + 2 <= Z.of_nat n * (Z.of_nat n - 1) ->
  exists i j, (i < j < n)%nat /\ lower_off j + Z.of_nat i = k.
Proof.
  induction n as [|n IH]; intros k H0 H1; [lia|].
  destruct (Z_le_gt_dec (2 * k + 2) (Z.of_nat n * (Z.of_nat n - 1))) as [Hle|Hgt].
  - destruct (IH k H0 Hle) as (i & j & Hij & E). exists i, j. split; [lia|exact E].
  - pose proof (lower_off_closed n) as Hc.
    exists (Z.to_nat (k - lower_off n)), n. split; [nia|]. rewrite Z2Nat.id by nia. lia.
Qed.

Lemma upper_surj n m : (S m <= n)%nat -> forall k, 0 <= k -> k < upper_off (Z.of_nat n) m + Z.of_nat m + 1 ->
  exists i j, (i < j < n)%nat /\ upper_off (Z.of_nat n) i + Z.of_nat j = k.
Proof.
  induction m as [|m IH]; intros Hm k H0 H1.
  - cbn [upper_off] in H1. lia.
  - destruct (Z_lt_ge_dec k (upper_off (Z.of_nat n) m + Z.of_nat m + 1)) as [Hlt|Hge].
    + apply IH; [lia|exact H0|exact Hlt].
    + cbn [upper_off] in H1.
      exists m, (Z.to_nat (k - upper_off (Z.of_nat n) m)). split; [lia|]. rewrite Z2Nat.id by lia. lia.
Qed.

Theorem cm_surj l n k : 0 <= k -> 2 * k + 2 <= Z.of_nat n * (Z.of_nat n - 1) ->
  exists i j, (i < j < n)%nat /\ cm_index l n i j = Some k.
Proof.
  intros H0 H1. destruct l.
  - destruct (lower_surj n k H0 H1) as (i & j & Hij & E). exists i, j. split; [exact Hij|].
    unfold cm_index. destruct (Nat.eqb_spec i j); [lia|]. destruct (Nat.ltb_spec i j); [|lia]. rewrite E. reflexivity.
  - destruct n as [|n]; [lia|].
    destruct (upper_surj (S n) n (le_n _) k H0) as (i & j & Hij & E).
    + pose proof (upper_off_closed (Z.of_nat (S n)) n). nia.
    + exists i, j. split; [exact Hij|].
      unfold cm_index. destruct (Nat.eqb_spec i j); [lia|]. destruct (Nat.ltb_spec j i); [lia|]. rewrite E. reflexivity.
Qed.

(* ================================================================== B. log2up *)
Lemma bitlen_pos p : 1 <= bitlen p.
Proof. induction p; cbn [bitlen]; lia. Qed.
Lemma bitlen_spec p : Zpos p < 2 ^ bitlen p.
Proof.
  induction p as [q IH|q IH|]; cbn [bitlen].
  - pose proof (bitlen_pos q). rewrite Z.pow_add_r by lia. change (2 ^ 1) with 2. lia.
  - pose proof (bitlen_pos q). rewrite Z.pow_add_r by lia. change (2 ^ 1) with 2. lia.
  - reflexivity.
Qed.
Lemma log2up_nonneg n : 0 <= log2up n.
Proof. unfold log2up. destruct (n - 1); try lia. pose proof (bitlen_pos p). lia. Qed.
(* every x with 0 <= x < n fits in log2up n bits *)
Theorem log2up_spec n x : 0 <= x < n -> x < 2 ^ log2up n.
Proof.
  intros H. unfold log2up. destruct (n - 1) eqn:E.
  - assert (x = 0) by lia. subst. reflexivity.
  - pose proof (bitlen_spec p). lia.
  - lia.
Qed.

Lemma decode_loop_SS e m idx n acc :
  decode_loop e (S (S m)) idx n acc =
  decode_loop e (S m) (idx - enc e (enc_get_max e idx (Z.of_nat (S (S m))) n) (Z.of_nat (S (S m))))
              (enc_get_max e idx (Z.of_nat (S (S m))) n) (enc_get_max e idx (Z.of_nat (S (S m))) n :: acc).
Proof. reflexivity. Qed.

(* ================================================================== C. Bitfield_encoding and the coefficient packing *)
Section Bitfield.
Variable b : Z.
Hypothesis Hb : 0 <= b.

(* little-endian value in base 2^b *)
Fixpoint val (vs : list Z) : Z := match vs with [] => 0 | v :: r => v + 2 ^ b * val r end.
Definition digits (vs : list Z) : Prop := forall v, In v vs -> 0 <= v < 2 ^ b.

Lemma pow_b_pos : 0 < 2 ^ b. Proof. apply Z.pow_pos_nonneg; lia. Qed.

Lemma val_bound vs : digits vs -> 0 <= val vs < 2 ^ (b * Z.of_nat (length vs)).
Proof.
  induction vs as [|v r IH]; intros Hd.
  - cbn. rewrite Z.mul_0_r. cbn. lia.
  - assert (Hv : 0 <= v < 2 ^ b) by (apply Hd; left; reflexivity).
    assert (Hr : digits r) by (intros x Hx; apply Hd; right; exact Hx).
    specialize (IH Hr). cbn [val length]. rewrite Nat2Z.inj_succ.
    replace (b * Z.succ (Z.of_nat (length r))) with (b + b * Z.of_nat (length r)) by lia.
    rewrite Z.pow_add_r by nia. pose proof pow_b_pos. nia.
Qed.

Lemma index_from_val vs : forall pos, 1 <= pos ->
  simplex_index_from (Bitfield b) pos vs = 2 ^ (b * (pos - 1)) * val vs.
Proof.
  induction vs as [|v r IH]; intros pos Hp; cbn [simplex_index_from val].
  - lia.
  - rewrite IH by lia. cbn [enc]. unfold bf_enc. destruct (Z.eqb_spec pos 0); [lia|].
    rewrite Z.shiftl_mul_pow2 by nia.
    replace (b * (pos + 1 - 1)) with (b * (pos - 1) + b) by lia. rewrite Z.pow_add_r by nia. ring.
Qed.

Lemma simplex_index_val vs : simplex_index (Bitfield b) vs = val vs.
Proof. unfold simplex_index. rewrite index_from_val by lia. replace (b * (1 - 1)) with 0 by lia. rewrite Z.pow_0_r. lia. Qed.

Lemma val_snoc l x : val (l ++ [x]) = val l + x * 2 ^ (b * Z.of_nat (length l)).
Proof.
  induction l as [|v r IH]; cbn [val app length].
  - change (Z.of_nat 0) with 0. rewrite (Z.mul_0_r b), Z.pow_0_r. lia.
  - rewrite IH. rewrite Nat2Z.inj_succ.
    replace (b * Z.succ (Z.of_nat (length r))) with (b + b * Z.of_nat (length r)) by lia.
    rewrite Z.pow_add_r by nia. ring.
Qed.

Lemma decode_loop_bitfield l : forall acc n, l <> [] -> digits l ->
  decode_loop (Bitfield b) (length l) (val l) n acc = l ++ acc.
Proof.
  induction l as [|x l IH] using rev_ind; intros acc n Hne Hd; [congruence|].
  assert (Hx : 0 <= x < 2 ^ b) by (apply Hd; apply in_or_app; right; left; reflexivity).
  assert (Hl : digits l) by (intros y Hy; apply Hd; apply in_or_app; left; exact Hy).
  rewrite app_length. cbn [length]. rewrite Nat.add_1_r.
  destruct l as [|y l'].
  - cbn [length decode_loop app val]. f_equal. lia.
  - remember (y :: l') as l eqn:El.
    assert (Hlen : length l = S (length l')) by (subst; reflexivity).
    rewrite Hlen. rewrite decode_loop_SS. rewrite <- Hlen.
    cbn [enc_get_max enc]. unfold bf_get_max, bf_enc.
    destruct (Z.eqb_spec (Z.of_nat (S (length l))) 0); [lia|].
    replace (Z.of_nat (S (length l)) - 1) with (Z.of_nat (length l)) by lia.
    rewrite Z.shiftr_div_pow2 by nia.
    pose proof (val_bound l Hl) as Hvb.
    assert (Hpp : 0 < 2 ^ (b * Z.of_nat (length l))) by (apply Z.pow_pos_nonneg; nia).
    assert (Hq : val (l ++ [x]) / 2 ^ (b * Z.of_nat (length l)) = x).
    { rewrite val_snoc. rewrite Z.div_add by lia. rewrite Z.div_small by lia. lia. }
    rewrite Hq. rewrite Z.shiftl_mul_pow2 by nia.
    replace (val (l ++ [x]) - x * 2 ^ (b * Z.of_nat (length l))) with (val l) by (rewrite val_snoc; lia).
    rewrite IH; [|subst; discriminate|exact Hl]. rewrite <- app_assoc. reflexivity.
Qed.

(* encode / decode round trip for ANY tuple of vertices below 2^b, and the index uses b bits per vertex *)
Theorem bitfield_roundtrip vs n : vs <> [] -> digits vs ->
  decode (Bitfield b) (simplex_index (Bitfield b) vs) (length vs) n = vs /\
  0 <= simplex_index (Bitfield b) vs < 2 ^ (b * Z.of_nat (length vs)).
Proof.
  intros Hne Hd. rewrite simplex_index_val. split.
  - unfold decode. rewrite decode_loop_bitfield by assumption. apply app_nil_r.
  - apply val_bound. exact Hd.
Qed.
End Bitfield.

(* entry_with_coeff_t *)
Theorem pack_roundtrip c idx coeff : 0 <= c -> 0 <= idx -> 1 <= coeff <= 2 ^ c ->
  unpack_index c (pack c idx coeff) = idx /\ unpack_coeff c (pack c idx coeff) = coeff.
Proof.
  intros Hc Hi Hco. unfold unpack_index, unpack_coeff, pack.
  assert (Hp : 0 < 2 ^ c) by (apply Z.pow_pos_nonneg; lia).
  split.
  - rewrite Z.shiftr_lor. rewrite Z.shiftr_shiftl_l by lia. rewrite Z.sub_diag, Z.shiftl_0_r.
    rewrite (Z.shiftr_div_pow2 (coeff - 1)) by lia. rewrite Z.div_small by lia. apply Z.lor_0_r.
  - replace (Z.shiftl 1 c - 1) with (Z.ones c) by (unfold Z.ones; lia).
    rewrite Z.land_lor_distr_l. rewrite !Z.land_ones by lia.
    rewrite Z.shiftl_mul_pow2 by lia. rewrite Z.mod_mul by lia. rewrite Z.mod_small by lia.
    rewrite Z.lor_0_l. lia.
Qed.

Theorem pack_bound c w idx coeff : 0 <= c -> 0 <= w -> 0 <= idx < 2 ^ w -> 1 <= coeff <= 2 ^ c ->
  0 <= pack c idx coeff < 2 ^ (w + c).
Proof.
  intros Hc Hw Hi Hco.
  assert (Hp : 0 < 2 ^ c) by (apply Z.pow_pos_nonneg; lia).
  destruct (pack_roundtrip c idx coeff Hc (proj1 Hi) Hco) as [E _].
  unfold unpack_index in E. rewrite Z.shiftr_div_pow2 in E by lia.
  assert (Hnn : 0 <= pack c idx coeff).
  { unfold pack. apply Z.lor_nonneg. split; [apply Z.shiftl_nonneg; lia|lia]. }
  split; [exact Hnn|]. rewrite Z.pow_add_r by lia.
  pose proof (Z.mod_pos_bound (pack c idx coeff) (2 ^ c) Hp).
  pose proof (Z.div_mod (pack c idx coeff) (2 ^ c)). nia.
Qed.
