(* C12_Conn.v — the dimension-0 part of the decisive clause: at every time the graph of the returned edges has the same
   connected components as the input graph. *)
From Coq Require Import ZArith List Bool Arith Lia ZifyBool Permutation Sorting.Sorted Relations.
Require Import Reduce ReduceExec C12_Model C12_Proofs C12_Tables.
Import ListNotations.
Local Open Scope Z_scope.

Lemma fv_lt_le_trans a b c : fv_lt a b = true -> fv_le b c = true -> fv_lt a c = true.
Proof. unfold fv_le, fv_lt. destruct a, b, c; cbn; try discriminate; try reflexivity; lia. Qed.
Lemma fv_le_lt_trans a b c : fv_le a b = true -> fv_lt b c = true -> fv_lt a c = true.
Proof. unfold fv_le, fv_lt. destruct a, b, c; cbn; try discriminate; try reflexivity; lia. Qed.
Lemma fv_le_or_lt a b : fv_le a b = true \/ fv_lt b a = true.
Proof. unfold fv_le. destruct (fv_lt b a); auto. Qed.
Lemma fv_lt_irrefl a b : fv_le a b = true -> fv_lt b a = true -> False.
Proof. unfold fv_le. intros H1 H2. rewrite H2 in H1. discriminate. Qed.
Lemma fv_max_le a b c : fv_le (fv_max a b) c = true -> fv_le a c = true /\ fv_le b c = true.
Proof. unfold fv_max, fv_le, fv_lt. destruct a, b, c; cbn; try (intros; split; congruence); try discriminate;
  try (destruct (z <? z0) eqn:E; cbn; intros; split; lia). Qed.

(* ------------------------------------------------------------------ the sweep always has a common neighbour at hand *)
Section OneEdge.
Variables (s : state) (u v : Z).
Definition tab (s : state) (a b : Z) : fv := lookup_inf (nb_get s a) b.
(* c is a common neighbour of u and v at time tau *)
Definition CN (c : Z) (tau : fv) : Prop :=
  in_range s c /\ c <> u /\ c <> v /\ fv_le (tab s u c) tau = true /\ fv_le (tab s v c) tau = true.
Lemma CN_mono c t1 t2 : CN c t1 -> fv_le t1 t2 = true -> CN c t2.
Proof. intros (A & B & C & D & E) H. split; [exact A|split; [exact B|split; [exact C|split; eapply fv_le_trans; eassumption]]]. Qed.

Definition final_time (o : outcome) : option fv :=
  match o with Dead => Some PInf | Alive t => Some t | OutOfFuel => None end.

Lemma set_insert_keep l w x : In x l -> In x (set_insert l w).
Proof.
  induction l as [|y l IH]; cbn [set_insert]; [intros []|]. intros Hx.
  destruct (w <? y); [right; exact Hx|]. destruct (w =? y); [exact Hx|].
  destruct Hx as [<-|Hx]; [left; reflexivity|right; apply IH; exact Hx].
Qed.
Lemma set_insert_new l w : In w (set_insert l w).
Proof.
  induction l as [|y l IH]; cbn [set_insert]; [left; reflexivity|].
  destruct (w <? y); [left; reflexivity|]. destruct (Z.eqb_spec w y) as [->|]; [left; reflexivity|right; exact IH].
Qed.
Lemma fold_insert_in (now : list (fv * Z)) : forall en x,
  In x (fold_left (fun l y => set_insert l (snd y)) now en) <-> In x en \/ In x (map snd now).
Proof.
  induction now as [|y now IH]; intros en x; cbn [fold_left map In]; [tauto|].
  rewrite IH. split.
  - intros [H|H]; [|tauto]. destruct (set_insert_in _ _ _ H) as [->|H']; [right; left; reflexivity|left; exact H'].
  - intros [H|[<-|H]]; [left; apply set_insert_keep; exact H|left; apply set_insert_new|right; exact H].
Qed.

Lemma sweep_common_neighbour dense fuel : forall en later time dom T,
  final_time (sweep dense s fuel en later time dom) = Some T ->
  (forall c, In c en -> CN c time) ->
  (forall x, In x later -> CN (snd x) (fst x)) ->
  later_after time later ->
  (forall d, dom = Some d -> In d en) ->
  forall tau, fv_le time tau = true -> fv_lt tau T = true -> exists c, CN c tau.
Proof.
  induction fuel as [|fuel IH]; intros en later time dom T HT Hen Hl Haft Hd tau H1 H2; [discriminate|].
  rewrite sweep_S in HT. destruct dom as [d|].
  - assert (Hdn : CN d time) by (apply Hen; apply Hd; reflexivity).
    destruct later as [|x0 l]; [exists d; apply CN_mono with time; assumption|].
    cbv zeta in HT. remember (x0 :: l) as L eqn:EL.
    assert (Hmin : In (later_min L) (map fst L)) by (rewrite EL; apply later_min_in).
    apply in_map_iff in Hmin. destruct Hmin as (y0 & Ey0 & Hy0).
    assert (Hle : fv_le time (later_min L) = true) by (rewrite <- Ey0; apply fv_lt_le; apply Haft; exact Hy0).
    destruct (fv_le_or_lt (later_min L) tau) as [Hc|Hc]; [|exists d; apply CN_mono with time; assumption].
    eapply IH; [exact HT| | | | |exact Hc|exact H2].
    + intros c Hc'. apply fold_insert_in in Hc'. destruct Hc' as [Hc'|Hc'].
      * apply CN_mono with time; [apply Hen; exact Hc'|exact Hle].
      * apply in_map_iff in Hc'. destruct Hc' as (x & <- & Hx). apply filter_In in Hx. destruct Hx as [Hx Hxle].
        apply CN_mono with (fst x); [apply Hl; exact Hx|exact Hxle].
    + intros x Hx. apply filter_In in Hx. apply Hl. tauto.
    + apply rest_after.
    + intros d' Hd'. apply fold_insert_in. left.
      destruct (forallb _ _) in Hd'; inversion Hd'; subst. apply Hd. reflexivity.
  - destruct (find (fun c => is_dominated_by dense s en c time) en) as [c|] eqn:F.
    + eapply IH; [exact HT|exact Hen|exact Hl|exact Haft| |exact H1|exact H2].
      intros d' Hd'. inversion Hd'; subst. apply find_some in F. tauto.
    + cbn [final_time] in HT. inversion HT; subst. exfalso. eapply fv_lt_irrefl; eassumption.
Qed.
End OneEdge.

(* ------------------------------------------------------------------ table entries after a paired update *)
Lemma pair_op_tab s u v g1 g2 F :
  Coh s -> in_range s u -> in_range s v -> u <> v ->
  (forall k, lookup_inf (g1 (nb_get s u)) k = if k =? v then F else lookup_inf (nb_get s u) k) ->
  (forall k, lookup_inf (g2 (nb_get s v)) k = if k =? u then F else lookup_inf (nb_get s v) k) ->
  forall a b, in_range s a -> in_range s b ->
  tab (pair_op s u v g1 g2 F) a b = if pair_hit a b u v then F else tab s a b.
Proof.
  intros C Hu Hv Huv L1 L2 a b Ha Hb. unfold tab.
  rewrite nb_get_pair_op by (try assumption; unfold in_range in Ha; lia). unfold pair_hit.
  destruct (Z.eqb_spec a v) as [->|Nav].
  - rewrite L2. destruct (Z.eqb_spec v u); [congruence|]. cbn [andb orb].
    destruct (b =? u); reflexivity.
  - destruct (Z.eqb_spec a u) as [->|Nau].
    + rewrite L1. cbn [andb orb]. destruct (b =? v); reflexivity.
    + cbn [andb orb]. reflexivity.
Qed.

Lemma delay_tab s u v f : Coh s -> in_range s u -> in_range s v -> u <> v ->
  forall a b, in_range s a -> in_range s b ->
  tab (delay_neighbor s u v f) a b = if pair_hit a b u v then f else tab s a b.
Proof.
  intros C Hu Hv Huv.
  change (delay_neighbor s u v f) with (pair_op s u v (fun l => fm_set l v f) (fun l => fm_set l u f) f).
  apply pair_op_tab; try assumption; intros k; apply lookup_fm_set.
Qed.
Lemma remove_tab s u v : Coh s -> in_range s u -> in_range s v -> u <> v ->
  forall a b, in_range s a -> in_range s b ->
  tab (remove_neighbor s u v) a b = if pair_hit a b u v then PInf else tab s a b.
Proof.
  intros C Hu Hv Huv.
  change (remove_neighbor s u v) with (pair_op s u v (fun l => fm_erase l v) (fun l => fm_erase l u) PInf).
  apply pair_op_tab; try assumption; intros k; apply lookup_fm_erase; apply (coh_keys s C); assumption.
Qed.

(* ------------------------------------------------------------------ one edge: what changes, and why it is harmless *)
Lemma process_edge_effect V s u v t s' o :
  Coh s -> tbl_ok V s -> in_range s u -> in_range s v -> u <> v ->
  process_edge false s (u, v, t) = Some (s', o) ->
  exists T,
    fv_le (Fin t) T = true /\
    o = (match T with PInf => [] | _ => [(u, v, T)] end) /\
    nvert s' = nvert s /\
    (forall a b, in_range s a -> in_range s b ->
       tab s' a b = if pair_hit a b u v then (if fv_eqb T (Fin t) then tab s a b else T) else tab s a b) /\
    (forall tau, fv_le (Fin t) tau = true -> fv_lt tau T = true -> exists c, CN s u v c tau).
Proof.
  intros C HV Hu Hv Huv H. unfold process_edge in H.
  destruct (coh_keys s C u Hu) as [Ksu Kru]. destruct (coh_keys s C v Hv) as [Ksv Krv].
  pose proof (common_neighbors_spec u v (Fin t) (nb_get s u) (nb_get s v) Ksu Ksv) as Hspec.
  pose proof (cn_later V u v (Fin t) (nb_get s u) (nb_get s v) (nb_get_ok V s u HV) (nb_get_ok V s v HV)) as Hlat.
  destruct (common_neighbors u v (Fin t) (nb_get s u) (nb_get s v)) as [en later]. cbn [fst snd] in *.
  rewrite Forall_forall in Hlat, Kru.
  assert (Hmem : forall w f, cn_member u v (nb_get s u) (nb_get s v) w f -> forall tau, fv_le f tau = true -> CN s u v w tau).
  { intros w f (fu & fw & F1 & F2 & N1 & N2 & ->) tau Hle. apply fv_max_le in Hle. destruct Hle as [L1 L2].
    split; [apply Kru; apply fm_find_some_in with fu; exact F1|]. split; [exact N1|]. split; [exact N2|].
    unfold tab, lookup_inf. rewrite F1, F2. auto. }
  assert (Hen : forall c, In c en -> CN s u v c (Fin t)).
  { intros c Hc. apply (proj1 (Hspec c)) in Hc. destruct Hc as (f & Hm & Hg). apply (Hmem c f Hm).
    unfold fv_le. unfold fv_gt in Hg. rewrite Hg. reflexivity. }
  assert (Hl : forall x, In x later -> CN s u v (snd x) (fst x)).
  { intros [f w] Hx. apply (proj2 (Hspec w) f) in Hx. destruct Hx as [Hm _]. apply (Hmem w f Hm). apply fv_le_refl. }
  assert (Haft : later_after (Fin t) later) by (intros x Hx; apply Hlat; exact Hx).
  pose proof (sweep_common_neighbour s u v false (2 * length later + 2) en later (Fin t) None) as Hsw.
  destruct (sweep false s (2 * length later + 2) en later (Fin t) None) as [|T|] eqn:E; [| |discriminate].
  - inversion H; subst. exists PInf. split; [reflexivity|]. split; [reflexivity|]. split; [reflexivity|]. split.
    + intros a b Ha Hb. rewrite remove_tab by assumption. cbn [fv_eqb]. reflexivity.
    + intros tau T1 T2. apply (Hsw PInf eq_refl Hen Hl Haft); [intros d Hd; discriminate Hd|exact T1|exact T2].
  - pose proof E as E'. apply sweep_alive in E'; [|exact Haft]. destruct E' as [Ele Ecase].
    assert (HTfin : exists z, T = Fin z).
    { destruct Ecase as [->|Hin]; [exists t; reflexivity|].
      apply in_map_iff in Hin. destruct Hin as (x & Ex & Hx). destruct (Hlat x Hx) as [A [B|(z & _ & B)]]; rewrite Ex in *.
      - rewrite B in A. cbn in A. discriminate A.
      - exists z. exact B. }
    destruct HTfin as (z & ->).
    exists (Fin z). split; [exact Ele|].
    assert (Hcn : forall tau, fv_le (Fin t) tau = true -> fv_lt tau (Fin z) = true -> exists c, CN s u v c tau).
    { intros tau T1 T2. apply (Hsw (Fin z) eq_refl Hen Hl Haft); [intros d Hd; discriminate Hd|exact T1|exact T2]. }
    destruct (negb (fv_eqb (Fin t) (Fin z))) eqn:Eq; inversion H; subst.
    + split; [reflexivity|]. split; [reflexivity|]. split; [|exact Hcn].
      intros a b Ha Hb. rewrite delay_tab by assumption.
      cbn [fv_eqb] in *. rewrite Z.eqb_sym. destruct (t =? z); [discriminate|reflexivity].
    + apply negb_false_iff in Eq. apply fv_eqb_eq in Eq. inversion Eq; subst z.
      split; [reflexivity|]. split; [reflexivity|]. split; [|exact Hcn].
      intros a b Ha Hb. cbn [fv_eqb]. rewrite Z.eqb_refl. destruct (pair_hit a b u v); reflexivity.
Qed.

(* ------------------------------------------------------------------ components of the current graph at time tau *)
Definition adj (s : state) (tau : fv) (a b : Z) : Prop :=
  in_range s a /\ in_range s b /\ a <> b /\ fv_le (tab s a b) tau = true.
Definition conn (s : state) (tau : fv) : Z -> Z -> Prop := clos_refl_sym_trans Z (adj s tau).

Lemma clos_rst_mono {A} (R1 R2 : relation A) :
  (forall a b, R1 a b -> clos_refl_sym_trans A R2 a b) ->
  forall a b, clos_refl_sym_trans A R1 a b -> clos_refl_sym_trans A R2 a b.
Proof.
  intros H a b Hc. induction Hc; [apply H; assumption|apply rst_refl|apply rst_sym; assumption|eapply rst_trans; eassumption].
Qed.

Lemma tab_sym s a b : Coh s -> in_range s a -> in_range s b -> tab s a b = tab s b a.
Proof. intros C Ha Hb. unfold tab. apply (coh_sym s C); assumption. Qed.

Lemma process_edge_conn V s u v t s' o :
  Coh s -> tbl_ok V s -> in_range s u -> in_range s v -> u <> v -> tab s u v = Fin t ->
  process_edge false s (u, v, t) = Some (s', o) ->
  forall tau a b, conn s tau a b <-> conn s' tau a b.
Proof.
  intros C HV Hu Hv Huv Huv_t H tau.
  destruct (process_edge_effect V s u v t s' o C HV Hu Hv Huv H) as (T & HT & _ & Hn & Htab & Hcn).
  assert (Hvu_t : tab s v u = Fin t) by (rewrite tab_sym by assumption; exact Huv_t).
  assert (Hr : forall x, in_range s' x <-> in_range s x) by (intros x; unfold in_range; rewrite Hn; tauto).
  assert (Hhit : forall a b, in_range s a -> in_range s b -> pair_hit a b u v = true -> tab s a b = Fin t /\ tab s' a b = T).
  { intros a b Ha Hb E. assert (Hab : (a = u /\ b = v) \/ (a = v /\ b = u)) by (unfold pair_hit in E; lia).
    assert (Hs : tab s a b = Fin t) by (destruct Hab as [[-> ->]|[-> ->]]; assumption).
    split; [exact Hs|]. rewrite Htab by assumption. rewrite E. rewrite Hs.
    destruct (fv_eqb T (Fin t)) eqn:Eq; [apply fv_eqb_eq in Eq; congruence|reflexivity]. }
  assert (Hmiss : forall a b, in_range s a -> in_range s b -> pair_hit a b u v = false -> tab s' a b = tab s a b).
  { intros a b Ha Hb E. rewrite Htab by assumption. rewrite E. reflexivity. }
  intros a b. split; apply clos_rst_mono; clear a b; intros a b (Ha & Hb & Hab & Hle).
  - (* an edge of s at tau *)
    destruct (pair_hit a b u v) eqn:E.
    + destruct (Hhit a b Ha Hb E) as [Hs Hs'].
      destruct (fv_le_or_lt T tau) as [HTt|HTt].
      * apply rst_step. split; [apply Hr; exact Ha|]. split; [apply Hr; exact Hb|]. split; [exact Hab|]. rewrite Hs'. exact HTt.
      * rewrite Hs in Hle. destruct (Hcn tau Hle HTt) as (c & Hc & Ncu & Ncv & Luc & Lvc).
        assert (Suc : adj s' tau u c).
        { split; [apply Hr; exact Hu|]. split; [apply Hr; exact Hc|]. split; [congruence|].
          rewrite Hmiss; [exact Luc|exact Hu|exact Hc|unfold pair_hit; lia]. }
        assert (Svc : adj s' tau v c).
        { split; [apply Hr; exact Hv|]. split; [apply Hr; exact Hc|]. split; [congruence|].
          rewrite Hmiss; [exact Lvc|exact Hv|exact Hc|unfold pair_hit; lia]. }
        assert (Huv' : conn s' tau u v).
        { apply rst_trans with c; [apply rst_step; exact Suc|apply rst_sym; apply rst_step; exact Svc]. }
        assert (Hcase : (a = u /\ b = v) \/ (a = v /\ b = u)) by (unfold pair_hit in E; lia).
        destruct Hcase as [[-> ->]|[-> ->]]; [exact Huv'|apply rst_sym; exact Huv'].
    + apply rst_step. split; [apply Hr; exact Ha|]. split; [apply Hr; exact Hb|]. split; [exact Hab|].
      rewrite Hmiss by assumption. exact Hle.
  - (* an edge of s' at tau *)
    apply Hr in Ha. apply Hr in Hb. apply rst_step. split; [exact Ha|]. split; [exact Hb|]. split; [exact Hab|].
    destruct (pair_hit a b u v) eqn:E.
    + destruct (Hhit a b Ha Hb E) as [Hs Hs']. rewrite Hs. rewrite Hs' in Hle. apply fv_le_trans with T; assumption.
    + rewrite Hmiss in Hle by assumption. exact Hle.
Qed.

(* ------------------------------------------------------------------ the table represents a list of edges *)
Definition lift (e : edge) : oedge := (fst (fst e), snd (fst e), Fin (snd e)).
Definition has_edge (L : list oedge) (a b : Z) (f : fv) : Prop := In (a, b, f) L \/ In (b, a, f) L.
Definition repr (s : state) (L : list oedge) : Prop :=
  forall a b, in_range s a -> in_range s b -> a <> b ->
  forall f, (tab s a b = f /\ f <> PInf) <-> has_edge L a b f.

Lemma okey_hit a b f u v : okey (a, b, f) = key u v -> pair_hit a b u v = true.
Proof. unfold okey, key, pair_hit. cbn [fst snd]. intros H. inversion H. lia. Qed.
Lemma hit_okey a b f u v : pair_hit a b u v = true -> okey (a, b, f) = key u v.
Proof. unfold okey, key, pair_hit. cbn [fst snd]. intros H. f_equal; lia. Qed.
Lemma pair_hit_sym a b u v : pair_hit b a u v = pair_hit a b u v.
Proof. unfold pair_hit. destruct (a =? u), (b =? v), (a =? v), (b =? u); reflexivity. Qed.

Lemma repr_step s s1 u v X T others Lold Lnew :
  (forall x, In x Lold <-> (X <> PInf /\ x = (u, v, X)) \/ In x others) ->
  (forall x, In x Lnew <-> (T <> PInf /\ x = (u, v, T)) \/ In x others) ->
  ~ In (key u v) (map okey others) -> (forall x, in_range s1 x <-> in_range s x) -> u <> v ->
  (forall a b, in_range s a -> in_range s b -> tab s1 a b = if pair_hit a b u v then T else tab s a b) ->
  repr s Lold -> repr s1 Lnew.
Proof.
  intros Hold Hnew Hfresh Hr Huv Htab R a b Ha Hb Hab f. apply Hr in Ha. apply Hr in Hb.
  assert (Hoth : forall a' b' f', pair_hit a' b' u v = true -> ~ In (a', b', f') others).
  { intros a' b' f' E Hin. apply Hfresh. apply in_map_iff. exists (a', b', f'). split; [apply hit_okey; exact E|exact Hin]. }
  unfold has_edge. rewrite !Hnew. rewrite Htab by assumption.
  destruct (pair_hit a b u v) eqn:E.
  - assert (E' : pair_hit b a u v = true) by (rewrite pair_hit_sym; exact E).
    assert (Hcase : (a = u /\ b = v) \/ (a = v /\ b = u)) by (unfold pair_hit in E; lia).
    split.
    + intros [<- Hf]. destruct Hcase as [[-> ->]|[-> ->]]; [left|right]; left; auto.
    + intros [[[Hf Hx]|Hx]|[[Hf Hx]|Hx]].
      * inversion Hx; subst. auto.
      * exfalso. exact (Hoth a b f E Hx).
      * inversion Hx; subst. auto.
      * exfalso. exact (Hoth b a f E' Hx).
  - assert (E' : pair_hit b a u v = false) by (rewrite pair_hit_sym; exact E).
    rewrite (R a b Ha Hb Hab f). unfold has_edge. rewrite !Hold.
    assert (N1 : forall Y, (a, b, f) <> (u, v, Y)) by (intros Y Hx; inversion Hx; subst; unfold pair_hit in E; lia).
    assert (N2 : forall Y, (b, a, f) <> (u, v, Y)) by (intros Y Hx; inversion Hx; subst; unfold pair_hit in E; lia).
    split; (intros [[[_ Hx]|Hx]|[[_ Hx]|Hx]];
      [exfalso; exact (N1 _ Hx)|left; right; exact Hx|exfalso; exact (N2 _ Hx)|right; right; exact Hx]).
Qed.

Lemma NoDup_map_replace {A B} (k : A -> B) l1 x y l2 :
  k y = k x -> NoDup (map k (l1 ++ x :: l2)) -> NoDup (map k (l1 ++ y :: l2)).
Proof. intros E. rewrite !map_app. cbn [map]. rewrite E. auto. Qed.
Lemma NoDup_map_remove {A B} (k : A -> B) l1 x l2 :
  NoDup (map k (l1 ++ x :: l2)) -> NoDup (map k (l1 ++ l2)) /\ ~ In (k x) (map k (l1 ++ l2)).
Proof.
  rewrite !map_app. cbn [map]. intros H. split; [apply NoDup_remove_1 in H; exact H|apply NoDup_remove_2 in H; exact H].
Qed.

Lemma in_o (T : fv) (u v : Z) (x : oedge) :
  In x (match T with PInf => [] | _ => [(u, v, T)] end) <-> (T <> PInf /\ x = (u, v, T)).
Proof.
  destruct T; cbn [In];
    first [split; [intros [A|[]]; split; [discriminate|auto]|intros [_ A]; left; auto]
          |split; [intros []|intros [A _]; congruence]].
Qed.

Lemma process_loop_conn V : forall es s done out,
  Coh s -> tbl_ok V s -> incl (map snd es) V ->
  (forall u v t, In (u, v, t) es -> in_range s u /\ in_range s v /\ u <> v) ->
  repr s (done ++ map lift es) -> NoDup (map okey (done ++ map lift es)) ->
  process_loop false s es = Some out ->
  exists s', Coh s' /\ nvert s' = nvert s /\ repr s' (done ++ out) /\
             forall tau a b, conn s tau a b <-> conn s' tau a b.
Proof.
  induction es as [|[[u v] t] es IH]; intros s done out C HV Hin Hrng R Hnd H; cbn [process_loop] in H.
  - inversion H; subst. exists s. cbn [map] in R. split; [exact C|]. split; [reflexivity|]. split; [exact R|]. tauto.
  - destruct (Hrng u v t (or_introl eq_refl)) as (Hu & Hv & Huv).
    destruct (process_edge false s (u, v, t)) as [[s1 o]|] eqn:E; [|discriminate].
    destruct (process_loop false s1 es) as [r|] eqn:Er; [|discriminate]. inversion H; subst out. clear H.
    cbn [map] in R, Hnd. change (lift (u, v, t)) with (u, v, Fin t) in R, Hnd.
    assert (Ht : tab s u v = Fin t).
    { apply (proj2 (R u v Hu Hv Huv (Fin t))). left. apply in_or_app. right. left. reflexivity. }
    pose proof (process_edge_conn V s u v t s1 o C HV Hu Hv Huv Ht E) as Hconn.
    destruct (process_edge_coh false s u v t s1 o C Hu Hv Huv E) as [C1 Hn1].
    destruct (process_edge_effect V s u v t s1 o C HV Hu Hv Huv E) as (T & HT & Ho & _ & Htab & _).
    pose proof E as E2. apply process_edge_spec with (V := V) in E2; [|exact HV|apply Hin; left; reflexivity].
    destruct E2 as [HV1 _].
    destruct (NoDup_map_remove okey done (u, v, Fin t) (map lift es) Hnd) as [Hnd' Hfresh].
    change (okey (u, v, Fin t)) with (key u v) in Hfresh.
    assert (Htab' : forall a b, in_range s a -> in_range s b -> tab s1 a b = if pair_hit a b u v then T else tab s a b).
    { intros a b Ha Hb. rewrite Htab by assumption. destruct (pair_hit a b u v) eqn:Eh; [|reflexivity].
      destruct (fv_eqb T (Fin t)) eqn:Eq; [|reflexivity]. apply fv_eqb_eq in Eq. subst T.
      assert (Hcase : (a = u /\ b = v) \/ (a = v /\ b = u)) by (unfold pair_hit in Eh; lia).
      destruct Hcase as [[-> ->]|[-> ->]]; [exact Ht|]. rewrite tab_sym by assumption. exact Ht. }
    assert (R1 : repr s1 ((done ++ o) ++ map lift es)).
    { apply repr_step with (s := s) (u := u) (v := v) (X := Fin t) (T := T) (others := done ++ map lift es)
                           (Lold := done ++ (u, v, Fin t) :: map lift es); try assumption.
      - intros x. rewrite !in_app_iff. cbn [In]. split; [intros [A|[A|A]]|intros [[_ A]|[A|A]]]; auto.
        left. split; [discriminate|auto].
      - intros x. rewrite Ho. rewrite !in_app_iff. rewrite in_o. tauto.
      - intros x. unfold in_range. rewrite Hn1. tauto. }
    assert (Hnd1 : NoDup (map okey ((done ++ o) ++ map lift es))).
    { rewrite Ho. destruct T; cbn [app]; try (rewrite <- app_assoc; cbn [app];
        apply NoDup_map_replace with (x := (u, v, Fin t)); [reflexivity|exact Hnd]).
      rewrite app_nil_r. exact Hnd'. }
    destruct (IH s1 (done ++ o) r C1 HV1) as (s' & C' & Hn' & R' & Hc'); try assumption.
    + intros z Hz. apply Hin. right. exact Hz.
    + intros u0 v0 t0 H0. unfold in_range. rewrite Hn1. apply (Hrng u0 v0 t0). right. exact H0.
    + exists s'. split; [exact C'|]. split; [rewrite Hn'; exact Hn1|]. split; [rewrite app_assoc; exact R'|].
      intros tau a b. rewrite (Hconn tau a b). apply Hc'.
Qed.

(* ------------------------------------------------------------------ read_edges: the table represents the input *)
Lemma okey_lift e : okey (lift e) = ekey e.
Proof. reflexivity. Qed.
Lemma map_okey_lift l : map okey (map lift l) = map ekey l.
Proof. rewrite map_map. apply map_ext. intros e. apply okey_lift. Qed.

Lemma read_edge_repr seen s u v f :
  Coh s -> from_seen seen s -> in_range s u -> in_range s v -> u <> v -> ~ In (key u v) (map ekey seen) ->
  repr s (map lift seen) -> repr (read_edge s (u, v, f)) (map lift (seen ++ [(u, v, f)])).
Proof.
  intros C F Hu Hv Huv Hnew R.
  assert (N1 : fm_find (nb_get s u) v = None).
  { destruct (fm_find (nb_get s u) v) eqn:E; [|reflexivity]. exfalso. apply Hnew. rewrite key_sym. apply F; [exact Hv|exact Hu|congruence]. }
  assert (N2 : fm_find (nb_get s v) u = None).
  { destruct (fm_find (nb_get s v) u) eqn:E; [|reflexivity]. exfalso. apply Hnew. apply F; [exact Hu|exact Hv|congruence]. }
  apply repr_step with (s := s) (u := u) (v := v) (X := PInf) (T := Fin f) (others := map lift seen) (Lold := map lift seen).
  - intros x. split; [auto|]. intros [[A _]|A]; [congruence|exact A].
  - intros x. rewrite map_app, in_app_iff. cbn [map In]. change (lift (u, v, f)) with (u, v, Fin f).
    split; [intros [A|[A|[]]]; auto; left; split; [discriminate|auto]|intros [[_ A]|A]; auto].
  - rewrite map_okey_lift. exact Hnew.
  - intros x. tauto.
  - exact Huv.
  - change (read_edge s (u, v, f)) with (pair_op s u v (fun l => fm_add l v (Fin f)) (fun l => fm_add l u (Fin f)) (Fin f)).
    apply pair_op_tab; try assumption; intros k; apply lookup_fm_add; assumption.
  - exact R.
Qed.

Lemma read_fold_repr : forall es seen s,
  Coh s -> from_seen seen s -> repr s (map lift seen) -> NoDup (map ekey (seen ++ es)) ->
  (forall u v t, In (u, v, t) es -> in_range s u /\ in_range s v /\ u <> v) ->
  repr (fold_left read_edge es s) (map lift (seen ++ es)).
Proof.
  induction es as [|[[u v] f] es IH]; intros seen s C F R Hn Hr; cbn [fold_left].
  - rewrite app_nil_r. exact R.
  - destruct (Hr u v f (or_introl eq_refl)) as (Hu & Hv & Huv).
    assert (Hnew : ~ In (key u v) (map ekey seen)).
    { rewrite map_app in Hn. cbn [map] in Hn. apply NoDup_remove_2 in Hn. intros H. apply Hn. apply in_or_app. left. exact H. }
    destruct (read_edge_coh seen s u v f C F Hu Hv Huv Hnew) as [C' F'].
    pose proof (read_edge_repr seen s u v f C F Hu Hv Huv Hnew R) as R'.
    assert (EQ : forall x : edge, seen ++ x :: es = (seen ++ [x]) ++ es) by (intros x; rewrite <- app_assoc; reflexivity).
    rewrite EQ. apply (IH (seen ++ [(u, v, f)]) (read_edge s (u, v, f))); try assumption.
    + rewrite <- app_assoc. exact Hn.
    + intros u0 v0 t0 H0. apply (Hr u0 v0 t0). right. exact H0.
Qed.

Lemma read_self_tab s i a b : Coh s -> in_range s i -> fm_find (nb_get s i) i = None -> 0 <= a -> a <> b ->
  tab (read_self s i) a b = tab s a b.
Proof.
  intros C Hi N Ha Hab. destruct (read_self_coh s i C Hi N) as (_ & _ & Hoth). unfold tab.
  destruct (Z.eqb_spec a i) as [->|Nai]; [|rewrite Hoth by assumption; reflexivity].
  change (nb_get (read_self s i) i) with (nb_get (nb_upd s i (fun l => fm_add l i MInf)) i).
  pose proof (coh_len s C) as Hl. unfold in_range in Hi.
  rewrite nb_get_upd by lia. rewrite Z.eqb_refl. rewrite lookup_fm_add by exact N.
  destruct (Z.eqb_spec b i); [congruence|reflexivity].
Qed.

Lemma read_selfs_repr L : forall todo s, Coh s -> NoDup todo ->
  (forall i, In i todo -> in_range s i /\ fm_find (nb_get s i) i = None) ->
  repr s L -> repr (fold_left read_self todo s) L.
Proof.
  induction todo as [|i todo IH]; intros s C Hn Ht R; cbn [fold_left]; [exact R|].
  destruct (Ht i (or_introl eq_refl)) as [Hi Ni].
  destruct (read_self_coh s i C Hi Ni) as (C' & Hnv & Hoth).
  apply NoDup_cons_iff in Hn. destruct Hn as [Hni Hn].
  apply IH; [exact C'|exact Hn| |].
  - intros j Hj. destruct (Ht j (or_intror Hj)) as [Hjr Nj]. split; [unfold in_range; rewrite Hnv; exact Hjr|].
    rewrite Hoth; [exact Nj|unfold in_range in Hjr; lia|intros ->; contradiction].
  - intros a b Ha Hb Hab f. unfold in_range in Ha, Hb. rewrite Hnv in Ha, Hb.
    rewrite read_self_tab; [apply R; assumption|exact C|exact Hi|exact Ni|lia|exact Hab].
Qed.

Lemma read_edges_repr es : simple_graph es -> repr (read_edges es) (map lift es).
Proof.
  intros [Hnd Hsimple]. unfold read_edges.
  pose proof (num_vertices_pos es) as Hpos.
  set (n := num_vertices es) in *. set (s0 := mkState (repeat [] (Z.to_nat n)) (fun _ => PInf) n).
  assert (C0 : Coh s0) by (apply coh_init; exact Hpos).
  assert (F0 : from_seen [] s0).
  { intros i j _ _ H. exfalso. apply H. unfold s0. rewrite nb_get_init. reflexivity. }
  assert (R0 : repr s0 (map lift [])).
  { intros a b _ _ _ f. unfold tab, s0. rewrite nb_get_init. cbn. split; [intros [<- H]; congruence|intros [[]|[]]]. }
  assert (Hrng : forall u v t, In (u, v, t) es -> in_range s0 u /\ in_range s0 v /\ u <> v).
  { intros u v t H. destruct (Hsimple u v t H) as (A & B & D). destruct (num_vertices_bound es u v t H) as [E1 E2].
    unfold in_range, s0. cbn [nvert]. fold n in E1, E2. lia. }
  destruct (read_edges_fold_coh es [] s0 C0 F0 Hnd Hrng) as (C1 & F1 & N1).
  pose proof (read_fold_repr es [] s0 C0 F0 R0 Hnd Hrng) as R1. cbn [app] in F1, R1. change (nvert s0) with n in N1.
  apply read_selfs_repr; [exact C1| | |exact R1].
  - apply FinFun.Injective_map_NoDup; [intros a b H; lia|apply seq_NoDup].
  - intros i Hi. apply in_map_iff in Hi. destruct Hi as (k & <- & Hk). apply in_seq in Hk.
    assert (Hr : in_range (fold_left read_edge es s0) (Z.of_nat k)) by (unfold in_range; rewrite N1; lia).
    split; [exact Hr|].
    destruct (fm_find (nb_get (fold_left read_edge es s0) (Z.of_nat k)) (Z.of_nat k)) eqn:E; [|reflexivity]. exfalso.
    assert (Hin : In (key (Z.of_nat k) (Z.of_nat k)) (map ekey es)) by (apply F1; [exact Hr|exact Hr|congruence]).
    apply in_map_iff in Hin. destruct Hin as ([[u v] t] & Ek & He). unfold ekey in Ek. cbn [fst snd] in Ek.
    apply key_diag in Ek. destruct (Hsimple u v t He) as (_ & _ & D). contradiction.
Qed.

(* ------------------------------------------------------------------ the theorem, on edge lists *)
(* a and b are joined by an edge of L present at time tau / are in the same component of that graph *)
Definition adjL (L : list oedge) (tau : fv) (a b : Z) : Prop := exists f, has_edge L a b f /\ fv_le f tau = true.
Definition connL (L : list oedge) (tau : fv) : Z -> Z -> Prop := clos_refl_sym_trans Z (adjL L tau).

Lemma repr_conn s L tau :
  repr s L -> (forall a b f, has_edge L a b f -> in_range s a /\ in_range s b /\ a <> b) -> tau <> PInf ->
  forall a b, conn s tau a b <-> connL L tau a b.
Proof.
  intros R Hr Ht a b. split; apply clos_rst_mono; clear a b; intros a b.
  - intros (Ha & Hb & Hab & Hle). apply rst_step. exists (tab s a b). split; [|exact Hle].
    apply (R a b Ha Hb Hab). split; [reflexivity|]. intros E. rewrite E in Hle. destruct tau; cbn in Hle; congruence.
  - intros (f & He & Hle). destruct (Hr a b f He) as (Ha & Hb & Hab). apply rst_step.
    split; [exact Ha|]. split; [exact Hb|]. split; [exact Hab|].
    apply (R a b Ha Hb Hab f) in He. destruct He as [-> _]. exact Hle.
Qed.

Lemma connL_ext L1 L2 tau : (forall x, In x L1 <-> In x L2) -> forall a b, connL L1 tau a b <-> connL L2 tau a b.
Proof.
  intros H a b. split; apply clos_rst_mono; clear a b; intros a b (f & [He|He] & Hle); apply rst_step; exists f;
    (split; [|exact Hle]); unfold has_edge; [left|right|left|right]; apply H; exact He.
Qed.

Theorem components_preserved es out : simple_graph es -> process_edges false es = Some out ->
  forall (tau : Z) a b, connL (map lift es) (Fin tau) a b <-> connL out (Fin tau) a b.
Proof.
  intros Hs H tau a b. destruct (read_edges_coh es Hs) as [C Hn]. pose proof (read_edges_repr es Hs) as R.
  destruct Hs as [Hnd Hsimple].
  assert (Hrng : forall u v t, In (u, v, t) es -> in_range (read_edges es) u /\ in_range (read_edges es) v /\ u <> v).
  { intros u v t Hin. destruct (Hsimple u v t Hin) as (A & B & D). destruct (num_vertices_bound es u v t Hin) as [E1 E2].
    unfold in_range. rewrite Hn. lia. }
  pose proof H as H0. unfold process_edges in H0.
  destruct (process_loop_conn (map snd es) es (read_edges es) [] out C (read_edges_ok _ es (incl_refl _)) (incl_refl _) Hrng)
    as (s' & C' & Hn' & R' & Hc); [exact R|cbn [app]; rewrite map_okey_lift; exact Hnd|exact H0|]. cbn [app] in R'.
  rewrite <- (repr_conn (read_edges es) (map lift es) (Fin tau) R); [|
    | discriminate].
  - rewrite <- (repr_conn s' out (Fin tau) R'); [apply Hc| |discriminate].
    intros x y f [He|He]; destruct (collapse_edges_subset false es out _ _ _ H He) as (t & Hin & _);
      destruct (Hrng _ _ _ Hin) as (A & B & D); unfold in_range in *; rewrite Hn'; auto.
  - intros x y f [He|He]; apply in_map_iff in He; destruct He as ([[u v] t] & E & Hin); inversion E; subst;
      destruct (Hrng _ _ _ Hin) as (A & B & D); auto.
Qed.

Theorem components_preserved_any dense es out :
  NoDup (map ekey es) -> (forall u v t, In (u, v, t) es -> 0 <= u /\ 0 <= v /\ u <> v) ->
  process_edges dense es = Some out ->
  forall (tau : Z) a b, connL (map lift es) (Fin tau) a b <-> connL out (Fin tau) a b.
Proof.
  intros H1 H2 H. assert (Hs : simple_graph es) by (split; assumption).
  apply components_preserved; [exact Hs|]. destruct dense; [rewrite <- tables_agree by exact Hs|]; exact H.
Qed.

Theorem components_preserved_entry_point dense es out :
  NoDup (map ekey es) -> (forall u v t, In (u, v, t) es -> 0 <= u /\ 0 <= v /\ u <> v) ->
  flag_complex_collapse_edges dense es = Some out ->
  forall (tau : Z) a b, connL (map lift es) (Fin tau) a b <-> connL out (Fin tau) a b.
Proof.
  intros H1 H2 H tau a b. unfold flag_complex_collapse_edges in H. destruct es as [|e es]; [inversion H; tauto|].
  set (l := e :: es) in *. assert (Hs : simple_graph l) by (split; assumption).
  pose proof (sort_desc_perm l) as P. pose proof (simple_graph_perm _ _ P Hs) as [Hs1 Hs2].
  rewrite <- (components_preserved_any dense (sort_desc l) out Hs1 Hs2 H tau a b).
  apply connL_ext. intros x. split; intros Hx.
  - apply Permutation_in with (map lift l); [apply Permutation_map; exact P|exact Hx].
  - apply Permutation_in with (map lift (sort_desc l)); [apply Permutation_map; apply Permutation_sym; exact P|exact Hx].
Qed.
