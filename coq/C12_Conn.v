(* C12_Conn.v — the dimension-0 part of the decisive clause: at every time the graph of the returned edges has the same
   connected components as the input graph. *)
From Coq Require Import ZArith List Bool Arith Lia ZifyBool Permutation Sorting.Sorted Relations.
Require Import Reduce ReduceExec C12_Model C12_Proofs C12_Tables.
Import ListNotations.
Local Open Scope Z_scope.

Lemma fv_lt_le_trans a b c : fv_lt a b = true -> fv_le b c = true -> fv_lt a c = true.
Proof. unfold fv_le, fv_lt. destruct a, b, c; cbn; try discriminate; try reflexivity; lia. Qed.
Lemma fv_le_lt_trans a b c : fv_le a b = true -> fv_lt b c = true -> fv_lt a c = true.
Proof. unfold fv_le, fv_lt. destruct a, b, c; cbn; try discriminate; try reflexivity; lia. Qed.
Lemma fv_le_or_lt a b : fv_le a b = true \/ fv_lt b a = true.
Proof. unfold fv_le. destruct (fv_lt b a); auto. Qed.
Lemma fv_lt_irrefl a b : fv_le a b = true -> fv_lt b a = true -> False.
Proof. unfold fv_le. intros H1 H2. rewrite H2 in H1. discriminate. Qed.
Lemma fv_max_le a b c : fv_le (fv_max a b) c = true -> fv_le a c = true /\ fv_le b c = true.
Proof. unfold fv_max, fv_le, fv_lt. destruct a, b, c; cbn; try (intros; split; congruence); try discriminate;
  try (destruct (z <? z0) eqn:E; cbn; intros; split; lia). Qed.

(* ------------------------------------------------------------------ the sweep always has a common neighbour at hand *)
Section OneEdge.
Variables (s : state) (u v : Z).
Definition tab (s : state) (a b : Z) : fv := lookup_inf (nb_get s a) b.
(* c is a common neighbour of u and v at time tau *)
Definition CN (c : Z) (tau : fv) : Prop :=
  in_range s c /\ c <> u /\ c <> v /\ fv_le (tab s u c) tau = true /\ fv_le (tab s v c) tau = true.
Lemma CN_mono c t1 t2 : CN c t1 -> fv_le t1 t2 = true -> CN c t2.
Proof. intros (A & B & C & D & E) H. split; [exact A|split; [exact B|split; [exact C|split; eapply fv_le_trans; eassumption]]]. Qed.

Definition final_time (o : outcome) : option fv :=
  match o with Dead => Some PInf | Alive t => Some t | OutOfFuel => None end.

Lemma set_insert_keep l w x : In x l -> In x (set_insert l w).
Proof.
  induction l as [|y l IH]; cbn [set_insert]; [intros []|]. intros Hx.
  destruct (w <? y); [right; exact Hx|]. destruct (w =? y); [exact Hx|].
  destruct Hx as [<-|Hx]; [left; reflexivity|right; apply IH; exact Hx].
Qed.
Lemma set_insert_new l w : In w (set_insert l w).
Proof.
  induction l as [|y l IH]; cbn [set_insert]; [left; reflexivity|].
  destruct (w <? y); [left; reflexivity|]. destruct (Z.eqb_spec w y) as [->|]; [left; reflexivity|right; exact IH].
Qed.
Lemma fold_insert_in (now : list (fv * Z)) : forall en x,
  In x (fold_left (fun l y => set_insert l (snd y)) now en) <-> In x en \/ In x (map snd now).
Proof.
  induction now as [|y now IH]; intros en x; cbn [fold_left map In]; [tauto|].
  rewrite IH. split.
  - intros [H|H]; [|tauto]. destruct (set_insert_in _ _ _ H) as [->|H']; [right; left; reflexivity|left; exact H'].
  - intros [H|[<-|H]]; [left; apply set_insert_keep; exact H|left; apply set_insert_new|right; exact H].
Qed.

Lemma sweep_common_neighbour dense fuel : forall en later time dom T,
  final_time (sweep dense s fuel en later time dom) = Some T ->
  (forall c, In c en -> CN c time) ->
  (forall x, In x later -> CN (snd x) (fst x)) ->
  later_after time later ->
  (forall d, dom = Some d -> In d en) ->
  forall tau, fv_le time tau = true -> fv_lt tau T = true -> exists c, CN c tau.
Proof.
  induction fuel as [|fuel IH]; intros en later time dom T HT Hen Hl Haft Hd tau H1 H2; [discriminate|].
  rewrite sweep_S in HT. destruct dom as [d|].
  - assert (Hdn : CN d time) by (apply Hen; apply Hd; reflexivity).
    destruct later as [|x0 l]; [exists d; apply CN_mono with time; assumption|].
    cbv zeta in HT. remember (x0 :: l) as L eqn:EL.
    assert (Hmin : In (later_min L) (map fst L)) by (rewrite EL; apply later_min_in).
    apply in_map_iff in Hmin. destruct Hmin as (y0 & Ey0 & Hy0).
    assert (Hle : fv_le time (later_min L) = true) by (rewrite <- Ey0; apply fv_lt_le; apply Haft; exact Hy0).
    destruct (fv_le_or_lt (later_min L) tau) as [Hc|Hc]; [|exists d; apply CN_mono with time; assumption].
    eapply IH; [exact HT| | | | |exact Hc|exact H2].
    + intros c Hc'. apply fold_insert_in in Hc'. destruct Hc' as [Hc'|Hc'].
      * apply CN_mono with time; [apply Hen; exact Hc'|exact Hle].
      * apply in_map_iff in Hc'. destruct Hc' as (x & <- & Hx). apply filter_In in Hx. destruct Hx as [Hx Hxle].
        apply CN_mono with (fst x); [apply Hl; exact Hx|exact Hxle].
    + intros x Hx. apply filter_In in Hx. apply Hl. tauto.
    + apply rest_after.
    + intros d' Hd'. apply fold_insert_in. left.
      destruct (forallb _ _) in Hd'; inversion Hd'; subst. apply Hd. reflexivity.
  - destruct (find (fun c => is_dominated_by dense s en c time) en) as [c|] eqn:F.
    + eapply IH; [exact HT|exact Hen|exact Hl|exact Haft| |exact H1|exact H2].
      intros d' Hd'. inversion Hd'; subst. apply find_some in F. tauto.
    + cbn [final_time] in HT. inversion HT; subst. exfalso. eapply fv_lt_irrefl; eassumption.
Qed.
End OneEdge.

(* ------------------------------------------------------------------ table entries after a paired update *)
Lemma pair_op_tab s u v g1 g2 F :
  Coh s -> in_range s u -> in_range s v -> u <> v ->
  (forall k, lookup_inf (g1 (nb_get s u)) k = if k =? v then F else lookup_inf (nb_get s u) k) ->
  (forall k, lookup_inf (g2 (nb_get s v)) k = if k =? u then F else lookup_inf (nb_get s v) k) ->
  forall a b, in_range s a -> in_range s b ->
  tab (pair_op s u v g1 g2 F) a b = if pair_hit a b u v then F else tab s a b.
Proof.
  intros C Hu Hv Huv L1 L2 a b Ha Hb. unfold tab.
  rewrite nb_get_pair_op by (try assumption; unfold in_range in Ha; lia). unfold pair_hit.
  destruct (Z.eqb_spec a v) as [->|Nav].
  - rewrite L2. destruct (Z.eqb_spec v u); [congruence|]. cbn [andb orb].
    destruct (b =? u); reflexivity.
  - destruct (Z.eqb_spec a u) as [->|Nau].
    + rewrite L1. cbn [andb orb]. destruct (b =? v); reflexivity.
    + cbn [andb orb]. reflexivity.
Qed.

Lemma delay_tab s u v f : Coh s -> in_range s u -> in_range s v -> u <> v ->
  forall a b, in_range s a -> in_range s b ->
  tab (delay_neighbor s u v f) a b = if pair_hit a b u v then f else tab s a b.
Proof.
  intros C Hu Hv Huv.
  change (delay_neighbor s u v f) with (pair_op s u v (fun l => fm_set l v f) (fun l => fm_set l u f) f).
  apply pair_op_tab; try assumption; intros k; apply lookup_fm_set.
Qed.
Lemma remove_tab s u v : Coh s -> in_range s u -> in_range s v -> u <> v ->
  forall a b, in_range s a -> in_range s b ->
  tab (remove_neighbor s u v) a b = if pair_hit a b u v then PInf else tab s a b.
Proof.
  intros C Hu Hv Huv.
  change (remove_neighbor s u v) with (pair_op s u v (fun l => fm_erase l v) (fun l => fm_erase l u) PInf).
  apply pair_op_tab; try assumption; intros k; apply lookup_fm_erase; apply (coh_keys s C); assumption.
Qed.

(* ------------------------------------------------------------------ one edge: what changes, and why it is harmless *)
Lemma process_edge_effect V s u v t s' o :
  Coh s -> tbl_ok V s -> in_range s u -> in_range s v -> u <> v ->
  process_edge false s (u, v, t) = Some (s', o) ->
  exists T,
    fv_le (Fin t) T = true /\
    o = (match T with PInf => [] | _ => [(u, v, T)] end) /\
    nvert s' = nvert s /\
    (forall a b, in_range s a -> in_range s b ->
       tab s' a b = if pair_hit a b u v then (if fv_eqb T (Fin t) then tab s a b else T) else tab s a b) /\
    (forall tau, fv_le (Fin t) tau = true -> fv_lt tau T = true -> exists c, CN s u v c tau).
Proof.
  intros C HV Hu Hv Huv H. unfold process_edge in H.
  destruct (coh_keys s C u Hu) as [Ksu Kru]. destruct (coh_keys s C v Hv) as [Ksv Krv].
  pose proof (common_neighbors_spec u v (Fin t) (nb_get s u) (nb_get s v) Ksu Ksv) as Hspec.
  pose proof (cn_later V u v (Fin t) (nb_get s u) (nb_get s v) (nb_get_ok V s u HV) (nb_get_ok V s v HV)) as Hlat.
  destruct (common_neighbors u v (Fin t) (nb_get s u) (nb_get s v)) as [en later]. cbn [fst snd] in *.
  rewrite Forall_forall in Hlat, Kru.
  assert (Hmem : forall w f, cn_member u v (nb_get s u) (nb_get s v) w f -> forall tau, fv_le f tau = true -> CN s u v w tau).
  { intros w f (fu & fw & F1 & F2 & N1 & N2 & ->) tau Hle. apply fv_max_le in Hle. destruct Hle as [L1 L2].
    split; [apply Kru; apply fm_find_some_in with fu; exact F1|]. split; [exact N1|]. split; [exact N2|].
    unfold tab, lookup_inf. rewrite F1, F2. auto. }
  assert (Hen : forall c, In c en -> CN s u v c (Fin t)).
  { intros c Hc. apply (proj1 (Hspec c)) in Hc. destruct Hc as (f & Hm & Hg). apply (Hmem c f Hm).
    unfold fv_le. unfold fv_gt in Hg. rewrite Hg. reflexivity. }
  assert (Hl : forall x, In x later -> CN s u v (snd x) (fst x)).
  { intros [f w] Hx. apply (proj2 (Hspec w) f) in Hx. destruct Hx as [Hm _]. apply (Hmem w f Hm). apply fv_le_refl. }
  assert (Haft : later_after (Fin t) later) by (intros x Hx; apply Hlat; exact Hx).
  pose proof (sweep_common_neighbour s u v false (2 * length later + 2) en later (Fin t) None) as Hsw.
  destruct (sweep false s (2 * length later + 2) en later (Fin t) None) as [|T|] eqn:E; [| |discriminate].
  - inversion H; subst. exists PInf. split; [reflexivity|]. split; [reflexivity|]. split; [reflexivity|]. split.
    + intros a b Ha Hb. rewrite remove_tab by assumption. cbn [fv_eqb]. reflexivity.
    + intros tau T1 T2. apply (Hsw PInf eq_refl Hen Hl Haft); [intros d Hd; discriminate Hd|exact T1|exact T2].
  - pose proof E as E'. apply sweep_alive in E'; [|exact Haft]. destruct E' as [Ele Ecase].
    assert (HTfin : exists z, T = Fin z).
    { destruct Ecase as [->|Hin]; [exists t; reflexivity|].
      apply in_map_iff in Hin. destruct Hin as (x & Ex & Hx). destruct (Hlat x Hx) as [A [B|(z & _ & B)]]; rewrite Ex in *.
      - rewrite B in A. cbn in A. discriminate A.
      - exists z. exact B. }
    destruct HTfin as (z & ->).
    exists (Fin z). split; [exact Ele|].
    assert (Hcn : forall tau, fv_le (Fin t) tau = true -> fv_lt tau (Fin z) = true -> exists c, CN s u v c tau).
    { intros tau T1 T2. apply (Hsw (Fin z) eq_refl Hen Hl Haft); [intros d Hd; discriminate Hd|exact T1|exact T2]. }
    destruct (negb (fv_eqb (Fin t) (Fin z))) eqn:Eq; inversion H; subst.
    + split; [reflexivity|]. split; [reflexivity|]. split; [|exact Hcn].
      intros a b Ha Hb. rewrite delay_tab by assumption.
      cbn [fv_eqb] in *. rewrite Z.eqb_sym. destruct (t =? z); [discriminate|reflexivity].
    + apply negb_false_iff in Eq. apply fv_eqb_eq in Eq. inversion Eq; subst z.
      split; [reflexivity|]. split; [reflexivity|]. split; [|exact Hcn].
      intros a b Ha Hb. cbn [fv_eqb]. rewrite Z.eqb_refl. destruct (pair_hit a b u v); reflexivity.
Qed.

(* ------------------------------------------------------------------ components of the current graph at time tau *)
Definition adj (s : state) (tau : fv) (a b : Z) : Prop :=
  in_range s a /\ in_range s b /\ a <> b /\ fv_le (tab s a b) tau = true.
Definition conn (s : state) (tau : fv) : Z -> Z -> Prop := clos_refl_sym_trans Z (adj s tau).

Lemma clos_rst_mono {A} (R1 R2 : relation A) :
  (forall a b, R1 a b -> clos_refl_sym_trans A R2 a b) ->
  forall a b, clos_refl_sym_trans A R1 a b -> clos_refl_sym_trans A R2 a b.
Proof.
  intros H a b Hc. induction Hc; [apply H; assumption|apply rst_refl|apply rst_sym; assumption|eapply rst_trans; eassumption].
Qed.

Lemma tab_sym s a b : Coh s -> in_range s a -> in_range s b -> tab s a b = tab s b a.
Proof. intros C Ha Hb. unfold tab. apply (coh_sym s C); assumption. Qed.

Lemma process_edge_conn V s u v t s' o :
  Coh s -> tbl_ok V s -> in_range s u -> in_range s v -> u <> v -> tab s u v = Fin t ->
  process_edge false s (u, v, t) = Some (s', o) ->
  forall tau a b, conn s tau a b <-> conn s' tau a b.
Proof.
  intros C HV Hu Hv Huv Huv_t H tau.
  destruct (process_edge_effect V s u v t s' o C HV Hu Hv Huv H) as (T & HT & _ & Hn & Htab & Hcn).
  assert (Hvu_t : tab s v u = Fin t) by (rewrite tab_sym by assumption; exact Huv_t).
  assert (Hr : forall x, in_range s' x <-> in_range s x) by (intros x; unfold in_range; rewrite Hn; tauto).
  assert (Hhit : forall a b, in_range s a -> in_range s b -> pair_hit a b u v = true -> tab s a b = Fin t /\ tab s' a b = T).
  { intros a b Ha Hb E. assert (Hab : (a = u /\ b = v) \/ (a = v /\ b = u)) by (unfold pair_hit in E; lia).
    assert (Hs : tab s a b = Fin t) by (destruct Hab as [[-> ->]|[-> ->]]; assumption).
    split; [exact Hs|]. rewrite Htab by assumption. rewrite E. rewrite Hs.
    destruct (fv_eqb T (Fin t)) eqn:Eq; [apply fv_eqb_eq in Eq; congruence|reflexivity]. }
  assert (Hmiss : forall a b, in_range s a -> in_range s b -> pair_hit a b u v = false -> tab s' a b = tab s a b).
  { intros a b Ha Hb E. rewrite Htab by assumption. rewrite E. reflexivity. }
  intros a b. split; apply clos_rst_mono; clear a b; intros a b (Ha & Hb & Hab & Hle).
  - (* an edge of s at tau *)
    destruct (pair_hit a b u v) eqn:E.
    + destruct (Hhit a b Ha Hb E) as [Hs Hs'].
      destruct (fv_le_or_lt T tau) as [HTt|HTt].
      * apply rst_step. split; [apply Hr; exact Ha|]. split; [apply Hr; exact Hb|]. split; [exact Hab|]. rewrite Hs'. exact HTt.
      * rewrite Hs in Hle. destruct (Hcn tau Hle HTt) as (c & Hc & Ncu & Ncv & Luc & Lvc).
        assert (Suc : adj s' tau u c).
        { split; [apply Hr; exact Hu|]. split; [apply Hr; exact Hc|]. split; [congruence|].
          rewrite Hmiss; [exact Luc|exact Hu|exact Hc|unfold pair_hit; lia]. }
        assert (Svc : adj s' tau v c).
        { split; [apply Hr; exact Hv|]. split; [apply Hr; exact Hc|]. split; [congruence|].
          rewrite Hmiss; [exact Lvc|exact Hv|exact Hc|unfold pair_hit; lia]. }
        assert (Huv' : conn s' tau u v).
        { apply rst_trans with c; [apply rst_step; exact Suc|apply rst_sym; apply rst_step; exact Svc]. }
        assert (Hcase : (a = u /\ b = v) \/ (a = v /\ b = u)) by (unfold pair_hit in E; lia).
        destruct Hcase as [[-> ->]|[-> ->]]; [exact Huv'|apply rst_sym; exact Huv'].
    + apply rst_step. split; [apply Hr; exact Ha|]. split; [apply Hr; exact Hb|]. split; [exact Hab|].
      rewrite Hmiss by assumption. exact Hle.
  - (* an edge of s' at tau *)
    apply Hr in Ha. apply Hr in Hb. apply rst_step. split; [exact Ha|]. split; [exact Hb|]. split; [exact Hab|].
    destruct (pair_hit a b u v) eqn:E.
    + destruct (Hhit a b Ha Hb E) as [Hs Hs']. rewrite Hs. rewrite Hs' in Hle. apply fv_le_trans with T; assumption.
    + rewrite Hmiss in Hle by assumption. exact Hle.
Qed.

(* ------------------------------------------------------------------ the table represents a list of edges *)
Definition lift (e : edge) : oedge := (fst (fst e), snd (fst e), Fin (snd e)).
Definition has_edge (L : list oedge) (a b : Z) (f : fv) : Prop := In (a, b, f) L \/ In (b, a, f) L.
Definition repr (s : state) (L : list oedge) : Prop :=
  forall a b, in_range s a -> in_range s b -> a <> b ->
  forall f, (tab s a b = f /\ f <> PInf) <-> has_edge L a b f.

Lemma okey_hit a b f u v : okey (a, b, f) = key u v -> pair_hit a b u v = true.
Proof. unfold okey, key, pair_hit. cbn [fst snd]. intros H. inversion H. lia. Qed.
Lemma hit_okey a b f u v : pair_hit a b u v = true -> okey (a, b, f) = key u v.
Proof. unfold okey, key, pair_hit. cbn [fst snd]. intros H. f_equal; lia. Qed.
Lemma pair_hit_sym a b u v : pair_hit b a u v = pair_hit a b u v.
Proof. unfold pair_hit. destruct (a =? u), (b =? v), (a =? v), (b =? u); reflexivity. Qed.

Lemma repr_step s s1 u v X T others Lold Lnew :
  (forall x, In x Lold <-> (X <> PInf /\ x = (u, v, X)) \/ In x others) ->
  (forall x, In x Lnew <-> (T <> PInf /\ x = (u, v, T)) \/ In x others) ->
  ~ In (key u v) (map okey others) -> (forall x, in_range s1 x <-> in_range s x) -> u <> v ->
  (forall a b, in_range s a -> in_range s b -> tab s1 a b = if pair_hit a b u v then T else tab s a b) ->
  repr s Lold -> repr s1 Lnew.
Proof.
  intros Hold Hnew Hfresh Hr Huv Htab R a b Ha Hb Hab f. apply Hr in Ha. apply Hr in Hb.
  assert (Hoth : forall a' b' f', pair_hit a' b' u v = true -> ~ In (a', b', f') others).
  { intros a' b' f' E Hin. apply Hfresh. apply in_map_iff. exists (a', b', f'). split; [apply hit_okey; exact E|exact Hin]. }
  unfold has_edge. rewrite !Hnew. rewrite Htab by assumption.
  destruct (pair_hit a b u v) eqn:E.
  - assert (E' : pair_hit b a u v = true) by (rewrite pair_hit_sym; exact E).
    assert (Hcase : (a = u /\ b = v) \/ (a = v /\ b = u)) by (unfold pair_hit in E; lia).
    split.
    + intros [<- Hf]. destruct Hcase as [[-> ->]|[-> ->]]; [left|right]; left; auto.
    + intros [[[Hf Hx]|Hx]|[[Hf Hx]|Hx]].
      * inversion Hx; subst. auto.
      * exfalso. exact (Hoth a b f E Hx).
      * inversion Hx; subst. auto.
      * exfalso. exact (Hoth b a f E' Hx).
  - assert (E' : pair_hit b a u v = false) by (rewrite pair_hit_sym; exact E).
    rewrite (R a b Ha Hb Hab f). unfold has_edge. rewrite !Hold.
    assert (N1 : forall Y, (a, b, f) <> (u, v, Y)) by (intros Y Hx; inversion Hx; subst; unfold pair_hit in E; lia).
    assert (N2 : forall Y, (b, a, f) <> (u, v, Y)) by (intros Y Hx; inversion Hx; subst; unfold pair_hit in E; lia).
    split; (intros [[[_ Hx]|Hx]|[[_ Hx]|Hx]];
      [exfalso; exact (N1 _ Hx)|left; right; exact Hx|exfalso; exact (N2 _ Hx)|right; right; exact Hx]).
Qed.

Lemma NoDup_map_replace {A B} (k : A -> B) l1 x y l2 :
  k y = k x -> NoDup (map k (l1 ++ x :: l2)) -> NoDup (map k (l1 ++ y :: l2)).
Proof. intros E. rewrite !map_app. cbn [map]. rewrite E. auto. Qed.
Lemma NoDup_map_remove {A B} (k : A -> B) l1 x l2 :
  NoDup (map k (l1 ++ x :: l2)) -> NoDup (map k (l1 ++ l2)) /\ ~ In (k x) (map k (l1 ++ l2)).
Proof.
  rewrite !map_app. cbn [map]. intros H. split; [apply NoDup_remove_1 in H; exact H|apply NoDup_remove_2 in H; exact H].
Qed.

Lemma in_o (T : fv) (u v : Z) (x : oedge) :
  In x (match T with PInf => [] | _ => [(u, v, T)] end) <-> (T <> PInf /\ x = (u, v, T)).
Proof.
  destruct T; cbn [In];
    first [split; [intros [A|[]]; split; [discriminate|auto]|intros [_ A]; left; auto]
          |split; [intros []|intros [A _]; congruence]].
Qed.

Lemma process_loop_conn V : forall es s done out,
  Coh s -> tbl_ok V s -> incl (map snd es) V ->
  (forall u v t, In (u, v, t) es -> in_range s u /\ in_range s v /\ u <> v) ->
  repr s (done ++ map lift es) -> NoDup (map okey (done ++ map lift es)) ->
  process_loop false s es = Some out ->
  exists s', Coh s' /\ nvert s' = nvert s /\ repr s' (done ++ out) /\
             forall tau a b, conn s tau a b <-> conn s' tau a b.
Proof.
  induction es as [|[[u v] t] es IH]; intros s done out C HV Hin Hrng R Hnd H; cbn [process_loop] in H.
  - inversion H; subst. exists s. cbn [map] in R. split; [exact C|]. split; [reflexivity|]. split; [exact R|]. tauto.
  - destruct (Hrng u v t (or_introl eq_refl)) as (Hu & Hv & Huv).
    destruct (process_edge false s (u, v, t)) as [[s1 o]|] eqn:E; [|discriminate].
    destruct (process_loop false s1 es) as [r|] eqn:Er; [|discriminate]. inversion H; subst out. clear H.
    cbn [map] in R, Hnd. change (lift (u, v, t)) with (u, v, Fin t) in R, Hnd.
    assert (Ht : tab s u v = Fin t).
    { apply (proj2 (R u v Hu Hv Huv (Fin t))). left. apply in_or_app. right. left. reflexivity. }
    pose proof (process_edge_conn V s u v t s1 o C HV Hu Hv Huv Ht E) as Hconn.
    destruct (process_edge_coh false s u v t s1 o C Hu Hv Huv E) as [C1 Hn1].
    destruct (process_edge_effect V s u v t s1 o C HV Hu Hv Huv E) as (T & HT & Ho & _ & Htab & _).
    pose proof E as E2. apply process_edge_spec with (V := V) in E2; [|exact HV|apply Hin; left; reflexivity].
    destruct E2 as [HV1 _].
    destruct (NoDup_map_remove okey done (u, v, Fin t) (map lift es) Hnd) as [Hnd' Hfresh].
    change (okey (u, v, Fin t)) with (key u v) in Hfresh.
    assert (Htab' : forall a b, in_range s a -> in_range s b -> tab s1 a b = if pair_hit a b u v then T else tab s a b).
    { intros a b Ha Hb. rewrite Htab by assumption. destruct (pair_hit a b u v) eqn:Eh; [|reflexivity].
      destruct (fv_eqb T (Fin t)) eqn:Eq; [|reflexivity]. apply fv_eqb_eq in Eq. subst T.
      assert (Hcase : (a = u /\ b = v) \/ (a = v /\ b = u)) by (unfold pair_hit in Eh; lia).
      destruct Hcase as [[-> ->]|[-> ->]]; [exact Ht|]. rewrite tab_sym by assumption. exact Ht. }
    assert (R1 : repr s1 ((done ++ o) ++ map lift es)).
    { apply repr_step with (s := s) (u := u) (v := v) (X := Fin t) (T := T) (others := done ++ map lift es)
                           (Lold := done ++ (u, v, Fin t) :: map lift es); try assumption.
      - intros x. rewrite !in_app_iff. cbn [In]. split; [intros [A|[A|A]]|intros [[_ A]|[A|A]]]; auto.
        left. split; [discriminate|auto].
      - intros x. rewrite Ho. rewrite !in_app_iff. rewrite in_o. tauto.
      - intros x. unfold in_range. rewrite Hn1. tauto. }
    assert (Hnd1 : NoDup (map okey ((done ++ o) ++ map lift es))).
    { rewrite Ho. destruct T; cbn [app]; try (rewrite <- app_assoc; cbn [app];
        apply NoDup_map_replace with (x := (u, v, Fin t)); [reflexivity|exact Hnd]).
      rewrite app_nil_r. exact Hnd'. }
    destruct (IH s1 (done ++ o) r C1 HV1) as (s' & C' & Hn' & R' & Hc'); try assumption.
    + intros z Hz. apply Hin. right. exact Hz.
    + intros u0 v0 t0 H0. unfold in_range. rewrite Hn1. apply (Hrng u0 v0 t0). right. exact H0.
    + exists s'. split; [exact C'|]. split; [rewrite Hn'; exact Hn1|]. split; [rewrite app_assoc; exact R'|].
      intros tau a b. rewrite (Hconn tau a b). apply Hc'.
Qed.
