(* C12_Dom.v — an edge is delayed / removed only across times at which it is dominated in the current graph:
   the hypothesis of the edge-collapse theorem of the literature holds at every step of the sweep. *)
From Coq Require Import ZArith List Bool Arith Lia ZifyBool Permutation Sorting.Sorted.
Require Import Reduce ReduceExec C12_Model C12_Proofs C12_Tables C12_Conn.
Import ListNotations.
Local Open Scope Z_scope.

Lemma fv_max_le_iff a b c : fv_le (fv_max a b) c = true <-> fv_le a c = true /\ fv_le b c = true.
Proof.
  split; [apply fv_max_le|]. intros [H1 H2]. destruct (fv_max_cases a b) as [-> | ->]; assumption.
Qed.
Lemma fv_max_PInf_l b : fv_max PInf b = PInf.
Proof. unfold fv_max, fv_lt. reflexivity. Qed.
Lemma fv_max_PInf_r a : fv_max a PInf = PInf.
Proof. unfold fv_max, fv_lt. destruct a; reflexivity. Qed.
Lemma fv_le_PInf_l c : fv_le PInf c = true -> c = PInf.
Proof. destruct c; cbn; congruence. Qed.

Section OneEdge.
Variables (V : list Z) (s : state) (u v : Z).
Hypothesis C : Coh s.
Hypothesis HV : tbl_ok V s.

(* time from which w is a common neighbour of u and v in the current graph (+inf: never) *)
Definition app (w : Z) : fv := fv_max (tab s u w) (tab s v w).
Definition cnbr (w : Z) (tau : fv) : Prop := w <> u /\ w <> v /\ fv_le (app w) tau = true.
(* N_tau(uv) is contained in N_tau[c], c itself a common neighbour: the edge uv is dominated by c at time tau *)
Definition dominated_by (c : Z) (tau : fv) : Prop :=
  cnbr c tau /\ forall w, cnbr w tau -> fv_le (tab s c w) tau = true.

Lemma cnbr_mono w t1 t2 : cnbr w t1 -> fv_le t1 t2 = true -> cnbr w t2.
Proof. intros (A & B & D) H. split; [exact A|]. split; [exact B|]. eapply fv_le_trans; eassumption. Qed.

Lemma stored_not_PInf a w f : fm_find (nb_get s a) w = Some f -> f <> PInf.
Proof.
  intros H. pose proof (nb_get_ok V s a HV) as Hok. unfold ngb_ok in Hok. rewrite Forall_forall in Hok.
  assert (Hin : In (w, f) (nb_get s a)).
  { clear Hok. induction (nb_get s a) as [|[k0 f0] l IH]; cbn [fm_find] in H; [discriminate|].
    destruct (Z.eqb_spec w k0) as [->|]; [inversion H; left; reflexivity|right; apply IH; exact H]. }
  specialize (Hok _ Hin). cbn [snd] in Hok. destruct Hok as [->|(z & _ & ->)]; discriminate.
Qed.

Lemma member_app w f : cn_member u v (nb_get s u) (nb_get s v) w f <-> (w <> u /\ w <> v /\ f = app w /\ f <> PInf).
Proof.
  unfold cn_member, app, tab, lookup_inf. split.
  - intros (fu & fw & F1 & F2 & N1 & N2 & ->). rewrite F1, F2. split; [exact N1|]. split; [exact N2|]. split; [reflexivity|].
    pose proof (stored_not_PInf u w fu F1). pose proof (stored_not_PInf v w fw F2).
    destruct (fv_max_cases fu fw) as [-> | ->]; assumption.
  - intros (N1 & N2 & -> & Hf).
    destruct (fm_find (nb_get s u) w) as [fu|]; [|rewrite fv_max_PInf_l in Hf; congruence].
    destruct (fm_find (nb_get s v) w) as [fw|]; [|rewrite fv_max_PInf_r in Hf; congruence].
    exists fu, fw. auto.
Qed.

(* invariants of the sweep for the edge uv: e_ngb is exactly the set of common neighbours at the current time,
   e_ngb_later exactly the later ones with the time they appear *)
Definition en_exact (en : list Z) (time : fv) : Prop := forall w, In w en <-> cnbr w time.
Definition later_exact (later : list (fv * Z)) (time : fv) : Prop :=
  forall f w, In (f, w) later <-> (w <> u /\ w <> v /\ f = app w /\ f <> PInf /\ fv_lt time f = true).

Lemma sweep_dominated fuel : forall en later time dom T,
  final_time (sweep false s fuel en later time dom) = Some T ->
  time <> PInf -> en_exact en time -> later_exact later time ->
  StronglySorted Z.lt en -> (forall c, In c en -> in_range s c) -> (forall f w, In (f, w) later -> in_range s w) ->
  (forall d, dom = Some d -> dominated_by d time) ->
  forall tau, fv_le time tau = true -> fv_lt tau T = true -> exists c, dominated_by c tau.
Proof.
  induction fuel as [|fuel IH]; intros en later time dom T HT Htime Hen Hlat Hsort Hrng Hrl Hd tau H1 H2; [discriminate|].
  assert (Htau : tau <> PInf) by (intros ->; destruct T; discriminate).
  rewrite sweep_S in HT. destruct dom as [d|].
  - destruct (Hd d eq_refl) as [Hdc Hdall].
    (* before the next neighbour appears, d still dominates *)
    assert (Hbefore : (forall f w, In (f, w) later -> fv_lt tau f = true) -> dominated_by d tau).
    { intros L2. split; [apply cnbr_mono with time; assumption|].
      intros w (N1 & N2 & Hw). destruct (fv_le_or_lt (app w) time) as [Hle|Hlt].
      - apply fv_le_trans with time; [|exact H1]. apply Hdall. split; [exact N1|]. split; [exact N2|exact Hle].
      - exfalso. assert (Hin : In (app w, w) later).
        { apply Hlat. split; [exact N1|]. split; [exact N2|]. split; [reflexivity|]. split; [|exact Hlt].
          intros E. rewrite E in Hw. apply fv_le_PInf_l in Hw. contradiction. }
        specialize (L2 _ _ Hin). eapply fv_lt_irrefl; eassumption. }
    destruct later as [|x0 l]; [exists d; apply Hbefore; intros f w []|].
    cbv zeta in HT. remember (x0 :: l) as L eqn:EL.
    assert (Hmin : In (later_min L) (map fst L)) by (rewrite EL; apply later_min_in).
    apply in_map_iff in Hmin. destruct Hmin as ([f0 w0] & Ey0 & Hy0). cbn [fst] in Ey0. subst f0.
    set (time' := later_min L) in *.
    assert (Hy0' := proj1 (Hlat _ _) Hy0). destruct Hy0' as (_ & _ & _ & Hmin_fin & Hlt').
    assert (Hle : fv_le time time' = true) by (apply fv_lt_le; exact Hlt').
    destruct (fv_le_or_lt time' tau) as [Hc|Hc].
    2:{ exists d. apply Hbefore. intros f w Hin. apply fv_lt_le_trans with time'; [exact Hc|].
        apply (later_min_le L (f, w)). exact Hin. }
    set (now := filter (fun x => fv_le (fst x) time') L) in *.
    set (rest := filter (fun x => negb (fv_le (fst x) time')) L) in *.
    set (en' := fold_left (fun l x => set_insert l (snd x)) now en) in *.
    assert (Hen' : en_exact en' time').
    { intros w. unfold en'. rewrite fold_insert_in. split.
      - intros [Hw|Hw]; [apply cnbr_mono with time; [apply Hen; exact Hw|exact Hle]|].
        apply in_map_iff in Hw. destruct Hw as ([f w'] & Ew & Hx). cbn [snd] in Ew. subst w'.
        apply filter_In in Hx. destruct Hx as [Hx Hfle]. cbn [fst] in Hfle.
        apply Hlat in Hx. destruct Hx as (N1 & N2 & -> & _ & _). split; [exact N1|]. split; [exact N2|exact Hfle].
      - intros (N1 & N2 & Hw). destruct (fv_le_or_lt (app w) time) as [Hle'|Hlt].
        + left. apply Hen. split; [exact N1|]. split; [exact N2|exact Hle'].
        + right. apply in_map_iff. exists (app w, w). split; [reflexivity|]. apply filter_In. split; [|exact Hw].
          apply Hlat. split; [exact N1|]. split; [exact N2|]. split; [reflexivity|]. split; [|exact Hlt].
          intros E. rewrite E in Hw. apply fv_le_PInf_l in Hw. congruence. }
    assert (Hlat' : later_exact rest time').
    { intros f w. unfold rest. rewrite filter_In. cbn [fst]. rewrite (Hlat f w). unfold fv_le. rewrite negb_involutive. split.
      - intros [(N1 & N2 & E & Hf & _) Hlt]. auto 6.
      - intros (N1 & N2 & E & Hf & Hlt). split; [|exact Hlt]. split; [exact N1|]. split; [exact N2|]. split; [exact E|].
        split; [exact Hf|]. apply fv_le_lt_trans with time'; assumption. }
    destruct (fold_insert_ok (in_range s) now en Hsort Hrng) as [Hsort' Hrng'].
    { intros [f w] Hx. apply filter_In in Hx. apply (Hrl f w). tauto. }
    assert (Hrl' : forall f w, In (f, w) rest -> in_range s w).
    { intros f w Hx. apply filter_In in Hx. apply (Hrl f w). tauto. }
    eapply IH; [exact HT|exact Hmin_fin|exact Hen'|exact Hlat'|exact Hsort'|exact Hrng'|exact Hrl'| |exact Hc|exact H2].
    intros d' Hd'.
    destruct (forallb (fun x => negb (breaks false s d (snd x) (fst x))) now) eqn:Est; inversion Hd'; subst d'.
    split; [apply cnbr_mono with time; assumption|].
    intros w Hw. apply Hen' in Hw. unfold en' in Hw. apply fold_insert_in in Hw. destruct Hw as [Hw|Hw].
    + apply fv_le_trans with time; [|exact Hle]. apply Hdall. apply Hen. exact Hw.
    + apply in_map_iff in Hw. destruct Hw as ([f w'] & Ew & Hx). cbn [snd] in Ew. subst w'.
      rewrite forallb_forall in Est. specialize (Est _ Hx). cbn [fst snd] in Est.
      apply filter_In in Hx. destruct Hx as [_ Hfle]. cbn [fst] in Hfle.
      unfold breaks in Est. unfold tab, lookup_inf. destruct (fm_find (nb_get s d) w) as [x|]; [|discriminate].
      apply fv_le_trans with f; [|exact Hfle]. unfold fv_le. unfold fv_gt in Est. exact Est.
  - destruct (find (fun c => is_dominated_by false s en c time) en) as [c|] eqn:F.
    + eapply IH; [exact HT|exact Htime|exact Hen|exact Hlat|exact Hsort|exact Hrng|exact Hrl| |exact H1|exact H2].
      intros d' Hd'. inversion Hd'; subst d'. apply find_some in F. destruct F as [Fin Fdom].
      split; [apply Hen; exact Fin|]. intros w Hw. apply Hen in Hw.
      apply (proj1 (is_dominated_by_spec s en c time Htime Hsort (proj1 (coh_keys s C c (Hrng c Fin)))) Fdom w Hw).
    + cbn [final_time] in HT. inversion HT; subst. exfalso. eapply fv_lt_irrefl; eassumption.
Qed.
End OneEdge.

Theorem process_edge_dominated V s u v t s' o :
  Coh s -> tbl_ok V s -> in_range s u -> in_range s v ->
  process_edge false s (u, v, t) = Some (s', o) ->
  exists T,
    fv_le (Fin t) T = true /\
    o = (match T with PInf => [] | _ => [(u, v, T)] end) /\
    forall tau, fv_le (Fin t) tau = true -> fv_lt tau T = true -> exists c, dominated_by s u v c tau.
Proof.
  intros C HV Hu Hv H. unfold process_edge in H.
  destruct (coh_keys s C u Hu) as [Ksu Kru]. destruct (coh_keys s C v Hv) as [Ksv Krv].
  pose proof (common_neighbors_spec u v (Fin t) (nb_get s u) (nb_get s v) Ksu Ksv) as Hspec.
  pose proof (cn_later V u v (Fin t) (nb_get s u) (nb_get s v) (nb_get_ok V s u HV) (nb_get_ok V s v HV)) as Hlat.
  destruct (cn_keys u v (Fin t) (nb_get s u) (nb_get s v) Ksu) as (Asort & Bsub & Dsub).
  destruct (common_neighbors u v (Fin t) (nb_get s u) (nb_get s v)) as [en later]. cbn [fst snd] in *.
  rewrite Forall_forall in Hlat, Kru.
  assert (Hen : en_exact s u v en (Fin t)).
  { intros w. rewrite (proj1 (Hspec w)). unfold cnbr. split.
    - intros (f & Hm & Hg). apply (member_app V s u v HV) in Hm. destruct Hm as (N1 & N2 & -> & _).
      split; [exact N1|]. split; [exact N2|]. unfold fv_le. unfold fv_gt in Hg. rewrite Hg. reflexivity.
    - intros (N1 & N2 & Hle). exists (app s u v w). split.
      + apply (member_app V s u v HV). split; [exact N1|]. split; [exact N2|]. split; [reflexivity|].
        intros E. rewrite E in Hle. discriminate.
      + unfold fv_gt. unfold fv_le in Hle. apply negb_true_iff in Hle. exact Hle. }
  assert (Hl : later_exact s u v later (Fin t)).
  { intros f w. rewrite (proj2 (Hspec w) f). rewrite (member_app V s u v HV). unfold fv_gt. tauto. }
  assert (Hrng : forall c, In c en -> in_range s c) by (intros c Hc; apply Kru; apply Bsub; exact Hc).
  assert (Hrl : forall f w, In (f, w) later -> in_range s w) by (intros f w Hx; apply Kru; apply (Dsub (f, w)); exact Hx).
  pose proof (sweep_dominated s u v C (2 * length later + 2) en later (Fin t) None) as Hsw.
  assert (Haft : later_after (Fin t) later) by (intros x Hx; apply Hlat; exact Hx).
  destruct (sweep false s (2 * length later + 2) en later (Fin t) None) as [|T|] eqn:E; [| |discriminate].
  - inversion H; subst. exists PInf. split; [reflexivity|]. split; [reflexivity|].
    intros tau T1 T2. apply (Hsw PInf eq_refl); try assumption; [discriminate|intros d Hd; discriminate Hd].
  - pose proof E as E'. apply sweep_alive in E'; [|exact Haft]. destruct E' as [Ele Ecase].
    assert (HTfin : exists z, T = Fin z).
    { destruct Ecase as [->|Hin]; [exists t; reflexivity|].
      apply in_map_iff in Hin. destruct Hin as (x & Ex & Hx). destruct (Hlat x Hx) as [A [B|(z & _ & B)]]; rewrite Ex in *.
      - rewrite B in A. cbn in A. discriminate A.
      - exists z. exact B. }
    destruct HTfin as (z & ->).
    exists (Fin z). split; [exact Ele|]. split.
    + destruct (negb (fv_eqb (Fin t) (Fin z))) eqn:Eq; inversion H; subst; [reflexivity|].
      apply negb_false_iff in Eq. apply fv_eqb_eq in Eq. rewrite Eq. reflexivity.
    + intros tau T1 T2. apply (Hsw (Fin z) eq_refl); try assumption; [discriminate|intros d Hd; discriminate Hd].
Qed.

(* ------------------------------------------------------------------ the same on edge lists: every move is justified *)
(* common neighbour / domination in the graph given by a list of valued edges, at time tau *)
Definition cnbrL (L : list oedge) (u v w : Z) (tau : fv) : Prop :=
  w <> u /\ w <> v /\
  exists f1 f2, has_edge L u w f1 /\ has_edge L v w f2 /\ fv_le f1 tau = true /\ fv_le f2 tau = true.
Definition dominatedL (L : list oedge) (u v c : Z) (tau : fv) : Prop :=
  cnbrL L u v c tau /\
  forall w, cnbrL L u v w tau -> w = c \/ exists f, has_edge L c w f /\ fv_le f tau = true.

Definition emit (u v : Z) (T : fv) : list oedge := match T with PInf => [] | _ => [(u, v, T)] end.

(* [justified done todo out]: out is obtained from todo by handling its edges in order; the edge (u,v,t) is moved to a
   time T >= t (T = +inf: dropped) only if, at every time in [t,T), it is dominated in the current graph
   "edges already returned ++ edges still to handle" *)
Inductive justified : list oedge -> list edge -> list oedge -> Prop :=
| j_nil done : justified done [] []
| j_step done u v t rest T r :
    fv_le (Fin t) T = true ->
    (forall tau : Z, fv_le (Fin t) (Fin tau) = true -> fv_lt (Fin tau) T = true ->
       exists c, dominatedL (done ++ map lift ((u, v, t) :: rest)) u v c (Fin tau)) ->
    justified (done ++ emit u v T) rest r ->
    justified done ((u, v, t) :: rest) (emit u v T ++ r).

Lemma tab_in_range s a w : Coh s -> in_range s a -> tab s a w <> PInf -> in_range s w.
Proof.
  intros C Ha. unfold tab, lookup_inf. destruct (fm_find (nb_get s a) w) eqn:E; [|congruence]. intros _.
  apply fm_find_some_in in E. destruct (coh_keys s C a Ha) as [_ Kr]. rewrite Forall_forall in Kr. apply Kr. exact E.
Qed.

Lemma dominated_to_list s L u v c tau :
  Coh s -> repr s L -> (forall a b f, has_edge L a b f -> in_range s a /\ in_range s b) ->
  in_range s u -> in_range s v -> tau <> PInf ->
  dominated_by s u v c tau -> dominatedL L u v c tau.
Proof.
  intros C R HL Hu Hv Htau [Hc Hall].
  assert (Hne : forall x, fv_le x tau = true -> x <> PInf) by (intros x H E; subst; apply fv_le_PInf_l in H; contradiction).
  assert (A : forall w, cnbr s u v w tau -> cnbrL L u v w tau /\ in_range s w).
  { intros w (N1 & N2 & Hle). apply fv_max_le in Hle. destruct Hle as [L1 L2].
    assert (Hw : in_range s w) by (apply (tab_in_range s u w C Hu); apply Hne; exact L1).
    split; [|exact Hw]. split; [exact N1|]. split; [exact N2|]. exists (tab s u w), (tab s v w).
    split; [apply (R u w Hu Hw); [congruence|]; split; [reflexivity|apply Hne; exact L1]|].
    split; [apply (R v w Hv Hw); [congruence|]; split; [reflexivity|apply Hne; exact L2]|]. auto. }
  assert (B : forall w, cnbrL L u v w tau -> cnbr s u v w tau /\ in_range s w).
  { intros w (N1 & N2 & f1 & f2 & E1 & E2 & L1 & L2). destruct (HL _ _ _ E1) as [_ Hw].
    split; [|exact Hw]. split; [exact N1|]. split; [exact N2|]. unfold app. apply fv_max_le_iff.
    apply (R u w Hu Hw) in E1; [|congruence]. apply (R v w Hv Hw) in E2; [|congruence].
    destruct E1 as [-> _]. destruct E2 as [-> _]. auto. }
  destruct (A c Hc) as [HcL Hcr]. split; [exact HcL|].
  intros w Hw. destruct (B w Hw) as [Hw' Hwr]. destruct (Z.eq_dec w c) as [->|Nwc]; [left; reflexivity|right].
  specialize (Hall w Hw'). exists (tab s c w). split; [|exact Hall].
  apply (R c w Hcr Hwr); [congruence|]. split; [reflexivity|apply Hne; exact Hall].
Qed.

Lemma loop_step V s done u v t es s1 o :
  Coh s -> tbl_ok V s -> In t V -> in_range s u -> in_range s v -> u <> v ->
  repr s (done ++ map lift ((u, v, t) :: es)) -> NoDup (map okey (done ++ map lift ((u, v, t) :: es))) ->
  process_edge false s (u, v, t) = Some (s1, o) ->
  Coh s1 /\ tbl_ok V s1 /\ nvert s1 = nvert s /\
  repr s1 ((done ++ o) ++ map lift es) /\ NoDup (map okey ((done ++ o) ++ map lift es)).
Proof.
  intros C HV HtV Hu Hv Huv R Hnd E.
  cbn [map] in R, Hnd. change (lift (u, v, t)) with (u, v, Fin t) in R, Hnd.
  assert (Ht : tab s u v = Fin t).
  { apply (proj2 (R u v Hu Hv Huv (Fin t))). left. apply in_or_app. right. left. reflexivity. }
  destruct (process_edge_coh false s u v t s1 o C Hu Hv Huv E) as [C1 Hn1].
  destruct (process_edge_effect V s u v t s1 o C HV Hu Hv Huv E) as (T & HT & Ho & _ & Htab & _).
  pose proof E as E2. apply process_edge_spec with (V := V) in E2; [|exact HV|exact HtV]. destruct E2 as [HV1 _].
  destruct (NoDup_map_remove okey done (u, v, Fin t) (map lift es) Hnd) as [Hnd' Hfresh].
  change (okey (u, v, Fin t)) with (key u v) in Hfresh.
  assert (Htab' : forall a b, in_range s a -> in_range s b -> tab s1 a b = if pair_hit a b u v then T else tab s a b).
  { intros a b Ha Hb. rewrite Htab by assumption. destruct (pair_hit a b u v) eqn:Eh; [|reflexivity].
    destruct (fv_eqb T (Fin t)) eqn:Eq; [|reflexivity]. apply fv_eqb_eq in Eq. subst T.
    assert (Hcase : (a = u /\ b = v) \/ (a = v /\ b = u)) by (unfold pair_hit in Eh; lia).
    destruct Hcase as [[-> ->]|[-> ->]]; [exact Ht|]. rewrite tab_sym by assumption. exact Ht. }
  split; [exact C1|]. split; [exact HV1|]. split; [exact Hn1|]. split.
  - apply repr_step with (s := s) (u := u) (v := v) (X := Fin t) (T := T) (others := done ++ map lift es)
                         (Lold := done ++ (u, v, Fin t) :: map lift es); try assumption.
    + intros x. rewrite !in_app_iff. cbn [In]. split; [intros [A|[A|A]]|intros [[_ A]|[A|A]]]; auto.
      left. split; [discriminate|auto].
    + intros x. rewrite Ho. rewrite !in_app_iff. rewrite in_o. tauto.
    + intros x. unfold in_range. rewrite Hn1. tauto.
  - rewrite Ho. destruct T; cbn [app]; try (rewrite <- app_assoc; cbn [app];
      apply NoDup_map_replace with (x := (u, v, Fin t)); [reflexivity|exact Hnd]).
    rewrite app_nil_r. exact Hnd'.
Qed.

Lemma process_loop_justified V : forall es s done out,
  Coh s -> tbl_ok V s -> incl (map snd es) V ->
  (forall u v t, In (u, v, t) es -> in_range s u /\ in_range s v /\ u <> v) ->
  repr s (done ++ map lift es) -> NoDup (map okey (done ++ map lift es)) ->
  (forall a b f, has_edge (done ++ map lift es) a b f -> in_range s a /\ in_range s b) ->
  process_loop false s es = Some out -> justified done es out.
Proof.
  induction es as [|[[u v] t] es IH]; intros s done out C HV Hin Hrng R Hnd HL H; cbn [process_loop] in H.
  - inversion H. constructor.
  - destruct (Hrng u v t (or_introl eq_refl)) as (Hu & Hv & Huv).
    destruct (process_edge false s (u, v, t)) as [[s1 o]|] eqn:E; [|discriminate].
    destruct (process_loop false s1 es) as [r|] eqn:Er; [|discriminate]. inversion H; subst out. clear H.
    assert (HtV : In t V) by (apply Hin; left; reflexivity).
    destruct (loop_step V s done u v t es s1 o C HV HtV Hu Hv Huv R Hnd E) as (C1 & HV1 & Hn1 & R1 & Hnd1).
    destruct (process_edge_dominated V s u v t s1 o C HV Hu Hv E) as (T & HT & Ho & Hdom).
    change (match T with PInf => [] | _ => [(u, v, T)] end) with (emit u v T) in Ho. subst o.
    apply j_step; [exact HT| |].
    + intros tau T1 T2. destruct (Hdom (Fin tau) T1 T2) as (c & Hc). exists c.
      apply dominated_to_list with s; try assumption. discriminate.
    + apply (IH s1 (done ++ emit u v T) r C1 HV1); try assumption.
      * intros z Hz. apply Hin. right. exact Hz.
      * intros u0 v0 t0 H0. unfold in_range. rewrite Hn1. apply (Hrng u0 v0 t0). right. exact H0.
      * intros a b f He. unfold in_range. rewrite Hn1.
        assert (Hsub : forall x, In x ((done ++ emit u v T) ++ map lift es) ->
                       In x (done ++ map lift ((u, v, t) :: es)) \/ (fst x = (u, v))).
        { intros x Hx. rewrite !in_app_iff in Hx. rewrite in_app_iff. cbn [map In].
          destruct Hx as [[Hx|Hx]|Hx]; [left; left; exact Hx| |left; right; right; exact Hx].
          right. unfold emit in Hx. destruct T; cbn [In] in Hx; try tauto; destruct Hx as [<-|[]]; reflexivity. }
        destruct He as [He|He]; destruct (Hsub _ He) as [Hx|Hx].
        -- apply (HL a b f). left. exact Hx.
        -- cbn [fst] in Hx. inversion Hx; subst. auto.
        -- destruct (HL b a f (or_introl Hx)). auto.
        -- cbn [fst] in Hx. inversion Hx; subst. auto.
Qed.

Theorem collapse_justified es out : simple_graph es -> process_edges false es = Some out -> justified [] es out.
Proof.
  intros Hs H. destruct (read_edges_coh es Hs) as [C Hn]. pose proof (read_edges_repr es Hs) as R.
  destruct Hs as [Hnd Hsimple].
  assert (Hrng : forall u v t, In (u, v, t) es -> in_range (read_edges es) u /\ in_range (read_edges es) v /\ u <> v).
  { intros u v t Hin. destruct (Hsimple u v t Hin) as (A & B & D). destruct (num_vertices_bound es u v t Hin) as [E1 E2].
    unfold in_range. rewrite Hn. lia. }
  unfold process_edges in H.
  apply (process_loop_justified (map snd es) es (read_edges es) [] out C (read_edges_ok _ es (incl_refl _)) (incl_refl _) Hrng).
  - exact R.
  - rewrite app_nil_l. rewrite map_okey_lift. exact Hnd.
  - rewrite app_nil_l. intros a b f [He|He]; apply in_map_iff in He; destruct He as ([[x y] t] & E & Hin); inversion E; subst;
      destruct (Hrng _ _ _ Hin) as (A & B & D); auto.
  - exact H.
Qed.

Theorem collapse_justified_any dense es out :
  NoDup (map ekey es) -> (forall u v t, In (u, v, t) es -> 0 <= u /\ 0 <= v /\ u <> v) ->
  process_edges dense es = Some out -> justified [] es out.
Proof.
  intros H1 H2 H. assert (Hs : simple_graph es) by (split; assumption).
  apply collapse_justified; [exact Hs|]. destruct dense; [rewrite <- tables_agree by exact Hs|]; exact H.
Qed.

Theorem collapse_justified_entry_point dense es out :
  NoDup (map ekey es) -> (forall u v t, In (u, v, t) es -> 0 <= u /\ 0 <= v /\ u <> v) ->
  flag_complex_collapse_edges dense es = Some out -> justified [] (sort_desc es) out.
Proof.
  intros H1 H2 H. unfold flag_complex_collapse_edges in H. destruct es as [|e es]; [inversion H; constructor|].
  set (l := e :: es) in *. assert (Hs : simple_graph l) by (split; assumption).
  destruct (simple_graph_perm _ _ (sort_desc_perm l) Hs) as [Hs1 Hs2].
  apply collapse_justified_any with dense; assumption.
Qed.
