(* C12_Dom.v — an edge is delayed / removed only across times at which it is dominated in the current graph:
   the hypothesis of the edge-collapse theorem of the literature holds at every step of the sweep. *)
From Coq Require Import ZArith List Bool Arith Lia ZifyBool Permutation Sorting.Sorted.
Require Import Reduce ReduceExec C12_Model C12_Proofs C12_Tables C12_Conn.
Import ListNotations.
Local Open Scope Z_scope.

Lemma fv_max_le_iff a b c : fv_le (fv_max a b) c = true <-> fv_le a c = true /\ fv_le b c = true.
Proof.
  split; [apply fv_max_le|]. intros [H1 H2]. destruct (fv_max_cases a b) as [-> | ->]; assumption.
Qed.
Lemma fv_max_PInf_l b : fv_max PInf b = PInf.
Proof. unfold fv_max, fv_lt. reflexivity. Qed.
Lemma fv_max_PInf_r a : fv_max a PInf = PInf.
Proof. unfold fv_max, fv_lt. destruct a; reflexivity. Qed.
Lemma fv_le_PInf_l c : fv_le PInf c = true -> c = PInf.
Proof. destruct c; cbn; congruence. Qed.

Section OneEdge.
Variables (V : list Z) (s : state) (u v : Z).
Hypothesis C : Coh s.
Hypothesis HV : tbl_ok V s.

(* time from which w is a common neighbour of u and v in the current graph (+inf: never) *)
Definition app (w : Z) : fv := fv_max (tab s u w) (tab s v w).
Definition cnbr (w : Z) (tau : fv) : Prop := w <> u /\ w <> v /\ fv_le (app w) tau = true.
(* N_tau(uv) is contained in N_tau[c], c itself a common neighbour: the edge uv is dominated by c at time tau *)
Definition dominated_by (c : Z) (tau : fv) : Prop :=
  cnbr c tau /\ forall w, cnbr w tau -> fv_le (tab s c w) tau = true.

Lemma cnbr_mono w t1 t2 : cnbr w t1 -> fv_le t1 t2 = true -> cnbr w t2.
Proof. intros (A & B & D) H. split; [exact A|]. split; [exact B|]. eapply fv_le_trans; eassumption. Qed.

Lemma stored_not_PInf a w f : fm_find (nb_get s a) w = Some f -> f <> PInf.
Proof.
  intros H. pose proof (nb_get_ok V s a HV) as Hok. unfold ngb_ok in Hok. rewrite Forall_forall in Hok.
  assert (Hin : In (w, f) (nb_get s a)).
  { clear Hok. induction (nb_get s a) as [|[k0 f0] l IH]; cbn [fm_find] in H; [discriminate|].
    destruct (Z.eqb_spec w k0) as [->|]; [inversion H; left; reflexivity|right; apply IH; exact H]. }
  specialize (Hok _ Hin). cbn [snd] in Hok. destruct Hok as [->|(z & _ & ->)]; discriminate.
Qed.

Lemma member_app w f : cn_member u v (nb_get s u) (nb_get s v) w f <-> (w <> u /\ w <> v /\ f = app w /\ f <> PInf).
Proof.
  unfold cn_member, app, tab, lookup_inf. split.
  - intros (fu & fw & F1 & F2 & N1 & N2 & ->). rewrite F1, F2. split; [exact N1|]. split; [exact N2|]. split; [reflexivity|].
    pose proof (stored_not_PInf u w fu F1). pose proof (stored_not_PInf v w fw F2).
    destruct (fv_max_cases fu fw) as [-> | ->]; assumption.
  - intros (N1 & N2 & -> & Hf).
    destruct (fm_find (nb_get s u) w) as [fu|]; [|rewrite fv_max_PInf_l in Hf; congruence].
    destruct (fm_find (nb_get s v) w) as [fw|]; [|rewrite fv_max_PInf_r in Hf; congruence].
    exists fu, fw. auto.
Qed.

(* invariants of the sweep for the edge uv: e_ngb is exactly the set of common neighbours at the current time,
   e_ngb_later exactly the later ones with the time they appear *)
Definition en_exact (en : list Z) (time : fv) : Prop := forall w, In w en <-> cnbr w time.
Definition later_exact (later : list (fv * Z)) (time : fv) : Prop :=
  forall f w, In (f, w) later <-> (w <> u /\ w <> v /\ f = app w /\ f <> PInf /\ fv_lt time f = true).

Lemma sweep_dominated fuel : forall en later time dom T,
  final_time (sweep false s fuel en later time dom) = Some T ->
  time <> PInf -> en_exact en time -> later_exact later time ->
  StronglySorted Z.lt en -> (forall c, In c en -> in_range s c) -> (forall f w, In (f, w) later -> in_range s w) ->
  (forall d, dom = Some d -> dominated_by d time) ->
  forall tau, fv_le time tau = true -> fv_lt tau T = true -> exists c, dominated_by c tau.
Proof.
  induction fuel as [|fuel IH]; intros en later time dom T HT Htime Hen Hlat Hsort Hrng Hrl Hd tau H1 H2; [discriminate|].
  assert (Htau : tau <> PInf) by (intros ->; destruct T; discriminate).
  rewrite sweep_S in HT. destruct dom as [d|].
  - destruct (Hd d eq_refl) as [Hdc Hdall].
    (* before the next neighbour appears, d still dominates *)
    assert (Hbefore : (forall f w, In (f, w) later -> fv_lt tau f = true) -> dominated_by d tau).
    { intros L2. split; [apply cnbr_mono with time; assumption|].
      intros w (N1 & N2 & Hw). destruct (fv_le_or_lt (app w) time) as [Hle|Hlt].
      - apply fv_le_trans with time; [|exact H1]. apply Hdall. split; [exact N1|]. split; [exact N2|exact Hle].
      - exfalso. assert (Hin : In (app w, w) later).
        { apply Hlat. split; [exact N1|]. split; [exact N2|]. split; [reflexivity|]. split; [|exact Hlt].
          intros E. rewrite E in Hw. apply fv_le_PInf_l in Hw. contradiction. }
        specialize (L2 _ _ Hin). eapply fv_lt_irrefl; eassumption. }
    destruct later as [|x0 l]; [exists d; apply Hbefore; intros f w []|].
    cbv zeta in HT. remember (x0 :: l) as L eqn:EL.
    assert (Hmin : In (later_min L) (map fst L)) by (rewrite EL; apply later_min_in).
    apply in_map_iff in Hmin. destruct Hmin as ([f0 w0] & Ey0 & Hy0). cbn [fst] in Ey0. subst f0.
    set (time' := later_min L) in *.
    assert (Hy0' := proj1 (Hlat _ _) Hy0). destruct Hy0' as (_ & _ & _ & Hmin_fin & Hlt').
    assert (Hle : fv_le time time' = true) by (apply fv_lt_le; exact Hlt').
    destruct (fv_le_or_lt time' tau) as [Hc|Hc].
    2:{ exists d. apply Hbefore. intros f w Hin. apply fv_lt_le_trans with time'; [exact Hc|].
        apply (later_min_le L (f, w)). exact Hin. }
    set (now := filter (fun x => fv_le (fst x) time') L) in *.
    set (rest := filter (fun x => negb (fv_le (fst x) time')) L) in *.
    set (en' := fold_left (fun l x => set_insert l (snd x)) now en) in *.
    assert (Hen' : en_exact en' time').
    { intros w. unfold en'. rewrite fold_insert_in. split.
      - intros [Hw|Hw]; [apply cnbr_mono with time; [apply Hen; exact Hw|exact Hle]|].
        apply in_map_iff in Hw. destruct Hw as ([f w'] & Ew & Hx). cbn [snd] in Ew. subst w'.
        apply filter_In in Hx. destruct Hx as [Hx Hfle]. cbn [fst] in Hfle.
        apply Hlat in Hx. destruct Hx as (N1 & N2 & -> & _ & _). split; [exact N1|]. split; [exact N2|exact Hfle].
      - intros (N1 & N2 & Hw). destruct (fv_le_or_lt (app w) time) as [Hle'|Hlt].
        + left. apply Hen. split; [exact N1|]. split; [exact N2|exact Hle'].
        + right. apply in_map_iff. exists (app w, w). split; [reflexivity|]. apply filter_In. split; [|exact Hw].
          apply Hlat. split; [exact N1|]. split; [exact N2|]. split; [reflexivity|]. split; [|exact Hlt].
          intros E. rewrite E in Hw. apply fv_le_PInf_l in Hw. congruence. }
    assert (Hlat' : later_exact rest time').
    { intros f w. unfold rest. rewrite filter_In. cbn [fst]. rewrite (Hlat f w). unfold fv_le. rewrite negb_involutive. split.
      - intros [(N1 & N2 & E & Hf & _) Hlt]. auto 6.
      - intros (N1 & N2 & E & Hf & Hlt). split; [|exact Hlt]. split; [exact N1|]. split; [exact N2|]. split; [exact E|].
        split; [exact Hf|]. apply fv_le_lt_trans with time'; assumption. }
    destruct (fold_insert_ok (in_range s) now en Hsort Hrng) as [Hsort' Hrng'].
    { intros [f w] Hx. apply filter_In in Hx. apply (Hrl f w). tauto. }
    assert (Hrl' : forall f w, In (f, w) rest -> in_range s w).
    { intros f w Hx. apply filter_In in Hx. apply (Hrl f w). tauto. }
    eapply IH; [exact HT|exact Hmin_fin|exact Hen'|exact Hlat'|exact Hsort'|exact Hrng'|exact Hrl'| |exact Hc|exact H2].
    intros d' Hd'.
    destruct (forallb (fun x => negb (breaks false s d (snd x) (fst x))) now) eqn:Est; inversion Hd'; subst d'.
    split; [apply cnbr_mono with time; assumption|].
    intros w Hw. apply Hen' in Hw. unfold en' in Hw. apply fold_insert_in in Hw. destruct Hw as [Hw|Hw].
    + apply fv_le_trans with time; [|exact Hle]. apply Hdall. apply Hen. exact Hw.
    + apply in_map_iff in Hw. destruct Hw as ([f w'] & Ew & Hx). cbn [snd] in Ew. subst w'.
      rewrite forallb_forall in Est. specialize (Est _ Hx). cbn [fst snd] in Est.
      apply filter_In in Hx. destruct Hx as [_ Hfle]. cbn [fst] in Hfle.
      unfold breaks in Est. unfold tab, lookup_inf. destruct (fm_find (nb_get s d) w) as [x|]; [|discriminate].
      apply fv_le_trans with f; [|exact Hfle]. unfold fv_le. unfold fv_gt in Est. exact Est.
  - destruct (find (fun c => is_dominated_by false s en c time) en) as [c|] eqn:F.
    + eapply IH; [exact HT|exact Htime|exact Hen|exact Hlat|exact Hsort|exact Hrng|exact Hrl| |exact H1|exact H2].
      intros d' Hd'. inversion Hd'; subst d'. apply find_some in F. destruct F as [Fin Fdom].
      split; [apply Hen; exact Fin|]. intros w Hw. apply Hen in Hw.
      apply (proj1 (is_dominated_by_spec s en c time Htime Hsort (proj1 (coh_keys s C c (Hrng c Fin)))) Fdom w Hw).
    + cbn [final_time] in HT. inversion HT; subst. exfalso. eapply fv_lt_irrefl; eassumption.
Qed.
End OneEdge.

Theorem process_edge_dominated V s u v t s' o :
  Coh s -> tbl_ok V s -> in_range s u -> in_range s v ->
  process_edge false s (u, v, t) = Some (s', o) ->
  exists T,
    fv_le (Fin t) T = true /\
    o = (match T with PInf => [] | _ => [(u, v, T)] end) /\
    forall tau, fv_le (Fin t) tau = true -> fv_lt tau T = true -> exists c, dominated_by s u v c tau.
Proof.
  intros C HV Hu Hv H. unfold process_edge in H.
  destruct (coh_keys s C u Hu) as [Ksu Kru]. destruct (coh_keys s C v Hv) as [Ksv Krv].
  pose proof (common_neighbors_spec u v (Fin t) (nb_get s u) (nb_get s v) Ksu Ksv) as Hspec.
  pose proof (cn_later V u v (Fin t) (nb_get s u) (nb_get s v) (nb_get_ok V s u HV) (nb_get_ok V s v HV)) as Hlat.
  destruct (cn_keys u v (Fin t) (nb_get s u) (nb_get s v) Ksu) as (Asort & Bsub & Dsub).
  destruct (common_neighbors u v (Fin t) (nb_get s u) (nb_get s v)) as [en later]. cbn [fst snd] in *.
  rewrite Forall_forall in Hlat, Kru.
  assert (Hen : en_exact s u v en (Fin t)).
  { intros w. rewrite (proj1 (Hspec w)). unfold cnbr. split.
    - intros (f & Hm & Hg). apply (member_app V s u v HV) in Hm. destruct Hm as (N1 & N2 & -> & _).
      split; [exact N1|]. split; [exact N2|]. unfold fv_le. unfold fv_gt in Hg. rewrite Hg. reflexivity.
    - intros (N1 & N2 & Hle). exists (app s u v w). split.
      + apply (member_app V s u v HV). split; [exact N1|]. split; [exact N2|]. split; [reflexivity|].
        intros E. rewrite E in Hle. discriminate.
      + unfold fv_gt. unfold fv_le in Hle. apply negb_true_iff in Hle. exact Hle. }
  assert (Hl : later_exact s u v later (Fin t)).
  { intros f w. rewrite (proj2 (Hspec w) f). rewrite (member_app V s u v HV). unfold fv_gt. tauto. }
  assert (Hrng : forall c, In c en -> in_range s c) by (intros c Hc; apply Kru; apply Bsub; exact Hc).
  assert (Hrl : forall f w, In (f, w) later -> in_range s w) by (intros f w Hx; apply Kru; apply (Dsub (f, w)); exact Hx).
  pose proof (sweep_dominated s u v C (2 * length later + 2) en later (Fin t) None) as Hsw.
  assert (Haft : later_after (Fin t) later) by (intros x Hx; apply Hlat; exact Hx).
  destruct (sweep false s (2 * length later + 2) en later (Fin t) None) as [|T|] eqn:E; [| |discriminate].
  - inversion H; subst. exists PInf. split; [reflexivity|]. split; [reflexivity|].
    intros tau T1 T2. apply (Hsw PInf eq_refl); try assumption; [discriminate|intros d Hd; discriminate Hd].
  - pose proof E as E'. apply sweep_alive in E'; [|exact Haft]. destruct E' as [Ele Ecase].
    assert (HTfin : exists z, T = Fin z).
    { destruct Ecase as [->|Hin]; [exists t; reflexivity|].
      apply in_map_iff in Hin. destruct Hin as (x & Ex & Hx). destruct (Hlat x Hx) as [A [B|(z & _ & B)]]; rewrite Ex in *.
      - rewrite B in A. cbn in A. discriminate A.
      - exists z. exact B. }
    destruct HTfin as (z & ->).
    exists (Fin z). split; [exact Ele|]. split.
    + destruct (negb (fv_eqb (Fin t) (Fin z))) eqn:Eq; inversion H; subst; [reflexivity|].
      apply negb_false_iff in Eq. apply fv_eqb_eq in Eq. rewrite Eq. reflexivity.
    + intros tau T1 T2. apply (Hsw (Fin z) eq_refl); try assumption; [discriminate|intros d Hd; discriminate Hd].
Qed.
