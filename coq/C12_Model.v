(* C12_Model.v — edge collapse of a flag filtration.

   PART 1 (algorithm model): transcription of src/Collapse/include/gudhi/Flag_complex_edge_collapser.h
     struct Flag_complex_edge_collapser: read_edges, delay_neighbor, remove_neighbor, common_neighbors,
     is_dominated_by (both bodies: default and GUDHI_COLLAPSE_USE_DENSE_ARRAY), process_edges, and
     flag_complex_collapse_edges (sort by decreasing value, then process_edges with the identity delay).
   PART 2 (specification model): the persistence barcode of the flag filtration of a weighted graph, through the
     certified pairing of ReduceExec.v.
   No proofs here (C12_Proofs.v), so that the model extracts even when a proof breaks. *)
From Coq Require Import ZArith List Bool Arith.
Require Import Reduce ReduceExec.
Import ListNotations.
Local Open Scope Z_scope.

(* ================================================================== PART 1: algorithm model *)

(* Filtration_value = double restricted to the integers and the two infinities the code itself introduces
   (-inf on the diagonal of the closed neighbourhoods, +inf for absent entries of the dense table). *)
Inductive fv := MInf | Fin (z : Z) | PInf.

Definition fv_lt (a b : fv) : bool :=
  match a, b with
  | MInf, MInf => false
  | MInf, _ => true
  | Fin _, MInf => false
  | Fin x, Fin y => x <? y
  | Fin _, PInf => true
  | PInf, _ => false
  end.
Definition fv_gt (a b : fv) : bool := fv_lt b a.            (* a > b *)
Definition fv_le (a b : fv) : bool := negb (fv_lt b a).     (* a <= b *)
Definition fv_eqb (a b : fv) : bool :=
  match a, b with
  | MInf, MInf => true | PInf, PInf => true | Fin x, Fin y => x =? y | _, _ => false
  end.
Definition fv_max (a b : fv) : fv := if fv_lt a b then b else a.   (* std::max(a,b) = (a<b) ? b : a *)
Definition fv_min (a b : fv) : fv := if fv_lt b a then b else a.

Definition edge := (Z * Z * Z)%type.        (* input:  (u, v, value) *)
Definition oedge := (Z * Z * fv)%type.      (* output: (u, v, value) *)

(* boost::container::flat_map<Vertex, Filtration_value>: association list sorted by strictly increasing key *)
Definition ngb := list (Z * fv).

Fixpoint fm_set (l : ngb) (k : Z) (f : fv) : ngb :=           (* l[k] = f *)
  match l with
  | [] => [(k, f)]
  | (k', f') :: t => if k <? k' then (k, f) :: l
                     else if k =? k' then (k, f) :: t
                     else (k', f') :: fm_set t k f
  end.
(* emplace_back into the raw sequence followed by adopt_sequence (sort + unique): for a key not yet present this is a
   sorted insertion; for a key already present one of the two entries survives (which one is unspecified, the sort is
   not stable) - the model keeps the earlier one; inputs with repeated edges or loops are outside the domain *)
Fixpoint fm_add (l : ngb) (k : Z) (f : fv) : ngb :=
  match l with
  | [] => [(k, f)]
  | (k', f') :: t => if k <? k' then (k, f) :: l
                     else if k =? k' then l
                     else (k', f') :: fm_add t k f
  end.
Fixpoint fm_erase (l : ngb) (k : Z) : ngb :=
  match l with
  | [] => []
  | (k', f') :: t => if k =? k' then t else (k', f') :: fm_erase t k
  end.
Fixpoint fm_find (l : ngb) (k : Z) : option fv :=
  match l with
  | [] => None
  | (k', f') :: t => if k =? k' then Some f' else fm_find t k
  end.

Fixpoint upd {A} (l : list A) (i : nat) (g : A -> A) : list A :=
  match l, i with
  | [], _ => []
  | x :: t, O => g x :: t
  | x :: t, S i' => x :: upd t i' g
  end.

(* the object state: neighbors (vector of flat_maps), neighbors_data (dense n*n table, index n*j+i; maintained only
   under GUDHI_COLLAPSE_USE_DENSE_ARRAY - the model always carries it and only the dense variant reads it), num_vertices *)
Record state := mkState { nbs : list ngb; nd : Z -> fv; nvert : Z }.

Definition nb_get (s : state) (u : Z) : ngb := nth (Z.to_nat u) (nbs s) [].
Definition didx (s : state) (i j : Z) : Z := nvert s * j + i.
Definition dense_get (s : state) (i j : Z) : fv := nd s (didx s i j).
Definition nb_upd (s : state) (u : Z) (g : ngb -> ngb) : state :=
  mkState (upd (nbs s) (Z.to_nat u) g) (nd s) (nvert s).
Definition dense_set (s : state) (i j : Z) (f : fv) : state :=
  let k0 := didx s i j in mkState (nbs s) (fun k => if k =? k0 then f else nd s k) (nvert s).

Definition delay_neighbor (s : state) (u v : Z) (f : fv) : state :=
  let s := nb_upd s u (fun l => fm_set l v f) in
  let s := nb_upd s v (fun l => fm_set l u f) in
  let s := dense_set s u v f in
  dense_set s v u f.
Definition remove_neighbor (s : state) (u v : Z) : state :=
  let s := nb_upd s u (fun l => fm_erase l v) in
  let s := nb_upd s v (fun l => fm_erase l u) in
  let s := dense_set s u v PInf in
  dense_set s v u PInf.

(* process_edges, first block: num_vertices = max(max i, max j) + 1 with both maxima starting at 0 *)
Definition num_vertices (es : list edge) : Z :=
  fold_left (fun m e => let '(u, v, _) := e in Z.max m (Z.max u v)) es 0 + 1.

Definition read_edge (s : state) (e : edge) : state :=
  let '(u, v, f) := e in
  let s := nb_upd s u (fun l => fm_add l v (Fin f)) in
  let s := nb_upd s v (fun l => fm_add l u (Fin f)) in
  let s := dense_set s u v (Fin f) in
  dense_set s v u (Fin f).
Definition read_self (s : state) (i : Z) : state :=
  let s := nb_upd s i (fun l => fm_add l i MInf) in
  dense_set s i i MInf.
Definition read_edges (es : list edge) : state :=
  let n := num_vertices es in
  let s0 := mkState (repeat [] (Z.to_nat n)) (fun _ => PInf) n in
  let s1 := fold_left read_edge es s0 in
  fold_left read_self (map Z.of_nat (seq 0 (Z.to_nat n))) s1.

(* common_neighbors: simultaneous walk of the two sorted closed neighbourhoods; returns (e_ngb, e_ngb_later) *)
Fixpoint common_neighbors (u v : Z) (f_event : fv) (nu : ngb) : ngb -> list Z * list (fv * Z) :=
  fix inner (nv : ngb) : list Z * list (fv * Z) :=
    match nu, nv with
    | [], _ => ([], [])
    | _, [] => ([], [])
    | (w, fu) :: nu', (w', fw) :: nv' =>
      if w <? w' then common_neighbors u v f_event nu' nv
      else if w' <? w then inner nv'
      else
        let '(a, b) := common_neighbors u v f_event nu' nv' in
        if negb (w =? u) && negb (w =? v) then
          let f := fv_max fu fw in
          if fv_gt f f_event then (a, (f, w) :: b) else (w :: a, b)
        else (a, b)
    end.

(* is_dominated_by, default body: merge walk of e_ngb (sorted) against the closed neighbourhood of c *)
Fixpoint dom_sparse (f : fv) (en : list Z) : ngb -> bool :=
  fix inner (nc : ngb) : bool :=
    match en with
    | [] => true
    | ve :: en' =>
      match nc with
      | [] => false
      | (vc, fc) :: nc' =>
        if vc <? ve then inner nc'
        else if ve <? vc then false
        else if fv_gt fc f then false
        else dom_sparse f en' nc'
      end
    end.
(* is_dominated_by, GUDHI_COLLAPSE_USE_DENSE_ARRAY body *)
Definition dom_dense (s : state) (f : fv) (en : list Z) (c : Z) : bool :=
  forallb (fun v => negb (fv_gt (dense_get s v c) f)) en.
Definition is_dominated_by (dense : bool) (s : state) (en : list Z) (c : Z) (f : fv) : bool :=
  if dense then dom_dense s f en c else dom_sparse f en (nb_get s c).

(* "does the new neighbour w (appearing at time fw) break the domination by dominator" - both bodies *)
Definition breaks (dense : bool) (s : state) (dominator w : Z) (fw : fv) : bool :=
  if dense then fv_gt (dense_get s dominator w) fw
  else match fm_find (nb_get s dominator) w with
       | None => true
       | Some x => fv_gt x fw
       end.

(* flat_set<Vertex>::insert *)
Fixpoint set_insert (l : list Z) (w : Z) : list Z :=
  match l with
  | [] => [w]
  | x :: t => if w <? x then w :: l else if w =? x then l else x :: set_insert t w
  end.

(* e_ngb_later is used as a min-heap on the time; each round pops every entry whose time is the minimum.
   Only the set of popped entries matters (a conjunction and set insertions), so the heap is modelled by
   "minimum + partition"; libstdc++'s make_heap/pop_heap are not transcribed. *)
Definition later_min (l : list (fv * Z)) : fv := fold_left (fun m x => fv_min m (fst x)) l PInf.

Inductive outcome := Dead | Alive (time : fv) | OutOfFuel.

(* the two nested loops of process_edges as one state machine:
   dominator = None   : head of "while(true)": look for the first c in e_ngb dominating at the current time;
   dominator = Some d : head of "for(still_dominated...)": advance to the next time a neighbour appears. *)
Fixpoint sweep (dense : bool) (s : state) (fuel : nat) (en : list Z) (later : list (fv * Z)) (time : fv)
         (dominator : option Z) : outcome :=
  match fuel with
  | O => OutOfFuel
  | S fuel' =>
    match dominator with
    | None =>
      match find (fun c => is_dominated_by dense s en c time) en with
      | None => Alive time
      | Some c => sweep dense s fuel' en later time (Some c)
      end
    | Some d =>
      match later with
      | [] => Dead
      | _ :: _ =>
        let time' := later_min later in
        let now := filter (fun x => fv_le (fst x) time') later in
        let rest := filter (fun x => negb (fv_le (fst x) time')) later in
        let still := forallb (fun x => negb (breaks dense s d (snd x) (fst x))) now in
        let en' := fold_left (fun l x => set_insert l (snd x)) now en in
        sweep dense s fuel' en' rest time' (if still then Some d else None)
      end
    end
  end.

Definition process_edge (dense : bool) (s : state) (e : edge) : option (state * list oedge) :=
  let '(u, v, t) := e in
  let time := Fin t in                                   (* delay = identity *)
  let '(en, later) := common_neighbors u v time (nb_get s u) (nb_get s v) in
  match sweep dense s (2 * length later + 2) en later time None with
  | OutOfFuel => None
  | Dead => Some (remove_neighbor s u v, [])
  | Alive time' =>
    if negb (fv_eqb time time') then Some (delay_neighbor s u v time', [(u, v, time')])
    else Some (s, [(u, v, Fin t)])
  end.

Fixpoint process_loop (dense : bool) (s : state) (es : list edge) : option (list oedge) :=
  match es with
  | [] => Some []
  | e :: es' =>
    match process_edge dense s e with
    | None => None
    | Some (s', o) =>
      match process_loop dense s' es' with
      | None => None
      | Some r => Some (o ++ r)
      end
    end
  end.

(* process_edges + output, on the already sorted edge vector *)
Definition process_edges (dense : bool) (es : list edge) : option (list oedge) :=
  process_loop dense (read_edges es) es.

(* the sort of flag_complex_collapse_edges (std::sort / tbb::parallel_sort by decreasing value): any permutation with
   non-increasing values may come out; this stable insertion sort is one of them.  The theorems about process_edges
   hold for every order of the list, hence for whatever order the library's sort produces. *)
Fixpoint ins_desc (e : edge) (l : list edge) : list edge :=
  match l with
  | [] => [e]
  | x :: t => if snd x <? snd e then e :: l else x :: ins_desc e t
  end.
Definition sort_desc (es : list edge) : list edge := fold_right ins_desc [] es.

Definition flag_complex_collapse_edges (dense : bool) (es : list edge) : option (list oedge) :=
  match es with
  | [] => Some []
  | _ => process_edges dense (sort_desc es)
  end.

(* decidable form of the first clauses of the property, evaluated on the implementation's output *)
Definition key (u v : Z) : Z * Z := (Z.min u v, Z.max u v).
Definition key_eqb (a b : Z * Z) : bool := (fst a =? fst b) && (snd a =? snd b).
Fixpoint nodup_keys (l : list (Z * Z)) : bool :=
  match l with
  | [] => true
  | k :: t => negb (existsb (key_eqb k) t) && nodup_keys t
  end.
Definition out_edge_ok (input : list edge) (o : oedge) : bool :=
  let '(u, v, t) := o in
  existsb (fun e => let '(u', v', z) := e in (u =? u') && (v =? v') && fv_le (Fin z) t) input
  && existsb (fun e => fv_eqb t (Fin (snd e))) input.
Definition out_ok (input : list edge) (out : list oedge) : bool :=
  forallb (out_edge_ok input) out && nodup_keys (map (fun o => key (fst (fst o)) (snd (fst o))) out).

(* ================================================================== PART 2: specification model *)
(* flag filtration of a weighted graph on the vertices 0..n-1: a simplex = a clique (ascending vertex list), its value
   = the largest value of its edges (vertices: v0, a value below every edge); simplices up to dimension maxdim. *)

Definition edge_val (g : list edge) (a b : Z) : option Z :=
  match find (fun e => let '(u, v, _) := e in ((u =? a) && (v =? b)) || ((u =? b) && (v =? a))) g with
  | Some (_, _, w) => Some w
  | None => None
  end.

Fixpoint all_adj (g : list edge) (w : Z) (s : list Z) (acc : Z) : option Z :=
  match s with
  | [] => Some acc
  | x :: t => match edge_val g w x with
              | Some f => all_adj g w t (Z.max acc f)
              | None => None
              end
  end.

Definition verts (n : nat) : list Z := map Z.of_nat (seq 0 n).
Definition simplex := (list Z * Z)%type.     (* vertices ascending, filtration value *)

Definition extend (g : list edge) (n : nat) (sv : simplex) : list simplex :=
  let '(s, val) := sv in
  match s with
  | [] => []
  | h :: _ => flat_map (fun w => if w <? h then match all_adj g w s val with
                                              | Some val' => [(w :: s, val')]
                                              | None => []
                                              end
                                else []) (verts n)
  end.
Fixpoint levels (g : list edge) (n : nat) (k : nat) (cur : list simplex) : list simplex :=
  match k with
  | O => cur
  | S k' => cur ++ levels g n k' (flat_map (extend g n) cur)
  end.
Definition simplices (g : list edge) (n : nat) (v0 : Z) (maxdim : nat) : list simplex :=
  levels g n maxdim (map (fun v => ([v], v0)) (verts n)).

(* filtration order: value, then dimension, then lexicographic *)
Fixpoint lex_le (a b : list Z) : bool :=
  match a, b with
  | [], _ => true
  | _ :: _, [] => false
  | x :: a', y :: b' => if x <? y then true else if y <? x then false else lex_le a' b'
  end.
Definition s_le (a b : simplex) : bool :=
  if snd a <? snd b then true else if snd b <? snd a then false
  else if (length (fst a) <? length (fst b))%nat then true
  else if (length (fst b) <? length (fst a))%nat then false
  else lex_le (fst a) (fst b).
Fixpoint s_ins (x : simplex) (l : list simplex) : list simplex :=
  match l with
  | [] => [x]
  | y :: t => if s_le x y then x :: l else y :: s_ins x t
  end.
Definition s_sort (l : list simplex) : list simplex := fold_right s_ins [] l.

Fixpoint faces_aux (pre s : list Z) (sign : Z) : list (list Z * Z) :=
  match s with
  | [] => []
  | x :: t => (rev pre ++ t, sign) :: faces_aux (x :: pre) t (- sign)
  end.
Definition faces (s : list Z) : list (list Z * Z) :=
  match s with
  | [] => []
  | [_] => []
  | _ => faces_aux [] s 1
  end.
Fixpoint list_eqb (a b : list Z) : bool :=
  match a, b with
  | [], [] => true
  | x :: a', y :: b' => (x =? y) && list_eqb a' b'
  | _, _ => false
  end.
Fixpoint index_of (f : list Z) (l : list simplex) (i : nat) : option nat :=
  match l with
  | [] => None
  | y :: t => if list_eqb f (fst y) then Some i else index_of f t (S i)
  end.
Definition bcol (ord : list simplex) (s : list Z) : list (nat * Z) :=
  flat_map (fun fs => match index_of (fst fs) ord 0 with
                      | Some i => [(i, snd fs)]
                      | None => []
                      end) (faces s).
Definition boundary (ord : list simplex) : dmat :=
  dense_of_sparse (length ord) (map (fun sv => bcol ord (fst sv)) ord).

Definition bar := (nat * Z * option Z)%type.      (* dimension, birth value, death value (None = never) *)

Definition bars_of_pairs (ord : list simplex) (prs : list (nat * option nat)) : list bar :=
  flat_map (fun bd =>
    let sb := nth (fst bd) ord ([], 0) in
    let dim := pred (length (fst sb)) in
    match snd bd with
    | None => [(dim, snd sb, None)]
    | Some dj => let sd := nth dj ord ([], 0) in
                 if snd sb =? snd sd then [] else [(dim, snd sb, Some (snd sd))]
    end) prs.

(* barcode over Z_p of the flag filtration truncated at dimension maxdim; None = the certificate of the
   reduction failed (never observed) *)
Definition flag_barcode (p : Z) (g : list edge) (n : nat) (v0 : Z) (maxdim : nat) : option (list bar) :=
  let ord := s_sort (simplices g n v0 maxdim) in
  match certified_lows p (boundary ord) with
  | None => None
  | Some l => Some (bars_of_pairs ord (pairs_of_lows l))
  end.
