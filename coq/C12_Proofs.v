(* C12_Proofs.v — theorems about the algorithm model of C12_Model.v (all unbounded: any edge list, any order). *)
From Coq Require Import ZArith List Bool Arith Lia ZifyBool Permutation.
Require Import Reduce ReduceExec C12_Model.
Import ListNotations.
Local Open Scope Z_scope.

(* ------------------------------------------------------------------ the order on filtration values *)
Ltac fvs := repeat match goal with x : fv |- _ => destruct x end; cbn in *; try discriminate; try reflexivity; try lia.

Lemma fv_le_refl a : fv_le a a = true.
Proof. unfold fv_le, fv_lt. fvs. Qed.
Lemma fv_lt_le a b : fv_lt a b = true -> fv_le a b = true.
Proof. unfold fv_le, fv_lt. fvs. Qed.
Lemma fv_le_trans a b c : fv_le a b = true -> fv_le b c = true -> fv_le a c = true.
Proof. unfold fv_le, fv_lt. fvs. Qed.
Lemma fv_min_cases a b : fv_min a b = a \/ fv_min a b = b.
Proof. unfold fv_min. destruct (fv_lt b a); auto. Qed.
Lemma fv_min_le_l a b : fv_le (fv_min a b) a = true.
Proof. unfold fv_min. destruct (fv_lt b a) eqn:E; [apply fv_lt_le; exact E|apply fv_le_refl]. Qed.
Lemma fv_min_le_r a b : fv_le (fv_min a b) b = true.
Proof. unfold fv_min. destruct (fv_lt b a) eqn:E; [apply fv_le_refl|unfold fv_le; rewrite E; reflexivity]. Qed.
Lemma fv_min_PInf y : fv_min PInf y = y.
Proof. unfold fv_min, fv_lt. destruct y; reflexivity. Qed.
Lemma fv_max_cases a b : fv_max a b = a \/ fv_max a b = b.
Proof. unfold fv_max. destruct (fv_lt a b); auto. Qed.
Lemma fv_eqb_eq a b : fv_eqb a b = true <-> a = b.
Proof. split.
  - destruct a, b; cbn; try discriminate; try reflexivity. intros H. f_equal. lia.
  - intros ->. destruct b; cbn; try reflexivity. lia.
Qed.
Lemma fv_lt_Fin_inv t f : fv_lt (Fin t) f = true -> f <> MInf.
Proof. destruct f; cbn; congruence. Qed.

(* ------------------------------------------------------------------ the minimum of the later neighbours *)
Definition fmin (m : fv) (x : fv * Z) : fv := fv_min m (fst x).
Lemma later_min_unfold l : later_min l = fold_left fmin l PInf.
Proof. reflexivity. Qed.

Lemma fold_min_in l : forall a, fold_left fmin l a = a \/ In (fold_left fmin l a) (map fst l).
Proof.
  induction l as [|x l IH]; intros a; cbn [fold_left map].
  - left; reflexivity.
  - destruct (IH (fmin a x)) as [H|H].
    + rewrite H. unfold fmin. destruct (fv_min_cases a (fst x)) as [E|E]; rewrite E; [left; reflexivity|right; left; reflexivity].
    + right. right. exact H.
Qed.
Lemma fold_min_le l : forall a, fv_le (fold_left fmin l a) a = true /\
                               forall x, In x l -> fv_le (fold_left fmin l a) (fst x) = true.
Proof.
  induction l as [|x l IH]; intros a; cbn [fold_left].
  - split; [apply fv_le_refl|intros x []].
  - destruct (IH (fmin a x)) as [H1 H2]. split.
    + apply fv_le_trans with (fmin a x); [exact H1|apply fv_min_le_l].
    + intros y [<-|Hy]; [apply fv_le_trans with (fmin a x); [exact H1|apply fv_min_le_r]|apply H2; exact Hy].
Qed.
Lemma later_min_in x l : In (later_min (x :: l)) (map fst (x :: l)).
Proof.
  rewrite later_min_unfold. cbn [fold_left map]. unfold fmin at 2. rewrite fv_min_PInf.
  destruct (fold_min_in l (fst x)) as [H|H]; [rewrite H; left; reflexivity|right; exact H].
Qed.
Lemma later_min_le l x : In x l -> fv_le (later_min l) (fst x) = true.
Proof. rewrite later_min_unfold. intros H. apply (proj2 (fold_min_le l PInf)). exact H. Qed.

(* ------------------------------------------------------------------ the sweep *)
Lemma sweep_S dense s fuel en later time dom :
  sweep dense s (S fuel) en later time dom =
  match dom with
  | None =>
    match find (fun c => is_dominated_by dense s en c time) en with
    | None => Alive time
    | Some c => sweep dense s fuel en later time (Some c)
    end
  | Some d =>
    match later with
    | [] => Dead
    | _ :: _ =>
      let time' := later_min later in
      let now := filter (fun x => fv_le (fst x) time') later in
      let rest := filter (fun x => negb (fv_le (fst x) time')) later in
      let still := forallb (fun x => negb (breaks dense s d (snd x) (fst x))) now in
      let en' := fold_left (fun l x => set_insert l (snd x)) now en in
      sweep dense s fuel en' rest time' (if still then Some d else None)
    end
  end.
Proof. reflexivity. Qed.

Definition later_after (time : fv) (later : list (fv * Z)) : Prop :=
  forall x, In x later -> fv_lt time (fst x) = true.

Lemma rest_after (later : list (fv * Z)) t :
  later_after t (filter (fun x => negb (fv_le (fst x) t)) later).
Proof.
  intros y Hy. apply filter_In in Hy. destruct Hy as [_ Hy]. unfold fv_le in Hy. rewrite negb_involutive in Hy. exact Hy.
Qed.

Lemma sweep_alive dense s fuel : forall en later time dom t',
  later_after time later ->
  sweep dense s fuel en later time dom = Alive t' ->
  fv_le time t' = true /\ (t' = time \/ In t' (map fst later)).
Proof.
  induction fuel as [|fuel IH]; intros en later time dom t' Hl H; [discriminate|].
  rewrite sweep_S in H. destruct dom as [d|].
  - destruct later as [|x l]; [discriminate|]. cbv zeta in H.
    remember (x :: l) as L eqn:EL.
    apply IH in H; [|apply rest_after].
    destruct H as [H1 H2].
    assert (Hmin : In (later_min L) (map fst L)) by (rewrite EL; apply later_min_in).
    assert (Hle : fv_le time (later_min L) = true).
    { apply in_map_iff in Hmin. destruct Hmin as (x0 & E0 & Hx0). rewrite <- E0. apply fv_lt_le. apply Hl. exact Hx0. }
    split; [apply fv_le_trans with (later_min L); assumption|].
    right. destruct H2 as [-> |Hin]; [exact Hmin|].
    apply in_map_iff in Hin. destruct Hin as (y & Ey & Hy). apply filter_In in Hy. apply in_map_iff. exists y. tauto.
  - destruct (find (fun c => is_dominated_by dense s en c time) en) as [c|].
    + apply IH in H; assumption.
    + inversion H; subst. split; [apply fv_le_refl|left; reflexivity].
Qed.

Lemma filter_len_le {A} (f : A -> bool) l : (length (filter f l) <= length l)%nat.
Proof. induction l as [|y l IH]; cbn [filter length]; [lia|]. destruct (f y); cbn [length]; lia. Qed.
Lemma filter_length_lt {A} (f : A -> bool) l x : In x l -> f x = false -> (length (filter f l) < length l)%nat.
Proof.
  induction l as [|y l IH]; intros Hin Hf; [destruct Hin|]. cbn [filter length].
  destruct Hin as [-> |Hin].
  - rewrite Hf. pose proof (filter_len_le f l). lia.
  - specialize (IH Hin Hf). destruct (f y); cbn [length]; lia.
Qed.

Lemma sweep_fuel dense s fuel : forall en later time dom,
  (2 * length later + match dom with Some _ => 1 | None => 2 end <= fuel)%nat ->
  sweep dense s fuel en later time dom <> OutOfFuel.
Proof.
  induction fuel as [|fuel IH]; intros en later time dom Hf; [destruct dom; lia|].
  rewrite sweep_S. destruct dom as [d|].
  - destruct later as [|x l]; [discriminate|]. cbv zeta.
    remember (x :: l) as L eqn:EL.
    apply IH.
    assert (Hmin : In (later_min L) (map fst L)) by (rewrite EL; apply later_min_in).
    apply in_map_iff in Hmin. destruct Hmin as (x0 & E0 & Hx0).
    assert (Hlt : (length (filter (fun x1 => negb (fv_le (fst x1) (later_min L))) L) < length L)%nat).
    { apply filter_length_lt with x0; [exact Hx0|]. rewrite E0. rewrite fv_le_refl. reflexivity. }
    destruct (forallb _ _); lia.
  - destruct (find _ en); [apply IH; lia|discriminate].
Qed.

(* ------------------------------------------------------------------ values stored in the neighbour tables *)
Definition entry_ok (V : list Z) (f : fv) : Prop := f = MInf \/ exists z, In z V /\ f = Fin z.
Definition ngb_ok (V : list Z) (l : ngb) : Prop := Forall (fun kf => entry_ok V (snd kf)) l.
Definition tbl_ok (V : list Z) (s : state) : Prop := Forall (ngb_ok V) (nbs s).

Lemma fm_set_ok V l k f : ngb_ok V l -> entry_ok V f -> ngb_ok V (fm_set l k f).
Proof.
  unfold ngb_ok. induction l as [|[k' f'] l IH]; intros Hl Hf; cbn [fm_set].
  - constructor; [exact Hf|constructor].
  - inversion Hl; subst. destruct (k <? k'); [constructor; [exact Hf|exact Hl]|].
    destruct (k =? k'); [constructor; assumption|]. constructor; [assumption|apply IH; assumption].
Qed.
Lemma fm_add_ok V l k f : ngb_ok V l -> entry_ok V f -> ngb_ok V (fm_add l k f).
Proof.
  unfold ngb_ok. induction l as [|[k' f'] l IH]; intros Hl Hf; cbn [fm_add].
  - constructor; [exact Hf|constructor].
  - inversion Hl; subst. destruct (k <? k'); [constructor; [exact Hf|exact Hl]|].
    destruct (k =? k'); [exact Hl|]. constructor; [assumption|apply IH; assumption].
Qed.
Lemma fm_erase_ok V l k : ngb_ok V l -> ngb_ok V (fm_erase l k).
Proof.
  unfold ngb_ok. induction l as [|[k' f'] l IH]; intros Hl; cbn [fm_erase]; [constructor|].
  inversion Hl; subst. destruct (k =? k'); [assumption|]. constructor; [assumption|apply IH; assumption].
Qed.
Lemma upd_Forall {A} (P : A -> Prop) (g : A -> A) : (forall x, P x -> P (g x)) ->
  forall l i, Forall P l -> Forall P (upd l i g).
Proof.
  intros Hg. induction l as [|x l IH]; intros i Hl; [destruct i; constructor|].
  inversion Hl; subst. destruct i; cbn [upd]; constructor; auto.
Qed.
Lemma nb_get_ok V s u : tbl_ok V s -> ngb_ok V (nb_get s u).
Proof.
  unfold tbl_ok, nb_get. intros H. destruct (nth_in_or_default (Z.to_nat u) (nbs s) []) as [Hin| ->].
  - rewrite Forall_forall in H. apply H. exact Hin.
  - constructor.
Qed.
Lemma delay_ok V s u v f : tbl_ok V s -> entry_ok V f -> tbl_ok V (delay_neighbor s u v f).
Proof.
  unfold tbl_ok, delay_neighbor, dense_set, nb_upd. cbn [nbs]. intros Hs Hf.
  apply upd_Forall; [intros; apply fm_set_ok; assumption|]. apply upd_Forall; [intros; apply fm_set_ok; assumption|exact Hs].
Qed.
Lemma remove_ok V s u v : tbl_ok V s -> tbl_ok V (remove_neighbor s u v).
Proof.
  unfold tbl_ok, remove_neighbor, dense_set, nb_upd. cbn [nbs]. intros Hs.
  apply upd_Forall; [intros; apply fm_erase_ok; assumption|]. apply upd_Forall; [intros; apply fm_erase_ok; assumption|exact Hs].
Qed.
Lemma read_edge_ok V s u v f : tbl_ok V s -> In f V -> tbl_ok V (read_edge s (u, v, f)).
Proof.
  unfold tbl_ok, read_edge, dense_set, nb_upd. cbn [nbs]. intros Hs Hf.
  assert (entry_ok V (Fin f)) by (right; exists f; auto).
  apply upd_Forall; [intros; apply fm_add_ok; assumption|]. apply upd_Forall; [intros; apply fm_add_ok; assumption|exact Hs].
Qed.
Lemma read_self_ok V s i : tbl_ok V s -> tbl_ok V (read_self s i).
Proof.
  unfold tbl_ok, read_self, dense_set, nb_upd. cbn [nbs]. intros Hs.
  apply upd_Forall; [intros; apply fm_add_ok; [assumption|left; reflexivity]|exact Hs].
Qed.
Lemma read_edges_ok V es : incl (map snd es) V -> tbl_ok V (read_edges es).
Proof.
  intros Hin. unfold read_edges.
  set (s0 := mkState _ _ _).
  assert (H0 : tbl_ok V s0).
  { unfold tbl_ok, s0. cbn [nbs]. apply Forall_forall. intros l Hl. apply repeat_spec in Hl. subst. constructor. }
  clearbody s0.
  assert (H1 : tbl_ok V (fold_left read_edge es s0)).
  { revert s0 H0. induction es as [|[[u v] f] es IH]; intros s0 H0; [exact H0|]. cbn [fold_left].
    apply IH; [intros z Hz; apply Hin; right; exact Hz|]. apply read_edge_ok; [exact H0|apply Hin; left; reflexivity]. }
  generalize dependent (fold_left read_edge es s0). intros s1 H1.
  generalize (map Z.of_nat (seq 0 (Z.to_nat (num_vertices es)))). intros l. revert s1 H1.
  induction l as [|i l IH]; intros s1 H1; [exact H1|]. cbn [fold_left]. apply IH. apply read_self_ok. exact H1.
Qed.

(* ------------------------------------------------------------------ common_neighbors *)
Lemma cn_eq u v fe nu nv :
  common_neighbors u v fe nu nv =
  match nu, nv with
  | [], _ => ([], [])
  | _, [] => ([], [])
  | (w, fu) :: nu', (w', fw) :: nv' =>
    if w <? w' then common_neighbors u v fe nu' nv
    else if w' <? w then common_neighbors u v fe nu nv'
    else
      let '(a, b) := common_neighbors u v fe nu' nv' in
      if negb (w =? u) && negb (w =? v) then
        let f := fv_max fu fw in
        if fv_gt f fe then (a, (f, w) :: b) else (w :: a, b)
      else (a, b)
  end.
Proof. destruct nu as [|[w fu] nu]; destruct nv as [|[w' fw] nv]; reflexivity. Qed.

Lemma cn_later V u v fe : forall nu nv, ngb_ok V nu -> ngb_ok V nv ->
  Forall (fun x => fv_lt fe (fst x) = true /\ entry_ok V (fst x)) (snd (common_neighbors u v fe nu nv)).
Proof.
  induction nu as [|[w fu] nu IHnu]; intros nv Hnu Hnv; [rewrite cn_eq; constructor|].
  induction nv as [|[w' fw] nv IHnv]; [rewrite cn_eq; constructor|].
  rewrite cn_eq. inversion Hnu; subst. inversion Hnv; subst. cbn [snd] in *.
  destruct (w <? w'); [apply IHnu; assumption|].
  destruct (w' <? w); [apply IHnv; assumption|].
  specialize (IHnu nv H2 H4). destruct (common_neighbors u v fe nu nv) as [a b]. cbn [snd] in IHnu.
  destruct (negb (w =? u) && negb (w =? v)); [|exact IHnu]. cbv zeta.
  destruct (fv_gt (fv_max fu fw) fe) eqn:E; cbn [snd]; [|exact IHnu].
  constructor; [|exact IHnu]. cbn [fst]. split; [exact E|].
  destruct (fv_max_cases fu fw) as [-> | ->]; assumption.
Qed.

(* ------------------------------------------------------------------ one edge *)
Lemma process_edge_spec dense V s u v t s' o :
  tbl_ok V s -> In t V ->
  process_edge dense s (u, v, t) = Some (s', o) ->
  tbl_ok V s' /\
  (o = [] \/ exists t', o = [(u, v, t')] /\ fv_le (Fin t) t' = true /\ exists z, In z V /\ t' = Fin z).
Proof.
  intros Hs Ht H. unfold process_edge in H.
  pose proof (cn_later V u v (Fin t) (nb_get s u) (nb_get s v) (nb_get_ok V s u Hs) (nb_get_ok V s v Hs)) as Hl.
  destruct (common_neighbors u v (Fin t) (nb_get s u) (nb_get s v)) as [en later]. cbn [snd] in Hl.
  rewrite Forall_forall in Hl.
  destruct (sweep dense s (2 * length later + 2) en later (Fin t) None) as [|t'|] eqn:E; [| |discriminate].
  - inversion H; subst. split; [apply remove_ok; exact Hs|left; reflexivity].
  - apply sweep_alive in E; [|intros x Hx; apply Hl; exact Hx].
    destruct E as [E1 E2].
    assert (Hz : exists z, In z V /\ t' = Fin z).
    { destruct E2 as [-> |Hin]; [exists t; auto|].
      apply in_map_iff in Hin. destruct Hin as (x & Ex & Hx). destruct (Hl x Hx) as [A B]. rewrite Ex in *.
      destruct B as [-> |B]; [discriminate|exact B]. }
    destruct (negb (fv_eqb (Fin t) t')) eqn:Eq; inversion H; subst.
    + split; [apply delay_ok; [exact Hs|right; exact Hz]|]. right. exists t'. auto.
    + split; [exact Hs|]. right. exists (Fin t). split; [reflexivity|]. split; [apply fv_le_refl|exists t; auto].
Qed.

Lemma process_edge_total dense s e : process_edge dense s e <> None.
Proof.
  destruct e as [[u v] t]. unfold process_edge.
  destruct (common_neighbors u v (Fin t) (nb_get s u) (nb_get s v)) as [en later].
  pose proof (sweep_fuel dense s (2 * length later + 2) en later (Fin t) None (le_n _)) as Hf.
  destruct (sweep dense s (2 * length later + 2) en later (Fin t) None); try discriminate.
  - destruct (negb (fv_eqb (Fin t) time)); discriminate.
  - congruence.
Qed.

(* ------------------------------------------------------------------ the whole loop *)
(* out is obtained from es by dropping some edges and raising the values of others to values of V *)
Inductive good_rel (V : list Z) : list edge -> list oedge -> Prop :=
| gr_nil : good_rel V [] []
| gr_skip e es out : good_rel V es out -> good_rel V (e :: es) out
| gr_keep u v t t' es out : fv_le (Fin t) t' = true -> (exists z, In z V /\ t' = Fin z) ->
    good_rel V es out -> good_rel V ((u, v, t) :: es) ((u, v, t') :: out).

Lemma process_loop_rel dense V : forall es s out,
  tbl_ok V s -> incl (map snd es) V ->
  process_loop dense s es = Some out -> good_rel V es out.
Proof.
  induction es as [|[[u v] t] es IH]; intros s out Hs Hin H; cbn [process_loop] in H.
  - inversion H. constructor.
  - destruct (process_edge dense s (u, v, t)) as [[s' o]|] eqn:E; [|discriminate].
    destruct (process_loop dense s' es) as [r|] eqn:Er; [|discriminate]. inversion H; subst.
    apply process_edge_spec with (V := V) in E; [|exact Hs|apply Hin; left; reflexivity].
    destruct E as [Hs' Ho].
    assert (Hr : good_rel V es r) by (apply IH with s'; [exact Hs'|intros z Hz; apply Hin; right; exact Hz|exact Er]).
    destruct Ho as [-> |(t' & -> & H1 & H2)]; cbn [app]; [apply gr_skip; exact Hr|apply gr_keep; assumption].
Qed.

Lemma process_loop_total dense : forall es s, process_loop dense s es <> None.
Proof.
  induction es as [|e es IH]; intros s; cbn [process_loop]; [discriminate|].
  pose proof (process_edge_total dense s e) as H. destruct (process_edge dense s e) as [[s' o]|]; [|congruence].
  specialize (IH s'). destruct (process_loop dense s' es); [discriminate|congruence].
Qed.

Lemma good_rel_in V es out u v t' : good_rel V es out -> In (u, v, t') out ->
  exists t, In (u, v, t) es /\ fv_le (Fin t) t' = true /\ exists z, In z V /\ t' = Fin z.
Proof.
  induction 1 as [|e es out _ IH|u0 v0 t0 t0' es out H1 H2 _ IH]; intros Hin.
  - destruct Hin.
  - destruct (IH Hin) as (t & A & B). exists t. split; [right; exact A|exact B].
  - destruct Hin as [E|Hin].
    + inversion E; subst. exists t0. split; [left; reflexivity|]. split; assumption.
    + destruct (IH Hin) as (t & A & B). exists t. split; [right; exact A|exact B].
Qed.

Definition ekey (e : edge) : Z * Z := key (fst (fst e)) (snd (fst e)).
Definition okey (o : oedge) : Z * Z := key (fst (fst o)) (snd (fst o)).

Lemma good_rel_keys V es out : good_rel V es out -> forall k, In k (map okey out) -> In k (map ekey es).
Proof.
  induction 1 as [|e es out _ IH|u0 v0 t0 t0' es out H1 H2 _ IH]; intros k Hk; cbn [map] in *.
  - destruct Hk.
  - right. apply IH. exact Hk.
  - destruct Hk as [<-|Hk]; [left; reflexivity|right; apply IH; exact Hk].
Qed.
Lemma good_rel_nodup V es out : good_rel V es out -> NoDup (map ekey es) -> NoDup (map okey out).
Proof.
  induction 1 as [|e es out H IH|u0 v0 t0 t0' es out H1 H2 H IH]; intros Hn; cbn [map] in *.
  - constructor.
  - apply NoDup_cons_iff in Hn. apply IH. apply Hn.
  - apply NoDup_cons_iff in Hn. destruct Hn as [Hni Hn]. constructor; [|apply IH; exact Hn].
    intros Hk. apply (good_rel_keys V es out H) in Hk. apply Hni. exact Hk.
Qed.

(* ------------------------------------------------------------------ process_edges: the theorems *)
Theorem process_edges_total dense es : exists out, process_edges dense es = Some out.
Proof.
  unfold process_edges. pose proof (process_loop_total dense es (read_edges es)) as H.
  destruct (process_loop dense (read_edges es) es) as [out|]; [exists out; reflexivity|congruence].
Qed.

Lemma process_edges_rel dense es out : process_edges dense es = Some out -> good_rel (map snd es) es out.
Proof.
  unfold process_edges. apply process_loop_rel; [apply read_edges_ok|]; apply incl_refl.
Qed.

Theorem collapse_edges_subset dense es out u v t' :
  process_edges dense es = Some out -> In (u, v, t') out -> exists t, In (u, v, t) es /\ fv_le (Fin t) t' = true.
Proof.
  intros H Hin. destruct (good_rel_in _ _ _ _ _ _ (process_edges_rel _ _ _ H) Hin) as (t & A & B & _). exists t. auto.
Qed.

Theorem collapse_values_are_input_values dense es out u v t' :
  process_edges dense es = Some out -> In (u, v, t') out -> exists u0 v0 z, In (u0, v0, z) es /\ t' = Fin z.
Proof.
  intros H Hin. destruct (good_rel_in _ _ _ _ _ _ (process_edges_rel _ _ _ H) Hin) as (t & _ & _ & z & Hz & E).
  apply in_map_iff in Hz. destruct Hz as ([[u0 v0] z0] & E0 & Hz). cbn in E0. subst. exists u0, v0, z. auto.
Qed.

Theorem collapse_no_duplicates dense es out :
  process_edges dense es = Some out -> NoDup (map ekey es) -> NoDup (map okey out).
Proof. intros H. apply good_rel_nodup with (map snd es). apply process_edges_rel with dense. exact H. Qed.

(* ------------------------------------------------------------------ with the sort in front *)
Lemma ins_desc_perm e l : Permutation (e :: l) (ins_desc e l).
Proof.
  induction l as [|x l IH]; cbn [ins_desc]; [apply Permutation_refl|].
  destruct (snd x <? snd e); [apply Permutation_refl|].
  eapply Permutation_trans; [apply perm_swap|]. apply perm_skip. exact IH.
Qed.
Lemma sort_desc_perm es : Permutation es (sort_desc es).
Proof.
  induction es as [|e es IH]; cbn; [constructor|].
  eapply Permutation_trans; [apply perm_skip; exact IH|apply ins_desc_perm].
Qed.

Theorem collapse_total dense es : exists out, flag_complex_collapse_edges dense es = Some out.
Proof. unfold flag_complex_collapse_edges. destruct es; [exists []; reflexivity|apply process_edges_total]. Qed.

Theorem collapse_sorted_subset dense es out u v t' :
  flag_complex_collapse_edges dense es = Some out -> In (u, v, t') out ->
  (exists t, In (u, v, t) es /\ fv_le (Fin t) t' = true) /\ (exists u0 v0 z, In (u0, v0, z) es /\ t' = Fin z).
Proof.
  unfold flag_complex_collapse_edges. intros H Hin. destruct es as [|e es]; [inversion H; subst; destruct Hin|].
  set (l := e :: es) in *. pose proof (sort_desc_perm l) as P. split.
  - destruct (collapse_edges_subset _ _ _ _ _ _ H Hin) as (t & A & B). exists t. split; [|exact B].
    apply Permutation_in with (sort_desc l); [apply Permutation_sym; exact P|exact A].
  - destruct (collapse_values_are_input_values _ _ _ _ _ _ H Hin) as (u0 & v0 & z & A & B). exists u0, v0, z. split; [|exact B].
    apply Permutation_in with (sort_desc l); [apply Permutation_sym; exact P|exact A].
Qed.

Theorem collapse_sorted_no_duplicates dense es out :
  flag_complex_collapse_edges dense es = Some out -> NoDup (map ekey es) -> NoDup (map okey out).
Proof.
  unfold flag_complex_collapse_edges. intros H Hn. destruct es as [|e es]; [inversion H; constructor|].
  apply collapse_no_duplicates with (1 := H).
  apply Permutation_NoDup with (map ekey (e :: es)); [apply Permutation_map; apply sort_desc_perm|exact Hn].
Qed.

(* ------------------------------------------------------------------ the two neighbour-table implementations *)
From Coq Require Import Sorting.Sorted.

Lemma ds_eq f en nc :
  dom_sparse f en nc =
  match en with
  | [] => true
  | ve :: en' =>
    match nc with
    | [] => false
    | (vc, fc) :: nc' =>
      if vc <? ve then dom_sparse f en nc'
      else if ve <? vc then false
      else if fv_gt fc f then false
      else dom_sparse f en' nc'
    end
  end.
Proof. destruct en as [|ve en]; destruct nc as [|[vc fc] nc]; reflexivity. Qed.

Definition lookup_inf (l : ngb) (k : Z) : fv := match fm_find l k with Some f => f | None => PInf end.

Lemma forallb_ext_in {A} (g1 g2 : A -> bool) l : (forall v, In v l -> g1 v = g2 v) -> forallb g1 l = forallb g2 l.
Proof.
  induction l as [|x l IH]; intros H; [reflexivity|]. cbn [forallb].
  rewrite (H x (or_introl eq_refl)). rewrite IH; [reflexivity|]. intros v Hv. apply H. right. exact Hv.
Qed.
Lemma fm_find_above nc k v : Forall (Z.lt k) (map fst nc) -> v <= k -> fm_find nc v = None.
Proof.
  induction nc as [|[k' f'] nc IH]; intros H Hv; [reflexivity|]. cbn [fm_find map fst] in *.
  inversion H; subst. destruct (v =? k') eqn:E; [lia|]. apply IH; assumption.
Qed.

Definition dom_ok (f : fv) (nc : ngb) (v : Z) : bool :=
  match fm_find nc v with Some x => negb (fv_gt x f) | None => false end.

Lemma dom_sparse_spec f : forall en nc,
  StronglySorted Z.lt en -> StronglySorted Z.lt (map fst nc) ->
  dom_sparse f en nc = forallb (dom_ok f nc) en.
Proof.
  induction en as [|ve en IHen]; intros nc Hen Hnc; [rewrite ds_eq; reflexivity|].
  apply StronglySorted_inv in Hen. destruct Hen as [Hen Hve]. rewrite Forall_forall in Hve.
  induction nc as [|[vc fc] nc IHnc]; [rewrite ds_eq; reflexivity|].
  cbn [map fst] in Hnc. apply StronglySorted_inv in Hnc. destruct Hnc as [Hnc Hvc].
  rewrite ds_eq. destruct (vc <? ve) eqn:E1.
  - rewrite IHnc by exact Hnc. apply forallb_ext_in. intros v Hv. unfold dom_ok. cbn [fm_find].
    assert (vc < v) by (destruct Hv as [<-|Hv]; [lia|specialize (Hve v Hv); lia]).
    destruct (v =? vc) eqn:E; [lia|reflexivity].
  - destruct (ve <? vc) eqn:E2.
    + cbn [forallb]. unfold dom_ok at 1. cbn [fm_find]. destruct (ve =? vc) eqn:E; [lia|].
      rewrite (fm_find_above nc vc ve Hvc) by lia. reflexivity.
    + assert (ve = vc) by lia. subst vc. cbn [forallb]. unfold dom_ok at 1. cbn [fm_find]. rewrite Z.eqb_refl.
      destruct (fv_gt fc f); [reflexivity|]. cbn [negb andb].
      rewrite IHen by assumption. apply forallb_ext_in. intros v Hv. unfold dom_ok. cbn [fm_find].
      specialize (Hve v Hv). destruct (v =? ve) eqn:E; [lia|reflexivity].
Qed.

(* is_dominated_by: the GUDHI_COLLAPSE_USE_DENSE_ARRAY body and the default body agree whenever the dense table holds,
   for the vertices tested, what the sorted neighbourhood of c holds (+inf for absent entries) *)
Theorem dominated_iff s f en c :
  f <> PInf ->
  StronglySorted Z.lt en -> StronglySorted Z.lt (map fst (nb_get s c)) ->
  (forall v, In v en -> dense_get s v c = lookup_inf (nb_get s c) v) ->
  is_dominated_by true s en c f = is_dominated_by false s en c f.
Proof.
  intros Hf Hen Hnc Hcoh. unfold is_dominated_by, dom_dense. rewrite dom_sparse_spec by assumption.
  apply forallb_ext_in. intros v Hv. rewrite (Hcoh v Hv). unfold lookup_inf, dom_ok.
  destruct (fm_find (nb_get s c) v); [reflexivity|]. unfold fv_gt, fv_lt. destruct f; cbn; congruence.
Qed.

(* the push-forward test *)
Theorem breaks_iff s d w fw :
  fw <> PInf -> dense_get s d w = lookup_inf (nb_get s d) w ->
  breaks true s d w fw = breaks false s d w fw.
Proof.
  intros Hf Hcoh. unfold breaks. rewrite Hcoh. unfold lookup_inf.
  destruct (fm_find (nb_get s d) w); [reflexivity|]. unfold fv_gt, fv_lt. destruct fw; cbn; congruence.
Qed.
