(* C12_Tables.v — the default and the GUDHI_COLLAPSE_USE_DENSE_ARRAY variants of the whole sweep return the same list. *)
From Coq Require Import ZArith List Bool Arith Lia ZifyBool Permutation Sorting.Sorted.
Require Import Reduce ReduceExec C12_Model C12_Proofs.
Import ListNotations.
Local Open Scope Z_scope.

(* ------------------------------------------------------------------ flat_map operations and look-ups *)
Lemma lookup_fm_set l k f k' : lookup_inf (fm_set l k f) k' = if k' =? k then f else lookup_inf l k'.
Proof.
  unfold lookup_inf. induction l as [|[k0 f0] l IH]; cbn [fm_set fm_find].
  - destruct (k' =? k); reflexivity.
  - destruct (k <? k0) eqn:E1; [cbn [fm_find]; destruct (k' =? k); reflexivity|].
    destruct (k =? k0) eqn:E2.
    + cbn [fm_find]. destruct (k' =? k) eqn:E3; [reflexivity|]. destruct (k' =? k0) eqn:E4; [lia|reflexivity].
    + cbn [fm_find]. destruct (k' =? k0) eqn:E4; [destruct (k' =? k) eqn:E3; [lia|reflexivity]|exact IH].
Qed.
Lemma find_fm_add l k f k' : fm_find l k = None ->
  fm_find (fm_add l k f) k' = if k' =? k then Some f else fm_find l k'.
Proof.
  induction l as [|[k0 f0] l IH]; cbn [fm_add fm_find]; intros Hn.
  - destruct (k' =? k); reflexivity.
  - destruct (k =? k0) eqn:E2; [discriminate|].
    destruct (k <? k0) eqn:E1; [cbn [fm_find]; destruct (k' =? k); reflexivity|].
    cbn [fm_find]. destruct (k' =? k0) eqn:E4; [destruct (k' =? k) eqn:E3; [lia|reflexivity]|apply IH; exact Hn].
Qed.
Lemma lookup_fm_add l k f k' : fm_find l k = None ->
  lookup_inf (fm_add l k f) k' = if k' =? k then f else lookup_inf l k'.
Proof. intros H. unfold lookup_inf. rewrite find_fm_add by exact H. destruct (k' =? k); reflexivity. Qed.
Lemma lookup_fm_erase l k k' : StronglySorted Z.lt (map fst l) ->
  lookup_inf (fm_erase l k) k' = if k' =? k then PInf else lookup_inf l k'.
Proof.
  unfold lookup_inf. induction l as [|[k0 f0] l IH]; cbn [fm_erase fm_find map fst]; intros Hs.
  - destruct (k' =? k); reflexivity.
  - apply StronglySorted_inv in Hs. destruct Hs as [Hs Hk0].
    destruct (k =? k0) eqn:E2.
    + destruct (k' =? k) eqn:E3.
      * rewrite (fm_find_above l k0 k' Hk0) by lia. reflexivity.
      * destruct (k' =? k0) eqn:E4; [lia|reflexivity].
    + cbn [fm_find]. destruct (k' =? k0) eqn:E4; [destruct (k' =? k) eqn:E3; [lia|reflexivity]|apply IH; exact Hs].
Qed.

(* keys: strictly increasing and inside [0,n) *)
Definition keys_ok (n : Z) (l : ngb) : Prop :=
  StronglySorted Z.lt (map fst l) /\ Forall (fun k => 0 <= k < n) (map fst l).

Lemma keys_fm_set_in l k f x : In x (map fst (fm_set l k f)) -> x = k \/ In x (map fst l).
Proof.
  induction l as [|[k0 f0] l IH]; cbn [fm_set map fst]; [intros [<-|[]]; auto|].
  destruct (k <? k0); [cbn [map fst]; intros [<-|H]; auto|].
  destruct (k =? k0); cbn [map fst].
  - intros [<-|H]; [left; reflexivity|right; right; exact H].
  - intros [<-|H]; [right; left; reflexivity|]. destruct (IH H); [left; assumption|right; right; assumption].
Qed.
Lemma keys_fm_add_in l k f x : In x (map fst (fm_add l k f)) -> x = k \/ In x (map fst l).
Proof.
  induction l as [|[k0 f0] l IH]; cbn [fm_add map fst]; [intros [<-|[]]; auto|].
  destruct (k <? k0); [cbn [map fst]; intros [<-|H]; auto|].
  destruct (k =? k0); cbn [map fst]; [auto|].
  intros [<-|H]; [right; left; reflexivity|]. destruct (IH H); [left; assumption|right; right; assumption].
Qed.
Lemma keys_fm_erase_in l k x : In x (map fst (fm_erase l k)) -> In x (map fst l).
Proof.
  induction l as [|[k0 f0] l IH]; cbn [fm_erase map fst]; [auto|].
  destruct (k =? k0); cbn [map fst].
  - intros H. right. exact H.
  - intros [<-|H]; [left; reflexivity|right; apply IH; exact H].
Qed.

Lemma keys_ok_fm_set n l k f : keys_ok n l -> 0 <= k < n -> keys_ok n (fm_set l k f).
Proof.
  intros [Hs Hr] Hk. split.
  - clear Hr. induction l as [|[k0 f0] l IH]; cbn [fm_set map fst] in *; [repeat constructor|].
    apply StronglySorted_inv in Hs. destruct Hs as [Hs Hk0].
    destruct (k <? k0) eqn:E1.
    + cbn [map fst]. constructor; [constructor; assumption|]. constructor; [lia|].
      eapply Forall_impl; [|exact Hk0]. cbn. intros; lia.
    + destruct (k =? k0) eqn:E2; cbn [map fst].
      * constructor; [exact Hs|]. eapply Forall_impl; [|exact Hk0]. cbn. intros; lia.
      * constructor; [apply IH; exact Hs|]. apply Forall_forall. intros x Hx.
        destruct (keys_fm_set_in _ _ _ _ Hx) as [->|Hx']; [lia|]. rewrite Forall_forall in Hk0. apply Hk0. exact Hx'.
  - apply Forall_forall. intros x Hx. destruct (keys_fm_set_in _ _ _ _ Hx) as [->|Hx']; [exact Hk|].
    rewrite Forall_forall in Hr. apply Hr. exact Hx'.
Qed.
Lemma keys_ok_fm_add n l k f : keys_ok n l -> 0 <= k < n -> keys_ok n (fm_add l k f).
Proof.
  intros [Hs Hr] Hk. split.
  - clear Hr. induction l as [|[k0 f0] l IH]; cbn [fm_add map fst] in *; [repeat constructor|].
    pose proof Hs as Hs0. apply StronglySorted_inv in Hs. destruct Hs as [Hs Hk0].
    destruct (k <? k0) eqn:E1.
    + cbn [map fst]. constructor; [exact Hs0|]. constructor; [lia|].
      eapply Forall_impl; [|exact Hk0]. cbn. intros; lia.
    + destruct (k =? k0) eqn:E2; cbn [map fst]; [exact Hs0|].
      constructor; [apply IH; exact Hs|]. apply Forall_forall. intros x Hx.
      destruct (keys_fm_add_in _ _ _ _ Hx) as [->|Hx']; [lia|]. rewrite Forall_forall in Hk0. apply Hk0. exact Hx'.
  - apply Forall_forall. intros x Hx. destruct (keys_fm_add_in _ _ _ _ Hx) as [->|Hx']; [exact Hk|].
    rewrite Forall_forall in Hr. apply Hr. exact Hx'.
Qed.
Lemma keys_ok_fm_erase n l k : keys_ok n l -> keys_ok n (fm_erase l k).
Proof.
  intros [Hs Hr]. split.
  - clear Hr. induction l as [|[k0 f0] l IH]; cbn [fm_erase map fst] in *; [constructor|].
    apply StronglySorted_inv in Hs. destruct Hs as [Hs Hk0].
    destruct (k =? k0); [exact Hs|]. cbn [map fst]. constructor; [apply IH; exact Hs|].
    apply Forall_forall. intros x Hx. apply keys_fm_erase_in in Hx. rewrite Forall_forall in Hk0. apply Hk0. exact Hx.
  - apply Forall_forall. intros x Hx. apply keys_fm_erase_in in Hx. rewrite Forall_forall in Hr. apply Hr. exact Hx.
Qed.

(* ------------------------------------------------------------------ coherent states *)
Definition in_range (s : state) (i : Z) : Prop := 0 <= i < nvert s.

Record Coh (s : state) : Prop := mkCoh {
  coh_len : length (nbs s) = Z.to_nat (nvert s);
  coh_keys : forall j, in_range s j -> keys_ok (nvert s) (nb_get s j);
  coh_dense : forall i j, in_range s i -> in_range s j -> dense_get s i j = lookup_inf (nb_get s j) i;
  coh_sym : forall i j, in_range s i -> in_range s j -> lookup_inf (nb_get s j) i = lookup_inf (nb_get s i) j }.

Lemma nth_upd {A} (g : A -> A) d : forall l i j, (i < length l)%nat ->
  nth j (upd l i g) d = if (j =? i)%nat then g (nth i l d) else nth j l d.
Proof.
  induction l as [|x l IH]; intros i j Hi; [cbn in Hi; lia|].
  destruct i, j; cbn [upd nth Nat.eqb]; try reflexivity. apply IH. cbn in Hi; lia.
Qed.
Lemma upd_length {A} (g : A -> A) : forall l i, length (upd l i g) = length l.
Proof. induction l as [|x l IH]; intros i; [destruct i; reflexivity|]. destruct i; cbn [upd length]; auto. Qed.

Lemma nb_get_upd s u g j : (Z.to_nat u < length (nbs s))%nat -> 0 <= u -> 0 <= j ->
  nb_get (nb_upd s u g) j = if j =? u then g (nb_get s u) else nb_get s j.
Proof.
  intros Hl Hu Hj. unfold nb_get, nb_upd. cbn [nbs]. rewrite nth_upd by exact Hl.
  destruct (Nat.eqb_spec (Z.to_nat j) (Z.to_nat u)) as [E|E]; destruct (Z.eqb_spec j u) as [E'|E']; try reflexivity; lia.
Qed.

Lemma didx_inj n i j i0 j0 : 0 <= i < n -> 0 <= i0 < n -> n * j + i = n * j0 + i0 -> i = i0 /\ j = j0.
Proof.
  intros H1 H2 H. assert (j = j0).
  { destruct (Z.lt_trichotomy j j0) as [L|[L|L]]; [|exact L|]; nia. }
  subst. lia.
Qed.

Lemma dense_get_set s i0 j0 F i j : in_range s i -> in_range s i0 ->
  dense_get (dense_set s i0 j0 F) i j = if (i =? i0) && (j =? j0) then F else dense_get s i j.
Proof.
  unfold in_range. intros Hi Hi0. unfold dense_get, dense_set, didx. cbn [nd nvert].
  destruct (Z.eqb_spec (nvert s * j + i) (nvert s * j0 + i0)) as [E|E].
  - apply didx_inj in E; [|assumption|assumption]. destruct E as [-> ->]. rewrite !Z.eqb_refl. reflexivity.
  - destruct (Z.eqb_spec i i0) as [->|]; destruct (Z.eqb_spec j j0) as [->|]; cbn [andb]; try reflexivity. congruence.
Qed.

Definition pair_op (s : state) (u v : Z) (g1 g2 : ngb -> ngb) (F : fv) : state :=
  dense_set (dense_set (nb_upd (nb_upd s u g1) v g2) u v F) v u F.
Definition pair_hit (i j u v : Z) : bool := ((i =? u) && (j =? v)) || ((i =? v) && (j =? u)).

Lemma nb_get_pair_op s u v g1 g2 F j : Coh s -> in_range s u -> in_range s v -> u <> v -> 0 <= j ->
  nb_get (pair_op s u v g1 g2 F) j =
  if j =? v then g2 (nb_get s v) else if j =? u then g1 (nb_get s u) else nb_get s j.
Proof.
  intros C Hu Hv Huv Hj. unfold in_range in *. pose proof (coh_len s C) as Hl.
  change (nb_get (pair_op s u v g1 g2 F) j) with (nb_get (nb_upd (nb_upd s u g1) v g2) j).
  rewrite nb_get_upd; [|cbn [nb_upd nbs]; rewrite upd_length; lia|lia|lia].
  rewrite !nb_get_upd by lia.
  destruct (Z.eqb_spec v u); [congruence|]. reflexivity.
Qed.

Lemma pair_op_coh s u v g1 g2 F :
  Coh s -> in_range s u -> in_range s v -> u <> v ->
  keys_ok (nvert s) (g1 (nb_get s u)) -> keys_ok (nvert s) (g2 (nb_get s v)) ->
  (forall k, lookup_inf (g1 (nb_get s u)) k = if k =? v then F else lookup_inf (nb_get s u) k) ->
  (forall k, lookup_inf (g2 (nb_get s v)) k = if k =? u then F else lookup_inf (nb_get s v) k) ->
  Coh (pair_op s u v g1 g2 F).
Proof.
  intros C Hu Hv Huv K1 K2 L1 L2.
  assert (HL : forall i j, in_range s i -> in_range s j ->
     lookup_inf (nb_get (pair_op s u v g1 g2 F) j) i = if pair_hit i j u v then F else lookup_inf (nb_get s j) i).
  { intros i j Hi Hj. rewrite nb_get_pair_op by (try assumption; unfold in_range in Hj; lia). unfold pair_hit.
    destruct (Z.eqb_spec j v) as [->|Njv].
    - rewrite L2. destruct (Z.eqb_spec i u); destruct (Z.eqb_spec i v); destruct (Z.eqb_spec v u); cbn; try reflexivity; congruence.
    - destruct (Z.eqb_spec j u) as [->|Nju].
      + rewrite L1. destruct (Z.eqb_spec i v); destruct (Z.eqb_spec i u); cbn; try reflexivity; congruence.
      + rewrite !andb_false_r. reflexivity. }
  assert (HD : forall i j, in_range s i -> in_range s j ->
     dense_get (pair_op s u v g1 g2 F) i j = if pair_hit i j u v then F else dense_get s i j).
  { intros i j Hi Hj. unfold pair_op. rewrite dense_get_set by assumption. rewrite dense_get_set by assumption.
    unfold pair_hit. change (dense_get (nb_upd (nb_upd s u g1) v g2) i j) with (dense_get s i j).
    destruct ((i =? v) && (j =? u)); destruct ((i =? u) && (j =? v)); reflexivity. }
  constructor.
  - cbn [pair_op dense_set nb_upd nbs nvert]. rewrite !upd_length. apply (coh_len s C).
  - intros j Hj. change (nvert (pair_op s u v g1 g2 F)) with (nvert s).
    rewrite nb_get_pair_op by (try assumption; unfold in_range in Hj; cbn in Hj; lia).
    destruct (j =? v); [exact K2|]. destruct (j =? u); [exact K1|]. apply (coh_keys s C). exact Hj.
  - intros i j Hi Hj. rewrite HD, HL by assumption. rewrite (coh_dense s C) by assumption. reflexivity.
  - intros i j Hi Hj. rewrite !HL by assumption. rewrite (coh_sym s C i j) by assumption.
    replace (pair_hit j i u v) with (pair_hit i j u v); [reflexivity|]. unfold pair_hit.
    destruct (i =? u), (j =? v), (i =? v), (j =? u); reflexivity.
Qed.

Lemma delay_coh s u v f : Coh s -> in_range s u -> in_range s v -> u <> v -> Coh (delay_neighbor s u v f).
Proof.
  intros C Hu Hv Huv.
  change (delay_neighbor s u v f) with (pair_op s u v (fun l => fm_set l v f) (fun l => fm_set l u f) f).
  apply pair_op_coh; try assumption.
  - apply keys_ok_fm_set; [apply (coh_keys s C); exact Hu|exact Hv].
  - apply keys_ok_fm_set; [apply (coh_keys s C); exact Hv|exact Hu].
  - intros k. apply lookup_fm_set.
  - intros k. apply lookup_fm_set.
Qed.
Lemma remove_coh s u v : Coh s -> in_range s u -> in_range s v -> u <> v -> Coh (remove_neighbor s u v).
Proof.
  intros C Hu Hv Huv.
  change (remove_neighbor s u v) with (pair_op s u v (fun l => fm_erase l v) (fun l => fm_erase l u) PInf).
  apply pair_op_coh; try assumption.
  - apply keys_ok_fm_erase. apply (coh_keys s C); exact Hu.
  - apply keys_ok_fm_erase. apply (coh_keys s C); exact Hv.
  - intros k. apply lookup_fm_erase. apply (coh_keys s C); exact Hu.
  - intros k. apply lookup_fm_erase. apply (coh_keys s C); exact Hv.
Qed.

(* ------------------------------------------------------------------ the sweep on a coherent state *)
Lemma find_ext_in {A} (g1 g2 : A -> bool) l : (forall x, In x l -> g1 x = g2 x) -> find g1 l = find g2 l.
Proof.
  induction l as [|x l IH]; intros H; [reflexivity|]. cbn [find].
  rewrite (H x (or_introl eq_refl)). rewrite IH; [reflexivity|]. intros y Hy. apply H. right. exact Hy.
Qed.

Lemma set_insert_in l w x : In x (set_insert l w) -> x = w \/ In x l.
Proof.
  induction l as [|y l IH]; cbn [set_insert]; [intros [<-|[]]; auto|].
  destruct (w <? y); [intros [<-|H]; auto|]. destruct (w =? y); [auto|].
  intros [<-|H]; [right; left; reflexivity|]. destruct (IH H); [left; assumption|right; right; assumption].
Qed.
Lemma set_insert_sorted l w : StronglySorted Z.lt l -> StronglySorted Z.lt (set_insert l w).
Proof.
  induction l as [|y l IH]; cbn [set_insert]; intros Hs; [repeat constructor|].
  pose proof Hs as Hs0. apply StronglySorted_inv in Hs. destruct Hs as [Hs Hy].
  destruct (w <? y) eqn:E1.
  - constructor; [exact Hs0|]. constructor; [lia|]. eapply Forall_impl; [|exact Hy]. cbn. intros; lia.
  - destruct (w =? y) eqn:E2; [exact Hs0|]. constructor; [apply IH; exact Hs|].
    apply Forall_forall. intros x Hx. destruct (set_insert_in _ _ _ Hx) as [->|Hx']; [lia|].
    rewrite Forall_forall in Hy. apply Hy. exact Hx'.
Qed.
Lemma fold_insert_ok (P : Z -> Prop) : forall (now : list (fv * Z)) en,
  StronglySorted Z.lt en -> (forall c, In c en -> P c) -> (forall x, In x now -> P (snd x)) ->
  StronglySorted Z.lt (fold_left (fun l x => set_insert l (snd x)) now en) /\
  (forall c, In c (fold_left (fun l x => set_insert l (snd x)) now en) -> P c).
Proof.
  induction now as [|x now IH]; intros en Hs Hen Hnow; cbn [fold_left]; [split; assumption|].
  apply IH.
  - apply set_insert_sorted. exact Hs.
  - intros c Hc. destruct (set_insert_in _ _ _ Hc) as [->|Hc']; [apply Hnow; left; reflexivity|apply Hen; exact Hc'].
  - intros y Hy. apply Hnow. right. exact Hy.
Qed.

Lemma sweep_equiv s : Coh s -> forall fuel en later time dom,
  time <> PInf -> (forall x, In x later -> fst x <> PInf /\ in_range s (snd x)) ->
  StronglySorted Z.lt en -> (forall c, In c en -> in_range s c) ->
  (forall d, dom = Some d -> in_range s d) ->
  sweep true s fuel en later time dom = sweep false s fuel en later time dom.
Proof.
  intros C. induction fuel as [|fuel IH]; intros en later time dom Ht Hl Hs Hen Hd; [reflexivity|].
  rewrite !sweep_S. destruct dom as [d|].
  - destruct later as [|x0 l]; [reflexivity|]. cbv zeta. remember (x0 :: l) as L eqn:EL.
    assert (Hdr : in_range s d) by (apply Hd; reflexivity).
    assert (Hmin : In (later_min L) (map fst L)) by (rewrite EL; apply later_min_in).
    apply in_map_iff in Hmin. destruct Hmin as (y0 & Ey0 & Hy0).
    set (now := filter (fun x => fv_le (fst x) (later_min L)) L).
    assert (Hnow : forall x, In x now -> In x L) by (intros x Hx; apply filter_In in Hx; tauto).
    assert (E : forallb (fun x => negb (breaks true s d (snd x) (fst x))) now =
                forallb (fun x => negb (breaks false s d (snd x) (fst x))) now).
    { apply forallb_ext_in. intros y Hy. f_equal. destruct (Hl y (Hnow y Hy)) as [A B].
      apply breaks_iff; [exact A|]. rewrite (coh_dense s C) by assumption. apply (coh_sym s C); assumption. }
    rewrite E.
    destruct (fold_insert_ok (in_range s) now en Hs Hen) as [Hs' Hen'].
    { intros x Hx. apply Hl. apply Hnow. exact Hx. }
    apply IH.
    + rewrite <- Ey0. apply Hl. exact Hy0.
    + intros x Hx. apply filter_In in Hx. apply Hl. tauto.
    + exact Hs'.
    + exact Hen'.
    + intros d' Hd'. clear E.
      destruct (forallb (fun x => negb (breaks false s d (snd x) (fst x))) now); [|discriminate].
      inversion Hd'; subst. exact Hdr.
  - assert (E : find (fun c => is_dominated_by true s en c time) en = find (fun c => is_dominated_by false s en c time) en).
    { apply find_ext_in. intros c Hc. apply dominated_iff; [exact Ht|exact Hs|apply (coh_keys s C); apply Hen; exact Hc|].
      intros v Hv. apply (coh_dense s C); [apply Hen; exact Hv|apply Hen; exact Hc]. }
    rewrite E. destruct (find (fun c => is_dominated_by false s en c time) en) as [c|] eqn:F; [|reflexivity].
    apply IH; try assumption. intros d' Hd'. inversion Hd'; subst. apply find_some in F. apply Hen. tauto.
Qed.

Lemma cn_keys u v fe : forall nu nv, StronglySorted Z.lt (map fst nu) ->
  StronglySorted Z.lt (fst (common_neighbors u v fe nu nv)) /\
  (forall w, In w (fst (common_neighbors u v fe nu nv)) -> In w (map fst nu)) /\
  (forall x, In x (snd (common_neighbors u v fe nu nv)) -> In (snd x) (map fst nu)).
Proof.
  induction nu as [|[w fu] nu IHnu]; intros nv Hs; [rewrite cn_eq; cbn [fst snd]; split; [constructor|split; intros ? []]|].
  induction nv as [|[w' fw] nv IHnv]; [rewrite cn_eq; cbn [fst snd]; split; [constructor|split; intros ? []]|].
  rewrite cn_eq. cbn [map fst] in Hs. pose proof Hs as Hs0. apply StronglySorted_inv in Hs. destruct Hs as [Hs Hw].
  destruct (w <? w').
  { destruct (IHnu ((w', fw) :: nv) Hs) as (A & B & D). split; [exact A|]. split.
    - intros x Hx. right. apply B. exact Hx.
    - intros x Hx. right. apply D. exact Hx. }
  destruct (w' <? w); [apply IHnv|].
  destruct (IHnu nv Hs) as (A & B & D). destruct (common_neighbors u v fe nu nv) as [a b]. cbn [fst snd] in *.
  assert (Hlift : forall x, In x a -> In x (w :: map fst nu)) by (intros x Hx; right; apply B; exact Hx).
  assert (Hlift2 : forall x, In x b -> In (snd x) (w :: map fst nu)) by (intros x Hx; right; apply D; exact Hx).
  destruct (negb (w =? u) && negb (w =? v)); [|cbn [fst snd]; auto]. cbv zeta.
  destruct (fv_gt (fv_max fu fw) fe); cbn [fst snd].
  - split; [exact A|]. split; [exact Hlift|]. intros x [<-|Hx]; [left; reflexivity|apply Hlift2; exact Hx].
  - split.
    + constructor; [exact A|]. apply Forall_forall. intros x Hx. rewrite Forall_forall in Hw. apply Hw. apply B. exact Hx.
    + split; [|exact Hlift2]. intros x [<-|Hx]; [left; reflexivity|apply Hlift; exact Hx].
Qed.

Lemma process_edge_equiv V s u v t : Coh s -> tbl_ok V s -> in_range s u -> in_range s v ->
  process_edge true s (u, v, t) = process_edge false s (u, v, t).
Proof.
  intros C HV Hu Hv. unfold process_edge.
  pose proof (cn_later V u v (Fin t) (nb_get s u) (nb_get s v) (nb_get_ok V s u HV) (nb_get_ok V s v HV)) as Hl.
  destruct (coh_keys s C u Hu) as [Ksort Krange].
  destruct (cn_keys u v (Fin t) (nb_get s u) (nb_get s v) Ksort) as (A & B & D).
  destruct (common_neighbors u v (Fin t) (nb_get s u) (nb_get s v)) as [en later]. cbn [fst snd] in *.
  rewrite Forall_forall in Hl, Krange.
  rewrite (sweep_equiv s C); [reflexivity|discriminate| | exact A| |discriminate].
  - intros x Hx. split.
    + destruct (Hl x Hx) as [_ [E|(z & _ & E)]]; rewrite E; discriminate.
    + apply Krange. apply D. exact Hx.
  - intros c Hc. apply Krange. apply B. exact Hc.
Qed.

Lemma process_edge_coh dense s u v t s' o : Coh s -> in_range s u -> in_range s v -> u <> v ->
  process_edge dense s (u, v, t) = Some (s', o) -> Coh s' /\ nvert s' = nvert s.
Proof.
  intros C Hu Hv Huv H. unfold process_edge in H.
  destruct (common_neighbors u v (Fin t) (nb_get s u) (nb_get s v)) as [en later].
  destruct (sweep dense s (2 * length later + 2) en later (Fin t) None) as [|t'|]; [| |discriminate].
  - inversion H; subst. split; [apply remove_coh; assumption|reflexivity].
  - destruct (negb (fv_eqb (Fin t) t')); inversion H; subst; [|split; [exact C|reflexivity]].
    split; [apply delay_coh; assumption|reflexivity].
Qed.

Lemma process_loop_equiv V : forall es s, Coh s -> tbl_ok V s -> incl (map snd es) V ->
  (forall u v t, In (u, v, t) es -> in_range s u /\ in_range s v /\ u <> v) ->
  process_loop true s es = process_loop false s es.
Proof.
  induction es as [|[[u v] t] es IH]; intros s C HV Hin Hr; [reflexivity|]. cbn [process_loop].
  destruct (Hr u v t (or_introl eq_refl)) as (Hu & Hv & Huv).
  rewrite (process_edge_equiv V s u v t C HV Hu Hv).
  destruct (process_edge false s (u, v, t)) as [[s' o]|] eqn:E; [|reflexivity].
  destruct (process_edge_coh false s u v t s' o C Hu Hv Huv E) as [C' Hn].
  apply process_edge_spec with (V := V) in E; [|exact HV|apply Hin; left; reflexivity]. destruct E as [HV' _].
  rewrite (IH s' C' HV'); [reflexivity| |].
  - intros z Hz. apply Hin. right. exact Hz.
  - intros u0 v0 t0 H0. unfold in_range. rewrite Hn. apply (Hr u0 v0 t0). right. exact H0.
Qed.

(* ------------------------------------------------------------------ read_edges builds a coherent state *)
Lemma fold_max_ge (es : list edge) : forall a,
  a <= fold_left (fun m e => let '(u, v, _) := e in Z.max m (Z.max u v)) es a /\
  forall u v t, In (u, v, t) es -> Z.max u v <= fold_left (fun m e => let '(u, v, _) := e in Z.max m (Z.max u v)) es a.
Proof.
  induction es as [|[[u0 v0] t0] es IH]; intros a; cbn [fold_left]; [split; [lia|intros ? ? ? []]|].
  destruct (IH (Z.max a (Z.max u0 v0))) as [H1 H2]. split; [lia|].
  intros u v t [E|Hin]; [inversion E; subst; lia|apply (H2 u v t Hin)].
Qed.
Lemma num_vertices_pos es : 0 < num_vertices es.
Proof. unfold num_vertices. pose proof (proj1 (fold_max_ge es 0)). lia. Qed.
Lemma num_vertices_bound es u v t : In (u, v, t) es -> u < num_vertices es /\ v < num_vertices es.
Proof. intros H. unfold num_vertices. pose proof (proj2 (fold_max_ge es 0) u v t H). lia. Qed.

Lemma key_sym a b : key a b = key b a.
Proof. unfold key. rewrite Z.min_comm, Z.max_comm. reflexivity. Qed.
Lemma key_diag u v i : key u v = (i, i) -> u = v.
Proof. unfold key. intros H. inversion H. lia. Qed.

Lemma nb_get_init n j : nb_get (mkState (repeat [] (Z.to_nat n)) (fun _ => PInf) n) j = [].
Proof.
  unfold nb_get. cbn [nbs].
  destruct (nth_in_or_default (Z.to_nat j) (repeat (@nil (Z * fv)) (Z.to_nat n)) []) as [H|H]; [|exact H].
  apply repeat_spec in H. exact H.
Qed.
Lemma coh_init n : 0 < n -> Coh (mkState (repeat [] (Z.to_nat n)) (fun _ => PInf) n).
Proof.
  intros Hn. pose proof (nb_get_init n) as G.
  constructor; cbn [nbs nvert].
  - apply repeat_length.
  - intros j _. rewrite G. split; constructor.
  - intros i j _ _. rewrite G. reflexivity.
  - intros i j _ _. rewrite !G. reflexivity.
Qed.

(* look-ups present in the tables come from edges already read *)
Definition from_seen (seen : list edge) (s : state) : Prop :=
  forall i j, in_range s i -> in_range s j -> fm_find (nb_get s j) i <> None -> In (key i j) (map ekey seen).

Lemma read_edge_coh seen s u v f :
  Coh s -> from_seen seen s -> in_range s u -> in_range s v -> u <> v -> ~ In (key u v) (map ekey seen) ->
  Coh (read_edge s (u, v, f)) /\ from_seen (seen ++ [(u, v, f)]) (read_edge s (u, v, f)).
Proof.
  intros C F Hu Hv Huv Hnew.
  assert (N1 : fm_find (nb_get s u) v = None).
  { destruct (fm_find (nb_get s u) v) eqn:E; [|reflexivity]. exfalso. apply Hnew. rewrite key_sym. apply F; [exact Hv|exact Hu|congruence]. }
  assert (N2 : fm_find (nb_get s v) u = None).
  { destruct (fm_find (nb_get s v) u) eqn:E; [|reflexivity]. exfalso. apply Hnew. apply F; [exact Hu|exact Hv|congruence]. }
  change (read_edge s (u, v, f)) with (pair_op s u v (fun l => fm_add l v (Fin f)) (fun l => fm_add l u (Fin f)) (Fin f)).
  split.
  - apply pair_op_coh; try assumption.
    + apply keys_ok_fm_add; [apply (coh_keys s C); exact Hu|exact Hv].
    + apply keys_ok_fm_add; [apply (coh_keys s C); exact Hv|exact Hu].
    + intros k. apply lookup_fm_add. exact N1.
    + intros k. apply lookup_fm_add. exact N2.
  - intros i j Hi Hj. change (in_range s i) in Hi. change (in_range s j) in Hj.
    rewrite nb_get_pair_op by (try assumption; unfold in_range in Hj; lia).
    rewrite map_app, in_app_iff. cbn [map ekey fst snd In].
    destruct (Z.eqb_spec j v) as [->|Njv].
    + rewrite find_fm_add by exact N2. destruct (Z.eqb_spec i u) as [->|Niu]; [intros _; right; left; reflexivity|].
      intros H. left. apply F; assumption.
    + destruct (Z.eqb_spec j u) as [->|Nju].
      * rewrite find_fm_add by exact N1. destruct (Z.eqb_spec i v) as [->|Niv]; [intros _; right; left; apply key_sym|].
        intros H. left. apply F; assumption.
      * intros H. left. apply F; assumption.
Qed.

Lemma read_edges_fold_coh : forall es seen s,
  Coh s -> from_seen seen s -> NoDup (map ekey (seen ++ es)) ->
  (forall u v t, In (u, v, t) es -> in_range s u /\ in_range s v /\ u <> v) ->
  Coh (fold_left read_edge es s) /\ from_seen (seen ++ es) (fold_left read_edge es s) /\
  nvert (fold_left read_edge es s) = nvert s.
Proof.
  induction es as [|[[u v] f] es IH]; intros seen s C F Hn Hr; cbn [fold_left].
  - rewrite app_nil_r. auto.
  - destruct (Hr u v f (or_introl eq_refl)) as (Hu & Hv & Huv).
    assert (Hnew : ~ In (key u v) (map ekey seen)).
    { rewrite map_app in Hn. cbn [map] in Hn. apply NoDup_remove_2 in Hn. intros H. apply Hn. apply in_or_app. left. exact H. }
    destruct (read_edge_coh seen s u v f C F Hu Hv Huv Hnew) as [C' F'].
    assert (Hnv : nvert (read_edge s (u, v, f)) = nvert s) by reflexivity.
    destruct (IH (seen ++ [(u, v, f)]) (read_edge s (u, v, f)) C' F') as (A & B & D).
    + rewrite <- app_assoc. exact Hn.
    + intros u0 v0 t0 H0. unfold in_range. rewrite Hnv. apply (Hr u0 v0 t0). right. exact H0.
    + rewrite <- app_assoc in B. cbn [app] in B. split; [exact A|]. split; [exact B|]. rewrite D. exact Hnv.
Qed.

Lemma read_self_coh s i : Coh s -> in_range s i -> fm_find (nb_get s i) i = None ->
  Coh (read_self s i) /\ nvert (read_self s i) = nvert s /\
  (forall j, 0 <= j -> j <> i -> nb_get (read_self s i) j = nb_get s j).
Proof.
  intros C Hi N. pose proof (coh_len s C) as Hl. unfold in_range in Hi.
  assert (G : forall j, 0 <= j -> nb_get (read_self s i) j = if j =? i then fm_add (nb_get s i) i MInf else nb_get s j).
  { intros j Hj. change (nb_get (read_self s i) j) with (nb_get (nb_upd s i (fun l => fm_add l i MInf)) j).
    apply nb_get_upd; lia. }
  assert (HD : forall a b, in_range s a -> in_range s b ->
     dense_get (read_self s i) a b = if (a =? i) && (b =? i) then MInf else dense_get s a b).
  { intros a b Ha Hb. unfold read_self. rewrite dense_get_set by assumption. reflexivity. }
  split; [|split; [reflexivity|]].
  - constructor.
    + cbn [read_self dense_set nb_upd nbs nvert]. rewrite upd_length. exact Hl.
    + intros j Hj. change (in_range s j) in Hj. change (nvert (read_self s i)) with (nvert s).
      rewrite G by (unfold in_range in Hj; lia). destruct (j =? i).
      * apply keys_ok_fm_add; [apply (coh_keys s C); exact Hi|exact Hi].
      * apply (coh_keys s C). exact Hj.
    + intros a b Ha Hb. change (in_range s a) in Ha. change (in_range s b) in Hb. rewrite HD by assumption.
      rewrite G by (unfold in_range in Hb; lia). destruct (Z.eqb_spec b i) as [->|Nb].
      * rewrite lookup_fm_add by exact N. destruct (a =? i); cbn [andb]; [reflexivity|apply (coh_dense s C); assumption].
      * rewrite andb_false_r. apply (coh_dense s C); assumption.
    + intros a b Ha Hb. change (in_range s a) in Ha. change (in_range s b) in Hb.
      rewrite !G by (unfold in_range in *; lia).
      destruct (Z.eqb_spec b i) as [->|Nb]; destruct (Z.eqb_spec a i) as [->|Na]; try reflexivity.
      * rewrite lookup_fm_add by exact N. destruct (Z.eqb_spec a i); [congruence|]. apply (coh_sym s C); assumption.
      * rewrite lookup_fm_add by exact N. destruct (Z.eqb_spec b i); [congruence|]. apply (coh_sym s C); assumption.
      * apply (coh_sym s C); assumption.
  - intros j Hj Hji. rewrite G by exact Hj. destruct (Z.eqb_spec j i); [congruence|reflexivity].
Qed.

Lemma read_selfs_coh : forall todo s, Coh s -> NoDup todo ->
  (forall i, In i todo -> in_range s i /\ fm_find (nb_get s i) i = None) ->
  Coh (fold_left read_self todo s) /\ nvert (fold_left read_self todo s) = nvert s.
Proof.
  induction todo as [|i todo IH]; intros s C Hn Ht; cbn [fold_left]; [auto|].
  destruct (Ht i (or_introl eq_refl)) as [Hi Ni].
  destruct (read_self_coh s i C Hi Ni) as (C' & Hnv & Hoth).
  apply NoDup_cons_iff in Hn. destruct Hn as [Hni Hn].
  destruct (IH (read_self s i) C' Hn) as [A B].
  - intros j Hj. destruct (Ht j (or_intror Hj)) as [Hjr Nj]. split; [unfold in_range; rewrite Hnv; exact Hjr|].
    rewrite Hoth; [exact Nj|unfold in_range in Hjr; lia|intros ->; contradiction].
  - split; [exact A|]. rewrite B. exact Hnv.
Qed.

Definition simple_graph (es : list edge) : Prop :=
  NoDup (map ekey es) /\ forall u v t, In (u, v, t) es -> 0 <= u /\ 0 <= v /\ u <> v.

Lemma read_edges_coh es : simple_graph es -> Coh (read_edges es) /\ nvert (read_edges es) = num_vertices es.
Proof.
  intros [Hnd Hsimple]. unfold read_edges.
  pose proof (num_vertices_pos es) as Hpos.
  set (n := num_vertices es) in *. set (s0 := mkState (repeat [] (Z.to_nat n)) (fun _ => PInf) n).
  assert (C0 : Coh s0) by (apply coh_init; exact Hpos).
  assert (F0 : from_seen [] s0).
  { intros i j _ _ H. exfalso. apply H. unfold s0. rewrite nb_get_init. reflexivity. }
  destruct (read_edges_fold_coh es [] s0 C0 F0 Hnd) as (C1 & F1 & N1).
  { intros u v t H. destruct (Hsimple u v t H) as (A & B & D). destruct (num_vertices_bound es u v t H) as [E1 E2].
    unfold in_range, s0. cbn [nvert]. fold n in E1, E2. lia. }
  cbn [app] in F1. change (nvert s0) with n in N1.
  destruct (read_selfs_coh (map Z.of_nat (seq 0 (Z.to_nat n))) (fold_left read_edge es s0) C1) as [A B].
  - apply FinFun.Injective_map_NoDup; [intros a b H; lia|apply seq_NoDup].
  - intros i Hi. apply in_map_iff in Hi. destruct Hi as (k & <- & Hk). apply in_seq in Hk.
    assert (Hr : in_range (fold_left read_edge es s0) (Z.of_nat k)) by (unfold in_range; rewrite N1; lia).
    split; [exact Hr|].
    destruct (fm_find (nb_get (fold_left read_edge es s0) (Z.of_nat k)) (Z.of_nat k)) eqn:E; [|reflexivity]. exfalso.
    assert (Hin : In (key (Z.of_nat k) (Z.of_nat k)) (map ekey es)) by (apply F1; [exact Hr|exact Hr|congruence]).
    apply in_map_iff in Hin. destruct Hin as ([[u v] t] & Ek & He). unfold ekey in Ek. cbn [fst snd] in Ek.
    apply key_diag in Ek. destruct (Hsimple u v t He) as (_ & _ & D). contradiction.
  - split; [exact A|]. rewrite B. exact N1.
Qed.

(* ------------------------------------------------------------------ the theorem *)
Theorem tables_agree es : simple_graph es -> process_edges true es = process_edges false es.
Proof.
  intros Hs. destruct (read_edges_coh es Hs) as [C Hn]. destruct Hs as [Hnd Hsimple]. unfold process_edges.
  apply process_loop_equiv with (V := map snd es).
  - exact C.
  - apply read_edges_ok. apply incl_refl.
  - apply incl_refl.
  - intros u v t H. destruct (Hsimple u v t H) as (A & B & D). destruct (num_vertices_bound es u v t H) as [E1 E2].
    unfold in_range. rewrite Hn. lia.
Qed.

Lemma simple_graph_perm es es' : Permutation es es' -> simple_graph es -> simple_graph es'.
Proof.
  intros P [Hnd Hs]. split.
  - apply Permutation_NoDup with (map ekey es); [apply Permutation_map; exact P|exact Hnd].
  - intros u v t H. apply (Hs u v t). apply Permutation_in with es'; [apply Permutation_sym; exact P|exact H].
Qed.

Theorem tables_agree_entry_point es : simple_graph es ->
  flag_complex_collapse_edges true es = flag_complex_collapse_edges false es.
Proof.
  intros Hs. unfold flag_complex_collapse_edges. destruct es as [|e es]; [reflexivity|].
  apply tables_agree. apply simple_graph_perm with (e :: es); [apply sort_desc_perm|exact Hs].
Qed.

Theorem tables_agree' es :
  NoDup (map ekey es) -> (forall u v t, In (u, v, t) es -> 0 <= u /\ 0 <= v /\ u <> v) ->
  process_edges true es = process_edges false es.
Proof. intros H1 H2. apply tables_agree. split; assumption. Qed.
Theorem tables_agree_entry_point' es :
  NoDup (map ekey es) -> (forall u v t, In (u, v, t) es -> 0 <= u /\ 0 <= v /\ u <> v) ->
  flag_complex_collapse_edges true es = flag_complex_collapse_edges false es.
Proof. intros H1 H2. apply tables_agree_entry_point. split; assumption. Qed.

(* ------------------------------------------------------------------ what common_neighbors and is_dominated_by compute *)
(* w is a common neighbour of u and v (other than u, v) and f is the time from which both edges uw, vw are present *)
Definition cn_member (u v : Z) (nu nv : ngb) (w : Z) (f : fv) : Prop :=
  exists fu fw, fm_find nu w = Some fu /\ fm_find nv w = Some fw /\ w <> u /\ w <> v /\ f = fv_max fu fw.

Lemma fm_find_some_in l k f : fm_find l k = Some f -> In k (map fst l).
Proof.
  induction l as [|[k0 f0] l IH]; cbn [fm_find map fst]; [discriminate|].
  destruct (Z.eqb_spec k k0) as [->|]; [intros _; left; reflexivity|intros H; right; apply IH; exact H].
Qed.

Lemma cnm_skip_l u v w0 fu nu' nv w f : Forall (Z.lt w0) (map fst nu') -> fm_find nv w0 = None ->
  (cn_member u v ((w0, fu) :: nu') nv w f <-> cn_member u v nu' nv w f).
Proof.
  intros Hgt Hn. unfold cn_member. cbn [fm_find]. split; intros (a & b & H1 & H2 & R).
  - destruct (Z.eqb_spec w w0) as [->|]; [rewrite Hn in H2; discriminate|exists a, b; auto].
  - exists a, b. split; [|auto]. destruct (Z.eqb_spec w w0) as [->|]; [|exact H1].
    apply fm_find_some_in in H1. rewrite Forall_forall in Hgt. specialize (Hgt _ H1). lia.
Qed.
Lemma cnm_skip_r u v w0 fw nu nv' w f : Forall (Z.lt w0) (map fst nv') -> fm_find nu w0 = None ->
  (cn_member u v nu ((w0, fw) :: nv') w f <-> cn_member u v nu nv' w f).
Proof.
  intros Hgt Hn. unfold cn_member. cbn [fm_find]. split; intros (a & b & H1 & H2 & R).
  - destruct (Z.eqb_spec w w0) as [->|]; [rewrite Hn in H1; discriminate|exists a, b; auto].
  - exists a, b. split; [exact H1|]. split; [|auto]. destruct (Z.eqb_spec w w0) as [->|]; [|exact H2].
    apply fm_find_some_in in H2. rewrite Forall_forall in Hgt. specialize (Hgt _ H2). lia.
Qed.
Lemma cnm_both u v w0 fu fw nu' nv' w f : Forall (Z.lt w0) (map fst nu') -> Forall (Z.lt w0) (map fst nv') ->
  (cn_member u v ((w0, fu) :: nu') ((w0, fw) :: nv') w f <->
   (w = w0 /\ w0 <> u /\ w0 <> v /\ f = fv_max fu fw) \/ cn_member u v nu' nv' w f).
Proof.
  intros G1 G2. unfold cn_member. cbn [fm_find]. split.
  - intros (a & b & H1 & H2 & R). destruct (Z.eqb_spec w w0) as [->|].
    + left. inversion H1; inversion H2; subst. tauto.
    + right. exists a, b. auto.
  - intros [(-> & A & B & D)|(a & b & H1 & H2 & R)].
    + rewrite Z.eqb_refl. exists fu, fw. auto.
    + exists a, b. destruct (Z.eqb_spec w w0) as [->|]; [|auto].
      apply fm_find_some_in in H1. rewrite Forall_forall in G1. specialize (G1 _ H1). lia.
Qed.

(* e_ngb = the common neighbours present at time f_event; e_ngb_later = the others, with the time they appear *)
Theorem common_neighbors_spec u v fe : forall nu nv,
  StronglySorted Z.lt (map fst nu) -> StronglySorted Z.lt (map fst nv) ->
  forall w,
    (In w (fst (common_neighbors u v fe nu nv)) <-> exists f, cn_member u v nu nv w f /\ fv_gt f fe = false) /\
    (forall f, In (f, w) (snd (common_neighbors u v fe nu nv)) <-> cn_member u v nu nv w f /\ fv_gt f fe = true).
Proof.
  assert (Hnil_l : forall nv w f, ~ cn_member u v [] nv w f) by (intros nv w f (a & b & H & _); discriminate).
  assert (Hnil_r : forall nu w f, ~ cn_member u v nu [] w f) by (intros nu w f (a & b & _ & H & _); discriminate).
  induction nu as [|[w0 fu] nu IHnu]; intros nv Hsu Hsv w.
  { rewrite cn_eq. cbn [fst snd]. split; [|intros f]; (split; [intros []|]).
    - intros (f & H & _). exact (Hnil_l _ _ _ H).
    - intros [H _]. exact (Hnil_l _ _ _ H). }
  induction nv as [|[w0' fw] nv IHnv].
  { rewrite cn_eq. cbn [fst snd]. split; [|intros f]; (split; [intros []|]).
    - intros (f & H & _). exact (Hnil_r _ _ _ H).
    - intros [H _]. exact (Hnil_r _ _ _ H). }
  rewrite cn_eq. cbn [map fst] in Hsu, Hsv.
  pose proof Hsu as Hsu0. pose proof Hsv as Hsv0.
  apply StronglySorted_inv in Hsu. destruct Hsu as [Hsu Gu].
  apply StronglySorted_inv in Hsv. destruct Hsv as [Hsv Gv].
  destruct (w0 <? w0') eqn:E1.
  { assert (Hn : fm_find ((w0', fw) :: nv) w0 = None).
    { apply fm_find_above with w0; [|lia]. cbn [map fst]. constructor; [lia|]. eapply Forall_impl; [|exact Gv]. cbn. intros; lia. }
    destruct (IHnu ((w0', fw) :: nv) Hsu Hsv0 w) as [A B]. split.
    - rewrite A. split; intros (f & H & R); exists f; (split; [|exact R]); apply (cnm_skip_l u v w0 fu nu _ w f Gu Hn); exact H.
    - intros f. rewrite (B f). rewrite (cnm_skip_l u v w0 fu nu _ w f Gu Hn). tauto. }
  destruct (w0' <? w0) eqn:E2.
  { assert (Hn : fm_find ((w0, fu) :: nu) w0' = None).
    { apply fm_find_above with w0'; [|lia]. cbn [map fst]. constructor; [lia|]. eapply Forall_impl; [|exact Gu]. cbn. intros; lia. }
    destruct (IHnv Hsv) as [A B]. split.
    - rewrite A. split; intros (f & H & R); exists f; (split; [|exact R]); apply (cnm_skip_r u v w0' fw _ nv w f Gv Hn); exact H.
    - intros f. rewrite (B f). rewrite (cnm_skip_r u v w0' fw _ nv w f Gv Hn). tauto. }
  assert (w0' = w0) by lia. subst w0'. clear IHnv.
  destruct (IHnu nv Hsu Hsv w) as [A B]. destruct (common_neighbors u v fe nu nv) as [a b]. cbn [fst snd] in A, B.
  assert (HB : forall f, cn_member u v ((w0, fu) :: nu) ((w0, fw) :: nv) w f <->
                         (w = w0 /\ w0 <> u /\ w0 <> v /\ f = fv_max fu fw) \/ cn_member u v nu nv w f)
    by (intros f; apply cnm_both; assumption).
  destruct (Z.eqb_spec w0 u) as [Eu|Nu]; [|destruct (Z.eqb_spec w0 v) as [Ev|Nv]]; cbn [negb andb].
  - cbn [fst snd]. split.
    + rewrite A. split; intros (f & H & R); exists f; (split; [|exact R]); [apply HB; right; exact H|].
      apply HB in H. destruct H as [(_ & H & _)|H]; [congruence|exact H].
    + intros f. rewrite (B f), (HB f). split; [tauto|]. intros [[(_ & H & _)|H] R]; [congruence|tauto].
  - cbn [fst snd]. split.
    + rewrite A. split; intros (f & H & R); exists f; (split; [|exact R]); [apply HB; right; exact H|].
      apply HB in H. destruct H as [(_ & _ & H & _)|H]; [congruence|exact H].
    + intros f. rewrite (B f), (HB f). split; [tauto|]. intros [[(_ & _ & H & _)|H] R]; [congruence|tauto].
  - cbv zeta. destruct (fv_gt (fv_max fu fw) fe) eqn:G; cbn [fst snd].
    + split.
      * rewrite A. split; intros (f & H & R); exists f; (split; [|exact R]); [apply HB; right; exact H|].
        apply HB in H. destruct H as [(_ & _ & _ & ->)|H]; [congruence|exact H].
      * intros f. rewrite (HB f). cbn [In]. rewrite (B f). split.
        -- intros [H|H]; [inversion H; subst; split; [left; auto|exact G]|tauto].
        -- intros [[(-> & _ & _ & ->)|H] R]; [left; reflexivity|right; tauto].
    + split.
      * cbn [In]. rewrite A. split.
        -- intros [<-|(f & H & R)]; [exists (fv_max fu fw); split; [apply HB; left; auto|exact G]|].
           exists f. split; [apply HB; right; exact H|exact R].
        -- intros (f & H & R). apply HB in H. destruct H as [(-> & _)|H]; [left; reflexivity|right; exists f; tauto].
      * intros f. rewrite (B f), (HB f). split; [tauto|].
        intros [[(_ & _ & _ & ->)|H] R]; [congruence|tauto].
Qed.

(* is_dominated_by (default body) on sorted data = "every vertex of e_ngb is in the closed neighbourhood of c at time f" *)
Theorem is_dominated_by_spec s en c f :
  f <> PInf -> StronglySorted Z.lt en -> StronglySorted Z.lt (map fst (nb_get s c)) ->
  (is_dominated_by false s en c f = true <-> forall w, In w en -> fv_le (lookup_inf (nb_get s c) w) f = true).
Proof.
  intros Hf Hen Hnc. unfold is_dominated_by. rewrite dom_sparse_spec by assumption. rewrite forallb_forall.
  split; intros H w Hw; specialize (H w Hw); unfold dom_ok, lookup_inf, fv_le, fv_gt in *;
    destruct (fm_find (nb_get s c) w); try exact H; destruct f; cbn in *; congruence.
Qed.
