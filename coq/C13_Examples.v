(* C13 - tests by computation inside Coq (NOT theorems about all inputs): Betti numbers of small periodic grids obtained
   from the model's filtration, its signed boundary matrix and the certified reduction of ReduceExec.v. *)
From Coq Require Import ZArith List Bool.
Require Import ReduceExec C13_Model.
Import ListNotations.
Local Open Scope Z_scope.
(* dimensions of the essential classes (sorted by construction order) of the complex built from top-cell values *)
Definition essential_dims (p : Z) (cls : bool) (dims : shape) (vals : list ext) : option (list Z) :=
  match a_build cls dims true vals with
  | None => None
  | Some (sh, data) =>
    let order := a_filtration cls sh data in
    match a_pairs p order (a_bd cls sh) with
    | None => None
    | Some prs => Some (map (fun bd => a_dim cls sh (nth (fst bd) order 0))
                            (filter (fun bd => match snd bd with None => true | Some _ => false end) prs))
    end
  end.
Definition count (d : Z) (l : list Z) : nat := length (filter (Z.eqb d) l).
Definition betti (p : Z) (cls : bool) (dims : shape) (vals : list ext) : option (list nat) :=
  match essential_dims p cls dims vals with
  | None => None
  | Some l => Some (map (fun d => count d l) (zrange 0 (Z.of_nat (length dims) + 1)))
  end.
Definition ramp (n : nat) : list ext := map (fun i => Fin (Z.of_nat i mod 4)) (seq 0 n).
Example torus_3x3_Z2 : betti 2 true [(3,true);(3,true)] (ramp 9) = Some [1;2;1]%nat.
Proof. vm_compute. reflexivity. Qed.
Example torus_3x3_Z3 : betti 3 true [(3,true);(3,true)] (ramp 9) = Some [1;2;1]%nat.
Proof. vm_compute. reflexivity. Qed.
Example cylinder_3x2_Z11 : betti 11 true [(3,true);(2,false)] (ramp 6) = Some [1;1;0]%nat.
Proof. vm_compute. reflexivity. Qed.
Example torus3_2x2x2_Z3 : betti 3 true [(2,true);(2,true);(2,true)] (ramp 8) = Some [1;3;3;1]%nat.
Proof. vm_compute. reflexivity. Qed.
Example disc_2x2_Z2 : betti 2 false [(2,false);(2,false)] (ramp 4) = Some [1;0;0]%nat.
Proof. vm_compute. reflexivity. Qed.
