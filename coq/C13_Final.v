(* C13 — final value / ordering theorems of the cubical complexes: the constructors of Bitmap_cubical_complex_base and
   of the periodic class give every cell the minimum of the top cells containing it (input = top cells) or the
   maximum of its vertices (input = vertices), and the sorted filtration lists faces before cofaces. *)
From Coq Require Import ZArith List Bool Lia ZifyBool.
Require Import C13_Model C13_Spec C13_Refine C13_Star C13_Order C13_Iter C13_Geo C13_Vert C13_Proofs.
Import ListNotations.
Local Open Scope Z_scope.

(* ================================================================ statements *)
Definition lower_star_min_statement : Prop :=
  forall cls dims vals, C13_Proofs.wf_shape dims -> Z.of_nat (length vals) = prod_sizes (map fst dims) ->
  exists data, a_build cls dims true vals = Some (dims, data) /\ length data = Z.to_nat (a_size cls dims) /\
    forall c, s_valid (hshape cls dims) c ->
      getd data (s_index (hshape cls dims) c) = s_value_top (hshape cls dims) vals c.

Definition vshape_per (dims : shape) : shape := map (fun d : dirn => (fst d - (if snd d then 0 else 1), snd d)) dims.
Definition upper_star_max_periodic_statement : Prop :=
  forall dims vals, C13_Proofs.wf_shape (vshape_per dims) ->
  Z.of_nat (length vals) = prod_sizes (map nvert (hshape true (vshape_per dims))) ->
  exists data, a_build true dims false vals = Some (vshape_per dims, data) /\
    forall c, s_valid (hshape true (vshape_per dims)) c ->
      getd data (s_index (hshape true (vshape_per dims)) c) = s_value_vert (hshape true (vshape_per dims)) vals c.

Definition vshape_plain (dims : shape) : shape := map (fun d : dirn => (fst d - 1, snd d)) dims.
Definition upper_star_max_plain_statement : Prop :=
  forall dims vals, C13_Proofs.wf_shape (vshape_plain dims) ->
  Z.of_nat (length vals) = prod_sizes (map nvert (hshape false (vshape_plain dims))) ->
  exists data, a_build false dims false vals = Some (vshape_plain dims, data) /\
    forall c, s_valid (hshape false (vshape_plain dims)) c ->
      getd data (s_index (hshape false (vshape_plain dims)) c) = s_value_vert (hshape false (vshape_plain dims)) vals c.

Definition monotone (cls : bool) (sh : shape) (data : list ext) : Prop :=
  forall i f, 0 <= i < a_size cls sh -> In f (a_bd cls sh i) -> ext_ltb (getd data i) (getd data f) = false.
Definition filtration_faces_first_statement : Prop :=
  forall cls sh data i f, C13_Proofs.wf_shape sh -> monotone cls sh data -> 0 <= i < a_size cls sh ->
  In f (a_bd cls sh i) ->
  exists l1 l2 l3, a_filtration cls sh data = l1 ++ f :: l2 ++ i :: l3.

(* ================================================================ K1 : faces first *)
Theorem filtration_faces_first : filtration_faces_first_statement.
Proof.
  intros cls sh data i f Hwf Hmon Hi Hf.
  destruct (boundary_in_range_dim cls sh i f Hwf Hi Hf) as [Hfr Hfd].
  apply a_filtration_faces_first.
  - apply In_zrange. lia.
  - apply In_zrange. lia.
  - exact (Hmon i f Hi Hf).
  - lia.
Qed.

(* ================================================================ initial data *)
Lemma nth_repeat_same : forall (a : ext) m k, nth k (repeat a m) a = a.
Proof. induction m as [|m IH]; intros [|k]; cbn; auto. Qed.

Lemma getd_repeat_PInf : forall m i, getd (repeat PInf m) i = PInf.
Proof. intros m i. unfold getd. destruct (i <? 0); [reflexivity|apply nth_repeat_same]. Qed.

Lemma getd_repeat_in : forall a m i, 0 <= i < Z.of_nat m -> getd (repeat a m) i = a.
Proof.
  intros a m i Hi. unfold getd. destruct (Z.ltb_spec i 0); [lia|].
  apply C13_Star.nth_repeat_lt. lia.
Qed.

(* assign_get without the equality of the lengths: the rank only has to be inside the value vector *)
Lemma assign_get_lt : forall l vals data k t, NoDup l -> (forall t, In t l -> 0 <= t < Z.of_nat (length data)) ->
  (k < length vals)%nat -> nth_error l k = Some t -> getd (assign data l vals) t = nth k vals PInf.
Proof.
  induction l as [|c cs IH]; intros vals data k t Hnd Hr Hlen Hk.
  - destruct k; discriminate.
  - destruct vals as [|v vs]; [cbn in Hlen; lia|]. cbn [assign]. inversion Hnd as [|? ? Hnin Hnd']; subst.
    destruct k as [|k]; cbn in Hk.
    + injection Hk as ->. rewrite assign_other by assumption. cbn [nth].
      apply C13_Iter.getd_upd_same. apply Hr. left; reflexivity.
    + cbn [nth]. apply IH; try assumption.
      * intros t' Ht'. rewrite C13_Iter.upd_length. apply Hr. right; assumption.
      * cbn in Hlen. lia.
Qed.

Lemma nthv_nth : forall vals r, 0 <= r -> nthv vals r = nth (Z.to_nat r) vals PInf.
Proof. intros vals r Hr. unfold nthv. destruct (Z.ltb_spec r 0); [lia|reflexivity]. Qed.

(* the value stored for a vertex by the initial assignment *)
Lemma init_vertex_value : forall cls sh l vals v,
  C13_Proofs.wf_shape sh -> NoDup l ->
  (forall t, In t l <-> (0 <= t < a_size cls sh /\ a_dim cls sh t = 0)) ->
  (forall c, s_valid (hshape cls sh) c -> C13_Iter.all_even c ->
     nth_error l (Z.to_nat (s_rank_vert (hshape cls sh) c)) = Some (s_index (hshape cls sh) c)) ->
  Z.of_nat (length vals) = prod_sizes (map nvert (hshape cls sh)) ->
  s_valid (hshape cls sh) v -> C13_Iter.all_even v ->
  getd (assign (repeat MInf (Z.to_nat (a_size cls sh))) l vals) (s_index (hshape cls sh) v)
  = nthv vals (s_rank_vert (hshape cls sh) v).
Proof.
  intros cls sh l vals v Hwf Hnd Hin Hnth Hlen Hv He.
  pose proof (hs_ok cls sh Hwf) as Hok.
  pose proof (rank_vert_range (hshape cls sh) v Hok Hv He) as Hr.
  rewrite (nthv_nth vals _ (proj1 Hr)).
  apply assign_get_lt.
  - exact Hnd.
  - intros t Ht. apply Hin in Ht. rewrite repeat_length. lia.
  - lia.
  - apply Hnth; assumption.
Qed.

(* ================================================================ K4 : plain class, input = vertices *)
Lemma wf_nonneg : forall sh, C13_Proofs.wf_shape sh -> Forall (fun d : dirn => 0 <= fst d) sh.
Proof. intros sh [_ H]. eapply Forall_impl; [|exact H]. cbn. intros; lia. Qed.

Theorem upper_star_max_plain : upper_star_max_plain_statement.
Proof.
  intros dims vals Hwf Hlen.
  set (sh := vshape_plain dims) in *.
  exists (a_from_vertices_base sh (assign (repeat MInf (Z.to_nat (a_size false sh))) (a_vertices_base sh) vals)).
  split; [reflexivity|].
  intros c Hc.
  pose proof (hs_ok false sh Hwf) as Hok.
  destruct (vertices_base_enum sh Hwf) as (Hnd & Hin & Hnth).
  rewrite from_vertices_base_max.
  - unfold s_value_vert. f_equal. apply map_ext_in. intros v Hv.
    destruct (verts_valid _ _ _ Hok Hc Hv) as [Hvv Hve].
    apply (init_vertex_value false sh); assumption.
  - exact (proj1 Hwf).
  - apply wf_nonneg; exact Hwf.
  - rewrite assign_length, repeat_length. reflexivity.
  - exact Hc.
Qed.

(* ================================================================ reachability: indices <-> coordinates *)
Lemma below_trans : forall nbf x y z, below nbf x y -> below nbf y z -> below nbf x z.
Proof.
  intros nbf x y z H. induction H as [t|b i t Hb Hi IH]; intros Hz; [exact Hz|].
  eapply below_step; [exact Hb|]. apply IH. exact Hz.
Qed.

Lemma below_bd_sbelow : forall cls sh x y, C13_Proofs.wf_shape sh -> below (a_bd cls sh) x y ->
  0 <= y < a_size cls sh ->
  0 <= x < a_size cls sh /\ sbelow (hshape cls sh) (s_counter (hshape cls sh) x) (s_counter (hshape cls sh) y).
Proof.
  intros cls sh x y Hwf H. pose proof (hs_ok cls sh Hwf) as Hok. pose proof Hwf as [Hne _].
  induction H as [t|b i t Hb Hi IH]; intros Ht.
  - split; [exact Ht|apply sbelow_refl].
  - destruct (IH Ht) as [Hir Hs].
    destruct (in_range_cell cls sh i Hwf Hir) as [Hcv Hci].
    rewrite <- Hci in Hb. rewrite (a_bd_spec cls sh _ Hne Hok Hcv) in Hb.
    apply in_map_iff in Hb. destruct Hb as [f [<- Hf]].
    assert (Hfv : s_valid (hshape cls sh) f) by exact (s_bd_valid _ _ _ _ _ Hok Hcv Hf).
    split; [apply index_in_range; assumption|].
    rewrite (C13_Spec.s_counter_index _ _ Hok Hfv).
    eapply sbelow_step; [|exact Hs]. apply (proj1 (s_bd_k_perm cls false false false _ _ _)). exact Hf.
Qed.

Lemma sbelow_below_bd : forall cls sh c t, C13_Proofs.wf_shape sh -> sbelow (hshape cls sh) c t ->
  s_valid (hshape cls sh) t -> below (a_bd cls sh) (s_index (hshape cls sh) c) (s_index (hshape cls sh) t).
Proof.
  intros cls sh c t Hwf H. pose proof (hs_ok cls sh Hwf) as Hok. pose proof Hwf as [Hne _].
  induction H as [t|b i t Hb Hi IH]; intros Ht; [apply below_refl|].
  assert (Hiv : s_valid (hshape cls sh) i) by exact (sbelow_valid _ _ _ Hok Hi Ht).
  eapply below_step; [|exact (IH Ht)].
  rewrite (a_bd_spec cls sh _ Hne Hok Hiv). apply in_map.
  apply (proj1 (s_bd_k_perm false cls false false _ _ _)). exact Hb.
Qed.

Lemma below_bd_iff : forall cls sh c t, C13_Proofs.wf_shape sh ->
  s_valid (hshape cls sh) c -> s_valid (hshape cls sh) t ->
  (below (a_bd cls sh) (s_index (hshape cls sh) c) (s_index (hshape cls sh) t) <-> sbelow (hshape cls sh) c t).
Proof.
  intros cls sh c t Hwf Hc Ht. pose proof (hs_ok cls sh Hwf) as Hok. split.
  - intros H. destruct (below_bd_sbelow cls sh _ _ Hwf H (index_in_range cls sh t Hwf Ht)) as [_ Hs].
    rewrite !(C13_Spec.s_counter_index _ _ Hok) in Hs by assumption. exact Hs.
  - intros H. apply sbelow_below_bd; assumption.
Qed.

(* through the coboundary the relation is reversed *)
Lemma below_cobd_sbelow : forall cls sh x y, C13_Proofs.wf_shape sh -> below (a_cobd cls sh) x y ->
  0 <= y < a_size cls sh ->
  0 <= x < a_size cls sh /\ sbelow (hshape cls sh) (s_counter (hshape cls sh) y) (s_counter (hshape cls sh) x).
Proof.
  intros cls sh x y Hwf H. pose proof (hs_ok cls sh Hwf) as Hok. pose proof Hwf as [Hne _].
  induction H as [t|b i t Hb Hi IH]; intros Ht.
  - split; [exact Ht|apply sbelow_refl].
  - destruct (IH Ht) as [Hir Hs].
    destruct (coboundary_in_range_dim cls sh i b Hwf Hir Hb) as [Hbr _].
    split; [exact Hbr|].
    apply (boundary_coboundary_converse cls sh i b Hwf Hir Hbr) in Hb.
    destruct (in_range_cell cls sh b Hwf Hbr) as [Hcv Hci].
    rewrite <- Hci in Hb. rewrite (a_bd_spec cls sh _ Hne Hok Hcv) in Hb.
    apply in_map_iff in Hb. destruct Hb as [f [Hfi Hf]].
    assert (Hfv : s_valid (hshape cls sh) f) by exact (s_bd_valid _ _ _ _ _ Hok Hcv Hf).
    assert (E : s_counter (hshape cls sh) i = f).
    { rewrite <- Hfi. apply (C13_Spec.s_counter_index _ _ Hok Hfv). }
    rewrite E in Hs. eapply sbelow_trans; [exact Hs|].
    eapply sbelow_step; [|apply sbelow_refl].
    apply (proj1 (s_bd_k_perm cls false false false _ _ _)). exact Hf.
Qed.

Lemma sbelow_below_cobd : forall cls sh v c, C13_Proofs.wf_shape sh -> sbelow (hshape cls sh) v c ->
  s_valid (hshape cls sh) c -> below (a_cobd cls sh) (s_index (hshape cls sh) c) (s_index (hshape cls sh) v).
Proof.
  intros cls sh v c Hwf H. pose proof (hs_ok cls sh Hwf) as Hok. pose proof Hwf as [Hne _].
  induction H as [t|b i t Hb Hi IH]; intros Ht; [apply below_refl|].
  assert (Hiv : s_valid (hshape cls sh) i) by exact (sbelow_valid _ _ _ Hok Hi Ht).
  assert (Hbv : s_valid (hshape cls sh) b) by exact (s_bd_valid _ _ _ _ _ Hok Hiv Hb).
  eapply below_trans; [exact (IH Ht)|].
  eapply below_step; [|apply below_refl].
  apply (boundary_coboundary_converse cls sh _ _ Hwf (index_in_range cls sh b Hwf Hbv)
           (index_in_range cls sh i Hwf Hiv)).
  rewrite (a_bd_spec cls sh _ Hne Hok Hiv). apply in_map.
  apply (proj1 (s_bd_k_perm false cls false false _ _ _)). exact Hb.
Qed.

Lemma below_cobd_iff : forall cls sh c v, C13_Proofs.wf_shape sh ->
  s_valid (hshape cls sh) c -> s_valid (hshape cls sh) v ->
  (below (a_cobd cls sh) (s_index (hshape cls sh) c) (s_index (hshape cls sh) v) <-> sbelow (hshape cls sh) v c).
Proof.
  intros cls sh c v Hwf Hc Hv. pose proof (hs_ok cls sh Hwf) as Hok. split.
  - intros H. destruct (below_cobd_sbelow cls sh _ _ Hwf H (index_in_range cls sh v Hwf Hv)) as [_ Hs].
    rewrite !(C13_Spec.s_counter_index _ _ Hok) in Hs by assumption. exact Hs.
  - intros H. apply sbelow_below_cobd; assumption.
Qed.

(* ================================================================ K2 : input = top cells *)
Lemma prod_fst_pos : forall hs : shape, Forall (fun d : dirn => 1 <= fst d) hs -> 0 < prod_sizes (map fst hs).
Proof.
  induction 1 as [|d hs Hd _ IH]; cbn [map]; [rewrite prod_sizes_nil; lia|].
  rewrite prod_sizes_cons. nia.
Qed.

Lemma rank_top_nonneg : forall hs c, Forall (fun d : dirn => 1 <= fst d) hs -> s_valid hs c ->
  C13_Geo.all_odd c -> 0 <= s_rank_top hs c.
Proof.
  intros hs c H. revert c. induction H as [|d hs Hd Hr IH]; intros [|x c] Hv Ho; cbn [s_valid] in Hv; try tauto.
  - cbn. lia.
  - destruct Hv as [Hx Hv]. inversion Ho as [|? ? Hox Hoc]; subst. cbn [s_rank_top].
    specialize (IH c Hv Hoc). pose proof (prod_fst_pos hs Hr).
    destruct (odd_true_ex x Hox) as [m ->]. rewrite top_hhg. nia.
Qed.

Lemma a_size_nonneg : forall cls sh, C13_Proofs.wf_shape sh -> 0 <= a_size cls sh.
Proof.
  intros cls sh Hwf. rewrite a_size_total. pose proof (C13_Spec.s_total_pos _ (hs_ok cls sh Hwf)). lia.
Qed.

Lemma a_dim_range : forall cls sh i, C13_Proofs.wf_shape sh -> 0 <= i < a_size cls sh ->
  0 <= a_dim cls sh i <= Z.of_nat (length sh).
Proof.
  intros cls sh i Hwf Hi. pose proof (hs_ok cls sh Hwf) as Hok. pose proof Hwf as [Hne _].
  destruct (in_range_cell cls sh i Hwf Hi) as [Hv Hidx]. rewrite <- Hidx.
  rewrite (a_dim_index cls sh _ Hne Hok Hv). rewrite <- (C13_Iter.hshape_length cls sh).
  apply C13_Geo.s_dim_bounds. exact Hv.
Qed.

Lemma bd_covers : forall cls sh b, C13_Proofs.wf_shape sh -> 0 <= b < a_size cls sh ->
  a_dim cls sh b < Z.of_nat (length sh) -> exists i, 0 <= i < a_size cls sh /\ In b (a_bd cls sh i).
Proof.
  intros cls sh b Hwf Hb Hd. pose proof (hs_ok cls sh Hwf) as Hok. pose proof Hwf as [Hne _].
  destruct (in_range_cell cls sh b Hwf Hb) as [Hv Hidx].
  remember (s_counter (hshape cls sh) b) as c eqn:Ec. clear Ec. subst b.
  rewrite (a_dim_index cls sh _ Hne Hok Hv) in Hd. rewrite <- (C13_Iter.hshape_length cls sh) in Hd.
  destruct (has_coface _ _ Hok Hv Hd) as [y Hy].
  assert (Hyv : s_valid (hshape cls sh) y) by exact (s_cobd_valid _ _ _ Hok Hv Hy).
  pose proof (index_in_range cls sh y Hwf Hyv) as Hyr.
  exists (s_index (hshape cls sh) y). split; [exact Hyr|].
  apply (boundary_coboundary_converse cls sh _ _ Hwf Hb Hyr).
  rewrite (a_cobd_spec cls sh _ Hne Hok Hv). apply in_map. exact Hy.
Qed.

Lemma cobd_covers : forall cls sh b, C13_Proofs.wf_shape sh -> 0 <= b < a_size cls sh ->
  0 < a_dim cls sh b -> exists i, 0 <= i < a_size cls sh /\ In b (a_cobd cls sh i).
Proof.
  intros cls sh b Hwf Hb Hd. pose proof (hs_ok cls sh Hwf) as Hok. pose proof Hwf as [Hne _].
  destruct (in_range_cell cls sh b Hwf Hb) as [Hv Hidx].
  remember (s_counter (hshape cls sh) b) as c eqn:Ec. clear Ec. subst b.
  rewrite (a_dim_index cls sh _ Hne Hok Hv) in Hd.
  destruct (has_face _ _ Hv Hd) as [y Hy].
  assert (Hyv : s_valid (hshape cls sh) y) by exact (s_bd_valid _ _ _ _ _ Hok Hv Hy).
  pose proof (index_in_range cls sh y Hwf Hyv) as Hyr.
  exists (s_index (hshape cls sh) y). split; [exact Hyr|].
  apply (boundary_coboundary_converse cls sh _ _ Hwf Hyr Hb).
  rewrite (a_bd_spec cls sh _ Hne Hok Hv). apply in_map.
  apply (proj1 (s_bd_k_perm false cls false false _ _ _)). exact Hy.
Qed.

Theorem lower_star_min : lower_star_min_statement.
Proof.
  intros cls dims vals Hwf Hlen.
  pose proof (hs_ok cls dims Hwf) as Hok. pose proof Hwf as [Hne Hall].
  destruct (top_cells_enum cls dims Hwf) as (l & Hl & Hnd & Hlenl & Hin & Hnth).
  pose proof (a_size_nonneg cls dims Hwf) as Hn.
  set (data0 := assign (repeat PInf (Z.to_nat (a_size cls dims))) l vals).
  destruct (star_rounds_lower_star (a_size cls dims) (a_bd cls dims) (a_dim cls dims) (Z.of_nat (length dims)) Hn
     (fun i Hi => a_dim_range cls dims i Hwf Hi)
     (fun i b Hi Hb => boundary_in_range_dim cls dims i b Hwf Hi Hb)
     (fun b Hb Hd => bd_covers cls dims b Hwf Hb Hd) l data0 (S (S (length dims))) Hnd Hin)
     as (data & Hrun & Hlend & Hres).
  { unfold data0. rewrite assign_length, repeat_length. reflexivity. }
  { intros i Hi Hd. unfold data0. rewrite assign_other; [apply getd_repeat_PInf|].
    intros Hil. apply Hin in Hil. lia. }
  { rewrite Nat2Z.id. lia. }
  exists data. split.
  { unfold a_build. cbv beta iota zeta. rewrite Hl. unfold data0 in Hrun. rewrite Hrun. reflexivity. }
  split; [exact Hlend|].
  intros c Hc.
  assert (Hval : forall tc, s_valid (hshape cls dims) tc -> C13_Geo.all_odd tc ->
            getd data0 (s_index (hshape cls dims) tc) = nthv vals (s_rank_top (hshape cls dims) tc)).
  { intros tc Hv Ho. rewrite (nthv_nth vals _ (rank_top_nonneg _ _ Hok Hv Ho)). unfold data0.
    apply assign_get.
    - exact Hnd.
    - intros t Ht. apply Hin in Ht. rewrite repeat_length. lia.
    - lia.
    - apply Hnth; assumption. }
  destruct (Hres (s_index (hshape cls dims) c) (index_in_range cls dims c Hwf Hc))
    as [Hlow (t & (Htr & Htd & Htb) & Htv)].
  unfold s_value_top.
  set (g := fun t0 => nthv vals (s_rank_top (hshape cls dims) t0)).
  destruct (fold_min_spec (map g (s_star (hshape cls dims) c))) as [Hm1 Hm2].
  set (m := fold_right ext_min PInf (map g (s_star (hshape cls dims) c))) in *.
  apply C13_Star.ext_ltb_total.
  - (* the computed value is attained at a top cell of the star, m is a lower bound of the star *)
    destruct (in_range_cell cls dims t Hwf Htr) as [Htcv Htci].
    remember (s_counter (hshape cls dims) t) as tc eqn:Etc. clear Etc. subst t.
    rewrite (a_dim_index cls dims _ Hne Hok Htcv) in Htd.
    rewrite <- (C13_Iter.hshape_length cls dims) in Htd. apply (C13_Geo.s_dim_top _ _ Htcv) in Htd.
    apply (below_bd_iff cls dims c tc Hwf Hc Htcv) in Htb.
    apply (star_is_below _ _ _ Hok Hc Htcv Htd) in Htb.
    rewrite <- Htv, (Hval tc Htcv Htd).
    assert (Hg : In (g tc) (map g (s_star (hshape cls dims) c))) by (apply in_map; exact Htb).
    apply Hm1 in Hg. unfold ext_leb in Hg. apply negb_true_iff in Hg. exact Hg.
  - (* m is attained in the star, the computed value is a lower bound *)
    assert (Hne' : map g (s_star (hshape cls dims) c) <> []).
    { intros E. apply map_eq_nil in E. exact (star_nonempty _ _ Hok Hc E). }
    apply Hm2 in Hne'. apply in_map_iff in Hne'. destruct Hne' as [tc [Hgm Htc]].
    destruct (star_valid _ _ _ Hok Hc Htc) as [Htcv Htco].
    rewrite <- Hgm. unfold g. rewrite <- (Hval tc Htcv Htco). apply Hlow.
    split; [apply index_in_range; assumption|]. split.
    + rewrite (a_dim_index cls dims _ Hne Hok Htcv), <- (C13_Iter.hshape_length cls dims).
      apply (C13_Geo.s_dim_top _ _ Htcv). exact Htco.
    + apply (below_bd_iff cls dims c tc Hwf Hc Htcv). apply (star_is_below _ _ _ Hok Hc Htcv Htco). exact Htc.
Qed.

(* ================================================================ K3 : periodic class, input = vertices *)
Theorem upper_star_max_periodic : upper_star_max_periodic_statement.
Proof.
  intros dims vals Hwf Hlen.
  set (sh := vshape_per dims) in *.
  pose proof (hs_ok true sh Hwf) as Hok. pose proof Hwf as [Hne Hall].
  destruct (vertices_per_enum sh Hwf) as (l & Hl & Hnd & Hin & Hnth).
  pose proof (a_size_nonneg true sh Hwf) as Hn.
  set (data0 := assign (repeat MInf (Z.to_nat (a_size true sh))) l vals).
  destruct (star_rounds_upper_star (a_size true sh) (a_cobd true sh) (a_dim true sh) (Z.of_nat (length sh)) Hn
     (fun i Hi => a_dim_range true sh i Hwf Hi)
     (fun i b Hi Hb => coboundary_in_range_dim true sh i b Hwf Hi Hb)
     (fun b Hb Hd => cobd_covers true sh b Hwf Hb Hd) l data0 (S (S (length sh))) Hnd Hin)
     as (data & Hrun & Hlend & Hres).
  { unfold data0. rewrite assign_length, repeat_length. reflexivity. }
  { intros i Hi Hd. unfold data0. rewrite assign_other; [apply getd_repeat_in; lia|].
    intros Hil. apply Hin in Hil. lia. }
  { rewrite Nat2Z.id. lia. }
  exists data. split.
  { unfold data0 in Hrun. unfold sh, vshape_per in Hl, Hrun |- *. unfold a_build. cbv beta iota zeta.
    rewrite Hl. cbv beta iota.
    match goal with |- match ?X with _ => _ end = _ => replace X with (Some data) by (symmetry; exact Hrun) end.
    reflexivity. }
  intros c Hc.
  assert (Hval : forall v, s_valid (hshape true sh) v -> C13_Geo.all_even v ->
            getd data0 (s_index (hshape true sh) v) = nthv vals (s_rank_vert (hshape true sh) v)).
  { intros v Hv He. unfold data0. apply (init_vertex_value true sh); assumption. }
  destruct (Hres (s_index (hshape true sh) c) (index_in_range true sh c Hwf Hc))
    as [Hup (t & (Htr & Htd & Htb) & Htv)].
  unfold s_value_vert.
  set (g := fun t0 => nthv vals (s_rank_vert (hshape true sh) t0)).
  destruct (fold_max_spec (map g (s_verts (hshape true sh) c))) as [Hm1 Hm2].
  set (m := fold_right ext_max MInf (map g (s_verts (hshape true sh) c))) in *.
  apply C13_Star.ext_ltb_total.
  - (* m is attained at a vertex of c, the computed value is an upper bound *)
    assert (Hne' : map g (s_verts (hshape true sh) c) <> []).
    { intros E. apply map_eq_nil in E. exact (verts_nonempty _ _ Hok Hc E). }
    apply Hm2 in Hne'. apply in_map_iff in Hne'. destruct Hne' as [tc [Hgm Htc]].
    destruct (verts_valid _ _ _ Hok Hc Htc) as [Htcv Htce].
    rewrite <- Hgm. unfold g. rewrite <- (Hval tc Htcv Htce). apply Hup.
    split; [apply index_in_range; assumption|]. split.
    + rewrite (a_dim_index true sh _ Hne Hok Htcv). apply (C13_Geo.s_dim_vertex _ _ Htcv). exact Htce.
    + apply (below_cobd_iff true sh c tc Hwf Hc Htcv). apply (verts_is_below _ _ _ Hok Htcv Hc Htce). exact Htc.
  - (* the computed value is attained at a vertex of c, m is an upper bound of the vertices *)
    destruct (in_range_cell true sh t Hwf Htr) as [Htcv Htci].
    remember (s_counter (hshape true sh) t) as tc eqn:Etc. clear Etc. subst t.
    rewrite (a_dim_index true sh _ Hne Hok Htcv) in Htd.
    apply (C13_Geo.s_dim_vertex _ _ Htcv) in Htd.
    apply (below_cobd_iff true sh c tc Hwf Hc Htcv) in Htb.
    apply (verts_is_below _ _ _ Hok Htcv Hc Htd) in Htb.
    rewrite <- Htv, (Hval tc Htcv Htd).
    assert (Hg : In (g tc) (map g (s_verts (hshape true sh) c))) by (apply in_map; exact Htb).
    apply Hm1 in Hg. unfold ext_leb in Hg. apply negb_true_iff in Hg. exact Hg.
Qed.

(* ================================================================ K5 : the built data are monotone *)
Lemma face_sbelow : forall hs c f, In f (s_bd false false hs c) -> sbelow hs f c.
Proof. intros hs c f H. eapply sbelow_step; [exact H|apply sbelow_refl]. Qed.

Lemma top_value_monotone : forall hs vals c f, C13_Spec.shape_ok hs -> s_valid hs c ->
  In f (s_bd false false hs c) -> ext_ltb (s_value_top hs vals c) (s_value_top hs vals f) = false.
Proof.
  intros hs vals c f Hok Hc Hf. unfold s_value_top.
  set (g := fun t => nthv vals (s_rank_top hs t)).
  assert (Hfv : s_valid hs f) by exact (s_bd_valid _ _ _ _ _ Hok Hc Hf).
  destruct (fold_min_spec (map g (s_star hs c))) as [_ Hc2].
  destruct (fold_min_spec (map g (s_star hs f))) as [Hf1 _].
  assert (Hne : map g (s_star hs c) <> []).
  { intros E. apply map_eq_nil in E. exact (star_nonempty _ _ Hok Hc E). }
  apply Hc2 in Hne. apply in_map_iff in Hne. destruct Hne as [t [Hgt Ht]].
  destruct (star_valid _ _ _ Hok Hc Ht) as [Htv Hto].
  assert (Htf : In t (s_star hs f)).
  { apply (star_is_below _ _ _ Hok Hfv Htv Hto). eapply sbelow_trans; [apply face_sbelow; exact Hf|].
    apply (star_is_below _ _ _ Hok Hc Htv Hto). exact Ht. }
  rewrite <- Hgt.
  assert (Hg : In (g t) (map g (s_star hs f))) by (apply in_map; exact Htf).
  apply Hf1 in Hg. unfold ext_leb in Hg. apply negb_true_iff in Hg. exact Hg.
Qed.

Lemma vert_value_monotone : forall hs vals c f, C13_Spec.shape_ok hs -> s_valid hs c ->
  In f (s_bd false false hs c) -> ext_ltb (s_value_vert hs vals c) (s_value_vert hs vals f) = false.
Proof.
  intros hs vals c f Hok Hc Hf. unfold s_value_vert.
  set (g := fun t => nthv vals (s_rank_vert hs t)).
  assert (Hfv : s_valid hs f) by exact (s_bd_valid _ _ _ _ _ Hok Hc Hf).
  destruct (fold_max_spec (map g (s_verts hs f))) as [_ Hf2].
  destruct (fold_max_spec (map g (s_verts hs c))) as [Hc1 _].
  assert (Hne : map g (s_verts hs f) <> []).
  { intros E. apply map_eq_nil in E. exact (verts_nonempty _ _ Hok Hfv E). }
  apply Hf2 in Hne. apply in_map_iff in Hne. destruct Hne as [v [Hgv Hv]].
  destruct (verts_valid _ _ _ Hok Hfv Hv) as [Hvv Hve].
  assert (Hvc : In v (s_verts hs c)).
  { apply (verts_is_below _ _ _ Hok Hvv Hc Hve). eapply sbelow_trans; [|apply face_sbelow; exact Hf].
    apply (verts_is_below _ _ _ Hok Hvv Hfv Hve). exact Hv. }
  rewrite <- Hgv.
  assert (Hg : In (g v) (map g (s_verts hs c))) by (apply in_map; exact Hvc).
  apply Hc1 in Hg. unfold ext_leb in Hg. apply negb_true_iff in Hg. exact Hg.
Qed.

Lemma monotone_of_values : forall cls sh data (V : list Z -> ext), C13_Proofs.wf_shape sh ->
  (forall c, s_valid (hshape cls sh) c -> getd data (s_index (hshape cls sh) c) = V c) ->
  (forall c f, s_valid (hshape cls sh) c -> In f (s_bd false false (hshape cls sh) c) ->
     ext_ltb (V c) (V f) = false) ->
  monotone cls sh data.
Proof.
  intros cls sh data V Hwf Hval HV i f Hi Hf.
  pose proof (hs_ok cls sh Hwf) as Hok. pose proof Hwf as [Hne _].
  destruct (in_range_cell cls sh i Hwf Hi) as [Hv Hidx].
  remember (s_counter (hshape cls sh) i) as c eqn:Ec. clear Ec. subst i.
  rewrite (a_bd_spec cls sh _ Hne Hok Hv) in Hf. apply in_map_iff in Hf. destruct Hf as [fc [<- Hfc]].
  assert (Hfv : s_valid (hshape cls sh) fc) by exact (s_bd_valid _ _ _ _ _ Hok Hv Hfc).
  rewrite (Hval c Hv), (Hval fc Hfv). apply HV; [exact Hv|].
  apply (proj1 (s_bd_k_perm cls false false false _ _ _)). exact Hfc.
Qed.

Theorem build_top_monotone : forall cls dims vals, C13_Proofs.wf_shape dims ->
  Z.of_nat (length vals) = prod_sizes (map fst dims) ->
  forall data, a_build cls dims true vals = Some (dims, data) -> monotone cls dims data.
Proof.
  intros cls dims vals Hwf Hlen data Hb.
  destruct (lower_star_min cls dims vals Hwf Hlen) as (data' & Hb' & _ & Hval).
  rewrite Hb in Hb'. injection Hb' as <-.
  apply (monotone_of_values cls dims data (s_value_top (hshape cls dims) vals) Hwf Hval).
  intros c f Hc Hf. apply top_value_monotone; [exact (hs_ok cls dims Hwf)|exact Hc|exact Hf].
Qed.

Theorem build_vert_periodic_monotone : forall dims vals, C13_Proofs.wf_shape (vshape_per dims) ->
  Z.of_nat (length vals) = prod_sizes (map nvert (hshape true (vshape_per dims))) ->
  forall sh data, a_build true dims false vals = Some (sh, data) -> sh = vshape_per dims /\ monotone true sh data.
Proof.
  intros dims vals Hwf Hlen sh data Hb.
  destruct (upper_star_max_periodic dims vals Hwf Hlen) as (data' & Hb' & Hval).
  rewrite Hb in Hb'. injection Hb' as -> <-. split; [reflexivity|].
  apply (monotone_of_values true _ data (s_value_vert (hshape true (vshape_per dims)) vals) Hwf Hval).
  intros c f Hc Hf. apply vert_value_monotone; [exact (hs_ok true _ Hwf)|exact Hc|exact Hf].
Qed.

Theorem build_vert_plain_monotone : forall dims vals, C13_Proofs.wf_shape (vshape_plain dims) ->
  Z.of_nat (length vals) = prod_sizes (map nvert (hshape false (vshape_plain dims))) ->
  forall sh data, a_build false dims false vals = Some (sh, data) -> sh = vshape_plain dims /\ monotone false sh data.
Proof.
  intros dims vals Hwf Hlen sh data Hb.
  destruct (upper_star_max_plain dims vals Hwf Hlen) as (data' & Hb' & Hval).
  rewrite Hb in Hb'. injection Hb' as -> <-. split; [reflexivity|].
  apply (monotone_of_values false _ data (s_value_vert (hshape false (vshape_plain dims)) vals) Hwf Hval).
  intros c f Hc Hf. apply vert_value_monotone; [exact (hs_ok false _ Hwf)|exact Hc|exact Hf].
Qed.

(* so the filtration built from the constructors lists every face before its cofaces *)
Corollary build_top_faces_first : forall cls dims vals, C13_Proofs.wf_shape dims ->
  Z.of_nat (length vals) = prod_sizes (map fst dims) ->
  forall data, a_build cls dims true vals = Some (dims, data) ->
  forall i f, 0 <= i < a_size cls dims -> In f (a_bd cls dims i) ->
  exists l1 l2 l3, a_filtration cls dims data = l1 ++ f :: l2 ++ i :: l3.
Proof.
  intros cls dims vals Hwf Hlen data Hb i f Hi Hf.
  apply filtration_faces_first; try assumption. eapply build_top_monotone; eassumption.
Qed.

(* ================================================================ non-vacuity *)
Example ex_wf_shape : C13_Proofs.wf_shape [(3, false); (2, true)].
Proof. split; [discriminate|]. repeat constructor; cbn; lia. Qed.

(* 2 x 2 top cells, plain class: hypotheses of lower_star_min, and the run *)
Example ex_lower_hyp :
  C13_Proofs.wf_shape [(2, false); (2, false)] /\
  Z.of_nat (length [Fin 3; Fin 1; PInf; Fin 2]) = prod_sizes (map fst [(2, false); (2, false)]).
Proof. split; [split; [discriminate|repeat constructor; cbn; lia]|reflexivity]. Qed.

Example ex_lower_run : exists data,
  a_build false [(2, false); (2, false)] true [Fin 3; Fin 1; PInf; Fin 2] = Some ([(2, false); (2, false)], data) /\
  s_index (hshape false [(2, false); (2, false)]) [2; 2] = 12 /\      (* the centre vertex of the 5 x 5 bitmap *)
  getd data 12 = Fin 1 /\
  s_value_top (hshape false [(2, false); (2, false)]) [Fin 3; Fin 1; PInf; Fin 2] [2; 2] = Fin 1 /\
  getd data 15 = PInf /\ getd data 17 = Fin 2.
Proof. eexists. split; [vm_compute; reflexivity|]. repeat split; vm_compute; reflexivity. Qed.

Example ex_lower_monotone : forall data,
  a_build false [(2, false); (2, false)] true [Fin 3; Fin 1; PInf; Fin 2] = Some ([(2, false); (2, false)], data) ->
  monotone false [(2, false); (2, false)] data.
Proof. intros data H. exact (build_top_monotone false _ _ (proj1 ex_lower_hyp) (proj2 ex_lower_hyp) data H). Qed.

(* periodic class, 2 (periodic) x 2 top cells = 2 x 3 vertices: hypotheses of upper_star_max_periodic, and the run *)
Example ex_upper_per_hyp :
  C13_Proofs.wf_shape (vshape_per [(2, true); (3, false)]) /\
  Z.of_nat (length [Fin 3; Fin 1; Fin 5; Fin 2; Fin 4; Fin 0])
  = prod_sizes (map nvert (hshape true (vshape_per [(2, true); (3, false)]))).
Proof. split; [split; [discriminate|repeat constructor; cbn; lia]|reflexivity]. Qed.

Example ex_upper_per_run : exists data,
  a_build true [(2, true); (3, false)] false [Fin 3; Fin 1; Fin 5; Fin 2; Fin 4; Fin 0]
  = Some ([(2, true); (2, false)], data) /\
  getd data 0 = Fin 3 /\ getd data 1 = Fin 3 /\ getd data 3 = Fin 3 /\ getd data 5 = Fin 5.
Proof. eexists. split; [vm_compute; reflexivity|]. repeat split; vm_compute; reflexivity. Qed.

(* plain class, 2 x 1 top cells = 3 x 2 vertices: hypotheses of upper_star_max_plain, and the run *)
Example ex_upper_plain_hyp :
  C13_Proofs.wf_shape (vshape_plain [(3, false); (2, false)]) /\
  Z.of_nat (length [Fin 3; Fin 1; Fin 5; Fin 2; MInf; Fin 0])
  = prod_sizes (map nvert (hshape false (vshape_plain [(3, false); (2, false)]))).
Proof. split; [split; [discriminate|repeat constructor; cbn; lia]|reflexivity]. Qed.

Example ex_upper_plain_run : exists data,
  a_build false [(3, false); (2, false)] false [Fin 3; Fin 1; Fin 5; Fin 2; MInf; Fin 0]
  = Some ([(2, false); (1, false)], data) /\
  getd data 0 = Fin 3 /\ getd data 1 = Fin 3 /\ getd data 6 = Fin 3 /\ getd data 12 = MInf /\ getd data 13 = Fin 0.
Proof. eexists. split; [vm_compute; reflexivity|]. repeat split; vm_compute; reflexivity. Qed.

(* a monotone data vector exists for every shape, so filtration_faces_first is not vacuous *)
Example ex_monotone_const : forall cls sh, monotone cls sh [].
Proof. intros cls sh i f _ _. unfold getd. destruct (i <? 0), (f <? 0), (Z.to_nat i), (Z.to_nat f); reflexivity. Qed.

Print Assumptions filtration_faces_first.
Print Assumptions lower_star_min.
Print Assumptions upper_star_max_periodic.
Print Assumptions upper_star_max_plain.
Print Assumptions build_top_monotone.
Print Assumptions build_vert_periodic_monotone.
Print Assumptions build_vert_plain_monotone.
Print Assumptions build_top_faces_first.
