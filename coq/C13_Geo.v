(* C13 — geometry of the specification model (PART B of C13_Model.v): "reachable through boundaries" is geometric
   containment.  The top cells listed by [s_star hs c] are exactly the all-odd cells from which [c] is reachable by
   repeated boundary steps; the vertices listed by [s_verts hs c] are exactly the all-even cells reachable from [c].
   Also: dimension bounds, existence of faces / cofaces, non-emptiness and validity of stars and vertex lists. *)
From Coq Require Import ZArith List Bool Lia ZifyBool.
Require Import C13_Model C13_Spec.
Import ListNotations.
Local Open Scope Z_scope.

(* [sbelow hs c t] : c is reachable from t by a chain of boundary steps (c is a face of a face of ... of t) *)
Inductive sbelow (hs : shape) : list Z -> list Z -> Prop :=
| sbelow_refl : forall t, sbelow hs t t
| sbelow_step : forall b i t, In b (s_bd false false hs i) -> sbelow hs i t -> sbelow hs b t.
Definition all_odd (c : list Z) := Forall (fun x => Z.odd x = true) c.
Definition all_even (c : list Z) := Forall (fun x => Z.even x = true) c.

(* ---------------------------------------------------------------- parity helpers *)
Lemma even_true_odd_false : forall x, Z.even x = true <-> Z.odd x = false.
Proof. intros x. rewrite <- Z.negb_even. destruct (Z.even x); cbn; split; congruence. Qed.
Lemma odd_pm : forall a, Z.odd (2 * a - 1) = true.
Proof. intros a. replace (2 * a - 1) with (2 * (a - 1) + 1) by lia. apply odd_2m1. Qed.

(* ---------------------------------------------------------------- G3 : dimension, faces, cofaces *)
Theorem s_dim_bounds : forall hs c, s_valid hs c -> 0 <= s_dim c <= Z.of_nat (length hs).
Proof.
  induction hs as [|d hs IH]; intros [|x c] Hv; cbn [s_valid] in Hv; try tauto.
  - cbn. lia.
  - destruct Hv as [_ Hv]. specialize (IH c Hv). cbn [s_dim length]. destruct (Z.odd x); lia.
Qed.

Theorem s_dim_top : forall hs c, s_valid hs c -> (s_dim c = Z.of_nat (length hs) <-> all_odd c).
Proof.
  unfold all_odd. induction hs as [|d hs IH]; intros [|x c] Hv; cbn [s_valid] in Hv; try tauto.
  - cbn. split; [constructor|reflexivity].
  - destruct Hv as [_ Hv]. pose proof (s_dim_bounds hs c Hv) as Hb. specialize (IH c Hv).
    cbn [s_dim length]. split.
    + intros H. destruct (Z.odd x) eqn:Ho.
      * constructor; [exact Ho|]. apply IH. lia.
      * lia.
    + intros H. inversion H as [|? ? Hx Hc]; subst. rewrite Hx. apply IH in Hc. lia.
Qed.

Theorem s_dim_vertex : forall hs c, s_valid hs c -> (s_dim c = 0 <-> all_even c).
Proof.
  unfold all_even. induction hs as [|d hs IH]; intros [|x c] Hv; cbn [s_valid] in Hv; try tauto.
  - cbn. split; [constructor|reflexivity].
  - destruct Hv as [_ Hv]. pose proof (s_dim_bounds hs c Hv) as Hb. specialize (IH c Hv).
    cbn [s_dim]. split.
    + intros H. destruct (Z.odd x) eqn:Ho.
      * lia.
      * constructor; [apply even_true_odd_false; exact Ho|]. apply IH. lia.
    + intros H. inversion H as [|? ? Hx Hc]; subst. apply even_true_odd_false in Hx. rewrite Hx.
      apply IH in Hc. lia.
Qed.

Theorem has_face : forall hs c, s_valid hs c -> 0 < s_dim c -> exists f, In f (s_bd false false hs c).
Proof.
  induction hs as [|d hs IH]; intros [|x c] Hv Hd; cbn [s_valid] in Hv; try tauto.
  - exfalso. cbn [s_dim] in Hd. lia.
  - destruct Hv as [_ Hv]. cbn [s_dim] in Hd. destruct (Z.odd x) eqn:Ho; rewrite ?Ho in Hd.
    + exists (lo x :: c). apply In_s_bd_cons. left. split; [exact Ho|]. left. reflexivity.
    + assert (Hd' : 0 < s_dim c) by lia. destruct (IH c Hv Hd') as [f Hf].
      exists (x :: f). apply In_s_bd_cons. right. exists f. split; [reflexivity|exact Hf].
Qed.

Lemma cob_dir_nonempty : forall d x, 1 <= fst d -> Z.odd x = false -> exists y, In y (cob_dir d x).
Proof.
  intros [s p] x Hd Ho. apply even_true_odd_false in Ho. unfold cob_dir. rewrite Ho. cbn [fst snd] in *.
  destruct p.
  - destruct (x =? 0); eexists; left; reflexivity.
  - destruct (Z.eqb_spec x 0).
    + destruct (Z.eqb_spec x (2 * s)); [exfalso; lia|]. eexists. cbn. left. reflexivity.
    + eexists. cbn. left. reflexivity.
Qed.

Theorem has_coface : forall hs c, shape_ok hs -> s_valid hs c -> s_dim c < Z.of_nat (length hs) ->
  exists y, In y (s_cobd hs c).
Proof.
  intros hs c H. revert c.
  induction H as [|d hs Hd Hr IH]; intros [|x c] Hv Hlt; cbn [s_valid] in Hv; try tauto.
  - exfalso. cbn [s_dim length] in Hlt. lia.
  - destruct Hv as [_ Hv]. cbn [s_dim length] in Hlt. destruct (Z.odd x) eqn:Ho; rewrite ?Ho in Hlt.
    + assert (Hex : exists y, In y (s_cobd hs c)) by (apply IH; [exact Hv|lia]). destruct Hex as [y Hy].
      exists (x :: y). apply In_s_cobd_cons. right. exists y. auto.
    + destruct (cob_dir_nonempty d x Hd Ho) as [y Hy]. exists (y :: c). apply In_s_cobd_cons. left. exists y. auto.
Qed.

(* ---------------------------------------------------------------- products of per-direction lists *)
Lemma In_s_prod_cons : forall f d hs x c y t,
  In (y :: t) (s_prod f (d :: hs) (x :: c)) <-> In y (f d x) /\ In t (s_prod f hs c).
Proof.
  intros f d hs x c y t. cbn [s_prod]. rewrite in_flat_map. split.
  - intros [y0 [Hy Ht]]. apply in_map_iff in Ht. destruct Ht as [t0 [E Ht]]. injection E as E1 E2. subst y0 t0. auto.
  - intros [Hy Ht]. exists y. split; [exact Hy|]. apply in_map_iff. exists t. auto.
Qed.

Lemma In_s_prod_cons_inv : forall f d hs x c t,
  In t (s_prod f (d :: hs) (x :: c)) -> exists y t', t = y :: t' /\ In y (f d x) /\ In t' (s_prod f hs c).
Proof.
  intros f d hs x c t H. cbn [s_prod] in H. apply in_flat_map in H. destruct H as [y [Hy Ht]].
  apply in_map_iff in Ht. destruct Ht as [t' [E Ht]]. subst t. exists y, t'. auto.
Qed.

Lemma s_prod_forall : forall (f : dirn -> Z -> list Z) (P : Z -> Prop),
  (forall d x y, 1 <= fst d -> 0 <= x < s_extent d -> In y (f d x) -> 0 <= y < s_extent d /\ P y) ->
  forall hs c t, shape_ok hs -> s_valid hs c -> In t (s_prod f hs c) -> s_valid hs t /\ Forall P t.
Proof.
  intros f P Hf hs c t H. revert c t.
  induction H as [|d hs Hd Hr IH]; intros [|x c] t Hv Ht; cbn [s_valid] in Hv; try tauto.
  - cbn in Ht. destruct Ht as [<-|[]]. cbn. auto.
  - destruct Hv as [Hx Hv]. apply In_s_prod_cons_inv in Ht. destruct Ht as [y [t' [-> [Hy Ht]]]].
    destruct (Hf d x y Hd Hx Hy) as [Hy1 Hy2]. destruct (IH c t' Hv Ht) as [H1 H2].
    cbn [s_valid]. split; [split; assumption|constructor; assumption].
Qed.

Lemma s_prod_nonempty : forall (f : dirn -> Z -> list Z),
  (forall d x, 1 <= fst d -> 0 <= x < s_extent d -> exists y, In y (f d x)) ->
  forall hs c, shape_ok hs -> s_valid hs c -> exists t, In t (s_prod f hs c).
Proof.
  intros f Hf hs c H. revert c.
  induction H as [|d hs Hd Hr IH]; intros [|x c] Hv; cbn [s_valid] in Hv; try tauto.
  - exists []. cbn. auto.
  - destruct Hv as [Hx Hv]. destruct (Hf d x Hd Hx) as [y Hy]. destruct (IH c Hv) as [t Ht].
    exists (y :: t). apply In_s_prod_cons. auto.
Qed.

(* ---------------------------------------------------------------- G4 : stars and vertex lists *)
Lemma top_dir_range : forall d x y, 1 <= fst d -> 0 <= x < s_extent d -> In y (top_dir d x) ->
  0 <= y < s_extent d /\ Z.odd y = true.
Proof.
  intros [s p] x y Hd Hx Hy. unfold top_dir, s_extent, extent_per in *. cbn [fst snd] in *.
  destruct (Z.odd x) eqn:Ho.
  - destruct Hy as [<-|[]]. auto.
  - destruct (odd_false_ex x Ho) as [a ->]. destruct p.
    + destruct (Z.eqb_spec (2 * a) 0); cbn [In] in Hy;
        repeat match goal with
               | H : _ \/ _ |- _ => destruct H
               | H : False |- _ => destruct H
               end; subst; (split; [lia | first [apply odd_pm | apply odd_2m1]]).
    + apply in_app_or in Hy.
      destruct (Z.eqb_spec (2 * a) 0); destruct (Z.eqb_spec (2 * a) (2 * s)); cbn [In] in Hy;
        repeat match goal with
               | H : _ \/ _ |- _ => destruct H
               | H : False |- _ => destruct H
               end; subst; (split; [lia | first [apply odd_pm | apply odd_2m1]]).
Qed.

Lemma top_dir_nonempty : forall d x, 1 <= fst d -> 0 <= x < s_extent d -> exists y, In y (top_dir d x).
Proof.
  intros [s p] x Hd Hx. unfold top_dir, s_extent, extent_per in *. cbn [fst snd] in *.
  destruct (Z.odd x).
  - exists x. left. reflexivity.
  - destruct p.
    + eexists. left. reflexivity.
    + destruct (Z.eqb_spec x 0).
      * destruct (Z.eqb_spec x (2 * s)); [exfalso; lia|]. eexists. cbn. left. reflexivity.
      * eexists. cbn. left. reflexivity.
Qed.

Lemma vert_dir_range : forall d y x, 1 <= fst d -> 0 <= y < s_extent d -> In x (vert_dir d y) ->
  0 <= x < s_extent d /\ Z.even x = true.
Proof.
  intros d y x Hd Hy Hx. unfold vert_dir in Hx. destruct (Z.odd y) eqn:Ho.
  - destruct Hx as [<-|[<-|[]]].
    + split; [apply lo_range; assumption | apply even_true_odd_false, odd_lo; assumption].
    + split; [apply hi_range; assumption | apply even_true_odd_false, odd_hi; assumption].
  - destruct Hx as [<-|[]]. split; [assumption|apply even_true_odd_false; assumption].
Qed.

Lemma vert_dir_nonempty : forall d y, exists x, In x (vert_dir d y).
Proof. intros d y. unfold vert_dir. destruct (Z.odd y); eexists; left; reflexivity. Qed.

Theorem star_valid : forall hs c t, shape_ok hs -> s_valid hs c -> In t (s_star hs c) -> s_valid hs t /\ all_odd t.
Proof. intros hs c t Hs Hv Ht. unfold s_star in Ht. unfold all_odd. eapply s_prod_forall; eauto using top_dir_range. Qed.

Theorem verts_valid : forall hs c v, shape_ok hs -> s_valid hs c -> In v (s_verts hs c) -> s_valid hs v /\ all_even v.
Proof. intros hs c v Hs Hv Ht. unfold s_verts in Ht. unfold all_even. eapply s_prod_forall; eauto using vert_dir_range. Qed.

Theorem star_nonempty : forall hs c, shape_ok hs -> s_valid hs c -> s_star hs c <> [].
Proof.
  intros hs c Hs Hv E. destruct (s_prod_nonempty top_dir top_dir_nonempty hs c Hs Hv) as [t Ht].
  unfold s_star in E. rewrite E in Ht. destruct Ht.
Qed.

Theorem verts_nonempty : forall hs c, shape_ok hs -> s_valid hs c -> s_verts hs c <> [].
Proof.
  intros hs c Hs Hv E.
  destruct (s_prod_nonempty vert_dir (fun d x _ _ => vert_dir_nonempty d x) hs c Hs Hv) as [t Ht].
  unfold s_verts in E. rewrite E in Ht. destruct Ht.
Qed.

(* ---------------------------------------------------------------- reachability through boundaries *)
Lemma sbelow_trans : forall hs a b c, sbelow hs a b -> sbelow hs b c -> sbelow hs a c.
Proof.
  intros hs a b c H. induction H as [t|b0 i t Hb Hi IH]; intros Hc; [exact Hc|].
  eapply sbelow_step; [exact Hb|]. apply IH. exact Hc.
Qed.

Lemma sbelow_valid : forall hs c t, shape_ok hs -> sbelow hs c t -> s_valid hs t -> s_valid hs c.
Proof.
  intros hs c t Hs H. induction H as [t|b i t Hb Hi IH]; intros Hv; [exact Hv|].
  eapply s_bd_valid; [exact Hs|apply IH; exact Hv|exact Hb].
Qed.

Lemma sbelow_dim : forall hs c t, sbelow hs c t -> s_dim c <= s_dim t.
Proof.
  intros hs c t H. induction H as [t|b i t Hb Hi IH]; [lia|].
  pose proof (s_bd_dim _ _ _ _ _ Hb). lia.
Qed.

Lemma sbelow_cons : forall d hs x c t, sbelow hs c t -> sbelow (d :: hs) (x :: c) (x :: t).
Proof.
  intros d hs x c t H. induction H as [t|b i t Hb Hi IH]; [apply sbelow_refl|].
  eapply sbelow_step; [|exact IH]. apply In_s_bd_cons. right. exists b. auto.
Qed.

(* the one-direction relation and its pointwise lifting *)
Definition dbelow (d : dirn) (x y : Z) : Prop := x = y \/ (Z.odd y = true /\ (x = lo y \/ x = hi d y)).
Fixpoint pw (hs : shape) (c t : list Z) : Prop :=
  match hs, c, t with
  | [], [], [] => True
  | d :: hs', x :: c', y :: t' => dbelow d x y /\ pw hs' c' t'
  | _, _, _ => False
  end.

Lemma pw_refl : forall hs t, s_valid hs t -> pw hs t t.
Proof.
  induction hs as [|d hs IH]; intros [|x t] Hv; cbn [s_valid] in Hv; try tauto.
  cbn [pw]. split; [left; reflexivity|]. apply IH. tauto.
Qed.

Lemma pw_step : forall hs b i t, In b (s_bd false false hs i) -> pw hs i t -> pw hs b t.
Proof.
  induction hs as [|d hs IH]; intros b i t Hb Hp.
  - cbn in Hb. destruct Hb.
  - destruct i as [|i0 i']; [cbn in Hb; destruct Hb|]. destruct t as [|t0 t']; [cbn in Hp; destruct Hp|].
    cbn [pw] in Hp. destruct Hp as [H0 Hp].
    apply In_s_bd_cons in Hb. destruct Hb as [[Ho Hb]|[f' [-> Hf]]].
    + assert (Hd : dbelow d (lo i0) t0 /\ dbelow d (hi d i0) t0).
      { destruct H0 as [<-|[Hot [E|E]]].
        - split; right; (split; [exact Ho|]); [left|right]; reflexivity.
        - exfalso. rewrite E in Ho. rewrite (odd_lo _ Hot) in Ho. discriminate.
        - exfalso. rewrite E in Ho. rewrite (odd_hi _ _ Hot) in Ho. discriminate. }
      destruct Hb as [-> | ->]; cbn [pw]; (split; [tauto|exact Hp]).
    + cbn [pw]. split; [exact H0|]. eapply IH; eauto.
Qed.

Lemma sbelow_pw : forall hs c t, s_valid hs t -> sbelow hs c t -> pw hs c t.
Proof.
  intros hs c t Hv H. induction H as [t|b i t Hb Hi IH]; [apply pw_refl; exact Hv|].
  eapply pw_step; [exact Hb|]. apply IH. exact Hv.
Qed.

Lemma pw_sbelow : forall hs c t, pw hs c t -> sbelow hs c t.
Proof.
  induction hs as [|d hs IH]; intros [|x c] [|y t] Hp; cbn [pw] in Hp; try tauto.
  - apply sbelow_refl.
  - destruct Hp as [Hd Hp]. apply (sbelow_trans _ _ (x :: t)); [apply sbelow_cons, IH, Hp|].
    destruct Hd as [<-|[Ho Hx]]; [apply sbelow_refl|].
    eapply sbelow_step; [|apply sbelow_refl]. apply In_s_bd_cons. left. split; [exact Ho|].
    destruct Hx as [-> | ->]; [left|right]; reflexivity.
Qed.

Theorem sbelow_iff_pw : forall hs c t, s_valid hs t -> (sbelow hs c t <-> pw hs c t).
Proof. intros hs c t Hv. split; [apply sbelow_pw; exact Hv|apply pw_sbelow]. Qed.

(* ---------------------------------------------------------------- G1 : the star *)
Lemma top_dir_spec : forall d x y, 1 <= fst d -> 0 <= x < s_extent d -> 0 <= y < s_extent d -> Z.odd y = true ->
  (In y (top_dir d x) <-> dbelow d x y).
Proof.
  intros [s p] x y Hd Hx Hy Hoy. unfold top_dir, dbelow, hi, lo, s_extent, extent_per in *. cbn [fst snd] in *.
  rewrite Hoy. destruct (odd_true_ex y Hoy) as [b ->].
  destruct (Z.odd x) eqn:Hox.
  - destruct (odd_true_ex x Hox) as [a ->]. cbn [In]. split.
    + intros [H|[]]. left. exact H.
    + intros [H|[_ [H|H]]]; [left; exact H|exfalso; lia|exfalso].
      destruct p; cbn [andb] in H; [destruct (Z.eqb_spec (2 * b + 1) (2 * s - 1))|]; lia.
  - destruct (odd_false_ex x Hox) as [a ->]. destruct p; cbn [andb].
    + destruct (Z.eqb_spec (2 * a) 0); destruct (Z.eqb_spec (2 * b + 1) (2 * s - 1)); cbn [In];
        (split; [intros H; right; split; [reflexivity|lia] | intros [H|[_ [H|H]]]; lia]).
    + rewrite in_app_iff.
      destruct (Z.eqb_spec (2 * a) 0); destruct (Z.eqb_spec (2 * a) (2 * s)); cbn [In];
        (split; [intros H; right; split; [reflexivity|lia] | intros [H|[_ [H|H]]]; lia]).
Qed.

Lemma star_iff_pw : forall hs c t, shape_ok hs -> s_valid hs c -> s_valid hs t -> all_odd t ->
  (In t (s_star hs c) <-> pw hs c t).
Proof.
  unfold s_star, all_odd. intros hs c t H. revert c t.
  induction H as [|d hs Hd Hr IH]; intros [|x c] [|y t] Hc Ht Ho; cbn [s_valid] in Hc, Ht; try tauto.
  - cbn. split; auto.
  - destruct Hc as [Hx Hc]. destruct Ht as [Hy Ht]. inversion Ho as [|? ? Hoy Hot]; subst.
    rewrite In_s_prod_cons. cbn [pw]. rewrite (top_dir_spec d x y Hd Hx Hy Hoy). rewrite (IH c t Hc Ht Hot). tauto.
Qed.

Theorem star_is_below : forall hs c t, shape_ok hs -> s_valid hs c -> s_valid hs t -> all_odd t ->
  (sbelow hs c t <-> In t (s_star hs c)).
Proof.
  intros hs c t Hs Hc Ht Ho. rewrite (sbelow_iff_pw hs c t Ht). symmetry. apply star_iff_pw; assumption.
Qed.

(* ---------------------------------------------------------------- G2 : the vertices *)
Lemma vert_dir_spec : forall d x y, Z.odd x = false -> (In x (vert_dir d y) <-> dbelow d x y).
Proof.
  intros d x y Hx. unfold vert_dir, dbelow. destruct (Z.odd y) eqn:Hoy; cbn [In].
  - split.
    + intros [H|[H|[]]]; right; (split; [reflexivity|]); [left|right]; symmetry; exact H.
    + intros [H|[_ [H|H]]]; [subst; congruence|left; symmetry; exact H|right; left; symmetry; exact H].
  - split.
    + intros [H|[]]. left. symmetry. exact H.
    + intros [H|[H _]]; [left; symmetry; exact H|discriminate].
Qed.

Lemma verts_iff_pw : forall hs v c, s_valid hs v -> s_valid hs c -> all_even v ->
  (In v (s_verts hs c) <-> pw hs v c).
Proof.
  unfold s_verts, all_even. induction hs as [|d hs IH]; intros [|x v] [|y c] Hv Hc He;
    cbn [s_valid] in Hv, Hc; try tauto.
  - cbn. split; auto.
  - destruct Hv as [Hx Hv]. destruct Hc as [Hy Hc]. inversion He as [|? ? Hex Het]; subst.
    apply even_true_odd_false in Hex.
    rewrite In_s_prod_cons. cbn [pw]. rewrite (vert_dir_spec d x y Hex). rewrite (IH v c Hv Hc Het). tauto.
Qed.

Theorem verts_is_below : forall hs v c, shape_ok hs -> s_valid hs v -> s_valid hs c -> all_even v ->
  (sbelow hs v c <-> In v (s_verts hs c)).
Proof.
  intros hs v c Hs Hv Hc He. rewrite (sbelow_iff_pw hs v c Hc). symmetry. apply verts_iff_pw; assumption.
Qed.

Print Assumptions star_is_below.
Print Assumptions verts_is_below.
Print Assumptions has_coface.
Print Assumptions star_valid.
