(* C13 — incidence signs.
   I1 (enum_sign_inc): the sign attached along the boundary enumeration (s_sbd) versus the geometric incidence
       number of the documentation of compute_incidence_between_cells (s_inc).
   I2 (inc_counters_spec): the transcription of the C++ compute_incidence_between_cells (a_inc, on counters with
       direction 0 first) computes the geometric incidence number s_inc.
   Self-contained: imports only C13_Model. *)
From Coq Require Import ZArith List Bool Lia ZifyBool.
Require Import C13_Model.
Import ListNotations.
Local Open Scope Z_scope.

Definition shape_ok (hs : shape) : Prop := Forall (fun d : dirn => 1 <= fst d) hs.
(* a periodic side of length 1 has a single edge whose two ends coincide (lo 1 = 0 = hi d 1): the sign of that
   face is not well defined; excluded where needed *)
Definition per_ge2 (hs : shape) : Prop := Forall (fun d : dirn => snd d = true -> 2 <= fst d) hs.

(* ---------------------------------------------------------------- small facts *)
Lemma list_eqb_refl : forall l, list_eqb l l = true.
Proof. induction l as [|a l IH]; [reflexivity|]. cbn [list_eqb]. rewrite Z.eqb_refl, IH. reflexivity. Qed.

Lemma list_eqb_eq : forall a b, list_eqb a b = true -> a = b.
Proof.
  induction a as [|x a IH]; destruct b as [|y b]; cbn [list_eqb]; intros H; try discriminate; [reflexivity|].
  apply andb_true_iff in H. destruct H as [H1 H2]. apply Z.eqb_eq in H1. subst y. f_equal. apply IH. exact H2.
Qed.

Lemma odd_nz : forall x, Z.odd x = true -> x <> 0.
Proof. intros x H E. subst x. discriminate H. Qed.

Lemma odd_1_plus : forall n, Z.odd (1 + n) = negb (Z.odd n).
Proof. intros n. rewrite Z.odd_add. destruct (Z.odd n); reflexivity. Qed.

Lemma s_dim_app : forall a b, s_dim (a ++ b) = s_dim a + s_dim b.
Proof. induction a as [|x a IH]; intros b; [reflexivity|]. cbn [app s_dim]. rewrite IH. lia. Qed.

Lemma s_dim_rev : forall l, s_dim (rev l) = s_dim l.
Proof. induction l as [|x l IH]; [reflexivity|]. cbn [rev]. rewrite s_dim_app, IH. cbn [s_dim]. lia. Qed.

(* ================================================================ I1 *)
Lemma s_inc_lo : forall (d : dirn) (hs : shape) x c', Z.odd x = true ->
  s_inc (d :: hs) (x :: c') (lo x :: c') = Some (- (if Z.odd (s_dim c') then -1 else 1)).
Proof.
  intros d hs x c' Ox. cbn [s_inc].
  assert (E : x =? lo x = false) by (unfold lo; lia).
  rewrite E, list_eqb_refl, Ox. cbn [andb]. rewrite Z.eqb_refl. reflexivity.
Qed.

(* needs: a periodic direction has size >= 2, otherwise hi d 1 = 0 = lo 1 and s_inc answers for the lower end *)
Lemma s_inc_hi : forall (d : dirn) (hs : shape) x c', Z.odd x = true -> (snd d = true -> 2 <= fst d) ->
  s_inc (d :: hs) (x :: c') (hi d x :: c') = Some (if Z.odd (s_dim c') then -1 else 1).
Proof.
  intros d hs x c' Ox Pd. cbn [s_inc].
  assert (Hx : x <> 0) by (apply odd_nz; exact Ox).
  assert (E : x =? hi d x = false).
  { unfold hi. destruct (snd d && (x =? 2 * fst d - 1)); lia. }
  assert (E2 : hi d x =? lo x = false).
  { unfold hi, lo. destruct (snd d) eqn:Sd; cbn [andb].
    - specialize (Pd eq_refl). destruct (x =? 2 * fst d - 1) eqn:E3; lia.
    - lia. }
  rewrite E, list_eqb_refl, Ox. cbn [andb]. rewrite E2, Z.eqb_refl. reflexivity.
Qed.

Lemma in_alt_map : forall x l sg s f, In (s, f) (alt sg (map (cons x) l)) ->
  exists f', f = x :: f' /\ In (s, f') (alt sg l).
Proof.
  intros x. induction l as [|a l IH]; intros sg s f H; cbn [map alt] in H.
  - destruct H.
  - destruct H as [H|H].
    + inversion H; subst. exists a. split; [reflexivity|]. cbn [alt]. left. reflexivity.
    + apply IH in H. destruct H as (f' & Hf & H). exists f'. split; [exact Hf|]. cbn [alt]. right. exact H.
Qed.

(* the invariant: [k] = parity of the number of odd coordinates already met *)
Lemma enum_sign_gen : forall flip hs, per_ge2 hs -> forall k c s f,
  In (s, f) (alt 1 (s_bd flip k hs c)) ->
  s_inc hs c f = Some ((if xorb flip k then -1 else 1) * (if Z.odd (s_dim c) then -1 else 1) * s).
Proof.
  intros flip. induction hs as [|d hs IH]; intros P k c s f H.
  - destruct c; cbn in H; contradiction.
  - destruct c as [|x c']; [cbn in H; contradiction|].
    inversion P as [|? ? Pd Phs]; subst.
    cbn [s_bd] in H. cbn [s_dim].
    destruct (Z.odd x) eqn:Ox.
    + assert (Hlo := s_inc_lo d hs x c' Ox). assert (Hhi := s_inc_hi d hs x c' Ox Pd).
      rewrite odd_1_plus.
      destruct (xorb flip k) eqn:E.
      * change (In (s, f) ((1, hi d x :: c') :: (-1, lo x :: c') ::
                           alt 1 (map (cons x) (s_bd flip (negb k) hs c')))) in H.
        destruct H as [H|[H|H]].
        -- inversion H; subst. rewrite Hhi. destruct (Z.odd (s_dim c')); reflexivity.
        -- inversion H; subst. rewrite Hlo. destruct (Z.odd (s_dim c')); reflexivity.
        -- apply in_alt_map in H. destruct H as (f' & Hf & H). subst f.
           apply (IH Phs (negb k)) in H. cbn [s_inc]. rewrite Z.eqb_refl, H.
           destruct flip, k; cbn in E; try discriminate E; cbn [xorb negb];
             destruct (Z.odd (s_dim c')); cbn [negb]; f_equal; lia.
      * change (In (s, f) ((1, lo x :: c') :: (-1, hi d x :: c') ::
                           alt 1 (map (cons x) (s_bd flip (negb k) hs c')))) in H.
        destruct H as [H|[H|H]].
        -- inversion H; subst. rewrite Hlo. destruct (Z.odd (s_dim c')); reflexivity.
        -- inversion H; subst. rewrite Hhi. destruct (Z.odd (s_dim c')); reflexivity.
        -- apply in_alt_map in H. destruct H as (f' & Hf & H). subst f.
           apply (IH Phs (negb k)) in H. cbn [s_inc]. rewrite Z.eqb_refl, H.
           destruct flip, k; cbn in E; try discriminate E; cbn [xorb negb];
             destruct (Z.odd (s_dim c')); cbn [negb]; f_equal; lia.
    + apply in_alt_map in H. destruct H as (f' & Hf & H). subst f.
      apply (IH Phs k) in H. cbn [s_inc]. rewrite Z.eqb_refl, H. reflexivity.
Qed.

(* only per_ge2 is genuinely needed *)
Theorem enum_sign_inc_strong : forall flip hs c s f, per_ge2 hs ->
  In (s, f) (s_sbd flip hs c) ->
  s_inc hs c f = Some ((if flip then -1 else 1) * (if Z.odd (s_dim c) then -1 else 1) * s).
Proof.
  intros flip hs c s f P H. unfold s_sbd in H. apply (enum_sign_gen flip hs P false) in H.
  rewrite H. rewrite xorb_false_r. reflexivity.
Qed.

(* plain class (flip = false): incidence = (-1)^(dim c) * enumeration sign;
   periodic class (flip = true): incidence = (-1)^(dim c + 1) * enumeration sign.
   shape_ok and s_valid are not used by the proof (kept for the interface); per_ge2 is needed. *)
Theorem enum_sign_inc : forall flip hs c s f, shape_ok hs -> per_ge2 hs -> s_valid hs c ->
  In (s, f) (s_sbd flip hs c) ->
  s_inc hs c f = Some ((if flip then -1 else 1) * (if Z.odd (s_dim c) then -1 else 1) * s).
Proof. intros flip hs c s f _ P _ H. apply enum_sign_inc_strong; assumption. Qed.

(* ================================================================ I2 *)
Definition inc_of_counters (cls : bool) (cc fc : list Z) : option (option Z) :=
  match inc_loop cc fc 0 (-1) 0 with
  | None => Some None
  | Some (pos, nfull) =>
    if pos =? -1 then None else
    let incidence := if Z.odd nfull then -1 else 1 in
    let flip := if cls
                then (znth cc pos + 1 =? znth fc pos) || (negb (znth cc pos =? 1) && (znth fc pos =? 0))
                else (znth cc pos + 1 =? znth fc pos) in
    Some (Some (if flip then - incidence else incidence))
  end.

Lemma a_inc_unfold : forall cls sh a b,
  a_inc cls sh a b = inc_of_counters cls (a_counter cls sh a) (a_counter cls sh b).
Proof. intros. reflexivity. Qed.

(* the shape of a pair with a defined incidence: common higher part, one odd coordinate replaced by one of its two
   neighbours, common lower part *)
Lemma s_inc_decomp : forall hs c f v, s_inc hs c f = Some v ->
  exists pre x y c' d, c = pre ++ x :: c' /\ f = pre ++ y :: c' /\ In d hs /\ Z.odd x = true /\ x <> y /\
    ((y = lo x /\ v = - (if Z.odd (s_dim c') then -1 else 1)) \/
     (y <> lo x /\ y = hi d x /\ v = (if Z.odd (s_dim c') then -1 else 1))).
Proof.
  induction hs as [|d hs IH]; intros c f v H; [cbn in H; discriminate H|].
  destruct c as [|x c']; [cbn in H; discriminate H|].
  destruct f as [|y f']; [cbn in H; discriminate H|].
  cbn [s_inc] in H.
  destruct (x =? y) eqn:E.
  - apply Z.eqb_eq in E. subst y. apply IH in H.
    destruct H as (pre & x0 & y0 & c0 & d0 & Hc & Hf & Hin & Ho & Hne & Hv).
    exists (x :: pre), x0, y0, c0, d0. subst c' f'.
    split; [reflexivity|]. split; [reflexivity|]. split; [right; exact Hin|].
    split; [exact Ho|]. split; [exact Hne|]. exact Hv.
  - destruct (list_eqb c' f') eqn:L; [|cbn in H; discriminate H].
    destruct (Z.odd x) eqn:Ox; [|cbn in H; discriminate H].
    apply list_eqb_eq in L. subst f'. cbn [andb] in H. cbv zeta in H.
    exists [], x, y, c', d.
    split; [reflexivity|]. split; [reflexivity|]. split; [left; reflexivity|].
    split; [exact Ox|]. split; [lia|].
    destruct (y =? lo x) eqn:E1.
    + left. split; [lia|]. injection H as H. symmetry. exact H.
    + destruct (y =? hi d x) eqn:E2; [|discriminate H].
      right. split; [lia|]. split; [lia|]. injection H as H. symmetry. exact H.
Qed.

Lemma inc_loop_prefix : forall l cc fc i n,
  inc_loop (l ++ cc) (l ++ fc) i (-1) n = inc_loop cc fc (i + Z.of_nat (length l)) (-1) (n + s_dim l).
Proof.
  induction l as [|a l IH]; intros cc fc i n.
  - cbn [app length s_dim]. f_equal; lia.
  - cbn [app inc_loop]. rewrite (Z.eqb_refl a). change (-1 =? -1) with true.
    rewrite andb_true_r. cbn [negb]. rewrite IH. cbn [length s_dim].
    f_equal; [lia|]. destruct (Z.odd a); lia.
Qed.

Lemma inc_loop_same : forall l i pos n, pos <> -1 -> inc_loop l l i pos n = Some (pos, n).
Proof.
  induction l as [|a l IH]; intros i pos n Hp; [reflexivity|].
  cbn [inc_loop]. rewrite (Z.eqb_refl a).
  assert (E : pos =? -1 = false) by lia.
  rewrite E, andb_false_r. cbn [negb]. apply IH. exact Hp.
Qed.

(* the C++ quirk: nfull also counts the (odd) coordinate at the differing position *)
Lemma inc_loop_decomp : forall l r x y, x <> y -> Z.odd x = true ->
  inc_loop (l ++ x :: r) (l ++ y :: r) 0 (-1) 0 = Some (Z.of_nat (length l), 1 + s_dim l).
Proof.
  intros l r x y Hne Ox. rewrite inc_loop_prefix. cbn [inc_loop].
  assert (E : x =? y = false) by lia.
  rewrite E, Ox. change (-1 =? -1) with true. cbn [andb negb].
  rewrite inc_loop_same by lia. f_equal. f_equal; lia.
Qed.

Lemma znth_mid : forall l x r, znth (l ++ x :: r) (Z.of_nat (length l)) = x.
Proof.
  intros l x r. unfold znth.
  assert (E : Z.of_nat (length l) <? 0 = false) by lia.
  rewrite E, Nat2Z.id. apply nth_middle.
Qed.

(* only the hypothesis on the plain class is genuinely needed *)
Theorem inc_counters_strong : forall cls hs c f v,
  (cls = false -> Forall (fun d : dirn => snd d = false) hs) ->
  s_inc hs c f = Some v -> inc_of_counters cls (rev c) (rev f) = Some (Some v).
Proof.
  intros cls hs c f v Hnp H. apply s_inc_decomp in H.
  destruct H as (pre & x & y & c' & d & Hc & Hf & Hin & Ox & Hne & Hv). subst c f.
  rewrite !rev_app_distr. cbn [rev]. rewrite <- !app_assoc. cbn [app].
  unfold inc_of_counters. rewrite (inc_loop_decomp (rev c') (rev pre) x y Hne Ox).
  assert (E : Z.of_nat (length (rev c')) =? -1 = false) by lia.
  rewrite E, !znth_mid, s_dim_rev, odd_1_plus. cbv zeta.
  destruct Hv as [[Hy Hv]|(Hn & Hy & Hv)]; subst y v.
  - unfold lo.
    assert (F1 : x + 1 =? x - 1 = false) by lia.
    assert (F2 : (x + 1 =? x - 1) || negb (x =? 1) && (x - 1 =? 0) = false) by lia.
    destruct cls; [rewrite F2|rewrite F1]; destruct (Z.odd (s_dim c')); reflexivity.
  - destruct cls.
    + assert (F : (x + 1 =? hi d x) || negb (x =? 1) && (hi d x =? 0) = true).
      { unfold hi, lo in *. destruct (snd d && (x =? 2 * fst d - 1)); lia. }
      rewrite F. destruct (Z.odd (s_dim c')); reflexivity.
    + specialize (Hnp eq_refl). rewrite Forall_forall in Hnp. specialize (Hnp d Hin).
      unfold hi. rewrite Hnp. cbn [andb]. rewrite Z.eqb_refl.
      destruct (Z.odd (s_dim c')); reflexivity.
Qed.

(* shape_ok and the validity of the two cells are not used by the proof (kept for the interface); per_ge2 is NOT
   needed: with a periodic side of length 1, cc = 1 / fc = 0 is classified as the lower end by both sides *)
Theorem inc_counters_spec : forall cls hs c f v, shape_ok hs ->
  (cls = false -> Forall (fun d : dirn => snd d = false) hs) ->
  s_valid hs c -> s_valid hs f ->
  s_inc hs c f = Some v -> inc_of_counters cls (rev c) (rev f) = Some (Some v).
Proof. intros cls hs c f v _ Hnp _ _ H. apply (inc_counters_strong cls hs); assumption. Qed.

(* sanity (tests, not theorems): the 2-cell [3;3] of the 3x3 grid *)
Example ex_enum_33 : s_sbd false [(3, false); (3, false)] [3; 3]
  = [(1, [2; 3]); (-1, [4; 3]); (1, [3; 4]); (-1, [3; 2])].
Proof. reflexivity. Qed.
Example ex_inc_33 : map (s_inc [(3, false); (3, false)] [3; 3]) [[2; 3]; [4; 3]; [3; 4]; [3; 2]]
  = [Some 1; Some (-1); Some 1; Some (-1)].
Proof. reflexivity. Qed.
Example ex_inc_edge : map (s_inc [(3, false); (3, false)] [3; 2]) [[2; 2]; [4; 2]] = [Some (-1); Some 1].
Proof. reflexivity. Qed.

Print Assumptions enum_sign_inc.
Print Assumptions inc_counters_spec.
