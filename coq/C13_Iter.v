(* C13 iterators: the transcribed iterators (Top_dimensional_cells_iterator, periodic Vertices_iterator,
   for_each_vertex_rec) enumerate the right cells in the right order; assignment of the input values. *)
From Coq Require Import ZArith List Bool Lia ZifyBool.
Require Import C13_Model C13_Spec C13_Refine.
Import ListNotations.
Local Open Scope Z_scope.

Definition wf_shape (sh : shape) : Prop := sh <> [] /\ Forall (fun d : dirn => 1 <= fst d) sh.
Definition all_odd (c : list Z) : Prop := Forall (fun x => Z.odd x = true) c.
Definition all_even (c : list Z) : Prop := Forall (fun x => Z.even x = true) c.

(* ================================================================ F4 : assignment *)
Lemma upd_nat_length : forall (A : Type) (l : list A) n v, length (upd_nat l n v) = length l.
Proof. induction l as [|a l IH]; intros [|n] v; cbn; try reflexivity. rewrite IH. reflexivity. Qed.

Lemma upd_length : forall (A : Type) (l : list A) i v, length (upd l i v) = length l.
Proof. intros A l i v. unfold upd. destruct (i <? 0); [reflexivity|apply upd_nat_length]. Qed.

Lemma nth_upd_nat_same : forall (A : Type) (l : list A) n v d, (n < length l)%nat -> nth n (upd_nat l n v) d = v.
Proof.
  induction l as [|a l IH]; intros [|n] v d H; cbn in *; try lia; try reflexivity.
  apply IH. lia.
Qed.

Lemma nth_upd_nat_other : forall (A : Type) (l : list A) n m v d, n <> m -> nth m (upd_nat l n v) d = nth m l d.
Proof.
  induction l as [|a l IH]; intros [|n] [|m] v d H; cbn in *; try reflexivity; try congruence.
  apply IH. congruence.
Qed.

Lemma getd_upd_same : forall data t v, 0 <= t < Z.of_nat (length data) -> getd (upd data t v) t = v.
Proof.
  intros data t v H. unfold getd, upd. destruct (t <? 0) eqn:E; [lia|].
  apply nth_upd_nat_same. lia.
Qed.

Lemma getd_upd_other : forall data c t v, t <> c -> getd (upd data c v) t = getd data t.
Proof.
  intros data c t v H. unfold getd, upd. destruct (t <? 0) eqn:E; [reflexivity|].
  destruct (c <? 0) eqn:E2; [reflexivity|]. apply nth_upd_nat_other. lia.
Qed.

Theorem assign_length : forall l vals data, length (assign data l vals) = length data.
Proof.
  induction l as [|c cs IH]; intros [|v vs] data; cbn [assign]; try reflexivity.
  rewrite IH. apply upd_length.
Qed.

Theorem assign_other : forall l vals data t, ~ In t l -> getd (assign data l vals) t = getd data t.
Proof.
  induction l as [|c cs IH]; intros [|v vs] data t H; cbn [assign]; try reflexivity.
  rewrite IH by (intro; apply H; right; assumption).
  apply getd_upd_other. intro; apply H; left; congruence.
Qed.

Theorem assign_get : forall l vals data k t, NoDup l -> (forall t, In t l -> 0 <= t < Z.of_nat (length data)) ->
  length vals = length l -> nth_error l k = Some t -> getd (assign data l vals) t = nth k vals PInf.
Proof.
  induction l as [|c cs IH]; intros vals data k t Hnd Hr Hlen Hk.
  - destruct k; discriminate.
  - destruct vals as [|v vs]; [discriminate|]. cbn [assign]. inversion Hnd as [|? ? Hnin Hnd']; subst.
    destruct k as [|k]; cbn in Hk.
    + injection Hk as ->. rewrite assign_other by assumption. cbn [nth].
      apply getd_upd_same. apply Hr. left; reflexivity.
    + cbn [nth]. apply IH; try assumption.
      * intros t' Ht'. rewrite upd_length. apply Hr. right; assumption.
      * cbn in Hlen. congruence.
Qed.

(* ================================================================ list utilities *)
Lemma in_zrange_nat : forall k a x, In x (zrange_nat a k) <-> a <= x < a + Z.of_nat k.
Proof.
  induction k as [|k IH]; intros a x; cbn [zrange_nat In].
  - lia.
  - rewrite IH. lia.
Qed.

Lemma NoDup_zrange_nat : forall k a, NoDup (zrange_nat a k).
Proof.
  induction k as [|k IH]; intros a; cbn [zrange_nat]; constructor.
  - rewrite in_zrange_nat. lia.
  - apply IH.
Qed.

Lemma length_zrange_nat : forall k a, length (zrange_nat a k) = k.
Proof. induction k as [|k IH]; intros a; cbn; [reflexivity|]. rewrite IH. reflexivity. Qed.

Lemma nth_error_zrange_nat : forall k a j, (j < k)%nat -> nth_error (zrange_nat a k) j = Some (a + Z.of_nat j).
Proof.
  induction k as [|k IH]; intros a j H; [lia|].
  destruct j as [|j]; cbn [zrange_nat nth_error].
  - f_equal. lia.
  - rewrite IH by lia. f_equal. lia.
Qed.

Lemma NoDup_map_in : forall (A B : Type) (f : A -> B) l,
  (forall x y, In x l -> In y l -> f x = f y -> x = y) -> NoDup l -> NoDup (map f l).
Proof.
  intros A B f l Hinj Hnd. induction Hnd as [|a l Hnin Hnd IH]; cbn [map]; constructor.
  - intro Hin. apply in_map_iff in Hin. destruct Hin as [y [Hy Hyl]].
    apply Hnin. rewrite <- (Hinj y a); [assumption|right; assumption|left; reflexivity|assumption].
  - apply IH. intros x y Hx Hy. apply Hinj; right; assumption.
Qed.

Lemma fold_mul_acc : forall l a, fold_left Z.mul l a = a * fold_left Z.mul l 1.
Proof.
  induction l as [|x l IH]; intros a; cbn [fold_left]; [ring|].
  rewrite IH, (IH (1 * x)). ring.
Qed.

Lemma prod_sizes_cons : forall x l, prod_sizes (x :: l) = x * prod_sizes l.
Proof. intros x l. unfold prod_sizes. cbn [fold_left]. rewrite fold_mul_acc. ring. Qed.

Lemma prod_sizes_nil : prod_sizes [] = 1.
Proof. reflexivity. Qed.

Lemma list_eqb_refl : forall a, list_eqb a a = true.
Proof. induction a as [|x a IH]; cbn; [reflexivity|]. rewrite Z.eqb_refl, IH. reflexivity. Qed.

(* ================================================================ mixed radix counters, direction 0 first *)
Fixpoint cnt_of (lims : list Z) (n : Z) : list Z :=
  match lims with [] => [] | l :: ls => n mod (l + 1) :: cnt_of ls (n / (l + 1)) end.
Fixpoint ctotal (lims : list Z) : Z := match lims with [] => 1 | l :: ls => (l + 1) * ctotal ls end.
Fixpoint enc (lims ks : list Z) : Z :=
  match lims, ks with l :: ls, k :: ks' => k + (l + 1) * enc ls ks' | _, _ => 0 end.
Definition lims_ok (lims : list Z) : Prop := Forall (fun l => 0 <= l) lims.
Definition inb (lims ks : list Z) : Prop := Forall2 (fun l k => 0 <= k <= l) lims ks.

Lemma ctotal_pos : forall lims, lims_ok lims -> 1 <= ctotal lims.
Proof. induction 1 as [|l ls Hl _ IH]; cbn [ctotal]; nia. Qed.

Lemma cnt_of_inb : forall lims n, lims_ok lims -> inb lims (cnt_of lims n).
Proof.
  intros lims n H. revert n. induction H as [|l ls Hl _ IH]; intros n; cbn [cnt_of]; constructor.
  - pose proof (Z.mod_pos_bound n (l + 1)). lia.
  - apply IH.
Qed.

Lemma enc_cnt_of : forall lims n, lims_ok lims -> 0 <= n < ctotal lims -> enc lims (cnt_of lims n) = n.
Proof.
  intros lims n H. revert n. induction H as [|l ls Hl Hls IH]; intros n Hn; cbn [cnt_of enc ctotal] in *.
  - lia.
  - pose proof (ctotal_pos ls Hls).
    rewrite IH.
    + pose proof (Z.div_mod n (l + 1)). lia.
    + split; [apply Z.div_pos; lia|]. apply Z.div_lt_upper_bound; lia.
Qed.

Lemma enc_range : forall lims ks, inb lims ks -> 0 <= enc lims ks < ctotal lims.
Proof.
  induction 1 as [|l k ls ks Hk _ IH]; cbn [enc ctotal]; [lia|]. nia.
Qed.

Lemma cnt_of_enc : forall lims ks, inb lims ks -> cnt_of lims (enc lims ks) = ks.
Proof.
  induction 1 as [|l k ls ks Hk _ IH]; cbn [enc cnt_of]; [reflexivity|].
  replace (k + (l + 1) * enc ls ks) with (enc ls ks * (l + 1) + k) by ring.
  destruct (divmod_helper (enc ls ks) (l + 1) k) as [Hq Hr]; [lia|].
  rewrite Hq, Hr, IH. reflexivity.
Qed.

Lemma incr_self : forall lims, incr lims lims = None.
Proof. induction lims as [|l ls IH]; cbn [incr]; [reflexivity|]. rewrite Z.eqb_refl, IH. reflexivity. Qed.

Lemma it_next_self : forall lims, it_next lims lims = it_end lims.
Proof. intros lims. unfold it_next, it_end. rewrite incr_self. reflexivity. Qed.

Lemma cnt_of_last : forall lims, lims_ok lims -> cnt_of lims (ctotal lims - 1) = lims.
Proof.
  induction 1 as [|l ls Hl Hls IH]; cbn [cnt_of ctotal]; [reflexivity|].
  pose proof (ctotal_pos ls Hls).
  replace ((l + 1) * ctotal ls - 1) with ((ctotal ls - 1) * (l + 1) + l) by ring.
  destruct (divmod_helper (ctotal ls - 1) (l + 1) l) as [Hq Hr]; [lia|].
  rewrite Hq, Hr, IH. reflexivity.
Qed.

Lemma incr_cnt_of : forall lims n, lims_ok lims -> 0 <= n -> n + 1 < ctotal lims ->
  incr lims (cnt_of lims n) = Some (cnt_of lims (n + 1)).
Proof.
  intros lims n H. revert n. induction H as [|l ls Hl Hls IH]; intros n Hn Hn1; cbn [cnt_of incr ctotal] in *.
  - lia.
  - pose proof (Z.div_mod n (l + 1)) as Hdm. pose proof (Z.mod_pos_bound n (l + 1)) as Hmb.
    assert (Hq0 : 0 <= n / (l + 1)) by (apply Z.div_pos; lia).
    destruct (n mod (l + 1) =? l) eqn:E.
    + assert (E1 : n + 1 = (n / (l + 1) + 1) * (l + 1) + 0) by lia.
      destruct (divmod_helper (n / (l + 1) + 1) (l + 1) 0) as [Hq Hr]; [lia|].
      rewrite E1, Hq, Hr. rewrite IH; [reflexivity|lia|]. nia.
    + assert (E1 : n + 1 = (n / (l + 1)) * (l + 1) + (n mod (l + 1) + 1)) by lia.
      destruct (divmod_helper (n / (l + 1)) (l + 1) (n mod (l + 1) + 1)) as [Hq Hr]; [lia|].
      rewrite E1 at 1 2. rewrite Hq, Hr. reflexivity.
Qed.

Lemma cnt_of_zero : forall lims, cnt_of lims 0 = map (fun _ => 0) lims.
Proof.
  induction lims as [|l ls IH]; cbn [cnt_of map]; [reflexivity|].
  rewrite Zmod_0_l, Zdiv_0_l, IH. reflexivity.
Qed.

Lemma cnt_of_not_end : forall lims n, lims <> [] -> lims_ok lims -> list_eqb (cnt_of lims n) (it_end lims) = false.
Proof.
  intros [|l ls] n Hne H; [congruence|]. inversion H; subst. cbn [cnt_of it_end list_eqb].
  pose proof (Z.mod_pos_bound n (l + 1)). destruct (n mod (l + 1) =? l + 1) eqn:E; [lia|reflexivity].
Qed.

Lemma it_loop_run : forall mul add ms lims, lims <> [] -> lims_ok lims ->
  forall k n fuel acc, 0 <= n -> n + Z.of_nat (S k) = ctotal lims -> (S k <= fuel)%nat ->
  it_loop fuel mul add ms lims (it_end lims) (cnt_of lims n) acc =
  Some (rev acc ++ map (fun i => it_index mul add ms (cnt_of lims i)) (zrange_nat n (S k))).
Proof.
  intros mul add ms lims Hne Hok. induction k as [|k IH]; intros n fuel acc Hn Htot Hfuel.
  - destruct fuel as [|f]; [lia|]. cbn [it_loop]. rewrite cnt_of_not_end by assumption.
    replace n with (ctotal lims - 1) by lia. rewrite cnt_of_last, it_next_self by assumption.
    destruct f; cbn [it_loop]; rewrite list_eqb_refl; cbn [rev zrange_nat map]; rewrite cnt_of_last by assumption;
      reflexivity.
  - destruct fuel as [|f]; [lia|]. cbn [it_loop]. rewrite cnt_of_not_end by assumption.
    unfold it_next. rewrite incr_cnt_of by (try assumption; lia).
    rewrite IH by lia. cbn [rev zrange_nat map]. rewrite <- app_assoc. reflexivity.
Qed.

Lemma it_loop_full : forall mul add ms lims fuel, lims <> [] -> lims_ok lims ->
  (Z.to_nat (ctotal lims) <= fuel)%nat ->
  it_loop fuel mul add ms lims (it_end lims) (map (fun _ => 0) lims) [] =
  Some (map (fun i => it_index mul add ms (cnt_of lims i)) (zrange_nat 0 (Z.to_nat (ctotal lims)))).
Proof.
  intros mul add ms lims fuel Hne Hok Hfuel. pose proof (ctotal_pos lims Hok) as Hp.
  destruct (Z.to_nat (ctotal lims)) as [|k] eqn:E; [lia|].
  rewrite <- cnt_of_zero. rewrite (it_loop_run mul add ms lims Hne Hok k 0 fuel []); [reflexivity|lia|lia|lia].
Qed.

(* ================================================================ snoc lemmas *)
Lemma ctotal_snoc : forall lims l, ctotal (lims ++ [l]) = ctotal lims * (l + 1).
Proof. induction lims as [|a lims IH]; intros l; cbn [app ctotal]; [ring|]. rewrite IH. ring. Qed.

Lemma enc_snoc : forall lims ks l k, length lims = length ks ->
  enc (lims ++ [l]) (ks ++ [k]) = enc lims ks + k * ctotal lims.
Proof.
  induction lims as [|a lims IH]; intros [|b ks] l k H; cbn in H; try discriminate; cbn [app enc ctotal].
  - ring.
  - rewrite IH by congruence. ring.
Qed.

Lemma it_index_snoc : forall mul add ms ks m k, length ms = length ks ->
  it_index mul add (ms ++ [m]) (ks ++ [k]) = it_index mul add ms ks + (mul * k + add) * m.
Proof.
  induction ms as [|a ms IH]; intros [|b ks] m k H; cbn in H; try discriminate; cbn [app it_index].
  - ring.
  - rewrite IH by congruence. ring.
Qed.

Lemma prod_sizes_app : forall a b, prod_sizes (a ++ b) = prod_sizes a * prod_sizes b.
Proof. intros a b. unfold prod_sizes. rewrite fold_left_app, fold_mul_acc. reflexivity. Qed.

Lemma prod_sizes_rev : forall l, prod_sizes (rev l) = prod_sizes l.
Proof.
  induction l as [|x l IH]; cbn [rev]; [reflexivity|].
  rewrite prod_sizes_app, !prod_sizes_cons, IH, prod_sizes_nil. ring.
Qed.

Definition sok (hs : shape) : Prop := Forall (fun d : dirn => 1 <= fst d) hs.

Lemma s_valid_length : forall hs c, s_valid hs c -> length c = length hs.
Proof.
  induction hs as [|d hs IH]; intros [|x c] H; cbn [s_valid] in H; try contradiction; [reflexivity|].
  cbn [length]. f_equal. apply IH. tauto.
Qed.

Lemma hdirs_length : forall hs, length (hdirs hs) = length hs.
Proof. induction hs as [|d hs IH]; cbn; [reflexivity|]. rewrite IH. reflexivity. Qed.

(* ================================================================ generic enumeration *)
Section Gen.
Variables (mul add : Z) (h : Z -> Z) (cntf : dirn -> Z) (par : Z -> bool).
Hypothesis Hhg : forall k, h (mul * k + add) = k.
Hypothesis Hgh : forall x, par x = true -> mul * h x + add = x.
Hypothesis Hpar : forall k, par (mul * k + add) = true.
Hypothesis Hr1 : forall (d : dirn) x, 1 <= fst d -> 0 <= x < s_extent d -> par x = true -> 0 <= h x <= cntf d - 1.
Hypothesis Hr2 : forall (d : dirn) k, 1 <= fst d -> 0 <= k <= cntf d - 1 -> 0 <= mul * k + add < s_extent d.
Hypothesis Hc : forall d : dirn, 1 <= fst d -> 1 <= cntf d.

Definition hlims (hs : shape) : list Z := rev (map (fun d => cntf d - 1) hs).
Definition hms (hs : shape) : list Z := rev (map fst (hdirs hs)).
Fixpoint grank (hs : shape) (c : list Z) : Z :=
  match hs, c with
  | _ :: hs', x :: c' => h x * prod_sizes (map cntf hs') + grank hs' c'
  | _, _ => 0
  end.
Definition pall (c : list Z) : Prop := Forall (fun x => par x = true) c.
Definition kc (c : list Z) : list Z := rev (map h c).
Definition ck (ks : list Z) : list Z := rev (map (fun k => mul * k + add) ks).
Definition gidx (hs : shape) (i : Z) : Z := it_index mul add (hms hs) (cnt_of (hlims hs) i).
Definition glist (hs : shape) : list Z := map (gidx hs) (zrange_nat 0 (Z.to_nat (ctotal (hlims hs)))).

Lemma hlims_cons : forall d hs, hlims (d :: hs) = hlims hs ++ [cntf d - 1].
Proof. reflexivity. Qed.
Lemma hms_cons : forall d hs, hms (d :: hs) = hms hs ++ [s_total hs].
Proof. reflexivity. Qed.
Lemma kc_cons : forall x c, kc (x :: c) = kc c ++ [h x].
Proof. reflexivity. Qed.
Lemma hlims_length : forall hs, length (hlims hs) = length hs.
Proof. intros hs. unfold hlims. rewrite rev_length, map_length. reflexivity. Qed.
Lemma hms_length : forall hs, length (hms hs) = length hs.
Proof. intros hs. unfold hms. rewrite rev_length, map_length. apply hdirs_length. Qed.
Lemma kc_length : forall c, length (kc c) = length c.
Proof. intros c. unfold kc. rewrite rev_length, map_length. reflexivity. Qed.

Lemma hlims_ok : forall hs, sok hs -> lims_ok (hlims hs).
Proof.
  induction 1 as [|d hs Hd _ IH].
  - constructor.
  - rewrite hlims_cons. apply Forall_app. split; [exact IH|]. constructor; [|constructor].
    pose proof (Hc d Hd). lia.
Qed.

Lemma ctotal_hlims : forall hs, ctotal (hlims hs) = prod_sizes (map cntf hs).
Proof.
  induction hs as [|d hs IH]; [reflexivity|].
  rewrite hlims_cons, ctotal_snoc, IH. cbn [map]. rewrite prod_sizes_cons. ring.
Qed.

Lemma enc_kc : forall hs c, length c = length hs -> enc (hlims hs) (kc c) = grank hs c.
Proof.
  induction hs as [|d hs IH]; intros [|x c] H; cbn in H; try discriminate; [reflexivity|].
  rewrite hlims_cons, kc_cons, enc_snoc by (rewrite hlims_length, kc_length; congruence).
  rewrite IH by congruence. rewrite ctotal_hlims. cbn [grank]. ring.
Qed.

Lemma index_kc : forall hs c, length c = length hs -> pall c -> it_index mul add (hms hs) (kc c) = s_index hs c.
Proof.
  induction hs as [|d hs IH]; intros [|x c] H Hp; cbn in H; try discriminate; [reflexivity|].
  inversion Hp as [|? ? Hx Hp']; subst.
  rewrite hms_cons, kc_cons, it_index_snoc by (rewrite hms_length, kc_length; congruence).
  rewrite IH by (try assumption; congruence). rewrite (Hgh x Hx). cbn [s_index]. ring.
Qed.

Lemma inb_kc : forall hs c, sok hs -> s_valid hs c -> pall c -> inb (hlims hs) (kc c).
Proof.
  intros hs c H. revert c. induction H as [|d hs Hd _ IH]; intros [|x c] Hv Hp; cbn [s_valid] in Hv; try contradiction.
  - constructor.
  - inversion Hp as [|? ? Hx Hp']; subst. destruct Hv as [Hxr Hv].
    rewrite hlims_cons, kc_cons. apply Forall2_app; [apply IH; assumption|].
    constructor; [|constructor]. apply Hr1; assumption.
Qed.

Lemma kc_ck : forall ks, kc (ck ks) = ks.
Proof.
  intros ks. unfold kc, ck. rewrite map_rev, rev_involutive, map_map.
  rewrite <- (map_id ks) at 2. apply map_ext. intros k. apply Hhg.
Qed.

Lemma pall_ck : forall ks, pall (ck ks).
Proof.
  intros ks. unfold pall, ck. rewrite Forall_forall. intros x Hx. apply in_rev in Hx.
  apply in_map_iff in Hx. destruct Hx as [k [<- _]]. apply Hpar.
Qed.

Lemma valid_ck : forall hs ks, sok hs -> inb (hlims hs) ks -> s_valid hs (ck ks).
Proof.
  intros hs ks H. revert ks. induction H as [|d hs Hd _ IH]; intros ks Hb.
  - inversion Hb; subst. exact I.
  - rewrite hlims_cons in Hb. apply Forall2_app_inv_l in Hb.
    destruct Hb as [ks1 [ks2 [Hb1 [Hb2 ->]]]].
    inversion Hb2 as [|? k ? ks3 Hk Hb3]; subst. inversion Hb3; subst.
    unfold ck. rewrite map_app. cbn [map]. rewrite rev_unit. cbn [s_valid]. split; [apply Hr2; assumption|].
    apply IH. exact Hb1.
Qed.

Lemma gen_pt : forall hs i, sok hs -> 0 <= i < ctotal (hlims hs) ->
  exists c, s_valid hs c /\ pall c /\ gidx hs i = s_index hs c /\ grank hs c = i.
Proof.
  intros hs i Hok Hi. pose proof (hlims_ok hs Hok) as Hl.
  pose proof (cnt_of_inb (hlims hs) i Hl) as Hb.
  exists (ck (cnt_of (hlims hs) i)).
  pose proof (valid_ck hs _ Hok Hb) as Hv. pose proof (pall_ck (cnt_of (hlims hs) i)) as Hp.
  split; [exact Hv|]. split; [exact Hp|]. split.
  - unfold gidx. rewrite <- (kc_ck (cnt_of (hlims hs) i)) at 1.
    apply index_kc; [apply s_valid_length; exact Hv|exact Hp].
  - rewrite <- enc_kc by (apply s_valid_length; exact Hv). rewrite kc_ck. apply enc_cnt_of; assumption.
Qed.

Lemma gen_nth : forall hs c, sok hs -> s_valid hs c -> pall c ->
  nth_error (glist hs) (Z.to_nat (grank hs c)) = Some (s_index hs c).
Proof.
  intros hs c Hok Hv Hp. pose proof (inb_kc hs c Hok Hv Hp) as Hb.
  pose proof (enc_range _ _ Hb) as Hr. rewrite enc_kc in Hr by (apply s_valid_length; exact Hv).
  unfold glist. erewrite map_nth_error; [|apply nth_error_zrange_nat; lia].
  f_equal. unfold gidx. replace (0 + Z.of_nat (Z.to_nat (grank hs c))) with (enc (hlims hs) (kc c)).
  - rewrite cnt_of_enc by exact Hb. apply index_kc; [apply s_valid_length; exact Hv|exact Hp].
  - rewrite enc_kc by (apply s_valid_length; exact Hv). lia.
Qed.

Lemma gen_in : forall hs t, sok hs ->
  (In t (glist hs) <-> exists c, s_valid hs c /\ pall c /\ t = s_index hs c).
Proof.
  intros hs t Hok. split.
  - intros Hin. unfold glist in Hin. apply in_map_iff in Hin. destruct Hin as [i [<- Hi]].
    apply in_zrange_nat in Hi. pose proof (ctotal_pos _ (hlims_ok hs Hok)).
    destruct (gen_pt hs i Hok) as [c [Hv [Hp [He _]]]]; [lia|].
    exists c. split; [exact Hv|]. split; [exact Hp|exact He].
  - intros [c [Hv [Hp ->]]]. eapply nth_error_In. apply gen_nth; assumption.
Qed.

Lemma gen_nodup : forall hs, sok hs -> NoDup (glist hs).
Proof.
  intros hs Hok. unfold glist. apply NoDup_map_in; [|apply NoDup_zrange_nat].
  intros i j Hi Hj E. apply in_zrange_nat in Hi, Hj. pose proof (ctotal_pos _ (hlims_ok hs Hok)).
  destruct (gen_pt hs i Hok) as [ci [Hvi [Hpi [Hei Hri]]]]; [lia|].
  destruct (gen_pt hs j Hok) as [cj [Hvj [Hpj [Hej Hrj]]]]; [lia|].
  rewrite Hei, Hej in E. apply (C13_Spec.s_index_inj hs ci cj Hok Hvi Hvj) in E. subst cj. congruence.
Qed.

Lemma gen_len : forall hs, sok hs -> Z.of_nat (length (glist hs)) = prod_sizes (map cntf hs).
Proof.
  intros hs Hok. unfold glist. rewrite map_length, length_zrange_nat, <- ctotal_hlims.
  pose proof (ctotal_pos _ (hlims_ok hs Hok)). lia.
Qed.

Lemma gen_run : forall hs fuel, hs <> [] -> sok hs -> (Z.to_nat (prod_sizes (map cntf hs)) <= fuel)%nat ->
  it_loop fuel mul add (hms hs) (hlims hs) (it_end (hlims hs)) (map (fun _ => 0) (hlims hs)) [] = Some (glist hs).
Proof.
  intros hs fuel Hne Hok Hf. unfold glist, gidx. apply it_loop_full.
  - intro E. apply Hne. apply length_zero_iff_nil. rewrite <- hlims_length, E. reflexivity.
  - apply hlims_ok; exact Hok.
  - rewrite ctotal_hlims. exact Hf.
Qed.
End Gen.

Lemma gen_all : forall (mul add : Z) (h : Z -> Z) (cntf : dirn -> Z) (par : Z -> bool),
  (forall k, h (mul * k + add) = k) ->
  (forall x, par x = true -> mul * h x + add = x) ->
  (forall k, par (mul * k + add) = true) ->
  (forall (d : dirn) x, 1 <= fst d -> 0 <= x < s_extent d -> par x = true -> 0 <= h x <= cntf d - 1) ->
  (forall (d : dirn) k, 1 <= fst d -> 0 <= k <= cntf d - 1 -> 0 <= mul * k + add < s_extent d) ->
  (forall d : dirn, 1 <= fst d -> 1 <= cntf d) ->
  forall hs fuel, hs <> [] -> sok hs -> (Z.to_nat (prod_sizes (map cntf hs)) <= fuel)%nat ->
  it_loop fuel mul add (hms hs) (hlims cntf hs) (it_end (hlims cntf hs)) (map (fun _ => 0) (hlims cntf hs)) []
    = Some (glist mul add cntf hs) /\
  NoDup (glist mul add cntf hs) /\
  Z.of_nat (length (glist mul add cntf hs)) = prod_sizes (map cntf hs) /\
  (forall t, In t (glist mul add cntf hs) <-> exists c, s_valid hs c /\ pall par c /\ t = s_index hs c) /\
  (forall c, s_valid hs c -> pall par c ->
     nth_error (glist mul add cntf hs) (Z.to_nat (grank h cntf hs c)) = Some (s_index hs c)).
Proof.
  intros mul add h cntf par Hhg Hgh Hpar Hr1 Hr2 Hc hs fuel Hne Hok Hf.
  split; [apply gen_run; assumption|].
  split; [apply (gen_nodup mul add h cntf par); assumption|].
  split; [apply gen_len; assumption|].
  split; [intros t; apply (gen_in mul add h cntf par); assumption|].
  intros c Hv Hp. apply (gen_nth mul add h cntf par); assumption.
Qed.

(* ================================================================ bridging the C++ shape and the specification shape *)
Lemma map_fst_combine : forall (A B : Type) (a : list A) (b : list B), length a = length b -> map fst (combine a b) = a.
Proof.
  induction a as [|x a IH]; intros [|y b] H; cbn in H; try discriminate; [reflexivity|].
  cbn [combine map fst]. f_equal. apply IH. congruence.
Qed.

Lemma mult_hms : forall cls sh, a_multipliers cls sh = hms (hshape cls sh).
Proof.
  intros cls sh. unfold hms. rewrite <- a_dirs_hdirs. unfold a_dirs.
  rewrite map_rev, rev_involutive. symmetry. apply map_fst_combine.
  unfold a_multipliers. rewrite setup_len, map_length. reflexivity.
Qed.

Lemma hlims_hshape : forall cls (cntf : dirn -> Z) (f : dirn -> Z) sh,
  (forall d, cntf (norm_dir cls d) - 1 = f d) -> map f sh = hlims cntf (hshape cls sh).
Proof.
  intros cls cntf f sh H. unfold hlims, hshape. rewrite map_rev, rev_involutive, map_map.
  apply map_ext. intros d. symmetry. apply H.
Qed.

Lemma prod_hshape : forall cls (cntf : dirn -> Z) sh, (forall d, cntf (norm_dir cls d) = cntf d) ->
  prod_sizes (map cntf (hshape cls sh)) = prod_sizes (map cntf sh).
Proof.
  intros cls cntf sh H. unfold hshape. rewrite map_rev, prod_sizes_rev, map_map.
  f_equal. apply map_ext. exact H.
Qed.

Lemma hshape_length : forall cls sh, length (hshape cls sh) = length sh.
Proof. intros cls sh. unfold hshape. rewrite rev_length, map_length. reflexivity. Qed.

Lemma s_rank_top_grank : forall hs c, s_rank_top hs c = grank (fun x => (x - 1) / 2) fst hs c.
Proof. induction hs as [|d hs IH]; intros [|x c]; cbn [s_rank_top grank]; try reflexivity; rewrite IH; reflexivity. Qed.

Lemma s_rank_vert_grank : forall hs c, s_rank_vert hs c = grank (fun x => x / 2) nvert hs c.
Proof. induction hs as [|d hs IH]; intros [|x c]; cbn [s_rank_vert grank]; try reflexivity; rewrite IH; reflexivity. Qed.

(* ---------------------------------------------------------------- dimension and parity *)
Lemma s_dim_bounds : forall c, 0 <= s_dim c <= Z.of_nat (length c).
Proof. induction c as [|x c IH]; cbn [s_dim length]; [lia|]. destruct (Z.odd x); lia. Qed.

Lemma s_dim_all_odd : forall c, all_odd c -> s_dim c = Z.of_nat (length c).
Proof. induction 1 as [|x c Hx _ IH]; cbn [s_dim length]; [reflexivity|]. rewrite Hx, IH. lia. Qed.

Lemma s_dim_full_odd : forall c, s_dim c = Z.of_nat (length c) -> all_odd c.
Proof.
  induction c as [|x c IH]; intros H; [constructor|]. cbn [s_dim length] in H.
  pose proof (s_dim_bounds c). destruct (Z.odd x) eqn:E; [|lia].
  constructor; [exact E|]. apply IH. lia.
Qed.

Lemma s_dim_all_even : forall c, all_even c -> s_dim c = 0.
Proof.
  induction 1 as [|x c Hx _ IH]; cbn [s_dim]; [reflexivity|].
  rewrite <- Z.negb_odd in Hx. destruct (Z.odd x); [discriminate|]. rewrite IH. reflexivity.
Qed.

Lemma s_dim_zero_even : forall c, s_dim c = 0 -> all_even c.
Proof.
  induction c as [|x c IH]; intros H; [constructor|]. cbn [s_dim] in H.
  pose proof (s_dim_bounds c). destruct (Z.odd x) eqn:E; [lia|].
  constructor; [rewrite <- Z.negb_odd, E; reflexivity|]. apply IH. lia.
Qed.

(* ================================================================ F1 : top-dimensional cells *)
Lemma top_hhg : forall k, (2 * k + 1 - 1) / 2 = k.
Proof. intros k. replace (2 * k + 1 - 1) with (k * 2) by ring. apply Z.div_mul. lia. Qed.
Lemma top_hgh : forall x, Z.odd x = true -> 2 * ((x - 1) / 2) + 1 = x.
Proof. intros x H. destruct (odd_true_ex x H) as [m ->]. rewrite top_hhg. reflexivity. Qed.
Lemma top_hr1 : forall (d : dirn) x, 1 <= fst d -> 0 <= x < s_extent d -> Z.odd x = true -> 0 <= (x - 1) / 2 <= fst d - 1.
Proof.
  intros d x Hd Hx H. destruct (odd_true_ex x H) as [m ->]. rewrite top_hhg.
  unfold s_extent, extent_per in Hx. destruct (snd d); lia.
Qed.
Lemma top_hr2 : forall (d : dirn) k, 1 <= fst d -> 0 <= k <= fst d - 1 -> 0 <= 2 * k + 1 < s_extent d.
Proof. intros d k Hd Hk. unfold s_extent, extent_per. destruct (snd d); lia. Qed.

Theorem top_cells_enum : forall cls sh, wf_shape sh ->
  exists l, a_top_cells cls sh = Some l /\ NoDup l /\ Z.of_nat (length l) = prod_sizes (map fst sh) /\
  (forall t, In t l <-> (0 <= t < a_size cls sh /\ a_dim cls sh t = Z.of_nat (length sh))) /\
  (forall c, s_valid (hshape cls sh) c -> all_odd c ->
     nth_error l (Z.to_nat (s_rank_top (hshape cls sh) c)) = Some (s_index (hshape cls sh) c)).
Proof.
  intros cls sh [Hne Hall].
  pose proof (hshape_ok cls sh Hall) as Hok. pose proof (hshape_ne cls sh Hne) as Hhne.
  assert (Eprod : prod_sizes (map fst (hshape cls sh)) = prod_sizes (map fst sh))
    by (apply prod_hshape; reflexivity).
  destruct (gen_all 2 1 (fun x => (x - 1) / 2) fst Z.odd top_hhg top_hgh odd_2m1 top_hr1 top_hr2
              (fun d H => H) (hshape cls sh) (S (Z.to_nat (prod_sizes (map fst sh)))) Hhne Hok)
    as [Hrun [Hnd [Hlen [Hin Hnth]]]];
    [etransitivity; [apply Nat.eq_le_incl; apply (f_equal Z.to_nat); exact Eprod|apply Nat.le_succ_diag_r]|].
  exists (glist 2 1 fst (hshape cls sh)).
  split.
  { unfold a_top_cells. cbv zeta.
    assert (Ez : map (fun _ : dirn => 0) sh = map (fun _ : Z => 0) (map (fun d : dirn => fst d - 1) sh))
      by (rewrite map_map; reflexivity).
    rewrite Ez, (hlims_hshape cls fst (fun d : dirn => fst d - 1) sh) by reflexivity.
    rewrite mult_hms. exact Hrun. }
  split; [exact Hnd|]. split; [rewrite Hlen; exact Eprod|].
  assert (Hnth' : forall c, s_valid (hshape cls sh) c -> all_odd c ->
     nth_error (glist 2 1 fst (hshape cls sh)) (Z.to_nat (s_rank_top (hshape cls sh) c))
     = Some (s_index (hshape cls sh) c)).
  { intros c Hv Ho. rewrite s_rank_top_grank. apply Hnth; assumption. }
  split; [|exact Hnth'].
  intros t. split.
  - intros Ht. apply Hin in Ht. destruct Ht as [c [Hv [Hp ->]]].
    rewrite a_size_total. split; [apply C13_Spec.s_index_range; assumption|].
    rewrite a_dim_index by assumption. rewrite s_dim_all_odd by exact Hp.
    rewrite (s_valid_length _ _ Hv), hshape_length. reflexivity.
  - intros [Hr Hd]. rewrite a_size_total in Hr.
    pose proof (C13_Spec.s_counter_valid _ _ Hok Hr) as Hv.
    pose proof (C13_Spec.s_index_counter _ _ Hok Hr) as Hi.
    rewrite a_dim_spec in Hd by exact Hne.
    assert (Ho : all_odd (s_counter (hshape cls sh) t)).
    { apply s_dim_full_odd. rewrite Hd, (s_valid_length _ _ Hv), hshape_length. reflexivity. }
    rewrite <- Hi. eapply nth_error_In. apply Hnth'; assumption.
Qed.

(* ================================================================ F2 : vertices, periodic class *)
Lemma vert_hhg : forall k, (2 * k + 0) / 2 = k.
Proof. intros k. replace (2 * k + 0) with (k * 2) by ring. apply Z.div_mul. lia. Qed.
Lemma even_true_ex : forall x, Z.even x = true -> exists m, x = 2 * m + 0.
Proof. intros x H. apply Z.even_spec in H. destruct H as [m ->]. exists m. ring. Qed.
Lemma vert_hgh : forall x, Z.even x = true -> 2 * (x / 2) + 0 = x.
Proof. intros x H. destruct (even_true_ex x H) as [m ->]. rewrite vert_hhg. reflexivity. Qed.
Lemma vert_hpar : forall k, Z.even (2 * k + 0) = true.
Proof. intros k. apply Z.even_spec. exists k. ring. Qed.
Lemma vert_hr1 : forall (d : dirn) x, 1 <= fst d -> 0 <= x < s_extent d -> Z.even x = true -> 0 <= x / 2 <= nvert d - 1.
Proof.
  intros d x Hd Hx H. destruct (even_true_ex x H) as [m ->]. rewrite vert_hhg.
  unfold s_extent, extent_per in Hx. unfold nvert. destruct (snd d); lia.
Qed.
Lemma vert_hr2 : forall (d : dirn) k, 1 <= fst d -> 0 <= k <= nvert d - 1 -> 0 <= 2 * k + 0 < s_extent d.
Proof. intros d k Hd Hk. unfold s_extent, extent_per. unfold nvert in Hk. destruct (snd d); lia. Qed.
Lemma vert_hc : forall d : dirn, 1 <= fst d -> 1 <= nvert d.
Proof. intros d H. unfold nvert. destruct (snd d); lia. Qed.

Lemma prod_nvert_le : forall sh : shape, Forall (fun d : dirn => 1 <= fst d) sh ->
  0 <= prod_sizes (map nvert sh) <= prod_sizes (map (fun d : dirn => fst d + 1) sh).
Proof.
  induction 1 as [|d sh Hd _ IH]; cbn [map]; [rewrite prod_sizes_nil; lia|].
  rewrite !prod_sizes_cons. pose proof (vert_hc d Hd). assert (nvert d <= fst d + 1) by (unfold nvert; destruct (snd d); lia).
  nia.
Qed.

Theorem vertices_per_enum : forall sh, wf_shape sh ->
  exists l, a_vertices_per sh = Some l /\ NoDup l /\
  (forall t, In t l <-> (0 <= t < a_size true sh /\ a_dim true sh t = 0)) /\
  (forall c, s_valid (hshape true sh) c -> all_even c ->
     nth_error l (Z.to_nat (s_rank_vert (hshape true sh) c)) = Some (s_index (hshape true sh) c)).
Proof.
  intros sh [Hne Hall].
  pose proof (hshape_ok true sh Hall) as Hok. pose proof (hshape_ne true sh Hne) as Hhne.
  assert (Eprod : prod_sizes (map nvert (hshape true sh)) = prod_sizes (map nvert sh))
    by (apply prod_hshape; reflexivity).
  destruct (gen_all 2 0 (fun x => x / 2) nvert Z.even vert_hhg vert_hgh vert_hpar vert_hr1 vert_hr2
              vert_hc (hshape true sh) (S (Z.to_nat (prod_sizes (map (fun d : dirn => fst d + 1) sh)))) Hhne Hok)
    as [Hrun [Hnd [Hlen [Hin Hnth]]]].
  { rewrite Eprod. pose proof (prod_nvert_le sh Hall). lia. }
  exists (glist 2 0 nvert (hshape true sh)).
  split.
  { unfold a_vertices_per. cbv zeta.
    assert (Ez : map (fun _ : dirn => 0) sh
                 = map (fun _ : Z => 0) (map (fun d : dirn => fst d - (if snd d then 1 else 0)) sh))
      by (rewrite map_map; reflexivity).
    rewrite Ez, (hlims_hshape true nvert (fun d : dirn => fst d - (if snd d then 1 else 0)) sh).
    - rewrite mult_hms. exact Hrun.
    - intros d. unfold nvert, norm_dir. cbn [fst snd andb]. destruct (snd d); lia. }
  split; [exact Hnd|].
  assert (Hnth' : forall c, s_valid (hshape true sh) c -> all_even c ->
     nth_error (glist 2 0 nvert (hshape true sh)) (Z.to_nat (s_rank_vert (hshape true sh) c))
     = Some (s_index (hshape true sh) c)).
  { intros c Hv Ho. rewrite s_rank_vert_grank. apply Hnth; assumption. }
  split; [|exact Hnth'].
  intros t. split.
  - intros Ht. apply Hin in Ht. destruct Ht as [c [Hv [Hp ->]]].
    rewrite a_size_total. split; [apply C13_Spec.s_index_range; assumption|].
    rewrite a_dim_index by assumption. apply s_dim_all_even. exact Hp.
  - intros [Hr Hd]. rewrite a_size_total in Hr.
    pose proof (C13_Spec.s_counter_valid _ _ Hok Hr) as Hv.
    pose proof (C13_Spec.s_index_counter _ _ Hok Hr) as Hi.
    rewrite a_dim_spec in Hd by exact Hne.
    assert (Ho : all_even (s_counter (hshape true sh) t)) by (apply s_dim_zero_even; exact Hd).
    rewrite <- Hi. eapply nth_error_In. apply Hnth'; assumption.
Qed.

(* ================================================================ F3 : vertices, plain class (for_each_vertex_rec) *)
Fixpoint egrid (hs : shape) : list (list Z) :=
  match hs with
  | [] => [[]]
  | d :: hs' => flat_map (fun i => map (cons (2 * i)) (egrid hs')) (zrange 0 (fst d + 1))
  end.

Lemma map_flat_map_comm : forall (A B C : Type) (f : B -> C) (g : A -> list B) l,
  map f (flat_map g l) = flat_map (fun x => map f (g x)) l.
Proof.
  intros A B C f g l. induction l as [|a l IH]; cbn [flat_map map]; [reflexivity|].
  rewrite map_app, IH. reflexivity.
Qed.

Lemma flat_map_single : forall (A B : Type) (g : A -> B) l, flat_map (fun x => [g x]) l = map g l.
Proof. intros A B g l. induction l as [|a l IH]; cbn; [reflexivity|]. rewrite IH. reflexivity. Qed.

Lemma flat_map_ext' : forall (A B : Type) (f g : A -> list B) l, (forall a, f a = g a) -> flat_map f l = flat_map g l.
Proof. intros A B f g l H. induction l as [|a l IH]; cbn; [reflexivity|]. rewrite H, IH. reflexivity. Qed.

Lemma fev_cons : forall m d p r base,
  fev ((m, d) :: p :: r) base = flat_map (fun i => fev (p :: r) (base + m * 2 * i)) (zrange 0 (fst d + 1)).
Proof. reflexivity. Qed.

Lemma fev_spec : forall hs base, hs <> [] -> fev (hdirs hs) base = map (fun c => base + s_index hs c) (egrid hs).
Proof.
  induction hs as [|d hs' IH]; intros base Hne; [congruence|].
  destruct hs' as [|d' hs''].
  - cbn [hdirs fev egrid]. rewrite map_flat_map_comm. cbn [map]. rewrite flat_map_single.
    apply map_ext. intros i. cbn [s_index s_total]. ring.
  - remember (d' :: hs'') as hs' eqn:Ehs. cbn [hdirs egrid].
    destruct (hdirs hs') as [|p rr] eqn:Eh; [subst hs'; discriminate|].
    rewrite fev_cons. rewrite map_flat_map_comm. apply flat_map_ext'. intros i.
    rewrite IH by (subst hs'; discriminate). rewrite map_map. apply map_ext. intros c.
    cbn [s_index]. ring.
Qed.

Lemma In_egrid : forall hs c, sok hs -> nonper hs -> (In c (egrid hs) <-> (s_valid hs c /\ all_even c)).
Proof.
  induction hs as [|d hs IH]; intros c Hok Hnp.
  - cbn [egrid In s_valid]. split.
    + intros [<-|[]]. split; [exact I|constructor].
    + intros [Hv _]. destruct c; [left; reflexivity|contradiction].
  - inversion Hok as [|? ? Hd Hok']; inversion Hnp as [|? ? Hs Hnp']; subst. cbn [egrid]. rewrite in_flat_map. split.
    + intros [i [Hi Hc]]. unfold zrange in Hi. apply in_zrange_nat in Hi.
      apply in_map_iff in Hc. destruct Hc as [c' [<- Hc']]. apply IH in Hc'; try assumption.
      destruct Hc' as [Hv He]. split.
      * cbn [s_valid]. split; [|exact Hv]. unfold s_extent, extent_per. rewrite Hs. lia.
      * constructor; [|exact He]. apply Z.even_spec. exists i. reflexivity.
    + intros [Hv He]. destruct c as [|x c']; cbn [s_valid] in Hv; [contradiction|]. destruct Hv as [Hx Hv].
      inversion He as [|? ? Hex He']; subst. destruct (even_true_ex x Hex) as [m ->].
      unfold s_extent, extent_per in Hx. rewrite Hs in Hx.
      exists m. split.
      * unfold zrange. apply in_zrange_nat. lia.
      * apply in_map_iff. exists c'. split; [f_equal; ring|]. apply IH; try assumption. split; assumption.
Qed.

Lemma NoDup_app_intro : forall (A : Type) (a b : list A),
  NoDup a -> NoDup b -> (forall x, In x a -> ~ In x b) -> NoDup (a ++ b).
Proof.
  intros A a b Ha. induction Ha as [|x a Hx Ha IH]; intros Hb Hd; cbn [app]; [exact Hb|].
  constructor.
  - intro Hin. apply in_app_or in Hin. destruct Hin as [Hin|Hin]; [exact (Hx Hin)|].
    exact (Hd x (or_introl eq_refl) Hin).
  - apply IH; [exact Hb|]. intros y Hy. apply Hd. right; exact Hy.
Qed.

Lemma NoDup_egrid_step : forall (L : list (list Z)) xs, NoDup L -> NoDup xs ->
  NoDup (flat_map (fun i => map (cons (2 * i)) L) xs).
Proof.
  intros L xs HL Hxs. induction Hxs as [|a xs Ha Hxs IH]; cbn [flat_map]; [constructor|].
  apply NoDup_app_intro.
  - apply NoDup_map_in; [|exact HL]. intros x y _ _ E. injection E as E. exact E.
  - exact IH.
  - intros c Hc Hc2. apply in_map_iff in Hc. destruct Hc as [c' [<- _]].
    apply in_flat_map in Hc2. destruct Hc2 as [b [Hb Hc2]]. apply in_map_iff in Hc2.
    destruct Hc2 as [c2 [E _]]. apply (f_equal (fun l => hd 0 l)) in E. cbn [hd] in E. apply Ha. replace a with b by lia. exact Hb.
Qed.

Lemma NoDup_egrid : forall hs, NoDup (egrid hs).
Proof.
  induction hs as [|d hs IH]; cbn [egrid].
  - constructor; [intros []|constructor].
  - apply NoDup_egrid_step; [exact IH|]. unfold zrange. apply NoDup_zrange_nat.
Qed.

Lemma flat_map_length_const : forall (A B : Type) (f : A -> list B) n l, (forall a, length (f a) = n) ->
  length (flat_map f l) = (length l * n)%nat.
Proof.
  intros A B f n l H. induction l as [|a l IH]; cbn [flat_map length]; [reflexivity|].
  rewrite app_length, H, IH. lia.
Qed.

Lemma egrid_length : forall hs, sok hs -> nonper hs -> Z.of_nat (length (egrid hs)) = prod_sizes (map nvert hs).
Proof.
  induction hs as [|d hs IH]; intros Hok Hnp; [reflexivity|].
  inversion Hok as [|? ? Hd Hok']; inversion Hnp as [|? ? Hs Hnp']; subst. cbn [egrid map].
  rewrite prod_sizes_cons, <- IH by assumption.
  rewrite (flat_map_length_const _ _ _ (length (egrid hs))) by (intros a; apply map_length).
  unfold zrange. rewrite length_zrange_nat. unfold nvert. rewrite Hs. nia.
Qed.

Lemma nth_error_flat_map_block : forall (A : Type) (f : Z -> list A) B, (forall i, length (f i) = B) ->
  forall n a i j, (i < n)%nat -> (j < B)%nat ->
  nth_error (flat_map f (zrange_nat a n)) (i * B + j) = nth_error (f (a + Z.of_nat i)) j.
Proof.
  intros A f B H. induction n as [|n IH]; intros a i j Hi Hj; [lia|].
  cbn [zrange_nat flat_map]. destruct i as [|i].
  - cbn [Nat.mul Nat.add]. rewrite nth_error_app1 by (rewrite H; lia).
    replace (a + Z.of_nat 0) with a by lia. reflexivity.
  - rewrite nth_error_app2 by (rewrite H; lia). rewrite H.
    replace (S i * B + j - B)%nat with (i * B + j)%nat by lia.
    rewrite IH by lia. f_equal. f_equal. lia.
Qed.

Lemma rank_vert_range : forall hs c, sok hs -> s_valid hs c -> all_even c ->
  0 <= s_rank_vert hs c < prod_sizes (map nvert hs).
Proof.
  intros hs c Hok Hv He. rewrite s_rank_vert_grank.
  pose proof (inb_kc (fun x => x / 2) nvert Z.even vert_hr1 hs c Hok Hv He) as Hb.
  apply enc_range in Hb. rewrite enc_kc in Hb by (apply s_valid_length; exact Hv).
  rewrite ctotal_hlims in Hb. exact Hb.
Qed.

Lemma nth_egrid : forall hs c, sok hs -> nonper hs -> s_valid hs c -> all_even c ->
  nth_error (egrid hs) (Z.to_nat (s_rank_vert hs c)) = Some c.
Proof.
  induction hs as [|d hs IH]; intros c Hok Hnp Hv He.
  - destruct c; [reflexivity|contradiction].
  - inversion Hok as [|? ? Hd Hok']; inversion Hnp as [|? ? Hs Hnp']; subst.
    destruct c as [|x c']; cbn [s_valid] in Hv; [contradiction|]. destruct Hv as [Hx Hv].
    inversion He as [|? ? Hex He']; subst. destruct (even_true_ex x Hex) as [m ->].
    unfold s_extent, extent_per in Hx. rewrite Hs in Hx.
    pose proof (rank_vert_range hs c' Hok' Hv He') as Hr.
    pose proof (egrid_length hs Hok' Hnp') as Hlen.
    specialize (IH c' Hok' Hnp' Hv He').
    cbn [egrid s_rank_vert]. rewrite vert_hhg, <- Hlen. rewrite <- Hlen in Hr.
    replace (Z.to_nat (m * Z.of_nat (length (egrid hs)) + s_rank_vert hs c'))
      with (Z.to_nat m * length (egrid hs) + Z.to_nat (s_rank_vert hs c'))%nat by nia.
    unfold zrange.
    rewrite (nth_error_flat_map_block _ (fun i => map (cons (2 * i)) (egrid hs)) (length (egrid hs)));
      [|intros i; apply map_length|lia|lia].
    erewrite map_nth_error by exact IH. f_equal. f_equal. lia.
Qed.

Theorem vertices_base_enum : forall sh, wf_shape sh ->
  let l := a_vertices_base sh in
  NoDup l /\
  (forall t, In t l <-> (0 <= t < a_size false sh /\ a_dim false sh t = 0)) /\
  (forall c, s_valid (hshape false sh) c -> all_even c ->
     nth_error l (Z.to_nat (s_rank_vert (hshape false sh) c)) = Some (s_index (hshape false sh) c)).
Proof.
  intros sh [Hne Hall]. cbv zeta.
  pose proof (hshape_ok false sh Hall) as Hok. pose proof (hshape_ne false sh Hne) as Hhne.
  pose proof (hshape_nonper sh) as Hnp.
  unfold a_vertices_base. rewrite a_dirs_hdirs, fev_spec by exact Hhne.
  split; [|split].
  - apply NoDup_map_in; [|apply NoDup_egrid]. intros x y Hx Hy E.
    apply In_egrid in Hx, Hy; try assumption.
    apply (C13_Spec.s_index_inj (hshape false sh) x y Hok); [tauto|tauto|lia].
  - intros t. split.
    + intros Ht. apply in_map_iff in Ht. destruct Ht as [c [<- Hc]]. apply In_egrid in Hc; try assumption.
      destruct Hc as [Hv He]. rewrite Z.add_0_l, a_size_total.
      split; [apply C13_Spec.s_index_range; assumption|].
      rewrite a_dim_index by assumption. apply s_dim_all_even. exact He.
    + intros [Hr Hd]. rewrite a_size_total in Hr.
      pose proof (C13_Spec.s_counter_valid _ _ Hok Hr) as Hv.
      pose proof (C13_Spec.s_index_counter _ _ Hok Hr) as Hi.
      rewrite a_dim_spec in Hd by exact Hne.
      assert (Ho : all_even (s_counter (hshape false sh) t)) by (apply s_dim_zero_even; exact Hd).
      apply in_map_iff. exists (s_counter (hshape false sh) t). split; [lia|].
      apply In_egrid; try assumption. split; assumption.
  - intros c Hv He. erewrite map_nth_error by (apply nth_egrid; assumption). f_equal.
Qed.

Print Assumptions assign_get.
Print Assumptions assign_other.
Print Assumptions assign_length.
Print Assumptions top_cells_enum.
Print Assumptions vertices_per_enum.
Print Assumptions vertices_base_enum.
