(* C13 — cubical complexes (Bitmap_cubical_complex_base.h, Bitmap_cubical_complex_periodic_boundary_conditions_base.h,
   Bitmap_cubical_complex.h).  Part A: algorithm model = hand transcription of the C++ index arithmetic and of the
   value propagation loops (same control flow, same order of pushes).  Part B: specification model on coordinate
   lists.  No proofs here (C13_Proofs.v).

   Conventions.  A shape is the list of directions in C++ order (direction 0 first), each direction = (size, periodic
   flag).  [cls] selects the class: false = Bitmap_cubical_complex_base (flags ignored, as the C++ does), true =
   Bitmap_cubical_complex_periodic_boundary_conditions_base.  Integers are mathematical (Z): the C++ uses 'unsigned'
   for multipliers/positions and size_t for cells; the model is faithful as long as the number of cells is < 2^32
   (ASSUMPTIONS of the plugin).  The specification part lists coordinates with the HIGHEST direction first (the order
   in which every C++ loop peels them off the index). *)
From Coq Require Import ZArith List Bool.
Require Import ReduceExec.
Import ListNotations.
Local Open Scope Z_scope.

(* ================================================================ values: doubles restricted to integers and +-inf *)
Inductive ext := MInf | Fin (z : Z) | PInf.
Definition ext_ltb (a b : ext) : bool :=
  match a, b with
  | MInf, MInf => false
  | MInf, _ => true
  | Fin _, MInf => false
  | Fin x, Fin y => x <? y
  | Fin _, PInf => true
  | PInf, _ => false
  end.
Definition ext_eqb (a b : ext) : bool :=
  match a, b with
  | MInf, MInf => true
  | Fin x, Fin y => x =? y
  | PInf, PInf => true
  | _, _ => false
  end.
Definition ext_max (a b : ext) : ext := if ext_ltb a b then b else a.   (* std::max(a,b) *)
Definition ext_min (a b : ext) : ext := if ext_ltb b a then b else a.

(* ================================================================ PART A : algorithm model *)
Definition dirn := (Z * bool)%type.
Definition shape := list dirn.
Definition extent_base (d : dirn) : Z := 2 * fst d + 1.
Definition extent_per (d : dirn) : Z := if snd d then 2 * fst d else 2 * fst d + 1.
Definition extent_of (cls : bool) : dirn -> Z := if cls then extent_per else extent_base.

(* set_up_containers (both classes): multipliers and the size of [data] *)
Fixpoint setup_loop (ext_of : dirn -> Z) (sh : shape) (multiplier : Z) : list Z * Z :=
  match sh with
  | [] => ([], multiplier)
  | d :: r => let '(ms, tot) := setup_loop ext_of r (multiplier * ext_of d) in (multiplier :: ms, tot)
  end.
Definition a_multipliers (cls : bool) (sh : shape) : list Z := fst (setup_loop (extent_of cls) sh 1).
Definition a_size (cls : bool) (sh : shape) : Z := snd (setup_loop (extent_of cls) sh 1).
(* the loops "for (i = multipliers.size(); i != 0; --i)" see (multipliers[i-1], direction i-1), highest first *)
(* the base class has no flags at all: they are normalised to false here *)
Definition norm_dir (cls : bool) (d : dirn) : dirn := (fst d, cls && snd d).
Definition a_dirs (cls : bool) (sh : shape) : list (Z * dirn) :=
  rev (combine (a_multipliers cls sh) (map (norm_dir cls) sh)).

(* compute_counter_for_given_cell; result highest direction first (before the final std::reverse) *)
Fixpoint counter_loop (dirs : list (Z * dirn)) (cell : Z) : list Z :=
  match dirs with
  | [] => [cell]
  | (m, _) :: r =>
    match r with
    | [] => [cell]                                         (* split-out last iteration: no division *)
    | _ :: _ => (cell / m) :: counter_loop r (cell mod m)
    end
  end.
Definition a_counter (cls : bool) (sh : shape) (cell : Z) : list Z := rev (counter_loop (a_dirs cls sh) cell).

(* get_dimension_of_a_cell *)
Fixpoint dim_loop (dirs : list (Z * dirn)) (cell : Z) : Z :=
  match dirs with
  | [] => if Z.odd cell then 1 else 0
  | (m, _) :: r =>
    match r with
    | [] => if Z.odd cell then 1 else 0
    | _ :: _ => (if Z.odd (cell / m) then 1 else 0) + dim_loop r (cell mod m)
    end
  end.
Definition a_dim (cls : bool) (sh : shape) (cell : Z) : Z := dim_loop (a_dirs cls sh) cell.

(* Bitmap_cubical_complex_base::get_boundary_of_a_cell *)
Fixpoint bd_base_loop (dirs : list (Z * dirn)) (cell cell1 sum : Z) : list Z :=
  match dirs with
  | [] => []
  | (m, _) :: r =>
    match r with
    | [] => if Z.odd cell1 then (if Z.odd sum then [cell + 1; cell - 1] else [cell - 1; cell + 1]) else []
    | _ :: _ =>
      let position := cell1 / m in
      let cell1' := cell1 mod m in
      if Z.odd position
      then (if Z.odd sum then [cell + m; cell - m] else [cell - m; cell + m]) ++ bd_base_loop r cell cell1' (sum + 1)
      else bd_base_loop r cell cell1' sum
    end
  end.

(* ..._periodic_boundary_conditions_base::get_boundary_of_a_cell *)
Fixpoint bd_per_loop (dirs : list (Z * dirn)) (cell cell1 sum : Z) : list Z :=
  match dirs with
  | [] => []
  | (m, d) :: r =>
    let position := cell1 / m in
    let cell1' := cell1 mod m in
    if Z.odd position
    then (if negb (snd d)
          then (if Z.odd sum then [cell - m; cell + m] else [cell + m; cell - m])
          else if negb (position =? 2 * fst d - 1)
               then (if Z.odd sum then [cell - m; cell + m] else [cell + m; cell - m])
               else (if Z.odd sum then [cell - m; cell - (2 * fst d - 1) * m]
                     else [cell - (2 * fst d - 1) * m; cell - m]))
         ++ bd_per_loop r cell cell1' (sum + 1)
    else bd_per_loop r cell cell1' sum
  end.
Definition a_bd (cls : bool) (sh : shape) (cell : Z) : list Z :=
  if cls then bd_per_loop (a_dirs cls sh) cell cell 0 else bd_base_loop (a_dirs cls sh) cell cell 0.

(* get_coboundary_of_a_cell: [dc] pairs every (multiplier, direction) with counter[i-1] *)
Fixpoint cobd_base_loop (dc : list ((Z * dirn) * Z)) (size cell cell1 : Z) : list Z :=
  match dc with
  | [] => []
  | ((m, d), cnt) :: r =>
    match r with
    | [] =>
      if Z.even cell1
      then (if (1 <? cell) && negb (cnt =? 0) then [cell - 1] else [])
           ++ (if (cell + 1 <? size) && negb (cnt =? 2 * fst d) then [cell + 1] else [])
      else []
    | _ :: _ =>
      let position := cell1 / m in
      let cell1' := cell1 mod m in
      (if Z.even position
       then (if (m <? cell) && negb (cnt =? 0) then [cell - m] else [])
            ++ (if (cell + m <? size) && negb (cnt =? 2 * fst d) then [cell + m] else [])
       else []) ++ cobd_base_loop r size cell cell1'
    end
  end.
Fixpoint cobd_per_loop (dc : list ((Z * dirn) * Z)) (size cell cell1 : Z) : list Z :=
  match dc with
  | [] => []
  | ((m, d), cnt) :: r =>
    let position := cell1 / m in
    let cell1' := cell1 mod m in
    (if Z.even position
     then (if negb (snd d)
           then (if negb (cnt =? 0) && (m <? cell) then [cell - m] else [])
                ++ (if negb (cnt =? 2 * fst d) && (cell + m <? size) then [cell + m] else [])
           else if negb (cnt =? 0) then [cell - m; cell + m]
                else [cell + m; cell + (2 * fst d - 1) * m])
     else []) ++ cobd_per_loop r size cell cell1'
  end.
Definition a_cobd (cls : bool) (sh : shape) (cell : Z) : list Z :=
  let dirs := a_dirs cls sh in
  let dc := combine dirs (counter_loop dirs cell) in
  if cls then cobd_per_loop dc (a_size cls sh) cell cell else cobd_base_loop dc (a_size cls sh) cell cell.

(* compute_incidence_between_cells (counters direction 0 first).  None = std::logic_error thrown.
   [pos] = number_of_position_in_which_counters_do_not_agree (-1 = none yet) *)
Fixpoint inc_loop (cc fc : list Z) (i pos nfull : Z) : option (Z * Z) :=
  match cc, fc with
  | c :: cc', f :: fc' =>
    let nfull' := if Z.odd c && (pos =? -1) then nfull + 1 else nfull in
    if negb (c =? f)
    then (if negb (pos =? -1) then None else inc_loop cc' fc' (i + 1) i nfull')
    else inc_loop cc' fc' (i + 1) pos nfull'
  | _, _ => Some (pos, nfull)
  end.
Definition znth (l : list Z) (i : Z) : Z := if i <? 0 then 0 else nth (Z.to_nat i) l 0.
(* Some None = exception; None = the C++ indexes a vector with -1 (identical cells): undefined, never requested *)
Definition a_inc (cls : bool) (sh : shape) (coface face : Z) : option (option Z) :=
  let cc := a_counter cls sh coface in
  let fc := a_counter cls sh face in
  match inc_loop cc fc 0 (-1) 0 with
  | None => Some None
  | Some (pos, nfull) =>
    if pos =? -1 then None else
    let incidence := if Z.odd nfull then -1 else 1 in
    let flip := if cls
                then (znth cc pos + 1 =? znth fc pos) || (negb (znth cc pos =? 1) && (znth fc pos =? 0))
                else (znth cc pos + 1 =? znth fc pos) in
    Some (Some (if flip then - incidence else incidence))
  end.

(* ---------------------------------------------------------------- iterators *)
Fixpoint zrange_nat (a : Z) (n : nat) : list Z := match n with O => [] | S k => a :: zrange_nat (a + 1) k end.
Definition zrange (a n : Z) : list Z := zrange_nat a (Z.to_nat n).         (* a, a+1, ..., a+n-1 *)

(* operator++ of Top_dimensional_cells_iterator / periodic Vertices_iterator; [lims] = last value per direction *)
Fixpoint incr (lims counter : list Z) : option (list Z) :=
  match lims, counter with
  | l :: ls, c :: cs =>
    if c =? l then (match incr ls cs with Some cs' => Some (0 :: cs') | None => None end) else Some ((c + 1) :: cs)
  | _, _ => None
  end.
Definition it_next (lims counter : list Z) : list Z :=
  match incr lims counter with
  | Some c => c
  | None => match counter with c0 :: r => (c0 + 1) :: r | [] => [] end
  end.
Definition it_end (lims : list Z) : list Z := match lims with l0 :: r => (l0 + 1) :: r | [] => [] end.
Fixpoint list_eqb (a b : list Z) : bool :=
  match a, b with
  | [], [] => true
  | x :: a', y :: b' => (x =? y) && list_eqb a' b'
  | _, _ => false
  end.
(* compute_index_in_bitmap: sum (mul*counter[i] + add) * multipliers[i] *)
Fixpoint it_index (mul add : Z) (ms counter : list Z) : Z :=
  match ms, counter with
  | m :: ms', c :: cs => (mul * c + add) * m + it_index mul add ms' cs
  | _, _ => 0
  end.
Fixpoint it_loop (fuel : nat) (mul add : Z) (ms lims endc counter : list Z) (acc : list Z) : option (list Z) :=
  if list_eqb counter endc then Some (rev acc) else
  match fuel with
  | O => None
  | S f => it_loop f mul add ms lims endc (it_next lims counter) (it_index mul add ms counter :: acc)
  end.
Definition prod_sizes (l : list Z) : Z := fold_left Z.mul l 1.
Definition a_top_cells (cls : bool) (sh : shape) : option (list Z) :=
  let lims := map (fun d : dirn => fst d - 1) sh in
  it_loop (S (Z.to_nat (prod_sizes (map fst sh)))) 2 1 (a_multipliers cls sh) lims (it_end lims) (map (fun _ : dirn => 0) sh) [].
Definition a_vertices_per (sh : shape) : option (list Z) :=
  let lims := map (fun d : dirn => fst d - (if snd d then 1 else 0)) sh in
  it_loop (S (Z.to_nat (prod_sizes (map (fun d : dirn => fst d + 1) sh)))) 2 0 (a_multipliers true sh) lims (it_end lims)
          (map (fun _ : dirn => 0) sh) [].
(* for_each_vertex_rec of the base class *)
Fixpoint fev (dirs : list (Z * dirn)) (base : Z) : list Z :=
  match dirs with
  | [] => []
  | (m, d) :: r =>
    match r with
    | [] => map (fun i => base + 2 * i) (zrange 0 (fst d + 1))
    | _ :: _ => flat_map (fun i => fev r (base + m * 2 * i)) (zrange 0 (fst d + 1))
    end
  end.
Definition a_vertices_base (sh : shape) : list Z := fev (a_dirs false sh) 0.

(* ---------------------------------------------------------------- data *)
Definition getd (data : list ext) (i : Z) : ext := if i <? 0 then PInf else nth (Z.to_nat i) data PInf.
Definition getb (l : list bool) (i : Z) : bool := if i <? 0 then true else nth (Z.to_nat i) l true.
Fixpoint upd_nat {A} (l : list A) (n : nat) (v : A) : list A :=
  match l, n with
  | [], _ => []
  | _ :: t, O => v :: t
  | h :: t, S k => h :: upd_nat t k v
  end.
Definition upd {A} (l : list A) (i : Z) (v : A) : list A := if i <? 0 then l else upd_nat l (Z.to_nat i) v.
Fixpoint assign (data : list ext) (cells : list Z) (vals : list ext) : list ext :=
  match cells, vals with
  | c :: cs, v :: vs => assign (upd data c v) cs vs
  | _, _ => data
  end.

(* impose_lower_star_filtration (both classes, through the virtual boundary) and the periodic
   impose_lower_star_filtration_from_vertices (through the coboundary): [better a b] = "a replaces b" *)
Fixpoint star_cell (better : ext -> ext -> bool) (nb : list Z) (index : Z) (st : list ext * list bool * list Z)
  : list ext * list bool * list Z :=
  match nb with
  | [] => st
  | b :: bs =>
    let '(data, considered, new) := st in
    let data' := if better (getd data index) (getd data b) then upd data b (getd data index) else data in
    let st' := if getb considered b then (data', considered, new) else (data', upd considered b true, b :: new) in
    star_cell better bs index st'
  end.
Fixpoint star_round (better : ext -> ext -> bool) (nbf : Z -> list Z) (todo : list Z)
  (st : list ext * list bool * list Z) : list ext * list bool * list Z :=
  match todo with
  | [] => st
  | i :: t => star_round better nbf t (star_cell better (nbf i) i st)
  end.
Fixpoint star_rounds (fuel : nat) (better : ext -> ext -> bool) (nbf : Z -> list Z) (todo : list Z)
  (data : list ext) (considered : list bool) : option (list ext) :=
  match todo with
  | [] => Some data
  | _ :: _ =>
    match fuel with
    | O => None
    | S f => let '(data', considered', new) := star_round better nbf todo (data, considered, []) in
             star_rounds f better nbf (rev new) data' considered'
    end
  end.
(* data[boundary] > data[index]  /  data[coboundary] < data[index] *)
Definition better_low (vi vb : ext) : bool := ext_ltb vi vb.
Definition better_high (vi vb : ext) : bool := ext_ltb vb vi.

(* propagate_from_vertices_rec of the base class; [dirs] = the not yet fixed directions (index, multiplier, size),
   highest first *)
Fixpoint prop_line (n : nat) (i : Z) (step base : Z) (data : list ext) : list ext :=
  match n with
  | O => data
  | S k => let ref := base + step * 2 * i in
           prop_line k (i + 1) step base (upd data (ref + step) (ext_max (getd data ref) (getd data (ref + 2 * step))))
  end.
Fixpoint prop_rec (special : Z) (sp_m sp_s : Z) (dirs : list (Z * Z * Z)) (base : Z) (data : list ext) : list ext :=
  match dirs with
  | [] => prop_line (Z.to_nat sp_s) 0 sp_m base data
  | (cd, m, s) :: r =>
    if cd =? special then prop_rec special sp_m sp_s r base data
    else if cd <? special
         then fold_left (fun dt i => prop_rec special sp_m sp_s r (base + m * 2 * i) dt) (zrange 0 (s + 1)) data
         else fold_left (fun dt i => prop_rec special sp_m sp_s r (base + m * i) dt) (zrange 0 (2 * s + 1)) data
  end.
Definition idirs (sh : shape) : list (Z * Z * Z) :=
  rev (combine (combine (zrange 0 (Z.of_nat (length sh))) (a_multipliers false sh)) (map fst sh)).
Definition a_from_vertices_base (sh : shape) (data : list ext) : list ext :=
  let ds := idirs sh in
  fold_left (fun dt d => let '(cd, m, s) := d in prop_rec cd m s ds 0 dt) ds data.

(* constructors: (dims, values, input_top_cells) -> (shape of the complex, data) *)
Definition a_build (cls : bool) (dims : shape) (top : bool) (vals : list ext) : option (shape * list ext) :=
  if top then
    let sh := dims in
    let n := a_size cls sh in
    match a_top_cells cls sh with
    | None => None
    | Some tc =>
      let data := assign (repeat PInf (Z.to_nat n)) tc vals in
      match star_rounds (S (S (length sh))) better_low (a_bd cls sh) tc data (repeat false (Z.to_nat n)) with
      | Some d => Some (sh, d)
      | None => None
      end
    end
  else if cls then
    let sh := map (fun d : dirn => (fst d - (if snd d then 0 else 1), snd d)) dims in
    let n := a_size cls sh in
    match a_vertices_per sh with
    | None => None
    | Some vs =>
      let data := assign (repeat MInf (Z.to_nat n)) vs vals in
      match star_rounds (S (S (length sh))) better_high (a_cobd cls sh) vs data (repeat false (Z.to_nat n)) with
      | Some d => Some (sh, d)
      | None => None
      end
    end
  else
    let sh := map (fun d : dirn => (fst d - 1, snd d)) dims in
    let n := a_size cls sh in
    let data := assign (repeat MInf (Z.to_nat n)) (a_vertices_base sh) vals in
    Some (sh, a_from_vertices_base sh data).

(* ---------------------------------------------------------------- filtration order (is_before_in_filtration) *)
Definition key := (ext * Z * Z)%type.      (* value, dimension, index *)
Definition key_before (a b : key) : bool :=
  let '(f1, d1, s1) := a in
  let '(f2, d2, s2) := b in
  if negb (ext_eqb f1 f2) then ext_ltb f1 f2
  else if negb (d1 =? d2) then d1 <? d2
  else s1 <? s2.
Definition a_key (cls : bool) (sh : shape) (data : list ext) (c : Z) : key := (getd data c, a_dim cls sh c, c).
(* std::sort / tbb::parallel_sort: any sorting algorithm; modelled by insertion (the result is the unique sorted
   arrangement because key_before is a strict total order: theorem C13_filtration_unique) *)
Fixpoint insert_key (x : key) (l : list key) : list key :=
  match l with
  | [] => [x]
  | y :: t => if key_before y x then y :: insert_key x t else x :: l
  end.
Definition sort_keys (l : list key) : list key := fold_right insert_key [] l.
Definition a_filtration (cls : bool) (sh : shape) (data : list ext) : list Z :=
  map (fun k => snd k) (sort_keys (map (a_key cls sh data) (zrange 0 (a_size cls sh)))).

(* ---------------------------------------------------------------- persistence oracle (certified reduction) *)
Fixpoint pos_in (order : list Z) (c : Z) (i : nat) : nat :=
  match order with
  | [] => i
  | x :: r => if x =? c then i else pos_in r c (S i)
  end.
Fixpoint alt_signs {A} (sgn : Z) (l : list A) : list (A * Z) :=
  match l with
  | [] => []
  | a :: t => (a, sgn) :: alt_signs (- sgn) t
  end.
(* boundary matrix in filtration order, signs alternating along the enumeration *)
Definition a_bmatrix (order : list Z) (bdf : Z -> list Z) : list (list (nat * Z)) :=
  map (fun c => alt_signs 1 (map (fun f => pos_in order f O) (bdf c))) order.
Definition a_pairs (p : Z) (order : list Z) (bdf : Z -> list Z) : option (list (nat * option nat)) :=
  match certified_lows p (dense_of_sparse (length order) (a_bmatrix order bdf)) with
  | Some l => Some (pairs_of_lows l)
  | None => None
  end.

(* ================================================================ PART B : specification model *)
(* coordinates and shapes listed highest direction first *)
Definition s_extent := extent_per.
Fixpoint s_total (hs : shape) : Z := match hs with [] => 1 | d :: r => s_extent d * s_total r end.
Fixpoint s_index (hs : shape) (c : list Z) : Z :=
  match hs, c with
  | _ :: hs', x :: c' => x * s_total hs' + s_index hs' c'
  | _, _ => 0
  end.
Fixpoint s_valid (hs : shape) (c : list Z) : Prop :=
  match hs, c with
  | [], [] => True
  | d :: hs', x :: c' => 0 <= x < s_extent d /\ s_valid hs' c'
  | _, _ => False
  end.
Fixpoint s_validb (hs : shape) (c : list Z) : bool :=
  match hs, c with
  | [], [] => true
  | d :: hs', x :: c' => (0 <=? x) && (x <? s_extent d) && s_validb hs' c'
  | _, _ => false
  end.
Fixpoint s_counter (hs : shape) (i : Z) : list Z :=
  match hs with
  | [] => []
  | _ :: hs' => (i / s_total hs') :: s_counter hs' (i mod s_total hs')
  end.
Fixpoint s_dim (c : list Z) : Z := match c with [] => 0 | x :: r => (if Z.odd x then 1 else 0) + s_dim r end.
Definition lo (x : Z) : Z := x - 1.
Definition hi (d : dirn) (x : Z) : Z := if snd d && (x =? 2 * fst d - 1) then 0 else x + 1.
(* the boundary in the order of the enumeration; flip = the periodic class's order; k = parity of the number of odd
   coordinates already met *)
Fixpoint s_bd (flip k : bool) (hs : shape) (c : list Z) : list (list Z) :=
  match hs, c with
  | d :: hs', x :: c' =>
    if Z.odd x
    then (if xorb flip k then [hi d x :: c'; lo x :: c'] else [lo x :: c'; hi d x :: c'])
         ++ map (cons x) (s_bd flip (negb k) hs' c')
    else map (cons x) (s_bd flip k hs' c')
  | _, _ => []
  end.
Definition cob_dir (d : dirn) (x : Z) : list Z :=
  if Z.even x
  then (if snd d then (if x =? 0 then [x + 1; 2 * fst d - 1] else [x - 1; x + 1])
        else (if x =? 0 then [] else [x - 1]) ++ (if x =? 2 * fst d then [] else [x + 1]))
  else [].
Fixpoint s_cobd (hs : shape) (c : list Z) : list (list Z) :=
  match hs, c with
  | d :: hs', x :: c' => map (fun y => y :: c') (cob_dir d x) ++ map (cons x) (s_cobd hs' c')
  | _, _ => []
  end.
(* signed chains: the enumeration with alternating signs, and the boundary of a chain *)
Definition chain := list (Z * list Z).
Fixpoint alt (sgn : Z) (l : list (list Z)) : chain :=
  match l with
  | [] => []
  | a :: t => (sgn, a) :: alt (- sgn) t
  end.
Definition s_sbd (flip : bool) (hs : shape) (c : list Z) : chain := alt 1 (s_bd flip false hs c).
Definition scale (s : Z) (l : chain) : chain := map (fun tc => (s * fst tc, snd tc)) l.
Definition s_sbd_chain (flip : bool) (hs : shape) (l : chain) : chain :=
  flat_map (fun sc => scale (fst sc) (s_sbd flip hs (snd sc))) l.
Definition coef (l : chain) (y : list Z) : Z :=
  fold_right (fun sc acc => (if list_eqb (snd sc) y then fst sc else 0) + acc) 0 l.
(* geometric incidence: the face is [c] with coordinate number j (from the highest) replaced by its lower / upper
   neighbour; sign of the documentation of compute_incidence_between_cells: c * (-1)^(number of odd coordinates in
   LOWER directions), c = -1 for the lower end, +1 for the upper end *)

Fixpoint s_inc (hs : shape) (c f : list Z) : option Z :=
  match hs, c, f with
  | d :: hs', x :: c', y :: f' =>
    if x =? y then s_inc hs' c' f'
    else if list_eqb c' f' && Z.odd x
         then let sg := if Z.odd (s_dim c') then -1 else 1 in
              if y =? lo x then Some (- sg) else if y =? hi d x then Some sg else None
         else None
  | _, _, _ => None
  end.

(* all top cells containing c / all vertices of c *)
Definition top_dir (d : dirn) (x : Z) : list Z :=
  if Z.odd x then [x]
  else if snd d then [(if x =? 0 then 2 * fst d - 1 else x - 1); x + 1]
       else (if x =? 0 then [] else [x - 1]) ++ (if x =? 2 * fst d then [] else [x + 1]).
Definition vert_dir (d : dirn) (x : Z) : list Z := if Z.odd x then [lo x; hi d x] else [x].
Fixpoint s_prod (f : dirn -> Z -> list Z) (hs : shape) (c : list Z) : list (list Z) :=
  match hs, c with
  | d :: hs', x :: c' => flat_map (fun y => map (cons y) (s_prod f hs' c')) (f d x)
  | _, _ => [[]]
  end.
Definition s_star (hs : shape) (c : list Z) : list (list Z) := s_prod top_dir hs c.
Definition s_verts (hs : shape) (c : list Z) : list (list Z) := s_prod vert_dir hs c.
(* rank of a top cell / vertex in the input vector (lowest direction fastest) *)
Fixpoint s_rank_top (hs : shape) (c : list Z) : Z :=
  match hs, c with
  | _ :: hs', x :: c' => ((x - 1) / 2) * prod_sizes (map fst hs') + s_rank_top hs' c'
  | _, _ => 0
  end.
Definition nvert (d : dirn) : Z := if snd d then fst d else fst d + 1.
Fixpoint s_rank_vert (hs : shape) (c : list Z) : Z :=
  match hs, c with
  | _ :: hs', x :: c' => (x / 2) * prod_sizes (map nvert hs') + s_rank_vert hs' c'
  | _, _ => 0
  end.
Definition nthv (vals : list ext) (i : Z) : ext := if i <? 0 then PInf else nth (Z.to_nat i) vals PInf.
Definition s_value_top (hs : shape) (vals : list ext) (c : list Z) : ext :=
  fold_right ext_min PInf (map (fun t => nthv vals (s_rank_top hs t)) (s_star hs c)).
Definition s_value_vert (hs : shape) (vals : list ext) (c : list Z) : ext :=
  fold_right ext_max MInf (map (fun t => nthv vals (s_rank_vert hs t)) (s_verts hs c)).
(* bridge used by the theorems and the oracle: the shape seen by the specification *)
Definition hshape (cls : bool) (sh : shape) : shape := rev (map (norm_dir cls) sh).
(* what the loops see, in terms of the specification shape *)
Fixpoint hdirs (hs : shape) : list (Z * dirn) := match hs with [] => [] | d :: r => (s_total r, d) :: hdirs r end.
Definition s_index_of (cls : bool) (sh : shape) (c : list Z) : Z := s_index (hshape cls sh) c.
Definition s_counter_of (cls : bool) (sh : shape) (i : Z) : list Z := s_counter (hshape cls sh) i.

(* sanity examples (tests, not theorems): the 3x3 grid of the GUDHI documentation *)
Example ex_bd_base : a_bd false [(3, false); (3, false)] 24 = [17; 31; 25; 23]. Proof. reflexivity. Qed.
Example ex_dd_zero : forall y, In y [[2;2];[2;4];[4;2];[4;4]] ->
  coef (s_sbd_chain false [(3,false);(3,false)] (s_sbd false [(3,false);(3,false)] [3;3])) y = 0.
Proof. intros y H. repeat (destruct H as [<-|H]; [reflexivity|]). destruct H. Qed.
