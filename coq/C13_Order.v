(* C13 -- the filtration order of the cubical complex model (C13_Model.v): the comparison is a strict total order,
   the modelled sort returns the unique sorted arrangement (independent of the sorting algorithm), and the
   filtration lists every cell once, values non-decreasing, lower dimension first among equal values. *)
From Coq Require Import ZArith List Bool Lia ZifyBool Sorting Permutation.
Require Import C13_Model.
Import ListNotations.
Local Open Scope Z_scope.

(* ================================================================ 1. the order on values *)
Lemma ext_ltb_irrefl : forall a, ext_ltb a a = false.
Proof. destruct a; simpl; auto. apply Z.ltb_irrefl. Qed.

Lemma ext_ltb_trans : forall a b c, ext_ltb a b = true -> ext_ltb b c = true -> ext_ltb a c = true.
Proof. destruct a, b, c; simpl; try congruence; lia. Qed.

Lemma ext_ltb_asym : forall a b, ext_ltb a b = true -> ext_ltb b a = false.
Proof.
  intros a b H. destruct (ext_ltb b a) eqn:E; auto.
  pose proof (ext_ltb_trans _ _ _ H E) as T. rewrite ext_ltb_irrefl in T. discriminate.
Qed.

Lemma ext_ltb_total : forall a b, ext_ltb a b = true \/ a = b \/ ext_ltb b a = true.
Proof.
  destruct a as [|x|], b as [|y|]; simpl; auto.
  destruct (Z.lt_trichotomy x y) as [H|[H|H]].
  - left; lia.
  - right; left; f_equal; exact H.
  - right; right; lia.
Qed.

Lemma ext_eqb_eq : forall a b, ext_eqb a b = true <-> a = b.
Proof.
  destruct a as [|x|], b as [|y|]; simpl; split; intro H; try reflexivity; try discriminate.
  - f_equal; lia.
  - inversion H; lia.
Qed.

Lemma ext_eqb_refl : forall a, ext_eqb a a = true.
Proof. intros a. apply ext_eqb_eq. reflexivity. Qed.

Definition ext_leb (a b : ext) : bool := negb (ext_ltb b a).

Lemma ext_leb_refl : forall a, ext_leb a a = true.
Proof. intros a. unfold ext_leb. rewrite ext_ltb_irrefl. reflexivity. Qed.

Lemma ext_leb_trans : forall a b c, ext_leb a b = true -> ext_leb b c = true -> ext_leb a c = true.
Proof. unfold ext_leb. destruct a, b, c; simpl; try congruence; lia. Qed.

Lemma ext_leb_antisym : forall a b, ext_leb a b = true -> ext_leb b a = true -> a = b.
Proof.
  unfold ext_leb. destruct a, b; simpl; try congruence; try discriminate.
  intros H1 H2. f_equal. lia.
Qed.

Lemma ext_leb_total : forall a b, ext_leb a b = true \/ ext_leb b a = true.
Proof. unfold ext_leb. destruct a, b; simpl; auto. lia. Qed.

Lemma ext_min_cases : forall a b, ext_min a b = a \/ ext_min a b = b.
Proof. intros a b. unfold ext_min. destruct (ext_ltb b a); auto. Qed.

Lemma ext_min_le_l : forall a b, ext_leb (ext_min a b) a = true.
Proof.
  intros a b. unfold ext_min. destruct (ext_ltb b a) eqn:E.
  - unfold ext_leb. rewrite (ext_ltb_asym _ _ E). reflexivity.
  - apply ext_leb_refl.
Qed.

Lemma ext_min_le_r : forall a b, ext_leb (ext_min a b) b = true.
Proof.
  intros a b. unfold ext_min. destruct (ext_ltb b a) eqn:E.
  - apply ext_leb_refl.
  - unfold ext_leb. rewrite E. reflexivity.
Qed.

Lemma ext_min_glb : forall a b c, ext_leb c a = true -> ext_leb c b = true -> ext_leb c (ext_min a b) = true.
Proof. intros a b c Ha Hb. destruct (ext_min_cases a b) as [E|E]; rewrite E; assumption. Qed.

Lemma ext_max_cases : forall a b, ext_max a b = a \/ ext_max a b = b.
Proof. intros a b. unfold ext_max. destruct (ext_ltb a b); auto. Qed.

Lemma ext_max_ge_l : forall a b, ext_leb a (ext_max a b) = true.
Proof.
  intros a b. unfold ext_max. destruct (ext_ltb a b) eqn:E.
  - unfold ext_leb. rewrite (ext_ltb_asym _ _ E). reflexivity.
  - apply ext_leb_refl.
Qed.

Lemma ext_max_ge_r : forall a b, ext_leb b (ext_max a b) = true.
Proof.
  intros a b. unfold ext_max. destruct (ext_ltb a b) eqn:E.
  - apply ext_leb_refl.
  - unfold ext_leb. rewrite E. reflexivity.
Qed.

Lemma ext_max_lub : forall a b c, ext_leb a c = true -> ext_leb b c = true -> ext_leb (ext_max a b) c = true.
Proof. intros a b c Ha Hb. destruct (ext_max_cases a b) as [E|E]; rewrite E; assumption. Qed.

Lemma fold_min_spec : forall l,
  (forall v, In v l -> ext_leb (fold_right ext_min PInf l) v = true) /\
  (l <> [] -> In (fold_right ext_min PInf l) l).
Proof.
  induction l as [|a l [IH1 IH2]].
  - split; [intros v []|intros H; congruence].
  - split.
    + intros v [<-|Hin]; cbn [fold_right].
      * apply ext_min_le_l.
      * eapply ext_leb_trans; [apply ext_min_le_r|apply IH1; exact Hin].
    + intros _. cbn [fold_right].
      destruct (ext_min_cases a (fold_right ext_min PInf l)) as [E|E].
      * rewrite E. left; reflexivity.
      * destruct l as [|b l'].
        -- left. cbn. unfold ext_min. destruct a; reflexivity.
        -- rewrite E. right. apply IH2. discriminate.
Qed.

Lemma fold_min_nil_or_PInf : forall l, (forall v, In v l -> v = PInf) -> fold_right ext_min PInf l = PInf.
Proof.
  induction l as [|a l IH]; intros H; cbn [fold_right]; auto.
  rewrite IH by (intros v Hv; apply H; right; exact Hv).
  rewrite (H a) by (left; reflexivity). reflexivity.
Qed.

Lemma fold_max_spec : forall l,
  (forall v, In v l -> ext_leb v (fold_right ext_max MInf l) = true) /\
  (l <> [] -> In (fold_right ext_max MInf l) l).
Proof.
  induction l as [|a l [IH1 IH2]].
  - split; [intros v []|intros H; congruence].
  - split.
    + intros v [<-|Hin]; cbn [fold_right].
      * apply ext_max_ge_l.
      * eapply ext_leb_trans; [apply IH1; exact Hin|apply ext_max_ge_r].
    + intros _. cbn [fold_right].
      destruct (ext_max_cases a (fold_right ext_max MInf l)) as [E|E].
      * rewrite E. left; reflexivity.
      * destruct l as [|b l'].
        -- left. cbn. unfold ext_max. destruct a; reflexivity.
        -- rewrite E. right. apply IH2. discriminate.
Qed.

(* ================================================================ 2. key_before is a strict total order *)
Lemma key_before_spec : forall f1 d1 s1 f2 d2 s2,
  key_before (f1, d1, s1) (f2, d2, s2) = true <->
  ext_ltb f1 f2 = true \/ (f1 = f2 /\ (d1 < d2 \/ (d1 = d2 /\ s1 < s2))).
Proof.
  intros f1 d1 s1 f2 d2 s2. unfold key_before.
  destruct (ext_eqb f1 f2) eqn:E; cbn [negb].
  - apply ext_eqb_eq in E. subst f2.
    destruct (d1 =? d2) eqn:E2; cbn [negb]; split.
    + intros H. right. split; [reflexivity|]. lia.
    + intros [H|[_ H]]; [rewrite ext_ltb_irrefl in H; discriminate|lia].
    + intros H. right. split; [reflexivity|]. lia.
    + intros [H|[_ H]]; [rewrite ext_ltb_irrefl in H; discriminate|lia].
  - split.
    + intros H; left; exact H.
    + intros [H|[H _]]; [exact H|]. subst f2. rewrite ext_eqb_refl in E. discriminate.
Qed.

Lemma key_before_irrefl : forall a, key_before a a = false.
Proof.
  intros [[f d] s]. destruct (key_before (f, d, s) (f, d, s)) eqn:E; auto.
  apply key_before_spec in E. destruct E as [E|[_ E]].
  - rewrite ext_ltb_irrefl in E. discriminate.
  - lia.
Qed.

Lemma key_before_trans : forall a b c, key_before a b = true -> key_before b c = true -> key_before a c = true.
Proof.
  intros [[f1 d1] s1] [[f2 d2] s2] [[f3 d3] s3] H1 H2.
  apply key_before_spec in H1. apply key_before_spec in H2. apply key_before_spec.
  destruct H1 as [H1|[E1 H1]]; destruct H2 as [H2|[E2 H2]].
  - left. eapply ext_ltb_trans; eassumption.
  - subst f3. left; exact H1.
  - subst f2. left; exact H2.
  - subst f2 f3. right. split; [reflexivity|lia].
Qed.

Lemma key_before_total : forall a b, key_before a b = true \/ a = b \/ key_before b a = true.
Proof.
  intros [[f1 d1] s1] [[f2 d2] s2].
  destruct (ext_ltb_total f1 f2) as [H|[H|H]].
  - left. apply key_before_spec. left; exact H.
  - subst f2.
    destruct (Z.lt_trichotomy d1 d2) as [Hd|[Hd|Hd]].
    + left. apply key_before_spec. right. split; [reflexivity|lia].
    + subst d2. destruct (Z.lt_trichotomy s1 s2) as [Hs|[Hs|Hs]].
      * left. apply key_before_spec. right. split; [reflexivity|lia].
      * subst s2. right; left; reflexivity.
      * right; right. apply key_before_spec. right. split; [reflexivity|lia].
    + right; right. apply key_before_spec. right. split; [reflexivity|lia].
  - right; right. apply key_before_spec. left; exact H.
Qed.

Lemma key_before_asym : forall a b, key_before a b = true -> key_before b a = false.
Proof.
  intros a b H. destruct (key_before b a) eqn:E; auto.
  pose proof (key_before_trans _ _ _ H E) as T. rewrite key_before_irrefl in T. discriminate.
Qed.

(* ================================================================ 3. sort_keys sorts *)
Definition kb (a b : key) : Prop := key_before a b = true.

Lemma insert_key_perm : forall x l, Permutation (insert_key x l) (x :: l).
Proof.
  intros x l. induction l as [|y t IH]; cbn [insert_key].
  - apply Permutation_refl.
  - destruct (key_before y x).
    + eapply perm_trans; [apply perm_skip; exact IH|apply perm_swap].
    + apply Permutation_refl.
Qed.

Lemma sort_keys_cons : forall x l, sort_keys (x :: l) = insert_key x (sort_keys l).
Proof. reflexivity. Qed.

Lemma sort_keys_perm : forall l, Permutation (sort_keys l) l.
Proof.
  induction l as [|x l IH].
  - apply Permutation_refl.
  - rewrite sort_keys_cons. eapply perm_trans; [apply insert_key_perm|apply perm_skip; exact IH].
Qed.

Lemma insert_key_sorted : forall x l,
  StronglySorted kb l -> ~ In x l -> StronglySorted kb (insert_key x l).
Proof.
  intros x l. induction l as [|y t IH]; intros Hs Hn; cbn [insert_key].
  - constructor; constructor.
  - inversion Hs as [|y' t' Hst Hall]; subst.
    destruct (key_before y x) eqn:E.
    + constructor.
      * apply IH; [exact Hst|]. intros Hin; apply Hn; right; exact Hin.
      * apply Forall_forall. intros z Hz.
        apply (Permutation_in _ (insert_key_perm x t)) in Hz.
        destruct Hz as [<-|Hz]; [exact E|].
        rewrite Forall_forall in Hall. apply Hall; exact Hz.
    + assert (Hxy : kb x y).
      { destruct (key_before_total x y) as [H|[H|H]].
        - exact H.
        - exfalso. apply Hn. left. symmetry; exact H.
        - rewrite E in H; discriminate. }
      constructor; [exact Hs|].
      constructor; [exact Hxy|].
      apply Forall_forall. intros z Hz. rewrite Forall_forall in Hall.
      unfold kb. eapply key_before_trans; [exact Hxy|apply Hall; exact Hz].
Qed.

Lemma sort_keys_sorted : forall l, NoDup l -> StronglySorted (fun a b => key_before a b = true) (sort_keys l).
Proof.
  intros l Hnd. change (StronglySorted kb (sort_keys l)).
  induction Hnd as [|x l Hn Hnd IH].
  - constructor.
  - rewrite sort_keys_cons. apply insert_key_sorted; [exact IH|].
    intros Hin. apply Hn. apply (Permutation_in _ (sort_keys_perm l)); exact Hin.
Qed.

(* without NoDup: sorted for the non-strict relation *)
Lemma insert_key_sorted_weak : forall x l,
  StronglySorted (fun a b => key_before b a = false) l ->
  StronglySorted (fun a b => key_before b a = false) (insert_key x l).
Proof.
  intros x l. induction l as [|y t IH]; intros Hs; cbn [insert_key].
  - constructor; constructor.
  - inversion Hs as [|y' t' Hst Hall]; subst.
    destruct (key_before y x) eqn:E.
    + constructor; [apply IH; exact Hst|].
      apply Forall_forall. intros z Hz.
      apply (Permutation_in _ (insert_key_perm x t)) in Hz.
      destruct Hz as [<-|Hz]; [apply key_before_asym; exact E|].
      rewrite Forall_forall in Hall. apply Hall; exact Hz.
    + constructor; [exact Hs|].
      constructor; [exact E|].
      apply Forall_forall. intros z Hz. rewrite Forall_forall in Hall.
      specialize (Hall z Hz). cbv beta in Hall.
      destruct (key_before z x) eqn:Ez; auto.
      destruct (key_before_total y z) as [H|[H|H]].
      * pose proof (key_before_trans _ _ _ H Ez) as T. rewrite E in T; discriminate.
      * subst z. rewrite E in Ez; discriminate.
      * rewrite Hall in H; discriminate.
Qed.

Lemma sort_keys_sorted_weak : forall l, StronglySorted (fun a b => key_before b a = false) (sort_keys l).
Proof.
  induction l as [|x l IH].
  - constructor.
  - rewrite sort_keys_cons. apply insert_key_sorted_weak; exact IH.
Qed.

(* ================================================================ 4. uniqueness of the sorted arrangement *)
Lemma sorted_perm_unique : forall l1 l2 : list key,
  Permutation l1 l2 ->
  StronglySorted (fun a b => key_before a b = true) l1 ->
  StronglySorted (fun a b => key_before a b = true) l2 -> l1 = l2.
Proof.
  induction l1 as [|a l1 IH]; intros l2 Hp H1 H2.
  - apply Permutation_nil in Hp. symmetry; exact Hp.
  - destruct l2 as [|b l2].
    + apply Permutation_sym in Hp. apply Permutation_nil in Hp. discriminate.
    + inversion H1 as [|a' l1' Hs1 Ha1]; subst.
      inversion H2 as [|b' l2' Hs2 Ha2]; subst.
      rewrite Forall_forall in Ha1, Ha2.
      assert (Eab : a = b).
      { assert (Hina : In a (b :: l2)) by (apply (Permutation_in _ Hp); left; reflexivity).
        assert (Hinb : In b (a :: l1)) by (apply (Permutation_in _ (Permutation_sym Hp)); left; reflexivity).
        destruct Hina as [E|Hina]; [symmetry; exact E|].
        destruct Hinb as [E|Hinb]; [exact E|].
        exfalso. pose proof (Ha1 b Hinb) as K1. pose proof (Ha2 a Hina) as K2.
        cbv beta in K1, K2. rewrite (key_before_asym _ _ K1) in K2. discriminate. }
      subst b. f_equal. apply IH; [|exact Hs1|exact Hs2].
      eapply Permutation_cons_inv; exact Hp.
Qed.

(* any sorting function (permutation + sorted output) agrees with sort_keys on duplicate-free input *)
Corollary any_sort_is_sort_keys : forall l l' : list key,
  NoDup l -> Permutation l' l -> StronglySorted (fun a b => key_before a b = true) l' -> l' = sort_keys l.
Proof.
  intros l l' Hnd Hp Hs. apply sorted_perm_unique; [|exact Hs|apply sort_keys_sorted; exact Hnd].
  eapply perm_trans; [exact Hp|apply Permutation_sym; apply sort_keys_perm].
Qed.

(* ================================================================ 5. the filtration *)
Lemma In_zrange_nat : forall n a x, In x (zrange_nat a n) <-> a <= x < a + Z.of_nat n.
Proof.
  induction n as [|n IH]; intros a x.
  - cbn [zrange_nat In]. lia.
  - cbn [zrange_nat In]. rewrite IH. rewrite Nat2Z.inj_succ. lia.
Qed.

Lemma In_zrange : forall a n x, In x (zrange a n) <-> a <= x < a + Z.max 0 n.
Proof. intros a n x. unfold zrange. rewrite In_zrange_nat. lia. Qed.

Lemma zrange_nat_nodup : forall n a, NoDup (zrange_nat a n).
Proof.
  induction n as [|n IH]; intros a; cbn [zrange_nat]; constructor.
  - rewrite In_zrange_nat. lia.
  - apply IH.
Qed.

Lemma zrange_nodup : forall a n, NoDup (zrange a n).
Proof. intros a n. apply zrange_nat_nodup. Qed.

Lemma snd_a_key : forall cls sh data c, snd (a_key cls sh data c) = c.
Proof. reflexivity. Qed.

Lemma map_snd_a_key : forall cls sh data l, map (fun k : key => snd k) (map (a_key cls sh data) l) = l.
Proof.
  intros cls sh data l. rewrite map_map. induction l as [|x l IH]; cbn [map]; [reflexivity|].
  rewrite IH. reflexivity.
Qed.

Lemma a_filtration_perm : forall cls sh data, Permutation (a_filtration cls sh data) (zrange 0 (a_size cls sh)).
Proof.
  intros cls sh data. unfold a_filtration.
  rewrite <- (map_snd_a_key cls sh data (zrange 0 (a_size cls sh))) at 2.
  apply Permutation_map. apply sort_keys_perm.
Qed.

Lemma a_filtration_nodup : forall cls sh data, NoDup (a_filtration cls sh data).
Proof.
  intros cls sh data. eapply Permutation_NoDup; [apply Permutation_sym; apply a_filtration_perm|apply zrange_nodup].
Qed.

Lemma a_filtration_In : forall cls sh data c, In c (a_filtration cls sh data) <-> 0 <= c < a_size cls sh.
Proof.
  intros cls sh data c. split; intros H.
  - apply (Permutation_in _ (a_filtration_perm cls sh data)) in H. apply In_zrange in H. lia.
  - apply (Permutation_in _ (Permutation_sym (a_filtration_perm cls sh data))). apply In_zrange. lia.
Qed.

Lemma a_keys_nodup : forall cls sh data l, NoDup l -> NoDup (map (a_key cls sh data) l).
Proof.
  intros cls sh data l H. apply (NoDup_map_inv (fun k : key => snd k)). rewrite map_snd_a_key. exact H.
Qed.

Lemma a_filtration_keys_sorted : forall cls sh data,
  StronglySorted (fun a b => key_before a b = true)
    (sort_keys (map (a_key cls sh data) (zrange 0 (a_size cls sh)))).
Proof. intros. apply sort_keys_sorted. apply a_keys_nodup. apply zrange_nodup. Qed.

Lemma sorted_app_order : forall (R : key -> key -> Prop) l1 x l2 y l3,
  StronglySorted R (l1 ++ x :: l2 ++ y :: l3) -> R x y.
Proof.
  intros R l1. induction l1 as [|a l1 IH]; intros x l2 y l3 H.
  - cbn [app] in H. inversion H as [|x' t Hs Hall]; subst.
    rewrite Forall_forall in Hall. apply Hall. apply in_or_app. right; left; reflexivity.
  - cbn [app] in H. inversion H as [|a' t Hs Hall]; subst. eapply IH; exact Hs.
Qed.

Lemma map_app_inv : forall (A B : Type) (f : A -> B) (l1 l2 : list B) (l : list A),
  map f l = l1 ++ l2 -> exists k1 k2, l = k1 ++ k2 /\ map f k1 = l1 /\ map f k2 = l2.
Proof.
  intros A B f l1. induction l1 as [|b l1 IH]; intros l2 l H.
  - exists [], l. repeat split. exact H.
  - destruct l as [|z l]; [discriminate|]. cbn [map app] in H. injection H as Ez H.
    destruct (IH _ _ H) as (k1 & k2 & E & F1 & F2).
    exists (z :: k1), k2. repeat split.
    + cbn [app]. rewrite E. reflexivity.
    + cbn [map]. rewrite Ez, F1. reflexivity.
    + exact F2.
Qed.

Lemma map_decompose2 : forall (A B : Type) (f : A -> B) (l : list A) l1 c1 l2 c2 l3,
  map f l = l1 ++ c1 :: l2 ++ c2 :: l3 ->
  exists k1 x1 k2 x2 k3, l = k1 ++ x1 :: k2 ++ x2 :: k3 /\ f x1 = c1 /\ f x2 = c2.
Proof.
  intros A B f l l1 c1 l2 c2 l3 H.
  destruct (map_app_inv _ _ _ _ _ _ H) as (k1 & r1 & E1 & _ & H1).
  destruct r1 as [|x1 r1]; [discriminate|]. cbn [map] in H1. injection H1 as F1 H1.
  destruct (map_app_inv _ _ _ _ _ _ H1) as (k2 & r2 & E2 & _ & H2).
  destruct r2 as [|x2 k3]; [discriminate|]. cbn [map] in H2. injection H2 as F2 H2.
  exists k1, x1, k2, x2, k3. repeat split; try assumption.
  rewrite E1, E2. reflexivity.
Qed.

Lemma a_filtration_order : forall cls sh data l1 c1 l2 c2 l3,
  a_filtration cls sh data = l1 ++ c1 :: l2 ++ c2 :: l3 ->
  key_before (a_key cls sh data c1) (a_key cls sh data c2) = true.
Proof.
  intros cls sh data l1 c1 l2 c2 l3 H. unfold a_filtration in H.
  pose proof (a_filtration_keys_sorted cls sh data) as Hs.
  pose proof (sort_keys_perm (map (a_key cls sh data) (zrange 0 (a_size cls sh)))) as Hp.
  set (S := sort_keys (map (a_key cls sh data) (zrange 0 (a_size cls sh)))) in *.
  assert (Hk : forall k, In k S -> k = a_key cls sh data (snd k)).
  { intros k Hin. apply (Permutation_in _ Hp) in Hin. apply in_map_iff in Hin.
    destruct Hin as (c & <- & _). reflexivity. }
  destruct (map_decompose2 _ _ _ _ _ _ _ _ _ H) as (k1 & x1 & k2 & x2 & k3 & E & F1 & F2).
  assert (I1 : In x1 S) by (rewrite E; apply in_or_app; right; left; reflexivity).
  assert (I2 : In x2 S).
  { rewrite E. apply in_or_app; right; right. apply in_or_app; right; left; reflexivity. }
  rewrite E in Hs. apply sorted_app_order in Hs.
  rewrite (Hk x1 I1), (Hk x2 I2) in Hs. rewrite F1, F2 in Hs. exact Hs.
Qed.

Lemma a_filtration_nondecreasing : forall cls sh data l1 c1 l2 c2 l3,
  a_filtration cls sh data = l1 ++ c1 :: l2 ++ c2 :: l3 ->
  ext_ltb (getd data c2) (getd data c1) = false.
Proof.
  intros cls sh data l1 c1 l2 c2 l3 H. apply a_filtration_order in H.
  unfold a_key in H. apply key_before_spec in H. destruct H as [H|[H _]].
  - apply ext_ltb_asym; exact H.
  - rewrite H. apply ext_ltb_irrefl.
Qed.

(* among equal values: lower dimension first, then lower index *)
Lemma a_filtration_ties : forall cls sh data l1 c1 l2 c2 l3,
  a_filtration cls sh data = l1 ++ c1 :: l2 ++ c2 :: l3 ->
  getd data c1 = getd data c2 ->
  a_dim cls sh c1 < a_dim cls sh c2 \/ (a_dim cls sh c1 = a_dim cls sh c2 /\ c1 < c2).
Proof.
  intros cls sh data l1 c1 l2 c2 l3 H Hv. apply a_filtration_order in H.
  unfold a_key in H. apply key_before_spec in H. destruct H as [H|[_ H]].
  - rewrite Hv, ext_ltb_irrefl in H. discriminate.
  - exact H.
Qed.

Lemma a_filtration_before : forall cls sh data f c,
  In f (zrange 0 (a_size cls sh)) -> In c (zrange 0 (a_size cls sh)) ->
  key_before (a_key cls sh data f) (a_key cls sh data c) = true ->
  exists l1 l2 l3, a_filtration cls sh data = l1 ++ f :: l2 ++ c :: l3.
Proof.
  intros cls sh data f c Hf Hc Hk.
  assert (Hne : f <> c).
  { intros E. subst c. rewrite key_before_irrefl in Hk. discriminate. }
  pose proof (a_filtration_perm cls sh data) as Hp.
  apply (Permutation_in _ (Permutation_sym Hp)) in Hf.
  apply (Permutation_in _ (Permutation_sym Hp)) in Hc.
  destruct (in_split _ _ Hf) as (l1 & l2 & E).
  rewrite E in Hc. apply in_app_or in Hc. destruct Hc as [Hc|[Hc|Hc]].
  - exfalso. destruct (in_split _ _ Hc) as (l1a & l1b & E1).
    rewrite E1 in E. rewrite <- app_assoc in E. cbn [app] in E.
    apply a_filtration_order in E. rewrite (key_before_asym _ _ Hk) in E. discriminate.
  - exfalso. apply Hne. exact Hc.
  - destruct (in_split _ _ Hc) as (l2a & l2b & E2).
    exists l1, l2a, l2b. rewrite E, E2. reflexivity.
Qed.

Lemma a_filtration_faces_first : forall cls sh data f c,
  In f (zrange 0 (a_size cls sh)) -> In c (zrange 0 (a_size cls sh)) ->
  ext_ltb (getd data c) (getd data f) = false ->
  a_dim cls sh f < a_dim cls sh c ->
  exists l1 l2 l3, a_filtration cls sh data = l1 ++ f :: l2 ++ c :: l3.
Proof.
  intros cls sh data f c Hf Hc Hv Hd. apply a_filtration_before; [exact Hf|exact Hc|].
  unfold a_key. apply key_before_spec.
  destruct (ext_ltb_total (getd data f) (getd data c)) as [H|[H|H]].
  - left; exact H.
  - right. split; [exact H|]. left; exact Hd.
  - rewrite Hv in H. discriminate.
Qed.

(* the filtration is the only arrangement of the cells that is sorted for the order *)
Theorem a_filtration_unique : forall cls sh data (l : list Z),
  Permutation l (zrange 0 (a_size cls sh)) ->
  StronglySorted (fun a b => key_before (a_key cls sh data a) (a_key cls sh data b) = true) l ->
  l = a_filtration cls sh data.
Proof.
  intros cls sh data l Hp Hs.
  rewrite <- (map_snd_a_key cls sh data l). unfold a_filtration. f_equal.
  apply sorted_perm_unique.
  - eapply perm_trans; [apply Permutation_map; exact Hp|apply Permutation_sym; apply sort_keys_perm].
  - clear Hp. induction Hs as [|a l Hs IH Hall]; cbn [map]; constructor; [exact IH|].
    apply Forall_forall. intros k Hk. apply in_map_iff in Hk. destruct Hk as (b & <- & Hb).
    rewrite Forall_forall in Hall. apply Hall; exact Hb.
  - apply a_filtration_keys_sorted.
Qed.

Print Assumptions a_filtration_order.
Print Assumptions sorted_perm_unique.
Print Assumptions a_filtration_faces_first.
Print Assumptions a_filtration_unique.
