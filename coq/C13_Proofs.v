(* C13 — index-level theorems: statements purely about the algorithm model (a_bd, a_cobd, a_dim, a_counter, a_inc,
   a_size) over cell indices 0 <= i < a_size cls sh, obtained from the specification-level results (C13_Spec),
   the refinement (C13_Refine) and the incidence results (C13_Inc). *)
From Coq Require Import ZArith List Bool Lia.
Require Import C13_Model C13_Spec C13_Refine C13_Inc.
Import ListNotations.
Local Open Scope Z_scope.

Definition wf_shape (sh : shape) : Prop := sh <> [] /\ Forall (fun d : dirn => 1 <= fst d) sh.

Definition a_sbd (cls : bool) (sh : shape) (i : Z) : list (Z * Z) := alt_signs 1 (a_bd cls sh i).      (* (face, sign) *)
Definition a_dd (cls : bool) (sh : shape) (i : Z) : list (Z * Z) :=
  flat_map (fun fs => map (fun gt => (fst gt, snd fs * snd gt)) (a_sbd cls sh (fst fs))) (a_sbd cls sh i).
Definition icoef (l : list (Z * Z)) (j : Z) : Z :=
  fold_right (fun cs acc => (if fst cs =? j then snd cs else 0) + acc) 0 l.

(* ---------------------------------------------------------------- plumbing *)
Lemma hs_ok : forall cls sh, wf_shape sh -> Forall (fun d : dirn => 1 <= fst d) (hshape cls sh).
Proof. intros cls sh [_ H]. exact (hshape_ok cls sh H). Qed.

Lemma in_range_cell : forall cls sh i, wf_shape sh -> 0 <= i < a_size cls sh ->
  s_valid (hshape cls sh) (s_counter (hshape cls sh) i)
  /\ s_index (hshape cls sh) (s_counter (hshape cls sh) i) = i.
Proof.
  intros cls sh i Hwf Hi. pose proof (hs_ok cls sh Hwf) as Hok.
  rewrite a_size_total in Hi. split.
  - exact (C13_Spec.s_counter_valid _ _ Hok Hi).
  - exact (C13_Spec.s_index_counter _ _ Hok Hi).
Qed.

Lemma cell_ind : forall cls sh (P : Z -> Prop), wf_shape sh ->
  (forall c, s_valid (hshape cls sh) c -> P (s_index (hshape cls sh) c)) ->
  forall i, 0 <= i < a_size cls sh -> P i.
Proof.
  intros cls sh P Hwf H i Hi. destruct (in_range_cell cls sh i Hwf Hi) as [Hc Hidx].
  rewrite <- Hidx. apply H. exact Hc.
Qed.

Lemma index_in_range : forall cls sh c, wf_shape sh -> s_valid (hshape cls sh) c ->
  0 <= s_index (hshape cls sh) c < a_size cls sh.
Proof.
  intros cls sh c Hwf Hc. rewrite a_size_total.
  exact (C13_Spec.s_index_range _ _ (hs_ok cls sh Hwf) Hc).
Qed.

Lemma s_valid_length : forall hs c, s_valid hs c -> length hs = length c.
Proof.
  induction hs as [|d hs IH]; destruct c as [|x c]; simpl; intros H; try tauto.
  f_equal. apply IH. tauto.
Qed.

Lemma In_map_index : forall hs l y, Forall (fun d : dirn => 1 <= fst d) hs ->
  (forall z, In z l -> s_valid hs z) -> s_valid hs y ->
  (In (s_index hs y) (map (s_index hs) l) <-> In y l).
Proof.
  intros hs l y Hok Hl Hy. split.
  - intros H. apply in_map_iff in H. destruct H as [z [Hz Hin]].
    assert (z = y) as <-.
    { apply (C13_Spec.s_index_inj hs z y Hok (Hl z Hin) Hy Hz). }
    exact Hin.
  - apply in_map.
Qed.

(* ================================================================ P1 *)
Theorem index_counter_bijection : forall cls sh, wf_shape sh ->
  (forall c, s_valid (hshape cls sh) c ->
     0 <= s_index (hshape cls sh) c < a_size cls sh /\ a_counter cls sh (s_index (hshape cls sh) c) = rev c)
  /\ (forall i, 0 <= i < a_size cls sh ->
     s_valid (hshape cls sh) (rev (a_counter cls sh i)) /\ s_index (hshape cls sh) (rev (a_counter cls sh i)) = i).
Proof.
  intros cls sh Hwf. pose proof (hs_ok cls sh Hwf) as Hok. pose proof Hwf as [Hne Hsz]. split.
  - intros c Hc. split.
    + apply index_in_range; assumption.
    + rewrite (a_counter_spec cls sh _ Hne). f_equal. exact (C13_Spec.s_counter_index _ _ Hok Hc).
  - intros i Hi. rewrite (a_counter_spec cls sh _ Hne), rev_involutive. apply in_range_cell; assumption.
Qed.

(* ================================================================ P2 *)
Theorem dimension_counts_odd : forall cls sh i, wf_shape sh -> a_dim cls sh i = s_dim (rev (a_counter cls sh i)).
Proof.
  intros cls sh i [Hne _]. rewrite (a_counter_spec cls sh _ Hne), rev_involutive. apply a_dim_spec. exact Hne.
Qed.

Theorem boundary_in_range_dim : forall cls sh i f, wf_shape sh -> 0 <= i < a_size cls sh ->
  In f (a_bd cls sh i) -> 0 <= f < a_size cls sh /\ a_dim cls sh f = a_dim cls sh i - 1.
Proof.
  intros cls sh i f Hwf Hi. revert f.
  apply (cell_ind cls sh (fun i => forall f, In f (a_bd cls sh i) ->
           0 <= f < a_size cls sh /\ a_dim cls sh f = a_dim cls sh i - 1) Hwf); [|exact Hi].
  clear i Hi. intros c Hc f Hf.
  pose proof (hs_ok cls sh Hwf) as Hok. pose proof Hwf as [Hne _].
  rewrite (a_bd_spec cls sh c Hne Hok Hc) in Hf. apply in_map_iff in Hf. destruct Hf as [f' [<- Hf']].
  assert (Hv : s_valid (hshape cls sh) f') by exact (s_bd_valid _ _ _ _ _ Hok Hc Hf').
  split.
  - apply index_in_range; assumption.
  - rewrite (a_dim_index cls sh f' Hne Hok Hv), (a_dim_index cls sh c Hne Hok Hc).
    exact (s_bd_dim _ _ _ _ _ Hf').
Qed.

Theorem boundary_length : forall cls sh i, wf_shape sh -> 0 <= i < a_size cls sh ->
  Z.of_nat (length (a_bd cls sh i)) = 2 * a_dim cls sh i.
Proof.
  intros cls sh i Hwf Hi.
  apply (cell_ind cls sh (fun i => Z.of_nat (length (a_bd cls sh i)) = 2 * a_dim cls sh i) Hwf); [|exact Hi].
  clear i Hi. intros c Hc.
  pose proof (hs_ok cls sh Hwf) as Hok. pose proof Hwf as [Hne _].
  rewrite (a_bd_spec cls sh c Hne Hok Hc), map_length, (a_dim_index cls sh c Hne Hok Hc).
  apply s_bd_length. apply s_valid_length. exact Hc.
Qed.

Theorem coboundary_in_range_dim : forall cls sh i f, wf_shape sh -> 0 <= i < a_size cls sh ->
  In f (a_cobd cls sh i) -> 0 <= f < a_size cls sh /\ a_dim cls sh f = a_dim cls sh i + 1.
Proof.
  intros cls sh i f Hwf Hi. revert f.
  apply (cell_ind cls sh (fun i => forall f, In f (a_cobd cls sh i) ->
           0 <= f < a_size cls sh /\ a_dim cls sh f = a_dim cls sh i + 1) Hwf); [|exact Hi].
  clear i Hi. intros c Hc f Hf.
  pose proof (hs_ok cls sh Hwf) as Hok. pose proof Hwf as [Hne _].
  rewrite (a_cobd_spec cls sh c Hne Hok Hc) in Hf. apply in_map_iff in Hf. destruct Hf as [f' [<- Hf']].
  assert (Hv : s_valid (hshape cls sh) f') by exact (s_cobd_valid _ _ _ Hok Hc Hf').
  split.
  - apply index_in_range; assumption.
  - rewrite (a_dim_index cls sh f' Hne Hok Hv), (a_dim_index cls sh c Hne Hok Hc).
    apply (s_bd_cobd_converse cls false _ c f' Hok Hc Hv) in Hf'.
    pose proof (s_bd_dim _ _ _ _ _ Hf'). lia.
Qed.

(* ================================================================ P3 *)
Theorem boundary_coboundary_converse : forall cls sh i j, wf_shape sh ->
  0 <= i < a_size cls sh -> 0 <= j < a_size cls sh ->
  (In j (a_cobd cls sh i) <-> In i (a_bd cls sh j)).
Proof.
  intros cls sh i j Hwf Hi Hj. revert j Hj.
  apply (cell_ind cls sh (fun i => forall j, 0 <= j < a_size cls sh ->
           (In j (a_cobd cls sh i) <-> In i (a_bd cls sh j))) Hwf); [|exact Hi].
  clear i Hi. intros x Hx j Hj.
  apply (cell_ind cls sh (fun j => In j (a_cobd cls sh (s_index (hshape cls sh) x)) <->
           In (s_index (hshape cls sh) x) (a_bd cls sh j)) Hwf); [|exact Hj].
  clear j Hj. intros y Hy.
  pose proof (hs_ok cls sh Hwf) as Hok. pose proof Hwf as [Hne _].
  rewrite (a_cobd_spec cls sh x Hne Hok Hx), (a_bd_spec cls sh y Hne Hok Hy).
  rewrite (In_map_index (hshape cls sh) (s_cobd (hshape cls sh) x) y Hok).
  - rewrite (In_map_index (hshape cls sh) (s_bd cls false (hshape cls sh) y) x Hok).
    + exact (s_bd_cobd_converse cls false _ x y Hok Hx Hy).
    + intros z Hz. exact (s_bd_valid _ _ _ _ _ Hok Hy Hz).
    + exact Hx.
  - intros z Hz. exact (s_cobd_valid _ _ _ Hok Hx Hz).
  - exact Hy.
Qed.

(* ================================================================ P4 *)
Definition imap (hs : shape) (l : chain) : list (Z * Z) := map (fun sc => (s_index hs (snd sc), fst sc)) l.

Lemma imap_app : forall hs a b, imap hs (a ++ b) = imap hs a ++ imap hs b.
Proof. intros. unfold imap. apply map_app. Qed.

Lemma alt_signs_map : forall hs l sg, alt_signs sg (map (s_index hs) l) = imap hs (alt sg l).
Proof.
  induction l as [|a l IH]; intros sg; simpl; [reflexivity|]. f_equal. apply IH.
Qed.

Lemma a_sbd_cell : forall cls sh c, wf_shape sh -> s_valid (hshape cls sh) c ->
  a_sbd cls sh (s_index (hshape cls sh) c) = imap (hshape cls sh) (s_sbd cls (hshape cls sh) c).
Proof.
  intros cls sh c Hwf Hc. pose proof (hs_ok cls sh Hwf) as Hok. pose proof Hwf as [Hne _].
  unfold a_sbd, s_sbd. rewrite (a_bd_spec cls sh c Hne Hok Hc). apply alt_signs_map.
Qed.

Definition chain_valid (hs : shape) (l : chain) : Prop := forall s z, In (s, z) l -> s_valid hs z.

Lemma in_alt : forall l sg s z, In (s, z) (alt sg l) -> In z l.
Proof.
  induction l as [|a l IH]; intros sg s z H; simpl in *; [exact H|].
  destruct H as [H|H]; [left; congruence | right; exact (IH _ _ _ H)].
Qed.

Lemma s_sbd_valid : forall flip hs c, Forall (fun d : dirn => 1 <= fst d) hs -> s_valid hs c ->
  chain_valid hs (s_sbd flip hs c).
Proof.
  intros flip hs c Hok Hc s z H. unfold s_sbd in H. apply in_alt in H.
  exact (s_bd_valid _ _ _ _ _ Hok Hc H).
Qed.

Lemma s_sbd_chain_valid : forall flip hs l, Forall (fun d : dirn => 1 <= fst d) hs -> chain_valid hs l ->
  chain_valid hs (s_sbd_chain flip hs l).
Proof.
  intros flip hs l Hok Hl s z H. unfold s_sbd_chain in H. apply in_flat_map in H.
  destruct H as [[s' w] [Hw H]]. simpl in H. unfold scale in H. apply in_map_iff in H.
  destruct H as [[s'' z'] [Heq H]]. simpl in Heq. inversion Heq; subst.
  exact (s_sbd_valid flip hs w Hok (Hl _ _ Hw) _ _ H).
Qed.

Lemma a_dd_chain : forall cls sh l, wf_shape sh -> chain_valid (hshape cls sh) l ->
  flat_map (fun fs => map (fun gt => (fst gt, snd fs * snd gt)) (a_sbd cls sh (fst fs))) (imap (hshape cls sh) l)
  = imap (hshape cls sh) (s_sbd_chain cls (hshape cls sh) l).
Proof.
  intros cls sh l Hwf. induction l as [|[s z] l IH]; intros Hl; [reflexivity|].
  simpl. rewrite imap_app. f_equal.
  - rewrite (a_sbd_cell cls sh z Hwf (Hl s z (or_introl eq_refl))).
    unfold imap, scale. rewrite !map_map. apply map_ext. intros [t w]. reflexivity.
  - apply IH. intros s' z' H. apply (Hl s' z'). right. exact H.
Qed.

Lemma a_dd_cell : forall cls sh c, wf_shape sh -> s_valid (hshape cls sh) c ->
  a_dd cls sh (s_index (hshape cls sh) c)
  = imap (hshape cls sh) (s_sbd_chain cls (hshape cls sh) (s_sbd cls (hshape cls sh) c)).
Proof.
  intros cls sh c Hwf Hc. unfold a_dd. rewrite (a_sbd_cell cls sh c Hwf Hc).
  apply a_dd_chain; [exact Hwf|]. apply s_sbd_valid; [apply hs_ok; exact Hwf | exact Hc].
Qed.

Lemma icoef_imap_valid : forall hs l y, Forall (fun d : dirn => 1 <= fst d) hs ->
  chain_valid hs l -> s_valid hs y -> icoef (imap hs l) (s_index hs y) = coef l y.
Proof.
  intros hs l y Hok. induction l as [|[s z] l IH]; intros Hl Hy; [reflexivity|].
  simpl. rewrite IH; [|intros s' z' H; apply (Hl s' z'); right; exact H | exact Hy].
  f_equal. destruct (list_eqb z y) eqn:E.
  - apply list_eqb_eq in E. subst z. rewrite Z.eqb_refl. reflexivity.
  - destruct (s_index hs z =? s_index hs y) eqn:E2; [|reflexivity].
    apply Z.eqb_eq in E2.
    apply (C13_Spec.s_index_inj hs z y Hok (Hl s z (or_introl eq_refl)) Hy) in E2. subst z.
    rewrite list_eqb_refl in E. discriminate.
Qed.

Lemma icoef_imap_out : forall hs l j, (forall s z, In (s, z) l -> s_index hs z <> j) -> icoef (imap hs l) j = 0.
Proof.
  intros hs l j. induction l as [|[s z] l IH]; intros Hl; [reflexivity|].
  simpl. rewrite IH; [|intros s' z' H; apply (Hl s' z'); right; exact H].
  destruct (s_index hs z =? j) eqn:E; [|reflexivity].
  apply Z.eqb_eq in E. exfalso. exact (Hl s z (or_introl eq_refl) E).
Qed.

Theorem boundary_of_boundary_zero : forall cls sh i j, wf_shape sh -> 0 <= i < a_size cls sh ->
  icoef (a_dd cls sh i) j = 0.
Proof.
  intros cls sh i j Hwf Hi.
  apply (cell_ind cls sh (fun i => icoef (a_dd cls sh i) j = 0) Hwf); [|exact Hi].
  clear i Hi. intros c Hc. pose proof (hs_ok cls sh Hwf) as Hok.
  rewrite (a_dd_cell cls sh c Hwf Hc).
  assert (Hcv : chain_valid (hshape cls sh) (s_sbd_chain cls (hshape cls sh) (s_sbd cls (hshape cls sh) c))).
  { apply s_sbd_chain_valid; [exact Hok|]. apply s_sbd_valid; assumption. }
  destruct (Z_le_dec 0 j) as [H0|H0]; [destruct (Z_lt_dec j (a_size cls sh)) as [H1|H1]|].
  - destruct (in_range_cell cls sh j Hwf (conj H0 H1)) as [Hy Hidx].
    rewrite <- Hidx. rewrite (icoef_imap_valid _ _ _ Hok Hcv Hy). apply s_dd_zero.
  - apply icoef_imap_out. intros s z H E.
    pose proof (index_in_range cls sh z Hwf (Hcv s z H)). lia.
  - apply icoef_imap_out. intros s z H E.
    pose proof (index_in_range cls sh z Hwf (Hcv s z H)). lia.
Qed.

(* ================================================================ P5 *)
Lemma nth_error_map_inv : forall (A B : Type) (g : A -> B) l k y,
  nth_error (map g l) k = Some y -> exists x, nth_error l k = Some x /\ y = g x.
Proof.
  intros A B g. induction l as [|a l IH]; intros k y H; destruct k; simpl in *; try discriminate.
  - injection H as <-. exists a. split; reflexivity.
  - apply IH. exact H.
Qed.

Lemma alt_nth : forall l sg k f, nth_error l k = Some f ->
  In ((if Nat.even k then sg else - sg), f) (alt sg l).
Proof.
  induction l as [|a l IH]; intros sg k f H; destruct k; simpl nth_error in H; try discriminate.
  - injection H as <-. left. reflexivity.
  - right. fold (alt (- sg) l). pose proof (IH (- sg) k f H) as H1.
    rewrite Nat.even_succ, <- Nat.negb_even. destruct (Nat.even k); simpl in *.
    + exact H1.
    + rewrite Z.opp_involutive in H1. exact H1.
Qed.

Lemma hshape_per_ge2 : forall cls sh,
  (cls = true -> Forall (fun d : dirn => snd d = true -> 2 <= fst d) sh) -> per_ge2 (hshape cls sh).
Proof.
  intros cls sh H. unfold per_ge2, hshape. apply Forall_forall. intros d Hin Hd.
  apply in_rev in Hin. apply in_map_iff in Hin. destruct Hin as [d0 [<- Hin]].
  unfold norm_dir in *. simpl in *. apply andb_true_iff in Hd. destruct Hd as [Hc Hd0].
  specialize (H Hc). rewrite Forall_forall in H. exact (H d0 Hin Hd0).
Qed.

Theorem incidence_matches_enumeration : forall cls sh i k f, wf_shape sh ->
  (cls = true -> Forall (fun d : dirn => snd d = true -> 2 <= fst d) sh) ->
  0 <= i < a_size cls sh -> nth_error (a_bd cls sh i) k = Some f ->
  a_inc cls sh i f = Some (Some ((if cls then -1 else 1) * (if Z.odd (a_dim cls sh i) then -1 else 1)
                                 * (if Nat.even k then 1 else -1))).
Proof.
  intros cls sh i k f Hwf Hper Hi. revert f.
  apply (cell_ind cls sh (fun i => forall f, nth_error (a_bd cls sh i) k = Some f ->
    a_inc cls sh i f = Some (Some ((if cls then -1 else 1) * (if Z.odd (a_dim cls sh i) then -1 else 1)
                                 * (if Nat.even k then 1 else -1)))) Hwf); [|exact Hi].
  clear i Hi. intros c Hc f Hf.
  pose proof (hs_ok cls sh Hwf) as Hok. pose proof Hwf as [Hne _].
  rewrite (a_bd_spec cls sh c Hne Hok Hc) in Hf. apply nth_error_map_inv in Hf.
  destruct Hf as [f' [Hf' ->]].
  assert (Hv : s_valid (hshape cls sh) f').
  { apply nth_error_In in Hf'. exact (s_bd_valid _ _ _ _ _ Hok Hc Hf'). }
  assert (Hin : In ((if Nat.even k then 1 else -1), f') (s_sbd cls (hshape cls sh) c)).
  { unfold s_sbd. exact (alt_nth _ 1 k f' Hf'). }
  pose proof (enum_sign_inc cls (hshape cls sh) c _ f' Hok (hshape_per_ge2 cls sh Hper) Hc Hin) as Hs.
  assert (Hnp : cls = false -> Forall (fun d : dirn => snd d = false) (hshape cls sh)).
  { intros ->. exact (hshape_nonper sh). }
  pose proof (inc_counters_spec cls (hshape cls sh) c f' _ Hok Hnp Hc Hv Hs) as Hinc.
  rewrite a_inc_unfold, !(a_counter_spec cls sh _ Hne).
  rewrite (C13_Spec.s_counter_index _ _ Hok Hc), (C13_Spec.s_counter_index _ _ Hok Hv).
  rewrite (a_dim_index cls sh c Hne Hok Hc). exact Hinc.
Qed.

Print Assumptions index_counter_bijection.
Print Assumptions dimension_counts_odd.
Print Assumptions boundary_in_range_dim.
Print Assumptions boundary_length.
Print Assumptions coboundary_in_range_dim.
Print Assumptions boundary_coboundary_converse.
Print Assumptions boundary_of_boundary_zero.
Print Assumptions incidence_matches_enumeration.
