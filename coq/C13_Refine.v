(* C13 refinement: the ALGORITHM model (PART A of C13_Model.v, index arithmetic transcribed from the C++) computes the
   same thing as the SPECIFICATION model (PART B, coordinate lists, highest direction first). *)
From Coq Require Import ZArith List Bool Lia ZifyBool.
Require Import C13_Model.
Import ListNotations.
Local Open Scope Z_scope.

Definition shape_ok (hs : shape) : Prop := Forall (fun d : dirn => 1 <= fst d) hs.
Definition nonper (hs : shape) : Prop := Forall (fun d : dirn => snd d = false) hs.

(* ================================================================ arithmetic helpers *)
Lemma divmod_helper : forall x T r, 0 <= r < T -> (x * T + r) / T = x /\ (x * T + r) mod T = r.
Proof.
  intros x T r H. split.
  - rewrite Z.div_add_l by lia. rewrite Z.div_small by lia. lia.
  - rewrite Z.add_comm, Z_mod_plus_full. apply Z.mod_small; lia.
Qed.

Lemma s_extent_ge2 : forall d : dirn, 1 <= fst d -> 2 <= s_extent d.
Proof. intros d H. unfold s_extent, extent_per. destruct (snd d); lia. Qed.

Lemma s_total_pos : forall hs, shape_ok hs -> 1 <= s_total hs.
Proof.
  induction 1 as [|d hs Hd _ IH]; cbn [s_total]; [lia|].
  pose proof (s_extent_ge2 d Hd). nia.
Qed.

Lemma shape_ok_inv : forall d hs, shape_ok (d :: hs) -> 1 <= fst d /\ shape_ok hs.
Proof. intros d hs H. inversion H; subst. split; assumption. Qed.

Lemma nonper_inv : forall d hs, nonper (d :: hs) -> snd d = false /\ nonper hs.
Proof. intros d hs H. inversion H; subst. split; assumption. Qed.

(* ================================================================ R1 : plumbing *)
Lemma extent_of_norm : forall cls d, extent_of cls d = s_extent (norm_dir cls d).
Proof.
  intros cls d. destruct cls; unfold extent_of, s_extent, extent_per, extent_base, norm_dir; cbn [fst snd andb];
    reflexivity.
Qed.

Lemma setup_snoc : forall ext_of sh d m,
  setup_loop ext_of (sh ++ [d]) m =
  (fst (setup_loop ext_of sh m) ++ [snd (setup_loop ext_of sh m)], snd (setup_loop ext_of sh m) * ext_of d).
Proof.
  intros ext_of sh. induction sh as [|a sh IH]; intros d m.
  - reflexivity.
  - cbn [app setup_loop]. rewrite IH. destruct (setup_loop ext_of sh (m * ext_of a)) as [ms tot]. reflexivity.
Qed.

Lemma setup_len : forall ext_of sh m, length (fst (setup_loop ext_of sh m)) = length sh.
Proof.
  intros ext_of sh. induction sh as [|a sh IH]; intros m; [reflexivity|].
  cbn [setup_loop]. specialize (IH (m * ext_of a)).
  destruct (setup_loop ext_of sh (m * ext_of a)) as [ms tot]. cbn [fst length] in *. congruence.
Qed.

Lemma combine_snoc : forall (A B : Type) (l1 : list A) (l2 : list B) a b,
  length l1 = length l2 -> combine (l1 ++ [a]) (l2 ++ [b]) = combine l1 l2 ++ [(a, b)].
Proof.
  intros A B l1. induction l1 as [|x l1 IH]; intros [|y l2] a b H; cbn in H; try discriminate.
  - reflexivity.
  - cbn [app combine]. f_equal. apply IH. congruence.
Qed.

Lemma setup_plumb : forall cls sh,
  rev (combine (fst (setup_loop (extent_of cls) sh 1)) (map (norm_dir cls) sh)) = hdirs (rev (map (norm_dir cls) sh))
  /\ snd (setup_loop (extent_of cls) sh 1) = s_total (rev (map (norm_dir cls) sh)).
Proof.
  intros cls sh. induction sh as [|d sh IH] using rev_ind.
  - split; reflexivity.
  - destruct IH as [IH1 IH2].
    rewrite setup_snoc, map_app. cbn [fst snd map].
    rewrite combine_snoc by (rewrite setup_len, map_length; reflexivity).
    rewrite !rev_unit. cbn [hdirs s_total]. split.
    + rewrite IH1, IH2. reflexivity.
    + rewrite IH2, extent_of_norm. ring.
Qed.

Theorem a_dirs_hdirs : forall cls sh, a_dirs cls sh = hdirs (hshape cls sh).
Proof. intros cls sh. unfold a_dirs, a_multipliers, hshape. exact (proj1 (setup_plumb cls sh)). Qed.

Theorem a_size_total : forall cls sh, a_size cls sh = s_total (hshape cls sh).
Proof. intros cls sh. unfold a_size, hshape. exact (proj2 (setup_plumb cls sh)). Qed.

Theorem hshape_ok : forall cls sh, Forall (fun d : dirn => 1 <= fst d) sh -> shape_ok (hshape cls sh).
Proof.
  intros cls sh H. unfold shape_ok, hshape. rewrite Forall_forall in *.
  intros d Hd. apply in_rev in Hd. apply in_map_iff in Hd. destruct Hd as [d0 [<- Hd0]].
  cbn [norm_dir fst]. apply H. exact Hd0.
Qed.

Theorem hshape_nonper : forall sh, nonper (hshape false sh).
Proof.
  intros sh. unfold nonper, hshape. rewrite Forall_forall.
  intros d Hd. apply in_rev in Hd. apply in_map_iff in Hd. destruct Hd as [d0 [<- _]]. reflexivity.
Qed.

Theorem hshape_nil : forall cls sh, hshape cls sh = [] -> sh = [].
Proof.
  intros cls [|d sh] H; [reflexivity|]. unfold hshape in H. cbn [map rev] in H.
  apply app_eq_nil in H. destruct H as [_ H]. discriminate.
Qed.

Lemma hshape_ne : forall cls sh, sh <> [] -> hshape cls sh <> [].
Proof. intros cls sh H E. apply H. exact (hshape_nil cls sh E). Qed.

(* ================================================================ R2 : counters *)
Lemma counter_loop_cons : forall m d p r i,
  counter_loop ((m, d) :: p :: r) i = (i / m) :: counter_loop (p :: r) (i mod m).
Proof. reflexivity. Qed.

Lemma counter_loop_spec : forall hs i, hs <> [] -> counter_loop (hdirs hs) i = s_counter hs i.
Proof.
  induction hs as [|d hs' IH]; intros i Hne; [congruence|].
  destruct hs' as [|d' hs''].
  - cbn. rewrite Z.div_1_r. reflexivity.
  - remember (d' :: hs'') as hs' eqn:Ehs.
    cbn [hdirs s_counter]. rewrite <- IH by (subst hs'; discriminate).
    destruct (hdirs hs') as [|p rr] eqn:Eh; [subst hs'; discriminate|].
    destruct p as [m' dd]. apply counter_loop_cons.
Qed.

Theorem a_counter_spec : forall cls sh i, sh <> [] -> a_counter cls sh i = rev (s_counter (hshape cls sh) i).
Proof.
  intros cls sh i Hne. unfold a_counter. rewrite a_dirs_hdirs, counter_loop_spec by (apply hshape_ne; exact Hne).
  reflexivity.
Qed.

(* ================================================================ R3 : dimension *)
Lemma dim_loop_cons : forall m d p r i,
  dim_loop ((m, d) :: p :: r) i = (if Z.odd (i / m) then 1 else 0) + dim_loop (p :: r) (i mod m).
Proof. reflexivity. Qed.

Lemma dim_loop_spec : forall hs i, hs <> [] -> dim_loop (hdirs hs) i = s_dim (s_counter hs i).
Proof.
  induction hs as [|d hs' IH]; intros i Hne; [congruence|].
  destruct hs' as [|d' hs''].
  - cbn. rewrite Z.div_1_r. destruct (Z.odd i); reflexivity.
  - remember (d' :: hs'') as hs' eqn:Ehs.
    cbn [hdirs s_counter s_dim]. rewrite <- IH by (subst hs'; discriminate).
    destruct (hdirs hs') as [|p rr] eqn:Eh; [subst hs'; discriminate|].
    destruct p as [m' dd]. apply dim_loop_cons.
Qed.

Theorem a_dim_spec : forall cls sh i, sh <> [] -> a_dim cls sh i = s_dim (s_counter (hshape cls sh) i).
Proof.
  intros cls sh i Hne. unfold a_dim. rewrite a_dirs_hdirs. apply dim_loop_spec. apply hshape_ne; exact Hne.
Qed.

Lemma s_valid_cons_inv : forall d hs c, s_valid (d :: hs) c ->
  exists x c', c = x :: c' /\ 0 <= x < s_extent d /\ s_valid hs c'.
Proof.
  intros d hs [|x c'] H; cbn [s_valid] in H; [contradiction|].
  exists x, c'. split; [reflexivity|exact H].
Qed.

Lemma s_valid_nil_inv : forall c, s_valid [] c -> c = [].
Proof. intros [|x c'] H; [reflexivity|contradiction]. Qed.

Theorem s_index_range : forall hs c, shape_ok hs -> s_valid hs c -> 0 <= s_index hs c < s_total hs.
Proof.
  induction hs as [|d hs' IH]; intros c Hok Hv.
  - apply s_valid_nil_inv in Hv. subst c. cbn. lia.
  - apply s_valid_cons_inv in Hv. destruct Hv as [x [c' [-> [Hx Hv']]]].
    apply shape_ok_inv in Hok. destruct Hok as [Hd Hok'].
    specialize (IH c' Hok' Hv'). cbn [s_index s_total].
    pose proof (s_total_pos hs' Hok') as HT. nia.
Qed.

Theorem s_counter_index : forall hs c, shape_ok hs -> s_valid hs c -> s_counter hs (s_index hs c) = c.
Proof.
  induction hs as [|d hs' IH]; intros c Hok Hv.
  - apply s_valid_nil_inv in Hv. subst c. reflexivity.
  - apply s_valid_cons_inv in Hv. destruct Hv as [x [c' [-> [Hx Hv']]]].
    apply shape_ok_inv in Hok. destruct Hok as [Hd Hok'].
    cbn [s_index s_counter].
    destruct (divmod_helper x (s_total hs') (s_index hs' c') (s_index_range hs' c' Hok' Hv')) as [Hq Hr].
    rewrite Hq, Hr, IH by assumption. reflexivity.
Qed.

Theorem a_dim_index : forall cls sh c, sh <> [] -> shape_ok (hshape cls sh) -> s_valid (hshape cls sh) c ->
  a_dim cls sh (s_index (hshape cls sh) c) = s_dim c.
Proof.
  intros cls sh c Hne Hok Hv. rewrite a_dim_spec by exact Hne. rewrite s_counter_index by assumption. reflexivity.
Qed.

(* ================================================================ R4 : boundary *)
Lemma cons_eq2 : forall (A : Type) (a a' b b' : A) l l',
  a = a' -> b = b' -> l = l' -> a :: b :: l = a' :: b' :: l'.
Proof. intros; subst; reflexivity. Qed.

Lemma odd_succ_negb : forall s, Z.odd (s + 1) = negb (Z.odd s).
Proof. intros s. rewrite Z.add_1_r, Z.odd_succ, <- Z.negb_odd. reflexivity. Qed.

Lemma s_index_cons : forall d hs x c, s_index (d :: hs) (x :: c) = x * s_total hs + s_index hs c.
Proof. reflexivity. Qed.

Lemma map_shift : forall d hs' x r cell (l : list (list Z)),
  map (fun f => cell + (s_index (d :: hs') f - (x * s_total hs' + r))) (map (cons x) l)
  = map (fun f => cell + (s_index hs' f - r)) l.
Proof. intros. rewrite map_map. apply map_ext. intros f. rewrite s_index_cons. lia. Qed.

Lemma s_bd_cons : forall flip k d hs x c, s_bd flip k (d :: hs) (x :: c) =
    if Z.odd x
    then (if xorb flip k then [hi d x :: c; lo x :: c] else [lo x :: c; hi d x :: c])
         ++ map (cons x) (s_bd flip (negb k) hs c)
    else map (cons x) (s_bd flip k hs c).
Proof. reflexivity. Qed.

Lemma bd_per_loop_cons : forall m d r cell cell1 sum, bd_per_loop ((m, d) :: r) cell cell1 sum =
    if Z.odd (cell1 / m)
    then (if negb (snd d)
          then (if Z.odd sum then [cell - m; cell + m] else [cell + m; cell - m])
          else if negb (cell1 / m =? 2 * fst d - 1)
               then (if Z.odd sum then [cell - m; cell + m] else [cell + m; cell - m])
               else (if Z.odd sum then [cell - m; cell - (2 * fst d - 1) * m]
                     else [cell - (2 * fst d - 1) * m; cell - m]))
         ++ bd_per_loop r cell (cell1 mod m) (sum + 1)
    else bd_per_loop r cell (cell1 mod m) sum.
Proof. reflexivity. Qed.

Lemma bd_per_loop_spec : forall hs c cell sum, shape_ok hs -> s_valid hs c ->
  bd_per_loop (hdirs hs) cell (s_index hs c) sum
  = map (fun f => cell + (s_index hs f - s_index hs c)) (s_bd true (Z.odd sum) hs c).
Proof.
  induction hs as [|d hs' IH]; intros c cell sum Hok Hv.
  - apply s_valid_nil_inv in Hv. subst c. reflexivity.
  - apply s_valid_cons_inv in Hv. destruct Hv as [x [c' [-> [Hx Hv']]]].
    apply shape_ok_inv in Hok. destruct Hok as [Hd Hok'].
    change (hdirs (d :: hs')) with ((s_total hs', d) :: hdirs hs').
    rewrite bd_per_loop_cons, s_bd_cons, s_index_cons.
    destruct (divmod_helper x (s_total hs') (s_index hs' c') (s_index_range hs' c' Hok' Hv')) as [Hq Hr].
    rewrite Hq, Hr.
    destruct (Z.odd x) eqn:Hodd.
    + rewrite map_app, map_shift, IH by assumption. rewrite odd_succ_negb. f_equal.
      unfold hi, lo.
      destruct (snd d) eqn:Hs; [destruct (x =? 2 * fst d - 1) eqn:Hx1; [apply Z.eqb_eq in Hx1; subst x|]|];
        destruct (Z.odd sum); cbn [negb andb xorb map]; rewrite ?s_index_cons;
        (apply cons_eq2; [lia|lia|reflexivity]).
    + rewrite map_shift, IH by assumption. reflexivity.
Qed.

Lemma bd_base_loop_last : forall m d cell cell1 sum, bd_base_loop [(m, d)] cell cell1 sum =
  if Z.odd cell1 then (if Z.odd sum then [cell + 1; cell - 1] else [cell - 1; cell + 1]) else [].
Proof. reflexivity. Qed.

Lemma bd_base_loop_cons : forall m d p r cell cell1 sum, bd_base_loop ((m, d) :: p :: r) cell cell1 sum =
  if Z.odd (cell1 / m)
  then (if Z.odd sum then [cell + m; cell - m] else [cell - m; cell + m])
       ++ bd_base_loop (p :: r) cell (cell1 mod m) (sum + 1)
  else bd_base_loop (p :: r) cell (cell1 mod m) sum.
Proof. intros m [d1 d2] p r cell cell1 sum. reflexivity. Qed.

Lemma bd_base_loop_spec : forall hs c cell sum, hs <> [] -> nonper hs -> shape_ok hs -> s_valid hs c ->
  bd_base_loop (hdirs hs) cell (s_index hs c) sum
  = map (fun f => cell + (s_index hs f - s_index hs c)) (s_bd false (Z.odd sum) hs c).
Proof.
  induction hs as [|d hs' IH]; intros c cell sum Hne Hnp Hok Hv; [congruence|].
  apply s_valid_cons_inv in Hv. destruct Hv as [x [c' [-> [Hx Hv']]]].
  apply shape_ok_inv in Hok. destruct Hok as [Hd Hok'].
  apply nonper_inv in Hnp. destruct Hnp as [Hs Hnp'].
  destruct hs' as [|d' hs''].
  - apply s_valid_nil_inv in Hv'. subst c'.
    change (hdirs [d]) with [(1, d)]. rewrite bd_base_loop_last, s_bd_cons, s_index_cons.
    change (s_total []) with 1. change (s_index [] []) with 0. replace (x * 1 + 0) with x by lia.
    destruct (Z.odd x); [|reflexivity].
    unfold hi, lo. rewrite Hs.
    destruct (Z.odd sum); cbn [andb xorb map app s_bd]; rewrite ?s_index_cons; cbn [s_total s_index];
      (apply cons_eq2; [lia|lia|reflexivity]).
  - remember (d' :: hs'') as hs' eqn:Ehs.
    assert (Hne' : hs' <> []) by (subst hs'; discriminate).
    change (hdirs (d :: hs')) with ((s_total hs', d) :: hdirs hs').
    destruct (hdirs hs') as [|p rr] eqn:Eh; [subst hs'; cbn [hdirs] in Eh; discriminate|].
    rewrite bd_base_loop_cons, s_bd_cons, s_index_cons.
    destruct (divmod_helper x (s_total hs') (s_index hs' c') (s_index_range hs' c' Hok' Hv')) as [Hq Hr].
    rewrite Hq, Hr.
    destruct (Z.odd x) eqn:Hodd.
    + rewrite map_app, map_shift, IH by assumption. rewrite odd_succ_negb. f_equal.
      unfold hi, lo. rewrite Hs.
      destruct (Z.odd sum); cbn [negb andb xorb map]; rewrite ?s_index_cons;
        (apply cons_eq2; [lia|lia|reflexivity]).
    + rewrite map_shift, IH by assumption. reflexivity.
Qed.

Theorem a_bd_spec : forall cls sh c, sh <> [] -> shape_ok (hshape cls sh) -> s_valid (hshape cls sh) c ->
  a_bd cls sh (s_index (hshape cls sh) c) = map (s_index (hshape cls sh)) (s_bd cls false (hshape cls sh) c).
Proof.
  intros cls sh c Hne Hok Hv. unfold a_bd. rewrite a_dirs_hdirs. destruct cls.
  - rewrite (bd_per_loop_spec _ c _ 0 Hok Hv). change (Z.odd 0) with false.
    apply map_ext. intros f. lia.
  - rewrite (bd_base_loop_spec _ c _ 0 (hshape_ne _ _ Hne) (hshape_nonper sh) Hok Hv). change (Z.odd 0) with false.
    apply map_ext. intros f. lia.
Qed.

(* ================================================================ R5 : coboundary *)
Lemma s_cobd_cons : forall d hs x c,
  s_cobd (d :: hs) (x :: c) = map (fun y => y :: c) (cob_dir d x) ++ map (cons x) (s_cobd hs c).
Proof. reflexivity. Qed.

Lemma cobd_per_loop_cons : forall m d cnt r size cell cell1,
  cobd_per_loop (((m, d), cnt) :: r) size cell cell1 =
    (if Z.even (cell1 / m)
     then (if negb (snd d)
           then (if negb (cnt =? 0) && (m <? cell) then [cell - m] else [])
                ++ (if negb (cnt =? 2 * fst d) && (cell + m <? size) then [cell + m] else [])
           else if negb (cnt =? 0) then [cell - m; cell + m]
                else [cell + m; cell + (2 * fst d - 1) * m])
     else []) ++ cobd_per_loop r size cell (cell1 mod m).
Proof. reflexivity. Qed.

Lemma cobd_base_loop_last : forall d cnt size cell cell1,
  cobd_base_loop [((s_total [], d), cnt)] size cell cell1 =
  if Z.even cell1
  then (if (s_total [] <? cell) && negb (cnt =? 0) then [cell - s_total []] else [])
       ++ (if (cell + s_total [] <? size) && negb (cnt =? 2 * fst d) then [cell + s_total []] else [])
  else [].
Proof. reflexivity. Qed.

Lemma cobd_base_loop_cons : forall m d cnt p r size cell cell1,
  cobd_base_loop (((m, d), cnt) :: p :: r) size cell cell1 =
  (if Z.even (cell1 / m)
   then (if (m <? cell) && negb (cnt =? 0) then [cell - m] else [])
        ++ (if (cell + m <? size) && negb (cnt =? 2 * fst d) then [cell + m] else [])
   else []) ++ cobd_base_loop (p :: r) size cell (cell1 mod m).
Proof. reflexivity. Qed.

Lemma guard_lo : forall P E T x r cell, 0 <= P -> 0 <= E -> 1 <= T -> 0 <= r -> 2 <= x ->
  cell = P * (E * T) + (x * T + r) -> T < cell.
Proof.
  intros P E T x r cell HP HE HT Hr Hx ->.
  assert (H1 : 0 <= P * (E * T)) by (apply Z.mul_nonneg_nonneg; [lia|apply Z.mul_nonneg_nonneg; lia]).
  assert (H2 : 2 * T <= x * T) by (apply Z.mul_le_mono_nonneg_r; lia).
  lia.
Qed.

Lemma guard_hi : forall P Q E T x r cell size, 0 <= P < Q -> 1 <= T -> 0 <= r < T -> 0 <= x -> x + 2 <= E ->
  cell = P * (E * T) + (x * T + r) -> size = Q * (E * T) -> cell + T < size.
Proof.
  intros P Q E T x r cell size HP HT Hr Hx HxE -> ->.
  assert (H1 : (x + 2) * T <= E * T) by (apply Z.mul_le_mono_nonneg_r; lia).
  assert (H0 : 0 <= E * T) by (apply Z.mul_nonneg_nonneg; lia).
  assert (H2 : (P + 1) * (E * T) <= Q * (E * T)) by (apply Z.mul_le_mono_nonneg_r; lia).
  lia.
Qed.

Lemma prefix_step : forall P Q E x, 0 <= P < Q -> 0 <= x < E -> 0 <= P * E + x < Q * E.
Proof.
  intros P Q E x HP Hx.
  assert (H1 : (P + 1) * E <= Q * E) by (apply Z.mul_le_mono_nonneg_r; lia).
  assert (H2 : 0 <= P * E) by (apply Z.mul_nonneg_nonneg; lia).
  lia.
Qed.

(* the two guards of a non-periodic direction are decided by the coordinate alone *)
Lemma cob_nonper_guards : forall d hs' c' x P Q cell size,
  shape_ok hs' -> s_valid hs' c' -> 1 <= fst d -> snd d = false -> 0 <= x < s_extent d -> 0 <= P < Q ->
  cell = P * (s_extent d * s_total hs') + (x * s_total hs' + s_index hs' c') ->
  size = Q * (s_extent d * s_total hs') ->
  Z.even x = true ->
  (s_total hs' <? cell) && negb (x =? 0) = negb (x =? 0)
  /\ (cell + s_total hs' <? size) && negb (x =? 2 * fst d) = negb (x =? 2 * fst d).
Proof.
  intros d hs' c' x P Q cell size Hok Hv Hd Hs Hx HPQ Hcell Hsize Hev.
  assert (HEd : s_extent d = 2 * fst d + 1) by (unfold s_extent, extent_per; rewrite Hs; reflexivity).
  pose proof (s_total_pos hs' Hok) as HT. pose proof (s_index_range hs' c' Hok Hv) as Hr0.
  split.
  - destruct (x =? 0) eqn:Hx0; cbn [negb]; [apply andb_false_r|]. rewrite andb_true_r. apply Z.ltb_lt.
    apply Z.eqb_neq in Hx0. assert (Hx1 : x <> 1) by (intros ->; discriminate).
    apply (guard_lo P (s_extent d) _ x (s_index hs' c')); try lia; assumption.
  - destruct (x =? 2 * fst d) eqn:Hx2; cbn [negb]; [apply andb_false_r|]. rewrite andb_true_r. apply Z.ltb_lt.
    apply Z.eqb_neq in Hx2.
    apply (guard_hi P Q (s_extent d) _ x (s_index hs' c')); try lia; assumption.
Qed.

Lemma cob_nonper_map : forall d hs' c' x cell, snd d = false -> Z.even x = true ->
  (if negb (x =? 0) then [cell - s_total hs'] else []) ++ (if negb (x =? 2 * fst d) then [cell + s_total hs'] else [])
  = map (fun f => cell + (s_index (d :: hs') f - (x * s_total hs' + s_index hs' c')))
        (map (fun y => y :: c') (cob_dir d x)).
Proof.
  intros d hs' c' x cell Hs Hev. unfold cob_dir. rewrite Hs, Hev. rewrite !map_app.
  f_equal; [destruct (x =? 0) | destruct (x =? 2 * fst d)]; cbn [negb map]; try reflexivity;
    rewrite s_index_cons; f_equal; lia.
Qed.

Lemma cobd_per_loop_spec : forall hs c size cell P Q, shape_ok hs -> s_valid hs c -> 0 <= P < Q ->
  cell = P * s_total hs + s_index hs c -> size = Q * s_total hs ->
  cobd_per_loop (combine (hdirs hs) c) size cell (s_index hs c)
  = map (fun f => cell + (s_index hs f - s_index hs c)) (s_cobd hs c).
Proof.
  induction hs as [|d hs' IH]; intros c size cell P Q Hok Hv HPQ Hcell Hsize.
  - apply s_valid_nil_inv in Hv. subst c. reflexivity.
  - apply s_valid_cons_inv in Hv. destruct Hv as [x [c' [-> [Hx Hv']]]].
    apply shape_ok_inv in Hok. destruct Hok as [Hd Hok'].
    rewrite s_index_cons in Hcell. cbn [s_total] in Hcell, Hsize.
    change (combine (hdirs (d :: hs')) (x :: c')) with (((s_total hs', d), x) :: combine (hdirs hs') c').
    rewrite cobd_per_loop_cons, s_cobd_cons, s_index_cons.
    pose proof (s_index_range hs' c' Hok' Hv') as Hr0.
    destruct (divmod_helper x (s_total hs') (s_index hs' c') Hr0) as [Hq Hr].
    rewrite Hq, Hr. rewrite map_app, map_shift.
    rewrite (IH c' size cell (P * s_extent d + x) (Q * s_extent d));
      [| assumption | assumption | apply prefix_step; assumption | rewrite Hcell; ring | rewrite Hsize; ring].
    f_equal.
    destruct (Z.even x) eqn:Hev; [|unfold cob_dir; rewrite Hev; reflexivity].
    destruct (snd d) eqn:Hs; cbn [negb].
    + unfold cob_dir. rewrite Hev, Hs.
      destruct (x =? 0) eqn:Hx0; cbn [negb map]; rewrite ?s_index_cons.
      * apply Z.eqb_eq in Hx0. subst x. apply cons_eq2; [lia|lia|reflexivity].
      * apply cons_eq2; [lia|lia|reflexivity].
    + destruct (cob_nonper_guards d hs' c' x P Q cell size Hok' Hv' Hd Hs Hx HPQ Hcell Hsize Hev) as [G1 G2].
      rewrite (andb_comm (negb (x =? 0))), (andb_comm (negb (x =? 2 * fst d))).
      rewrite G1, G2. apply cob_nonper_map; assumption.
Qed.

Lemma cobd_base_loop_spec : forall hs c size cell P Q, hs <> [] -> nonper hs -> shape_ok hs -> s_valid hs c ->
  0 <= P < Q -> cell = P * s_total hs + s_index hs c -> size = Q * s_total hs ->
  cobd_base_loop (combine (hdirs hs) c) size cell (s_index hs c)
  = map (fun f => cell + (s_index hs f - s_index hs c)) (s_cobd hs c).
Proof.
  induction hs as [|d hs' IH]; intros c size cell P Q Hne Hnp Hok Hv HPQ Hcell Hsize; [congruence|].
  apply s_valid_cons_inv in Hv. destruct Hv as [x [c' [-> [Hx Hv']]]].
  apply shape_ok_inv in Hok. destruct Hok as [Hd Hok'].
  apply nonper_inv in Hnp. destruct Hnp as [Hs Hnp'].
  rewrite s_index_cons in Hcell. cbn [s_total] in Hcell, Hsize.
  destruct hs' as [|d' hs''].
  - apply s_valid_nil_inv in Hv'. subst c'.
    change (combine (hdirs [d]) [x]) with [((s_total [], d), x)].
    rewrite cobd_base_loop_last, s_cobd_cons, s_index_cons.
    assert (Hxx : Z.even (x * s_total [] + s_index [] []) = Z.even x) by (f_equal; cbn [s_total s_index]; lia).
    rewrite Hxx. change (s_cobd [] []) with (@nil (list Z)). rewrite map_app. cbn [map]. rewrite app_nil_r.
    destruct (Z.even x) eqn:Hev.
    + destruct (cob_nonper_guards d [] [] x P Q cell size (Forall_nil _) I Hd Hs Hx HPQ Hcell Hsize Hev) as [G1 G2].
      rewrite G1, G2. apply cob_nonper_map; assumption.
    + unfold cob_dir. rewrite Hev. reflexivity.
  - remember (d' :: hs'') as hs' eqn:Ehs.
    assert (Hne' : hs' <> []) by (subst hs'; discriminate).
    change (combine (hdirs (d :: hs')) (x :: c')) with (((s_total hs', d), x) :: combine (hdirs hs') c').
    assert (Hcomb : combine (hdirs hs') c' <> []).
    { subst hs'. destruct c' as [|x' c'']; [cbn [s_valid] in Hv'; contradiction|]. cbn [hdirs combine]. discriminate. }
    destruct (combine (hdirs hs') c') as [|p rr] eqn:Ec; [congruence|].
    rewrite cobd_base_loop_cons, s_cobd_cons, s_index_cons.
    pose proof (s_index_range hs' c' Hok' Hv') as Hr0.
    destruct (divmod_helper x (s_total hs') (s_index hs' c') Hr0) as [Hq Hr].
    rewrite Hq, Hr, <- Ec. rewrite map_app, map_shift.
    rewrite (IH c' size cell (P * s_extent d + x) (Q * s_extent d));
      [| assumption | assumption | assumption | assumption | apply prefix_step; assumption
       | rewrite Hcell; ring | rewrite Hsize; ring].
    f_equal.
    destruct (Z.even x) eqn:Hev.
    + destruct (cob_nonper_guards d hs' c' x P Q cell size Hok' Hv' Hd Hs Hx HPQ Hcell Hsize Hev) as [G1 G2].
      rewrite G1, G2. apply cob_nonper_map; assumption.
    + unfold cob_dir. rewrite Hev. reflexivity.
Qed.

Theorem a_cobd_spec : forall cls sh c, sh <> [] -> shape_ok (hshape cls sh) -> s_valid (hshape cls sh) c ->
  a_cobd cls sh (s_index (hshape cls sh) c) = map (s_index (hshape cls sh)) (s_cobd (hshape cls sh) c).
Proof.
  intros cls sh c Hne Hok Hv. unfold a_cobd. cbv zeta. rewrite a_dirs_hdirs, a_size_total.
  rewrite counter_loop_spec by (apply hshape_ne; exact Hne). rewrite s_counter_index by assumption.
  destruct cls.
  - rewrite (cobd_per_loop_spec _ c _ _ 0 1 Hok Hv); [| lia | lia | lia].
    apply map_ext. intros f. lia.
  - rewrite (cobd_base_loop_spec _ c _ _ 0 1 (hshape_ne _ _ Hne) (hshape_nonper sh) Hok Hv); [| lia | lia | lia].
    apply map_ext. intros f. lia.
Qed.

Print Assumptions a_bd_spec.
Print Assumptions a_cobd_spec.
Print Assumptions a_dim_index.
