(* C13 — proofs about the specification model (PART B of C13_Model.v): mixed-radix index/counter bijection,
   boundary/coboundary stay inside the complex, dimension of faces, boundary of boundary is zero with the alternating
   signs of the enumeration, boundary and coboundary are converse relations. *)
From Coq Require Import ZArith List Bool Lia ZifyBool.
Require Import C13_Model.
Import ListNotations.
Local Open Scope Z_scope.

(* every side has at least one top cell *)
Definition shape_ok (hs : shape) : Prop := Forall (fun d => 1 <= fst d) hs.

Lemma s_extent_ge2 : forall d, 1 <= fst d -> 2 <= s_extent d.
Proof. intros d H. unfold s_extent, extent_per. destruct (snd d); lia. Qed.

(* ---------------------------------------------------------------- 1-6 : index / counter *)
Theorem s_total_pos : forall hs, shape_ok hs -> 0 < s_total hs.
Proof.
  intros hs H. induction H as [|d r Hd Hr IH]; cbn [s_total]; [lia|].
  pose proof (s_extent_ge2 d Hd). nia.
Qed.

Theorem s_index_range : forall hs c, shape_ok hs -> s_valid hs c -> 0 <= s_index hs c < s_total hs.
Proof.
  intros hs c H. revert c. induction H as [|d r Hd Hr IH]; intros c Hv.
  - destruct c; cbn in *; [lia|tauto].
  - destruct c as [|x c']; cbn [s_valid] in Hv; [tauto|]. destruct Hv as [Hx Hv'].
    cbn [s_index s_total]. specialize (IH c' Hv'). nia.
Qed.

Theorem s_counter_index : forall hs c, shape_ok hs -> s_valid hs c -> s_counter hs (s_index hs c) = c.
Proof.
  intros hs c H. revert c. induction H as [|d r Hd Hr IH]; intros c Hv.
  - destruct c; cbn in *; [reflexivity|tauto].
  - destruct c as [|x c']; cbn [s_valid] in Hv; [tauto|]. destruct Hv as [Hx Hv'].
    cbn [s_index s_counter].
    pose proof (s_index_range r c' Hr Hv') as Hi.
    assert (Hq : (x * s_total r + s_index r c') / s_total r = x).
    { rewrite Z.div_add_l by lia. rewrite Z.div_small by lia. lia. }
    assert (Hm : (x * s_total r + s_index r c') mod s_total r = s_index r c').
    { rewrite Z.add_comm, Z.mod_add by lia. apply Z.mod_small; lia. }
    rewrite Hq, Hm, IH by assumption. reflexivity.
Qed.

Theorem s_counter_valid : forall hs i, shape_ok hs -> 0 <= i < s_total hs -> s_valid hs (s_counter hs i).
Proof.
  intros hs i H. revert i. induction H as [|d r Hd Hr IH]; intros i Hi.
  - cbn. exact I.
  - cbn [s_counter s_valid]. cbn [s_total] in Hi. pose proof (s_total_pos r Hr) as Ht. split.
    + split; [apply Z.div_pos; lia|]. apply Z.div_lt_upper_bound; [lia|]. nia.
    + apply IH. apply Z.mod_pos_bound. lia.
Qed.

Theorem s_index_counter : forall hs i, shape_ok hs -> 0 <= i < s_total hs -> s_index hs (s_counter hs i) = i.
Proof.
  intros hs i H. revert i. induction H as [|d r Hd Hr IH]; intros i Hi.
  - cbn in *. lia.
  - cbn [s_counter s_index]. cbn [s_total] in Hi. pose proof (s_total_pos r Hr) as Ht.
    rewrite IH by (apply Z.mod_pos_bound; lia).
    pose proof (Z.div_mod i (s_total r)). lia.
Qed.

Theorem s_index_inj : forall hs c1 c2, shape_ok hs -> s_valid hs c1 -> s_valid hs c2 ->
  s_index hs c1 = s_index hs c2 -> c1 = c2.
Proof.
  intros hs c1 c2 H H1 H2 E.
  rewrite <- (s_counter_index hs c1 H H1), <- (s_counter_index hs c2 H H2), E. reflexivity.
Qed.

(* ---------------------------------------------------------------- parity helpers *)
Lemma odd_true_ex : forall x, Z.odd x = true -> exists m, x = 2 * m + 1.
Proof. intros x H. apply Z.odd_spec in H. exact H. Qed.
Lemma odd_false_ex : forall x, Z.odd x = false -> exists m, x = 2 * m.
Proof. intros x H. rewrite <- Z.negb_even in H. apply negb_false_iff in H. apply Z.even_spec in H. exact H. Qed.
Lemma odd_2m : forall m, Z.odd (2 * m) = false.
Proof. intros m. rewrite Z.odd_mul. reflexivity. Qed.
Lemma odd_2m1 : forall m, Z.odd (2 * m + 1) = true.
Proof. intros m. rewrite Z.odd_add, odd_2m. reflexivity. Qed.
Lemma odd_lo : forall x, Z.odd x = true -> Z.odd (lo x) = false.
Proof.
  intros x H. destruct (odd_true_ex x H) as [m ->]. unfold lo.
  replace (2 * m + 1 - 1) with (2 * m) by lia. apply odd_2m.
Qed.
Lemma odd_hi : forall d x, Z.odd x = true -> Z.odd (hi d x) = false.
Proof.
  intros d x H. destruct (odd_true_ex x H) as [m ->]. unfold hi.
  destruct (snd d && (2 * m + 1 =? 2 * fst d - 1)); [reflexivity|].
  replace (2 * m + 1 + 1) with (2 * (m + 1)) by lia. apply odd_2m.
Qed.

(* ---------------------------------------------------------------- 7 : faces and cofaces are cells of the complex *)
Lemma lo_range : forall d x, Z.odd x = true -> 0 <= x < s_extent d -> 0 <= lo x < s_extent d.
Proof. intros d x H Hx. destruct (odd_true_ex x H) as [m ->]. unfold lo. lia. Qed.
Lemma hi_range : forall d x, Z.odd x = true -> 0 <= x < s_extent d -> 0 <= hi d x < s_extent d.
Proof.
  intros d x H Hx. destruct (odd_true_ex x H) as [m ->]. unfold hi, s_extent, extent_per in *.
  destruct (snd d); cbn [andb]; [destruct (Z.eqb_spec (2 * m + 1) (2 * fst d - 1))|]; lia.
Qed.

Theorem s_bd_valid : forall flip k hs c f, shape_ok hs -> s_valid hs c -> In f (s_bd flip k hs c) -> s_valid hs f.
Proof.
  intros flip k hs c f H. revert k c f. induction H as [|d r Hd Hr IH]; intros k c f Hv Hf.
  - cbn in Hf. tauto.
  - destruct c as [|x c']; cbn [s_valid] in Hv; [tauto|]. destruct Hv as [Hx Hv'].
    cbn [s_bd] in Hf. destruct (Z.odd x) eqn:Ho.
    + apply in_app_or in Hf. destruct Hf as [Hf|Hf].
      * assert (Hf' : f = lo x :: c' \/ f = hi d x :: c').
        { destruct (xorb flip k); cbn [In] in Hf; intuition. }
        destruct Hf' as [-> | ->]; cbn [s_valid]; split; auto using lo_range, hi_range.
      * apply in_map_iff in Hf. destruct Hf as [f' [<- Hf']]. cbn [s_valid]. split; [exact Hx|]. eapply IH; eauto.
    + apply in_map_iff in Hf. destruct Hf as [f' [<- Hf']]. cbn [s_valid]. split; [exact Hx|]. eapply IH; eauto.
Qed.

Lemma cob_dir_range : forall d x y, 0 <= x < s_extent d -> In y (cob_dir d x) -> 0 <= y < s_extent d.
Proof.
  intros [s p] x y Hx Hy. unfold cob_dir, s_extent, extent_per in *. cbn [fst snd] in *.
  destruct (Z.even x) eqn:He; [|cbn in Hy; tauto].
  apply Z.even_spec in He. destruct He as [m ->].
  destruct p.
  - destruct (Z.eqb_spec (2 * m) 0); cbn [In] in Hy; lia.
  - apply in_app_or in Hy.
    destruct (Z.eqb_spec (2 * m) 0); destruct (Z.eqb_spec (2 * m) (2 * s)); cbn [In] in Hy; lia.
Qed.

Theorem s_cobd_valid : forall hs c f, shape_ok hs -> s_valid hs c -> In f (s_cobd hs c) -> s_valid hs f.
Proof.
  intros hs c f H. revert c f. induction H as [|d r Hd Hr IH]; intros c f Hv Hf.
  - cbn in Hf. tauto.
  - destruct c as [|x c']; cbn [s_valid] in Hv; [tauto|]. destruct Hv as [Hx Hv'].
    cbn [s_cobd] in Hf. apply in_app_or in Hf. destruct Hf as [Hf|Hf].
    + apply in_map_iff in Hf. destruct Hf as [y [<- Hy]]. cbn [s_valid]. split; [|exact Hv'].
      eapply cob_dir_range; eauto.
    + apply in_map_iff in Hf. destruct Hf as [f' [<- Hf']]. cbn [s_valid]. split; [exact Hx|]. eapply IH; eauto.
Qed.

(* ---------------------------------------------------------------- 8 : dimension and number of faces *)
Theorem s_bd_dim : forall flip k hs c f, In f (s_bd flip k hs c) -> s_dim f = s_dim c - 1.
Proof.
  intros flip k hs. revert k. induction hs as [|d r IH]; intros k c f Hf.
  - cbn in Hf. tauto.
  - destruct c as [|x c']; [cbn in Hf; tauto|].
    cbn [s_bd] in Hf. destruct (Z.odd x) eqn:Ho.
    + apply in_app_or in Hf. destruct Hf as [Hf|Hf].
      * assert (Hf' : f = lo x :: c' \/ f = hi d x :: c').
        { destruct (xorb flip k); cbn [In] in Hf; intuition. }
        destruct Hf' as [-> | ->]; cbn [s_dim]; rewrite Ho; [rewrite odd_lo by exact Ho|rewrite odd_hi by exact Ho]; lia.
      * apply in_map_iff in Hf. destruct Hf as [f' [<- Hf']]. cbn [s_dim]. rewrite (IH _ _ _ Hf'). lia.
    + apply in_map_iff in Hf. destruct Hf as [f' [<- Hf']]. cbn [s_dim]. rewrite (IH _ _ _ Hf'). lia.
Qed.

(* [length hs = length c] is needed: s_bd stops at the shorter list, s_dim counts all of c *)
Theorem s_bd_length : forall flip k hs c, length hs = length c ->
  Z.of_nat (length (s_bd flip k hs c)) = 2 * s_dim c.
Proof.
  intros flip k hs. revert k. induction hs as [|d r IH]; intros k c Hl.
  - destruct c; [reflexivity|discriminate].
  - destruct c as [|x c']; [discriminate|]. cbn [length] in Hl. injection Hl as Hl.
    cbn [s_bd s_dim]. destruct (Z.odd x) eqn:Ho.
    + rewrite app_length, map_length, Nat2Z.inj_add, (IH _ _ Hl). destruct (xorb flip k); cbn [length]; lia.
    + rewrite map_length, (IH _ _ Hl). lia.
Qed.

(* ---------------------------------------------------------------- 9 : the parity flag and flip only permute *)
Theorem s_bd_k_perm : forall flip flip' k k' hs c f, In f (s_bd flip k hs c) <-> In f (s_bd flip' k' hs c).
Proof.
  intros flip flip' k k' hs. revert k k'. induction hs as [|d r IH]; intros k k' c f.
  - cbn. tauto.
  - destruct c as [|x c']; [cbn; tauto|].
    cbn [s_bd]. destruct (Z.odd x).
    + rewrite !in_app_iff, !in_map_iff.
      assert (E : In f (if xorb flip k then [hi d x :: c'; lo x :: c'] else [lo x :: c'; hi d x :: c']) <->
                  In f (if xorb flip' k' then [hi d x :: c'; lo x :: c'] else [lo x :: c'; hi d x :: c'])).
      { destruct (xorb flip k), (xorb flip' k'); cbn [In]; tauto. }
      rewrite E. split; (intros [Hf|[f' [Hf1 Hf2]]]; [left; exact Hf|right; exists f'; split; [exact Hf1|]]).
      * apply (IH (negb k) (negb k')); exact Hf2.
      * apply (IH (negb k) (negb k')); exact Hf2.
    + rewrite !in_map_iff. split; intros [f' [Hf1 Hf2]]; exists f'; (split; [exact Hf1|]).
      * apply (IH k k'); exact Hf2.
      * apply (IH k k'); exact Hf2.
Qed.

(* ---------------------------------------------------------------- 10 : boundary of boundary is zero *)
(* chains are compared through their coefficient functions *)
Definition ceq (a b : chain) : Prop := forall y, coef a y = coef b y.

(* linear extension of a function on cells to chains *)
Definition lsum (l : chain) (g : list Z -> Z) : Z := fold_right (fun sc acc => fst sc * g (snd sc) + acc) 0 l.
Definition ind (c y : list Z) : Z := if list_eqb c y then 1 else 0.
Definition consx (x : Z) (sc : Z * list Z) : Z * list Z := (fst sc, x :: snd sc).
Definition coefcons (u : Z) (l : chain) (y : list Z) : Z :=
  match y with [] => 0 | y0 :: y' => if u =? y0 then coef l y' else 0 end.

Lemma coef_nil : forall y, coef [] y = 0.
Proof. reflexivity. Qed.
Lemma coef_cons : forall s c l y, coef ((s, c) :: l) y = s * ind c y + coef l y.
Proof. intros. unfold coef, ind. cbn [fold_right fst snd]. destruct (list_eqb c y); lia. Qed.
Lemma coef_app : forall l1 l2 y, coef (l1 ++ l2) y = coef l1 y + coef l2 y.
Proof.
  intros l1 l2 y. induction l1 as [|[s c] l1 IH]; [reflexivity|].
  cbn [app]. rewrite !coef_cons, IH. lia.
Qed.
Lemma coef_scale : forall s l y, coef (scale s l) y = s * coef l y.
Proof.
  intros s l y. induction l as [|[t c] l IH]; [cbn; lia|].
  unfold scale in *. cbn [map fst snd]. rewrite !coef_cons, IH. lia.
Qed.
Lemma coef_lsum : forall l y, coef l y = lsum l (fun c => ind c y).
Proof.
  intros l y. induction l as [|[s c] l IH]; [reflexivity|].
  rewrite coef_cons, IH. reflexivity.
Qed.
Lemma coef_bind : forall (F : list Z -> chain) l y,
  coef (flat_map (fun sc => scale (fst sc) (F (snd sc))) l) y = lsum l (fun c => coef (F c) y).
Proof.
  intros F l y. induction l as [|[s c] l IH]; [reflexivity|].
  cbn [flat_map fst snd]. rewrite coef_app, coef_scale, IH. reflexivity.
Qed.

Lemma lsum_cons : forall s c l g, lsum ((s, c) :: l) g = s * g c + lsum l g.
Proof. reflexivity. Qed.
Lemma lsum_app : forall l1 l2 g, lsum (l1 ++ l2) g = lsum l1 g + lsum l2 g.
Proof.
  intros l1 l2 g. induction l1 as [|[s c] l1 IH]; [reflexivity|].
  cbn [app]. rewrite !lsum_cons, IH. lia.
Qed.
Lemma lsum_ext : forall l g1 g2, (forall c, g1 c = g2 c) -> lsum l g1 = lsum l g2.
Proof.
  intros l g1 g2 H. induction l as [|[s c] l IH]; [reflexivity|].
  rewrite !lsum_cons, IH, H. reflexivity.
Qed.
Lemma lsum_zero : forall l, lsum l (fun _ => 0) = 0.
Proof. intros l. induction l as [|[s c] l IH]; [reflexivity|]. rewrite lsum_cons, IH. lia. Qed.
Lemma lsum_add : forall l g1 g2, lsum l (fun c => g1 c + g2 c) = lsum l g1 + lsum l g2.
Proof.
  intros l g1 g2. induction l as [|[s c] l IH]; [reflexivity|]. rewrite !lsum_cons, IH. lia.
Qed.
Lemma lsum_sub : forall l g1 g2, lsum l (fun c => g1 c - g2 c) = lsum l g1 - lsum l g2.
Proof.
  intros l g1 g2. induction l as [|[s c] l IH]; [reflexivity|]. rewrite !lsum_cons, IH. lia.
Qed.
Lemma lsum_mul : forall l a g, lsum l (fun c => a * g c) = a * lsum l g.
Proof.
  intros l a g. induction l as [|[s c] l IH]; [cbn; lia|]. rewrite !lsum_cons, IH. lia.
Qed.
Lemma lsum_map_consx : forall x l g, lsum (map (consx x) l) g = lsum l (fun c => g (x :: c)).
Proof.
  intros x l g. induction l as [|[s c] l IH]; [reflexivity|].
  cbn [map]. unfold consx at 1. cbn [fst snd]. rewrite !lsum_cons, IH. reflexivity.
Qed.

Lemma ind_cons_coefcons : forall u l y, lsum l (fun z => ind (u :: z) y) = coefcons u l y.
Proof.
  intros u l y. destruct y as [|y0 y']; unfold ind; cbn [list_eqb coefcons].
  - apply lsum_zero.
  - destruct (u =? y0); cbn [andb].
    + symmetry. apply coef_lsum.
    + apply lsum_zero.
Qed.
Lemma coef_map_consx : forall x l y, coef (map (consx x) l) y = coefcons x l y.
Proof.
  intros x l y. rewrite coef_lsum, lsum_map_consx. apply ind_cons_coefcons.
Qed.
Lemma lsum_coefcons_zero : forall x l (F : list Z -> chain) y,
  (forall y', lsum l (fun z => coef (F z) y') = 0) -> lsum l (fun z => coefcons x (F z) y) = 0.
Proof.
  intros x l F y H. destruct y as [|y0 y']; cbn [coefcons]; [apply lsum_zero|].
  destruct (x =? y0); [apply H|apply lsum_zero].
Qed.

Lemma alt_map_cons : forall x s l, alt s (map (cons x) l) = map (consx x) (alt s l).
Proof.
  intros x s l. revert s. induction l as [|a l IH]; intros s; [reflexivity|].
  cbn [map alt]. rewrite IH. reflexivity.
Qed.

(* the signed boundary with parity flag k *)
Definition sB (flip k : bool) (hs : shape) (c : list Z) : chain := alt 1 (s_bd flip k hs c).

Lemma sB_nil_shape : forall flip k c, sB flip k [] c = [].
Proof. reflexivity. Qed.
Lemma sB_nil_cell : forall flip k hs, sB flip k hs [] = [].
Proof. intros. destruct hs; reflexivity. Qed.
Lemma sB_cons_even : forall flip k d hs x c, Z.odd x = false ->
  sB flip k (d :: hs) (x :: c) = map (consx x) (sB flip k hs c).
Proof. intros. unfold sB. cbn [s_bd]. rewrite H. apply alt_map_cons. Qed.
Lemma sB_cons_odd : forall flip k d hs x c, Z.odd x = true ->
  sB flip k (d :: hs) (x :: c) =
  (if xorb flip k then [(1, hi d x :: c); (-1, lo x :: c)] else [(1, lo x :: c); (-1, hi d x :: c)])
  ++ map (consx x) (sB flip (negb k) hs c).
Proof.
  intros. unfold sB. cbn [s_bd]. rewrite H.
  destruct (xorb flip k); cbn [app alt]; rewrite alt_map_cons; reflexivity.
Qed.
Lemma coef_sB_cons_even : forall flip k d hs x c y, Z.odd x = false ->
  coef (sB flip k (d :: hs) (x :: c)) y = coefcons x (sB flip k hs c) y.
Proof. intros. rewrite sB_cons_even by assumption. apply coef_map_consx. Qed.
Lemma coef_sB_cons_odd : forall flip k d hs x c y, Z.odd x = true ->
  coef (sB flip k (d :: hs) (x :: c)) y =
  (if xorb flip k then -1 else 1) * (ind (lo x :: c) y - ind (hi d x :: c) y)
  + coefcons x (sB flip (negb k) hs c) y.
Proof.
  intros. rewrite sB_cons_odd by assumption. rewrite coef_app, coef_map_consx.
  destruct (xorb flip k); rewrite !coef_cons, coef_nil; lia.
Qed.

(* changing the parity flag negates the chain *)
Lemma coef_sB_negb : forall flip hs k c y, coef (sB flip (negb k) hs c) y = - coef (sB flip k hs c) y.
Proof.
  intros flip hs. induction hs as [|d r IH]; intros k c y; [reflexivity|].
  destruct c as [|x c']; [rewrite !sB_nil_cell; reflexivity|].
  destruct (Z.odd x) eqn:Ho.
  - rewrite !coef_sB_cons_odd by exact Ho.
    assert (E : coefcons x (sB flip (negb (negb k)) r c') y = - coefcons x (sB flip (negb k) r c') y).
    { destruct y as [|y0 y']; cbn [coefcons]; [lia|]. destruct (x =? y0); [apply IH|lia]. }
    rewrite E. destruct flip, k; cbn [xorb negb]; lia.
  - rewrite !coef_sB_cons_even by exact Ho.
    destruct y as [|y0 y']; cbn [coefcons]; [lia|]. destruct (x =? y0); [apply IH|lia].
Qed.
Lemma coef_sB_norm : forall flip hs k c y,
  coef (sB flip k hs c) y = (if k then -1 else 1) * coef (sB flip false hs c) y.
Proof.
  intros flip hs k c y. destruct k; [|lia].
  change true with (negb false). rewrite coef_sB_negb. lia.
Qed.
Lemma coefcons_sB_norm : forall flip hs k u c y,
  coefcons u (sB flip k hs c) y = (if k then -1 else 1) * coefcons u (sB flip false hs c) y.
Proof.
  intros flip hs k u c y. destruct y as [|y0 y']; cbn [coefcons]; [lia|].
  destruct (u =? y0); [apply coef_sB_norm|lia].
Qed.

Lemma dd_zero_gen : forall flip hs k1 k2 c y,
  lsum (sB flip k1 hs c) (fun z => coef (sB flip k2 hs z) y) = 0.
Proof.
  intros flip hs. induction hs as [|d r IH]; intros k1 k2 c y; [reflexivity|].
  destruct c as [|x c']; [rewrite sB_nil_cell; reflexivity|].
  destruct (Z.odd x) eqn:Ho.
  - rewrite sB_cons_odd by exact Ho. rewrite lsum_app, lsum_map_consx.
    rewrite (lsum_ext _ (fun z => coef (sB flip k2 (d :: r) (x :: z)) y)
                          (fun z => (if xorb flip k2 then -1 else 1) * (ind (lo x :: z) y - ind (hi d x :: z) y)
                                    + coefcons x (sB flip (negb k2) r z) y))
      by (intros z; apply coef_sB_cons_odd; exact Ho).
    rewrite lsum_add, lsum_mul, lsum_sub, !ind_cons_coefcons.
    rewrite (lsum_coefcons_zero x _ (sB flip (negb k2) r)) by (intros y'; apply IH).
    assert (Hl : forall k, coef (sB flip k (d :: r) (lo x :: c')) y =
                           (if k then -1 else 1) * coefcons (lo x) (sB flip false r c') y).
    { intros k. rewrite coef_sB_cons_even by (apply odd_lo, Ho). apply coefcons_sB_norm. }
    assert (Hh : forall k, coef (sB flip k (d :: r) (hi d x :: c')) y =
                           (if k then -1 else 1) * coefcons (hi d x) (sB flip false r c') y).
    { intros k. rewrite coef_sB_cons_even by (apply odd_hi, Ho). apply coefcons_sB_norm. }
    rewrite (coefcons_sB_norm flip r (negb k1)), (coefcons_sB_norm flip r (negb k1) (hi d x)).
    destruct flip, k1, k2; cbn [xorb negb]; rewrite !lsum_cons, Hl, Hh; cbn [lsum fold_right]; lia.
  - rewrite sB_cons_even by exact Ho. rewrite lsum_map_consx.
    rewrite (lsum_ext _ (fun z => coef (sB flip k2 (d :: r) (x :: z)) y) (fun z => coefcons x (sB flip k2 r z) y))
      by (intros z; apply coef_sB_cons_even; exact Ho).
    apply lsum_coefcons_zero. intros y'. apply IH.
Qed.

(* no validity hypothesis is needed *)
Theorem s_dd_zero : forall flip hs c y, coef (s_sbd_chain flip hs (s_sbd flip hs c)) y = 0.
Proof.
  intros flip hs c y. unfold s_sbd_chain.
  rewrite (coef_bind (s_sbd flip hs)). apply (dd_zero_gen flip hs false false).
Qed.

Lemma ceq_app : forall a a' b b', ceq a a' -> ceq b b' -> ceq (a ++ b) (a' ++ b').
Proof. intros a a' b b' Ha Hb y. rewrite !coef_app, Ha, Hb. reflexivity. Qed.
Lemma ceq_scale : forall s a a', ceq a a' -> ceq (scale s a) (scale s a').
Proof. intros s a a' Ha y. rewrite !coef_scale, Ha. reflexivity. Qed.
Corollary s_dd_zero_ceq : forall flip hs c, ceq (s_sbd_chain flip hs (s_sbd flip hs c)) [].
Proof. intros flip hs c y. rewrite s_dd_zero. reflexivity. Qed.

(* ---------------------------------------------------------------- 11 : boundary and coboundary are converse *)
Lemma In_s_cobd_cons : forall d hs x0 x' y,
  In y (s_cobd (d :: hs) (x0 :: x')) <->
  (exists y0, y = y0 :: x' /\ In y0 (cob_dir d x0)) \/ (exists y', y = x0 :: y' /\ In y' (s_cobd hs x')).
Proof.
  intros d hs x0 x' y. cbn [s_cobd]. rewrite in_app_iff, !in_map_iff.
  split; (intros [[a [H1 H2]]|[a [H1 H2]]]; [left|right]; exists a; split; auto).
Qed.

Lemma In_s_bd_cons : forall flip k d hs y0 y' f,
  In f (s_bd flip k (d :: hs) (y0 :: y')) <->
  (Z.odd y0 = true /\ (f = lo y0 :: y' \/ f = hi d y0 :: y')) \/
  (exists f', f = y0 :: f' /\ In f' (s_bd flip k hs y')).
Proof.
  intros flip k d hs y0 y' f. cbn [s_bd]. destruct (Z.odd y0) eqn:Ho.
  - rewrite in_app_iff, in_map_iff. split.
    + intros [H|[a [H1 H2]]].
      * left. split; [reflexivity|]. destruct (xorb flip k); cbn [In] in H; intuition.
      * right. exists a. split; [auto|]. apply (s_bd_k_perm flip flip (negb k) k). exact H2.
    + intros [[_ H]|[a [H1 H2]]].
      * left. destruct (xorb flip k); cbn [In]; intuition.
      * right. exists a. split; [auto|]. apply (s_bd_k_perm flip flip k (negb k)). exact H2.
  - rewrite in_map_iff. split.
    + intros [a [H1 H2]]. right. exists a. auto.
    + intros [[H _]|[a [H1 H2]]]; [discriminate|]. exists a. auto.
Qed.

Lemma cob_dir_spec : forall d x0 y0, 1 <= fst d -> 0 <= x0 < s_extent d -> 0 <= y0 < s_extent d ->
  (In y0 (cob_dir d x0) <-> Z.odd y0 = true /\ (x0 = lo y0 \/ x0 = hi d y0)).
Proof.
  intros [s p] x0 y0 Hd Hx Hy. unfold cob_dir, hi, lo, s_extent, extent_per in *. cbn [fst snd] in *.
  destruct (Z.even x0) eqn:Hex.
  - apply Z.even_spec in Hex. destruct Hex as [a ->].
    destruct (Z.odd y0) eqn:Hoy.
    + destruct (odd_true_ex y0 Hoy) as [b ->].
      destruct p; cbn [andb].
      * destruct (Z.eqb_spec (2 * a) 0); destruct (Z.eqb_spec (2 * b + 1) (2 * s - 1)); cbn [In]; split;
          try (intros [H|[H|[]]]; (split; [reflexivity|lia]));
          try (intros [_ [H|H]]; lia).
      * rewrite in_app_iff.
        destruct (Z.eqb_spec (2 * a) 0); destruct (Z.eqb_spec (2 * a) (2 * s)); cbn [In]; split;
          try (intros H; (split; [reflexivity|lia]));
          try (intros [_ [H|H]]; lia).
    + destruct (odd_false_ex y0 Hoy) as [b ->]. split; [|intros [H _]; discriminate].
      intros H. exfalso. destruct p.
      * destruct (Z.eqb_spec (2 * a) 0); cbn [In] in H; lia.
      * apply in_app_or in H.
        destruct (Z.eqb_spec (2 * a) 0); destruct (Z.eqb_spec (2 * a) (2 * s)); cbn [In] in H; lia.
  - cbn [In]. split; [tauto|]. intros [Hoy H]. exfalso.
    destruct (odd_true_ex y0 Hoy) as [b ->].
    rewrite <- Z.negb_odd in Hex. apply negb_false_iff in Hex. destruct (odd_true_ex x0 Hex) as [a ->].
    destruct p; cbn [andb] in H; [destruct (Z.eqb_spec (2 * b + 1) (2 * s - 1))|]; lia.
Qed.

Theorem s_bd_cobd_converse : forall flip k hs x y, shape_ok hs -> s_valid hs x -> s_valid hs y ->
  (In y (s_cobd hs x) <-> In x (s_bd flip k hs y)).
Proof.
  intros flip k hs x y H. revert x y. induction H as [|d r Hd Hr IH]; intros x y Hvx Hvy.
  - cbn. tauto.
  - destruct x as [|x0 x']; cbn [s_valid] in Hvx; [tauto|]. destruct Hvx as [Hx0 Hvx'].
    destruct y as [|y0 y']; cbn [s_valid] in Hvy; [tauto|]. destruct Hvy as [Hy0 Hvy'].
    rewrite In_s_cobd_cons, In_s_bd_cons.
    pose proof (cob_dir_spec d x0 y0 Hd Hx0 Hy0) as Hc.
    specialize (IH x' y' Hvx' Hvy').
    split.
    + intros [[a [E Ha]]|[a [E Ha]]].
      * injection E as E1 E2. subst a y'. left. apply Hc in Ha. destruct Ha as [Ho [Ha|Ha]].
        -- split; [exact Ho|]. left. rewrite Ha. reflexivity.
        -- split; [exact Ho|]. right. rewrite Ha. reflexivity.
      * injection E as E1 E2. subst a y0. right. exists x'. split; [reflexivity|]. apply IH. exact Ha.
    + intros [[Ho [E|E]]|[a [E Ha]]].
      * injection E as E1 E2. subst x'. left. exists y0. split; [reflexivity|]. apply Hc. auto.
      * injection E as E1 E2. subst x'. left. exists y0. split; [reflexivity|]. apply Hc. auto.
      * injection E as E1 E2. subst a y0. right. exists y'. split; [reflexivity|]. apply IH. exact Ha.
Qed.

Print Assumptions s_dd_zero.
Print Assumptions s_bd_cobd_converse.
