(* C13 — the value propagation loop [star_rounds] (C++ impose_lower_star_filtration and the periodic class's
   impose_lower_star_filtration_from_vertices) computes, in an abstract graded setting, the minimum (maximum) of the
   input values over the top cells above (vertices below) every cell.  Self-contained: imports only C13_Model. *)
From Coq Require Import ZArith List Bool Lia ZifyBool Permutation.
Require Import C13_Model.
Import ListNotations.
Local Open Scope Z_scope.

(* ================================================================ lists: upd / getd / getb *)
Lemma upd_nat_length {A} : forall (l : list A) k v, length (upd_nat l k v) = length l.
Proof. induction l; destruct k; simpl; intros; auto. Qed.

Lemma upd_length {A} : forall (l : list A) i v, length (upd l i v) = length l.
Proof. intros; unfold upd; destruct (i <? 0); auto using upd_nat_length. Qed.

Lemma nth_upd_nat_same {A} : forall (l : list A) k v d, (k < length l)%nat -> nth k (upd_nat l k v) d = v.
Proof. induction l; destruct k; simpl; intros; try lia; auto. apply IHl; lia. Qed.

Lemma nth_upd_nat_other {A} : forall (l : list A) k j v d, k <> j -> nth j (upd_nat l k v) d = nth j l d.
Proof. induction l; destruct k; destruct j; simpl; intros; try congruence; auto. Qed.

Lemma getd_upd_same : forall data j v, 0 <= j < Z.of_nat (length data) -> getd (upd data j v) j = v.
Proof.
  intros. unfold getd, upd. destruct (j <? 0) eqn:E; try lia. apply nth_upd_nat_same; lia.
Qed.

Lemma getd_upd_other : forall data j v i, i <> j -> getd (upd data j v) i = getd data i.
Proof.
  intros. unfold getd, upd. destruct (j <? 0) eqn:E; auto. destruct (i <? 0) eqn:E2; auto.
  apply nth_upd_nat_other; lia.
Qed.

Lemma getb_upd_same : forall l j v, 0 <= j < Z.of_nat (length l) -> getb (upd l j v) j = v.
Proof.
  intros. unfold getb, upd. destruct (j <? 0) eqn:E; try lia. apply nth_upd_nat_same; lia.
Qed.

Lemma getb_upd_other : forall l j v i, i <> j -> getb (upd l j v) i = getb l i.
Proof.
  intros. unfold getb, upd. destruct (j <? 0) eqn:E; auto. destruct (i <? 0) eqn:E2; auto.
  apply nth_upd_nat_other; lia.
Qed.

Lemma nth_repeat_lt {A} : forall (a d : A) m k, (k < m)%nat -> nth k (repeat a m) d = a.
Proof. induction m; destruct k; simpl; intros; try lia; auto. apply IHm; lia. Qed.

Lemma getb_repeat_false : forall m c, 0 <= c < Z.of_nat m -> getb (repeat false m) c = false.
Proof.
  intros. unfold getb. destruct (c <? 0) eqn:E; try lia. apply nth_repeat_lt; lia.
Qed.

(* ================================================================ order facts on ext *)
Lemma ext_ltb_irr : forall a, ext_ltb a a = false.
Proof. destruct a; simpl; auto. apply Z.ltb_irrefl. Qed.

Lemma ext_ltb_trans : forall a b c, ext_ltb a b = true -> ext_ltb b c = true -> ext_ltb a c = true.
Proof. destruct a, b, c; simpl; intros; try discriminate; auto; lia. Qed.

Lemma ext_ltb_total : forall a b, ext_ltb a b = false -> ext_ltb b a = false -> a = b.
Proof. destruct a, b; simpl; intros; try discriminate; auto. f_equal; lia. Qed.

Lemma ext_ltb_PInf : forall a, ext_ltb PInf a = false.
Proof. reflexivity. Qed.

Lemma ext_ltb_MInf : forall a, ext_ltb a MInf = false.
Proof. destruct a; reflexivity. Qed.

(* ================================================================ reachability, optimum predicates *)
Inductive below (nbf : Z -> list Z) : Z -> Z -> Prop :=
| below_refl : forall t, below nbf t t
| below_step : forall b i t, In b (nbf i) -> below nbf i t -> below nbf b t.

Definition is_opt_over (ltb : ext -> ext -> bool) (P : Z -> Prop) (v0 : Z -> ext) (v : ext) : Prop :=
  (forall t, P t -> ltb (v0 t) v = false) /\ (exists t, P t /\ v0 t = v).

(* v is a lower bound of the values v0 t, P t, and is attained *)
Definition is_min_over (P : Z -> Prop) (v0 : Z -> ext) (v : ext) : Prop :=
  (forall t, P t -> ext_ltb (v0 t) v = false) /\ (exists t, P t /\ v0 t = v).
(* v is an upper bound of the values v0 t, P t, and is attained *)
Definition is_max_over (P : Z -> Prop) (v0 : Z -> ext) (v : ext) : Prop :=
  (forall t, P t -> ext_ltb v (v0 t) = false) /\ (exists t, P t /\ v0 t = v).

Lemma is_opt_over_ext : forall ltb (P Q : Z -> Prop) v0 v,
  (forall t, P t <-> Q t) -> is_opt_over ltb P v0 v -> is_opt_over ltb Q v0 v.
Proof.
  intros ltb P Q v0 v H (H1 & t & Ht & Hv). split.
  - intros t' Ht'. apply H1. apply H; auto.
  - exists t; split; auto. apply H; auto.
Qed.

Lemma star_cell_cons : forall better b bs i st,
  star_cell better (b :: bs) i st =
  star_cell better bs i
    (let '(data, cs, new) := st in
     let data' := if better (getd data i) (getd data b) then upd data b (getd data i) else data in
     if getb cs b then (data', cs, new) else (data', upd cs b true, b :: new)).
Proof. intros. destruct st as [[data cs] new]. reflexivity. Qed.

Lemma star_rounds_S : forall f better nbf t todo data cs,
  star_rounds (S f) better nbf (t :: todo) data cs =
  let '(d', c', nw) := star_round better nbf (t :: todo) (data, cs, []) in
  star_rounds f better nbf (rev nw) d' c'.
Proof. reflexivity. Qed.

(* ================================================================ generic theorem *)
Section Gen.
Variable ltb : ext -> ext -> bool.     (* strict total order; [better] of the loop *)
Variable top : ext.                    (* its greatest element = initial value of the non-source cells *)
Hypothesis ltb_irr : forall a, ltb a a = false.
Hypothesis ltb_trans : forall a b c, ltb a b = true -> ltb b c = true -> ltb a c = true.
Hypothesis ltb_total : forall a b, ltb a b = false -> ltb b a = false -> a = b.
Hypothesis ltb_top : forall a, ltb top a = false.

Variable n : Z.
Variable nbf : Z -> list Z.
Variable dim : Z -> Z.
Variable D : Z.
Hypothesis Hn : 0 <= n.
Hypothesis Hdim : forall i, 0 <= i < n -> 0 <= dim i <= D.
Hypothesis Hnbf : forall i b, 0 <= i < n -> In b (nbf i) -> 0 <= b < n /\ dim b = dim i - 1.
Hypothesis Hcov : forall b, 0 <= b < n -> dim b < D -> exists i, 0 <= i < n /\ In b (nbf i).

Variable data0 : list ext.

Let N := Z.to_nat n.

Lemma ltb_ntrans : forall a b c, ltb a b = false -> ltb b c = false -> ltb a c = false.
Proof.
  intros a b c H1 H2. destruct (ltb a c) eqn:E; auto. destruct (ltb c b) eqn:E2.
  - rewrite (ltb_trans _ _ _ E E2) in H1; discriminate.
  - assert (b = c) by (apply ltb_total; auto). subst. congruence.
Qed.

Lemma below_range : forall b t, below nbf b t -> 0 <= t < n ->
  0 <= b < n /\ dim b <= dim t /\ (dim b = dim t -> b = t).
Proof.
  induction 1; intros Ht.
  - split; auto. split; [lia | auto].
  - destruct (IHbelow Ht) as (Hi & Hle & _). destruct (Hnbf i b Hi H) as (Hb & Hd).
    split; auto. split; lia.
Qed.

Lemma below_inv : forall b t, below nbf b t -> b <> t -> exists i, In b (nbf i) /\ below nbf i t.
Proof. inversion 1; subst; intros; [congruence | eauto]. Qed.

Lemma climb : forall k, k <= D -> forall m c, 0 <= c < n -> k - dim c = Z.of_nat m ->
  exists t, 0 <= t < n /\ dim t = k /\ below nbf c t.
Proof.
  intros k Hk. induction m; intros c Hc Hm.
  - exists c; split; auto; split; [lia | constructor].
  - destruct (Hcov c) as (i & Hi & Hin); auto; try lia.
    destruct (Hnbf i c Hi Hin) as (_ & Hd).
    destruct (IHm i Hi) as (t & ? & ? & ?); try lia.
    exists t; repeat split; auto; try lia. econstructor; eauto.
Qed.

(* ---------------------------------------------------------------- one round *)
Section Round.
Variable k : Z.            (* dimension of the cells of todo *)
Variable d0 : list ext.    (* data at the start of the round *)
Variable c0 : list bool.   (* considered at the start of the round *)

Definition InvD (pe : list (Z * Z)) (data : list ext) : Prop :=
  length data = N /\
  (forall c, 0 <= c < n -> dim c <> k - 1 -> getd data c = getd d0 c) /\
  (forall i b, In (i, b) pe -> ltb (getd d0 i) (getd data b) = false) /\
  (forall b, 0 <= b < n -> dim b = k - 1 ->
     getd data b = top \/ exists i, In (i, b) pe /\ getd d0 i = getd data b).

Lemma InvD_step : forall pe data i b, InvD pe data -> 0 <= i < n -> dim i = k -> In b (nbf i) ->
  InvD (pe ++ [(i, b)]) (if ltb (getd data i) (getd data b) then upd data b (getd data i) else data).
Proof.
  intros pe data i b (L & I3 & I4 & I5) Hi Hk Hin.
  destruct (Hnbf i b Hi Hin) as (Hb & Hdb).
  assert (Ei : getd data i = getd d0 i) by (apply I3; lia).
  rewrite Ei.
  assert (Hbl : 0 <= b < Z.of_nat (length data)) by (rewrite L; unfold N; lia).
  destruct (ltb (getd d0 i) (getd data b)) eqn:E.
  - split; [rewrite upd_length; auto|]. split; [|split].
    + intros c Hc Hdc. rewrite getd_upd_other by (intro; subst; lia). auto.
    + intros i' b' Hin'. apply in_app_or in Hin'. destruct Hin' as [Hin' | [Heq | []]].
      * destruct (Z.eq_dec b' b).
        -- subst. rewrite getd_upd_same by auto. specialize (I4 _ _ Hin').
           destruct (ltb (getd d0 i') (getd d0 i)) eqn:E2; auto.
           rewrite (ltb_trans _ _ _ E2 E) in I4. discriminate.
        -- rewrite getd_upd_other by auto. eauto.
      * inversion Heq; subst. rewrite getd_upd_same by auto. apply ltb_irr.
    + intros b' Hb' Hdb'. destruct (Z.eq_dec b' b).
      * subst. right. exists i. split. apply in_or_app; right; left; auto.
        rewrite getd_upd_same; auto.
      * rewrite getd_upd_other by auto. destruct (I5 b' Hb' Hdb') as [|(i' & ? & ?)]; auto.
        right; exists i'; split; auto. apply in_or_app; auto.
  - split; auto. split; auto. split.
    + intros i' b' Hin'. apply in_app_or in Hin'. destruct Hin' as [|[Heq|[]]]; eauto.
      inversion Heq; subst; auto.
    + intros b' Hb' Hdb'. destruct (I5 b' Hb' Hdb') as [|(i' & ? & ?)]; auto.
      right; exists i'; split; auto. apply in_or_app; auto.
Qed.

Definition InvC (pe : list (Z * Z)) (cs : list bool) (new : list Z) : Prop :=
  length cs = N /\
  (forall c, 0 <= c < n -> (getb cs c = true <-> (getb c0 c = true \/ exists i, In (i, c) pe))) /\
  NoDup new /\
  (forall c, In c new <-> (getb c0 c = false /\ exists i, In (i, c) pe)).

Lemma InvC_step : forall pe cs new i b, InvC pe cs new -> 0 <= b < n ->
  (getb cs b = true -> InvC (pe ++ [(i, b)]) cs new) /\
  (getb cs b = false -> InvC (pe ++ [(i, b)]) (upd cs b true) (b :: new)).
Proof.
  intros pe cs new i b (L & C1 & C2 & C3) Hb.
  assert (Hex : forall c, (exists i', In (i', c) (pe ++ [(i, b)])) <-> ((exists i', In (i', c) pe) \/ c = b)).
  { intros c; split.
    - intros (i' & Hin). apply in_app_or in Hin. destruct Hin as [|[Heq|[]]].
      + left; eauto.
      + inversion Heq; auto.
    - intros [(i' & ?)| ->].
      + exists i'; apply in_or_app; auto.
      + exists i. apply in_or_app; right; left; auto. }
  split; intros E.
  - assert (Hb0 : getb c0 b = true \/ exists i, In (i, b) pe) by (apply C1; auto).
    split; auto. split; [|split; auto].
    + intros c Hc. rewrite Hex. rewrite C1 by auto. split; [tauto|].
      intros [?|[?| ->]]; auto.
    + intros c. rewrite Hex, C3. split.
      * intros (? & ?); split; auto.
      * intros (? & [?| ->]); auto. split; auto. destruct Hb0 as [Hb0|]; [congruence | auto].
  - assert (Hnb : ~ (getb c0 b = true \/ exists i, In (i, b) pe)) by (rewrite <- C1 by auto; congruence).
    split; [rewrite upd_length; auto|]. split; [|split].
    + intros c Hc. rewrite Hex. destruct (Z.eq_dec c b).
      * subst. rewrite getb_upd_same by (rewrite L; unfold N; lia). tauto.
      * rewrite getb_upd_other by auto. rewrite C1 by auto. tauto.
    + constructor; auto. rewrite C3. tauto.
    + intros c. simpl. rewrite Hex, C3. split.
      * intros [<- | (? & ?)].
        -- split; auto. destruct (getb c0 b) eqn:?; auto. exfalso; apply Hnb; auto.
        -- split; auto.
      * intros (? & [?| ->]); auto.
Qed.

Definition Inv (pe : list (Z * Z)) (st : list ext * list bool * list Z) : Prop :=
  InvD pe (fst (fst st)) /\ InvC pe (snd (fst st)) (snd st).

Lemma Inv_cell : forall nb i pe st, Inv pe st -> 0 <= i < n -> dim i = k ->
  (forall b, In b nb -> In b (nbf i)) ->
  Inv (pe ++ map (pair i) nb) (star_cell ltb nb i st).
Proof.
  induction nb as [|b nb IH]; intros i pe st HI Hi Hk Hsub.
  - simpl. rewrite app_nil_r; auto.
  - rewrite star_cell_cons. simpl map.
    replace (pe ++ (i, b) :: map (pair i) nb) with ((pe ++ [(i, b)]) ++ map (pair i) nb)
      by (rewrite <- app_assoc; reflexivity).
    apply IH; auto; [| intros; apply Hsub; right; auto].
    destruct st as [[data cs] new]. destruct HI as (HD & HC). simpl in HD, HC.
    assert (Hin : In b (nbf i)) by (apply Hsub; left; auto).
    destruct (Hnbf i b Hi Hin) as (Hb & _).
    pose proof (InvD_step pe data i b HD Hi Hk Hin) as HD'.
    destruct (InvC_step pe cs new i b HC Hb) as (HC1 & HC2).
    cbv zeta. destruct (getb cs b) eqn:E; split; simpl; auto.
Qed.

Definition edges (todo : list Z) : list (Z * Z) := flat_map (fun i => map (pair i) (nbf i)) todo.

Lemma in_edges : forall todo i b, In (i, b) (edges todo) <-> (In i todo /\ In b (nbf i)).
Proof.
  intros. unfold edges. rewrite in_flat_map. split.
  - intros (x & Hx & Hm). apply in_map_iff in Hm. destruct Hm as (y & Heq & Hy).
    inversion Heq; subst; auto.
  - intros (? & ?). exists i; split; auto. apply in_map; auto.
Qed.

Lemma Inv_round : forall todo pe st, Inv pe st -> (forall i, In i todo -> 0 <= i < n /\ dim i = k) ->
  Inv (pe ++ edges todo) (star_round ltb nbf todo st).
Proof.
  induction todo as [|i todo IH]; intros pe st HI Hall.
  - simpl. rewrite app_nil_r; auto.
  - simpl. rewrite app_assoc. apply IH; [| intros; apply Hall; right; auto].
    destruct (Hall i (or_introl eq_refl)). apply Inv_cell; auto.
Qed.

Lemma Inv_init : length d0 = N -> length c0 = N ->
  (forall b, 0 <= b < n -> dim b = k - 1 -> getd d0 b = top) -> Inv [] (d0, c0, []).
Proof.
  intros L1 L2 Ht. split; simpl.
  - split; auto. split; auto. split; [intros ? ? []|]. intros; left; auto.
  - split; auto. split; [|split; [constructor|]].
    + intros c Hc. split; auto. intros [|(? & [])]; auto.
    + intros c. split; [intros [] | intros (_ & ? & [])].
Qed.

End Round.

(* ---------------------------------------------------------------- all rounds *)
Definition final (c : Z) (v : ext) : Prop :=
  is_opt_over ltb (fun t => 0 <= t < n /\ dim t = D /\ below nbf c t) (getd data0) v.

Definition R (k : Z) (todo : list Z) (data : list ext) (cs : list bool) : Prop :=
  k <= D /\ NoDup todo /\ (forall t, In t todo <-> (0 <= t < n /\ dim t = k)) /\
  length data = N /\ length cs = N /\
  (forall c, 0 <= c < n -> (getb cs c = true <-> k <= dim c < D)) /\
  (forall c, 0 <= c < n -> k <= dim c -> final c (getd data c)) /\
  (forall c, 0 <= c < n -> dim c < k -> getd data c = top).

Lemma R_nil : forall k data cs, R k [] data cs -> forall c, 0 <= c < n -> final c (getd data c).
Proof.
  intros k data cs (HkD & _ & Htodo & _ & _ & _ & Hfin & _) c Hc.
  destruct (Z_lt_le_dec (dim c) k) as [Hlt | Hle]; auto.
  destruct (climb k HkD (Z.to_nat (k - dim c)) c Hc) as (t & Ht & Hdt & _); try lia.
  destruct (proj2 (Htodo t) (conj Ht Hdt)).
Qed.

Lemma R_round : forall k todo data cs data' cs' new',
  R k todo data cs ->
  star_round ltb nbf todo (data, cs, []) = (data', cs', new') ->
  R (k - 1) (rev new') data' cs'.
Proof.
  intros k todo data cs data' cs' new' (HkD & Hnd & Htodo & L1 & L2 & Hcons & Hfin & Htop) E.
  assert (HI : Inv k data cs (edges todo) (data', cs', new')).
  { rewrite <- E. change (edges todo) with ([] ++ edges todo). apply Inv_round.
    - apply Inv_init; auto. intros; apply Htop; auto; lia.
    - intros i Hi. apply Htodo; auto. }
  destruct HI as ((L1' & I3 & I4 & I5) & (L2' & C1 & C2 & C3)). simpl in *.
  (* every (k-1)-cell is the face of a todo cell *)
  assert (Hedge : forall c, 0 <= c < n -> dim c = k - 1 -> exists i, In (i, c) (edges todo)).
  { intros c Hc Hdc. destruct (Hcov c Hc) as (i & Hi & Hin); try lia.
    destruct (Hnbf i c Hi Hin) as (_ & Hd). exists i. apply in_edges. split; auto.
    apply Htodo. split; auto. lia. }
  assert (Hedge_ok : forall i c, In (i, c) (edges todo) ->
            0 <= i < n /\ dim i = k /\ In c (nbf i) /\ 0 <= c < n /\ dim c = k - 1).
  { intros i c Hin. apply in_edges in Hin. destruct Hin as (Hi & Hin).
    apply Htodo in Hi. destruct Hi as (Hi & Hdi). destruct (Hnbf i c Hi Hin) as (Hc & Hdc).
    repeat split; auto; lia. }
  split; [lia|]. split; [apply NoDup_rev; auto|]. split; [|split; auto; split; auto; split; [|split]].
  - intros t. rewrite <- in_rev. rewrite C3. split.
    + intros (_ & i & Hin). destruct (Hedge_ok _ _ Hin) as (_ & _ & _ & ? & ?). auto.
    + intros (Ht & Hdt). split; [| apply Hedge; auto].
      destruct (getb cs t) eqn:Eb; auto. apply Hcons in Eb; auto. lia.
  - intros c Hc. rewrite C1 by auto. rewrite Hcons by auto. split.
    + intros [? | (i & Hin)]; [lia|]. destruct (Hedge_ok _ _ Hin) as (_ & _ & _ & ? & ?). lia.
    + intros Hd. destruct (Z.eq_dec (dim c) (k - 1)).
      * right. apply Hedge; auto.
      * left. lia.
  - intros c Hc Hd. destruct (Z.eq_dec (dim c) (k - 1)) as [Hdc | Hdc].
    + (* new value *)
      assert (Hatt : exists i, In (i, c) (edges todo) /\ getd data i = getd data' c).
      { destruct (I5 c Hc Hdc) as [Ht | ?]; auto.
        destruct (Hedge c Hc Hdc) as (i & Hin). exists i. split; auto.
        rewrite Ht. apply ltb_total; auto. rewrite <- Ht. eauto. }
      split.
      * intros t (Ht & Hdt & Hbel).
        destruct (below_inv _ _ Hbel) as (i & Hin & Hbel'); [intro; subst; lia|].
        destruct (below_range _ _ Hbel' Ht) as (Hi & Hle & _).
        destruct (Hnbf i c Hi Hin) as (_ & Hdi).
        assert (Hit : In i todo) by (apply Htodo; split; auto; lia).
        assert (Hic : In (i, c) (edges todo)) by (apply in_edges; auto).
        destruct (Hfin i Hi) as (Hlow & _); [lia|].
        apply ltb_ntrans with (getd data i); eauto.
      * destruct Hatt as (i & Hin & Hv). destruct (Hedge_ok _ _ Hin) as (Hi & Hdi & Hinb & _).
        destruct (Hfin i Hi) as (_ & t & (Ht & Hdt & Hbel) & Hvt); [lia|].
        exists t. split; [|congruence]. split; auto. split; auto. econstructor; eauto.
    + rewrite I3 by auto. apply Hfin; auto. lia.
  - intros c Hc Hd. rewrite I3 by (auto; lia). apply Htop; auto. lia.
Qed.

Lemma rounds_ok : forall fuel k todo data cs, R k todo data cs -> k < Z.of_nat fuel ->
  exists data', star_rounds fuel ltb nbf todo data cs = Some data' /\ length data' = N /\
                forall c, 0 <= c < n -> final c (getd data' c).
Proof.
  induction fuel as [|fuel IH]; intros k todo data cs HR Hk.
  - destruct todo as [|t0 todo'].
    + exists data. split; [reflexivity|]. split; [apply HR | eapply R_nil; eauto].
    + exfalso. destruct HR as (_ & _ & Htodo & _).
      destruct (proj1 (Htodo t0) (or_introl eq_refl)) as (Ht & Hd). pose proof (Hdim t0 Ht). simpl in Hk. lia.
  - destruct todo as [|t0 todo'].
    + exists data. split; [reflexivity|]. split; [apply HR | eapply R_nil; eauto].
    + rewrite star_rounds_S.
      destruct (star_round ltb nbf (t0 :: todo') (data, cs, [])) as [[data' cs'] new'] eqn:E.
      apply (IH (k - 1)); [eapply R_round; eauto | lia].
Qed.

Theorem star_rounds_gen : forall todo0 fuel,
  NoDup todo0 -> (forall t, In t todo0 <-> (0 <= t < n /\ dim t = D)) ->
  length data0 = Z.to_nat n ->
  (forall i, 0 <= i < n -> dim i < D -> getd data0 i = top) ->
  (Z.to_nat D < fuel)%nat ->
  exists data, star_rounds fuel ltb nbf todo0 data0 (repeat false (Z.to_nat n)) = Some data /\
               length data = Z.to_nat n /\
               forall b, 0 <= b < n ->
                 is_opt_over ltb (fun t => 0 <= t < n /\ dim t = D /\ below nbf b t) (getd data0) (getd data b).
Proof.
  intros todo0 fuel Hnd Htodo L Htop Hfuel.
  apply (rounds_ok fuel D); [|lia].
  split; [lia|]. split; auto. split; auto. split; auto. split; [apply repeat_length|]. split; [|split].
  - intros c Hc. rewrite getb_repeat_false by lia. split; [discriminate | lia].
  - intros c Hc Hd. pose proof (Hdim c Hc). split.
    + intros t (Ht & Hdt & Hbel). destruct (below_range _ _ Hbel Ht) as (_ & _ & Heq).
      rewrite Heq by lia. apply ltb_irr.
    + exists c. split; auto. split; auto. split; [lia | constructor].
  - auto.
Qed.

End Gen.

(* ================================================================ the two instances *)
Theorem star_rounds_lower_star :
  forall (n : Z) (nbf : Z -> list Z) (dim : Z -> Z) (D : Z),
  0 <= n ->
  (forall i, 0 <= i < n -> 0 <= dim i <= D) ->
  (forall i b, 0 <= i < n -> In b (nbf i) -> 0 <= b < n /\ dim b = dim i - 1) ->
  (forall b, 0 <= b < n -> dim b < D -> exists i, 0 <= i < n /\ In b (nbf i)) ->
  forall (todo0 : list Z) (data0 : list ext) (fuel : nat),
  NoDup todo0 -> (forall t, In t todo0 <-> (0 <= t < n /\ dim t = D)) ->
  length data0 = Z.to_nat n ->
  (forall i, 0 <= i < n -> dim i < D -> getd data0 i = PInf) ->
  (Z.to_nat D < fuel)%nat ->
  exists data, star_rounds fuel better_low nbf todo0 data0 (repeat false (Z.to_nat n)) = Some data /\
               length data = Z.to_nat n /\
               forall b, 0 <= b < n ->
                 is_min_over (fun t => 0 <= t < n /\ dim t = D /\ below nbf b t) (getd data0) (getd data b).
Proof.
  intros n nbf dim D Hn Hdim Hnbf Hcov todo0 data0 fuel Hnd Htodo L Htop Hfuel.
  exact (star_rounds_gen ext_ltb PInf ext_ltb_irr ext_ltb_trans ext_ltb_total ext_ltb_PInf
           n nbf dim D Hdim Hnbf Hcov data0 todo0 fuel Hnd Htodo L Htop Hfuel).
Qed.

(* dual: propagation from the vertices through the coboundary, maximum over the vertices below *)
Theorem star_rounds_upper_star :
  forall (n : Z) (nbf : Z -> list Z) (dim : Z -> Z) (D : Z),
  0 <= n ->
  (forall i, 0 <= i < n -> 0 <= dim i <= D) ->
  (forall i b, 0 <= i < n -> In b (nbf i) -> 0 <= b < n /\ dim b = dim i + 1) ->
  (forall b, 0 <= b < n -> 0 < dim b -> exists i, 0 <= i < n /\ In b (nbf i)) ->
  forall (todo0 : list Z) (data0 : list ext) (fuel : nat),
  NoDup todo0 -> (forall t, In t todo0 <-> (0 <= t < n /\ dim t = 0)) ->
  length data0 = Z.to_nat n ->
  (forall i, 0 <= i < n -> 0 < dim i -> getd data0 i = MInf) ->
  (Z.to_nat D < fuel)%nat ->
  exists data, star_rounds fuel better_high nbf todo0 data0 (repeat false (Z.to_nat n)) = Some data /\
               length data = Z.to_nat n /\
               forall b, 0 <= b < n ->
                 is_max_over (fun t => 0 <= t < n /\ dim t = 0 /\ below nbf b t) (getd data0) (getd data b).
Proof.
  intros n nbf dim D Hn Hdim Hnbf Hcov todo0 data0 fuel Hnd Htodo L Htop Hfuel.
  destruct (star_rounds_gen better_high MInf) with (n := n) (nbf := nbf) (dim := fun i => D - dim i) (D := D)
     (data0 := data0) (todo0 := todo0) (fuel := fuel) as (data & Hrun & Hlen & Hres); auto.
  - intros; apply ext_ltb_irr.
  - unfold better_high; intros; eapply ext_ltb_trans; eauto.
  - unfold better_high; intros; apply ext_ltb_total; auto.
  - intros; apply ext_ltb_MInf.
  - intros i Hi. pose proof (Hdim i Hi). lia.
  - intros i b Hi Hin. destruct (Hnbf i b Hi Hin). split; auto. lia.
  - intros b Hb Hd. apply Hcov; auto. lia.
  - intros t. rewrite Htodo. split; intros (? & ?); split; auto; lia.
  - intros i Hi Hd. apply Htop; auto. lia.
  - exists data. split; auto. split; auto. intros b Hb.
    apply (is_opt_over_ext better_high (fun t => 0 <= t < n /\ D - dim t = D /\ below nbf b t)).
    + intros t. split; intros (? & ? & ?); repeat split; auto; lia.
    + apply Hres; auto.
Qed.

Print Assumptions star_rounds_lower_star.
Print Assumptions star_rounds_upper_star.
