(* C13 -- Bitmap_cubical_complex_base::impose_lower_star_filtration_from_vertices: the propagation from the
   vertices computes, for every cell, the maximum over the vertices of the cell. *)
From Coq Require Import ZArith List Bool Lia ZifyBool.
Require Import C13_Model C13_Refine C13_Star C13_Order.
Import ListNotations.
Local Open Scope Z_scope.

(* ================================================================ 1. ext_max algebra *)
Ltac ext_solve :=
  intros; repeat match goal with a : ext |- _ => destruct a end; unfold ext_max, ext_ltb;
  repeat (match goal with |- context[?x <? ?y] => destruct (x <? y) eqn:? end; cbn);
  first [reflexivity | f_equal; lia | exfalso; lia].

Lemma emax_comm : forall a b, ext_max a b = ext_max b a.
Proof. ext_solve. Qed.
Lemma emax_assoc : forall a b c, ext_max a (ext_max b c) = ext_max (ext_max a b) c.
Proof. ext_solve. Qed.
Lemma emax_idem : forall a, ext_max a a = a.
Proof. ext_solve. Qed.
Lemma emax_MInf_l : forall a, ext_max MInf a = a.
Proof. ext_solve. Qed.
Lemma emax_MInf_r : forall a, ext_max a MInf = a.
Proof. ext_solve. Qed.
Lemma emax_swap : forall a b c d, ext_max (ext_max a b) (ext_max c d) = ext_max (ext_max a c) (ext_max b d).
Proof.
  intros a b c d. rewrite <- (emax_assoc a b), (emax_assoc b c d), (emax_comm b c), <- (emax_assoc c b d),
    (emax_assoc a c). reflexivity.
Qed.

Definition M (l : list ext) : ext := fold_right ext_max MInf l.
Lemma M_app : forall l1 l2, M (l1 ++ l2) = ext_max (M l1) (M l2).
Proof.
  induction l1 as [|a l1 IH]; intros l2; cbn [app M fold_right].
  - rewrite emax_MInf_l. reflexivity.
  - fold (M (l1 ++ l2)). fold (M l1). rewrite IH, emax_assoc. reflexivity.
Qed.

(* ================================================================ 2. the loops as a sequence of operations *)
Fixpoint apply_ops (m : Z) (ops : list Z) (data : list ext) : list ext :=
  match ops with
  | [] => data
  | t :: r => apply_ops m r (upd data t (ext_max (getd data (t - m)) (getd data (t + m))))
  end.

Lemma apply_ops_app : forall m a b data, apply_ops m (a ++ b) data = apply_ops m b (apply_ops m a data).
Proof. intros m a. induction a as [|t a IH]; intros b data; cbn [app apply_ops]; [reflexivity|apply IH]. Qed.

Lemma fold_apply_ops : forall m (F : Z -> list Z) l data,
  fold_left (fun dt i => apply_ops m (F i) dt) l data = apply_ops m (flat_map F l) data.
Proof.
  intros m F l. induction l as [|i l IH]; intros data; cbn [fold_left flat_map]; [reflexivity|].
  rewrite apply_ops_app. apply IH.
Qed.

Lemma fold_left_ext : forall (A B : Type) (f g : A -> B -> A) l a,
  (forall a b, f a b = g a b) -> fold_left f l a = fold_left g l a.
Proof. intros A B f g l. induction l as [|x l IH]; intros a H; cbn [fold_left]; [reflexivity|]. rewrite H. apply IH, H. Qed.

Lemma prop_line_ops : forall n i m base data,
  prop_line n i m base data = apply_ops m (map (fun i' => base + m * 2 * i' + m) (zrange_nat i n)) data.
Proof.
  induction n as [|n IH]; intros i m base data; cbn [prop_line zrange_nat map apply_ops]; [reflexivity|].
  rewrite IH.
  replace (base + m * 2 * i + m - m) with (base + m * 2 * i) by lia.
  replace (base + m * 2 * i + m + m) with (base + m * 2 * i + 2 * m) by lia.
  reflexivity.
Qed.

Fixpoint tg (k m s : Z) (dirs : list (Z * Z * Z)) (base : Z) : list Z :=
  match dirs with
  | [] => map (fun i => base + m * 2 * i + m) (zrange 0 s)
  | (cd, m', s') :: r =>
    if cd =? k then tg k m s r base
    else if cd <? k then flat_map (fun i => tg k m s r (base + m' * 2 * i)) (zrange 0 (s' + 1))
         else flat_map (fun i => tg k m s r (base + m' * i)) (zrange 0 (2 * s' + 1))
  end.

Lemma prop_rec_ops : forall k m s dirs base data,
  prop_rec k m s dirs base data = apply_ops m (tg k m s dirs base) data.
Proof.
  intros k m s dirs. induction dirs as [|[[cd m'] s'] r IH]; intros base data; cbn [prop_rec tg].
  - apply prop_line_ops.
  - destruct (cd =? k); [apply IH|]. destruct (cd <? k).
    + rewrite <- fold_apply_ops. apply fold_left_ext. intros a b. apply IH.
    + rewrite <- fold_apply_ops. apply fold_left_ext. intros a b. apply IH.
Qed.

Lemma apply_ops_length : forall m ops data, length (apply_ops m ops data) = length data.
Proof.
  intros m ops. induction ops as [|t r IH]; intros data; cbn [apply_ops]; [reflexivity|].
  rewrite IH. apply upd_length.
Qed.

(* one round = simultaneous assignment, provided no operation reads a written cell *)
Lemma apply_ops_char : forall m ops data,
  (forall t, In t ops -> 0 <= t < Z.of_nat (length data)) ->
  (forall t t', In t ops -> In t' ops -> t' <> t + m) ->
  forall j, (In j ops -> getd (apply_ops m ops data) j = ext_max (getd data (j - m)) (getd data (j + m))) /\
            (~ In j ops -> getd (apply_ops m ops data) j = getd data j).
Proof.
  intros m ops. induction ops as [|t r IH]; intros data Hr Hn j.
  - cbn [apply_ops In]. split; [tauto|reflexivity].
  - cbn [apply_ops].
    set (v := ext_max (getd data (t - m)) (getd data (t + m))).
    assert (Hr' : forall t0, In t0 r -> 0 <= t0 < Z.of_nat (length (upd data t v))).
    { intros t0 H0. rewrite upd_length. apply Hr. right. exact H0. }
    assert (Hn' : forall t0 t', In t0 r -> In t' r -> t' <> t0 + m).
    { intros t0 t' H0 H1. apply Hn; right; assumption. }
    destruct (IH (upd data t v) Hr' Hn' j) as [IH1 IH2].
    assert (Hin : forall j0, In j0 (t :: r) ->
              ext_max (getd (upd data t v) (j0 - m)) (getd (upd data t v) (j0 + m)) =
              ext_max (getd data (j0 - m)) (getd data (j0 + m))).
    { intros j0 H0. rewrite !getd_upd_other; [reflexivity| |].
      - intros E. apply (Hn j0 t H0 (or_introl eq_refl)). lia.
      - intros E. apply (Hn t j0 (or_introl eq_refl) H0). lia. }
    split.
    + intros Hj. destruct (in_dec Z.eq_dec j r) as [Hjr|Hjr].
      * rewrite IH1 by exact Hjr. apply Hin. exact Hj.
      * rewrite IH2 by exact Hjr. destruct Hj as [<-|Hj]; [|tauto].
        rewrite getd_upd_same by (apply Hr; left; reflexivity). reflexivity.
    + intros Hj. rewrite IH2 by (intros H0; apply Hj; right; exact H0).
      apply getd_upd_other. intros E. apply Hj. left. symmetry. exact E.
Qed.

(* ================================================================ 3. idirs in terms of the specification shape *)
Fixpoint idirs_h (hs : shape) : list (Z * Z * Z) :=
  match hs with
  | [] => []
  | d :: r => (Z.of_nat (length r), s_total r, fst d) :: idirs_h r
  end.

Lemma zrange_nat_snoc : forall n a, zrange_nat a (S n) = zrange_nat a n ++ [a + Z.of_nat n].
Proof.
  induction n as [|n IH]; intros a.
  - cbn. f_equal. lia.
  - change (zrange_nat a (S (S n))) with (a :: zrange_nat (a + 1) (S n)). rewrite IH. cbn [zrange_nat app].
    do 3 f_equal. lia.
Qed.

Lemma zrange_nat_length : forall n a, length (zrange_nat a n) = n.
Proof. induction n as [|n IH]; intros a; cbn [zrange_nat length]; [reflexivity|]. rewrite IH. reflexivity. Qed.

Lemma hshape_length : forall cls sh, length (hshape cls sh) = length sh.
Proof. intros cls sh. unfold hshape. rewrite rev_length, map_length. reflexivity. Qed.

Lemma hshape_snoc : forall cls sh d, hshape cls (sh ++ [d]) = norm_dir cls d :: hshape cls sh.
Proof. intros cls sh d. unfold hshape. rewrite map_app. cbn [map]. rewrite rev_unit. reflexivity. Qed.

Lemma idirs_spec : forall sh, idirs sh = idirs_h (hshape false sh).
Proof.
  intros sh. induction sh as [|d sh IH] using rev_ind; [reflexivity|].
  rewrite hshape_snoc. cbn [idirs_h]. rewrite <- IH, hshape_length, <- a_size_total.
  unfold idirs, a_multipliers, a_size. rewrite setup_snoc. cbn [fst].
  rewrite app_length, map_app. cbn [length map]. rewrite Nat.add_1_r.
  unfold zrange. rewrite !Nat2Z.id, zrange_nat_snoc.
  rewrite combine_snoc by (rewrite zrange_nat_length, setup_len; reflexivity).
  rewrite combine_snoc by (rewrite combine_length, zrange_nat_length, setup_len, map_length; apply Nat.min_id).
  rewrite rev_unit. cbn [norm_dir fst]. reflexivity.
Qed.

(* ================================================================ 4. coordinates: weak well-formedness (sizes >= 0) *)
Definition wok (hs : shape) : Prop := Forall (fun d : dirn => 0 <= fst d /\ snd d = false) hs.

Lemma wok_ext : forall d : dirn, 0 <= fst d /\ snd d = false -> s_extent d = 2 * fst d + 1.
Proof. intros d [_ H]. unfold s_extent, extent_per. rewrite H. reflexivity. Qed.

Lemma w_total_pos : forall hs, wok hs -> 1 <= s_total hs.
Proof.
  intros hs H. induction H as [|d r Hd Hr IH]; cbn [s_total]; [lia|]. rewrite (wok_ext d Hd). nia.
Qed.

Lemma w_index_range : forall hs c, wok hs -> s_valid hs c -> 0 <= s_index hs c < s_total hs.
Proof.
  intros hs c H. revert c. induction H as [|d r Hd Hr IH]; intros c Hv.
  - destruct c; cbn in *; [lia|tauto].
  - destruct c as [|x c']; cbn [s_valid] in Hv; [tauto|]. destruct Hv as [Hx Hv'].
    cbn [s_index s_total]. specialize (IH c' Hv'). nia.
Qed.

Lemma w_index_inj : forall hs c1 c2, wok hs -> s_valid hs c1 -> s_valid hs c2 ->
  s_index hs c1 = s_index hs c2 -> c1 = c2.
Proof.
  intros hs c1 c2 H. revert c1 c2. induction H as [|d r Hd Hr IH]; intros c1 c2 H1 H2 E.
  - destruct c1, c2; cbn in *; tauto.
  - destruct c1 as [|x1 c1]; [cbn in H1; tauto|]. destruct c2 as [|x2 c2]; [cbn in H2; tauto|].
    cbn [s_valid] in H1, H2. destruct H1 as [Hx1 Hv1], H2 as [Hx2 Hv2]. cbn [s_index] in E.
    pose proof (w_index_range r c1 Hr Hv1) as R1. pose proof (w_index_range r c2 Hr Hv2) as R2.
    destruct (divmod_helper x1 (s_total r) (s_index r c1) R1) as [D1 M1].
    destruct (divmod_helper x2 (s_total r) (s_index r c2) R2) as [D2 M2].
    rewrite E in D1, M1. f_equal; [congruence|]. apply IH; [assumption|assumption|congruence].
Qed.

Lemma s_valid_app_inv : forall pre suf c, s_valid (pre ++ suf) c ->
  exists p q, c = p ++ q /\ s_valid pre p /\ s_valid suf q.
Proof.
  induction pre as [|d pre IH]; intros suf c H.
  - exists [], c. cbn. tauto.
  - destruct c as [|x c]; cbn [app s_valid] in H; [tauto|]. destruct H as [Hx H].
    destruct (IH suf c H) as [p [q [E [Hp Hq]]]]. exists (x :: p), q. subst c. cbn [app s_valid]. tauto.
Qed.

Lemma s_valid_app : forall pre suf p q, s_valid pre p -> s_valid suf q -> s_valid (pre ++ suf) (p ++ q).
Proof.
  induction pre as [|d pre IH]; intros suf p q Hp Hq.
  - destruct p; cbn in Hp; [exact Hq|tauto].
  - destruct p as [|x p]; cbn [s_valid] in Hp; [tauto|]. cbn [app s_valid]. split; [tauto|]. apply IH; tauto.
Qed.

Lemma s_total_app : forall pre suf, s_total (pre ++ suf) = s_total pre * s_total suf.
Proof. induction pre as [|d pre IH]; intros suf; cbn [app s_total]; [lia|]. rewrite IH. ring. Qed.

Lemma s_index_app : forall pre suf p q, s_valid pre p ->
  s_index (pre ++ suf) (p ++ q) = s_index pre p * s_total suf + s_index suf q.
Proof.
  induction pre as [|d pre IH]; intros suf p q Hp.
  - destruct p; cbn in Hp; [cbn; lia|tauto].
  - destruct p as [|x p]; cbn [s_valid] in Hp; [tauto|]. cbn [app s_index].
    rewrite IH by tauto. rewrite s_total_app. ring.
Qed.

Fixpoint evalid (hs : shape) (c : list Z) : Prop :=
  match hs, c with
  | [], [] => True
  | d :: hs', x :: c' => (0 <= x < s_extent d /\ Z.even x = true) /\ evalid hs' c'
  | _, _ => False
  end.

Lemma evalid_valid : forall hs c, evalid hs c -> s_valid hs c.
Proof.
  induction hs as [|d hs IH]; intros c H; destruct c as [|x c]; cbn in *; try tauto.
  split; [tauto|]. apply IH. tauto.
Qed.

Lemma even_ex : forall x, Z.even x = true -> exists i, x = 2 * i.
Proof. intros x H. apply Z.even_spec in H. destruct H as [i E]. exists i. exact E. Qed.
Lemma even_2i : forall i, Z.even (2 * i) = true.
Proof. intros i. rewrite Z.even_mul. reflexivity. Qed.
Lemma odd_2i1 : forall i, Z.odd (2 * i + 1) = true.
Proof. intros i. rewrite Z.add_comm, Z.odd_add_mul_2. reflexivity. Qed.

(* ================================================================ 5. the cells written by one round *)
Lemma tg_low : forall k m s r, wok r -> Z.of_nat (length r) <= k -> forall base j,
  In j (tg k m s (idirs_h r) base) <->
  exists q i, evalid r q /\ 0 <= i < s /\ j = base + s_index r q + m * (2 * i + 1).
Proof.
  intros k m s r H. induction H as [|d r Hd Hr IH]; intros Hk base j.
  - cbn [idirs_h tg]. rewrite in_map_iff. split.
    + intros [i [E Hi]]. apply In_zrange in Hi. exists [], i. cbn [evalid s_index]. split; [exact I|]. lia.
    + intros [q [i [Hq [Hi E]]]]. destruct q; [|cbn in Hq; tauto]. exists i. cbn [s_index] in E.
      split; [lia|]. apply In_zrange. lia.
  - cbn [idirs_h tg length] in *.
    replace (Z.of_nat (length r) =? k) with false by lia.
    replace (Z.of_nat (length r) <? k) with true by lia.
    rewrite in_flat_map. split.
    + intros [i [Hi Hj]]. apply In_zrange in Hi. apply IH in Hj; [|lia].
      destruct Hj as [q [i' [Hq [Hi' E]]]]. exists (2 * i :: q), i'. cbn [evalid s_index].
      rewrite (wok_ext d Hd), even_2i. split; [|split; [exact Hi'|lia]]. split; [|exact Hq]. split; [lia|reflexivity].
    + intros [q [i' [Hq [Hi' E]]]]. destruct q as [|x q]; [cbn in Hq; tauto|]. cbn [evalid s_index] in Hq, E.
      destruct Hq as [[Hx He] Hq]. destruct (even_ex x He) as [i Ei]. rewrite (wok_ext d Hd) in Hx.
      exists i. split; [apply In_zrange; lia|]. apply IH; [lia|]. exists q, i'. split; [exact Hq|]. split; [exact Hi'|].
      subst x. lia.
Qed.

Lemma tg_high : forall k m s pre suf, wok pre -> Z.of_nat (length suf) > k -> forall base j,
  In j (tg k m s (idirs_h (pre ++ suf)) base) <->
  exists p, s_valid pre p /\ In j (tg k m s (idirs_h suf) (base + s_index pre p * s_total suf)).
Proof.
  intros k m s pre suf H. induction H as [|d pre Hd Hp IH]; intros Hk base j.
  - cbn [app]. split.
    + intros Hj. exists []. cbn [s_valid s_index]. split; [exact I|]. replace (base + 0 * s_total suf) with base by lia. exact Hj.
    + intros [p [Hp Hj]]. destruct p; [|cbn in Hp; tauto]. cbn [s_index] in Hj.
      replace (base + 0 * s_total suf) with base in Hj by lia. exact Hj.
  - cbn [app idirs_h tg].
    assert (Hl : Z.of_nat (length (pre ++ suf)) > k) by (rewrite app_length; lia).
    replace (Z.of_nat (length (pre ++ suf)) =? k) with false by lia.
    replace (Z.of_nat (length (pre ++ suf)) <? k) with false by lia.
    rewrite in_flat_map. split.
    + intros [i [Hi Hj]]. apply In_zrange in Hi. apply IH in Hj; [|exact Hk].
      destruct Hj as [p [Hv Hj]]. exists (i :: p). cbn [s_valid s_index]. rewrite (wok_ext d Hd).
      split; [split; [lia|exact Hv]|].
      replace (base + (i * s_total pre + s_index pre p) * s_total suf)
        with (base + s_total (pre ++ suf) * i + s_index pre p * s_total suf) by (rewrite s_total_app; ring).
      exact Hj.
    + intros [p [Hv Hj]]. destruct p as [|x p]; [cbn in Hv; tauto|]. cbn [s_valid s_index] in Hv, Hj.
      destruct Hv as [Hx Hv]. rewrite (wok_ext d Hd) in Hx. exists x. split; [apply In_zrange; lia|].
      apply IH; [exact Hk|]. exists p. split; [exact Hv|].
      replace (base + s_total (pre ++ suf) * x + s_index pre p * s_total suf)
        with (base + (x * s_total pre + s_index pre p) * s_total suf) by (rewrite s_total_app; ring).
      exact Hj.
Qed.

Lemma wok_split : forall pre d r, wok (pre ++ d :: r) -> wok pre /\ (0 <= fst d /\ snd d = false) /\ wok r.
Proof.
  intros pre d r H. unfold wok in *. apply Forall_app in H. destruct H as [H1 H2].
  inversion H2; subst. tauto.
Qed.

Lemma tg_char : forall pre d r j, wok (pre ++ d :: r) ->
  In j (tg (Z.of_nat (length r)) (s_total r) (fst d) (idirs_h (pre ++ d :: r)) 0) <->
  exists p q i, s_valid pre p /\ evalid r q /\ 0 <= i < fst d /\
                j = s_index (pre ++ d :: r) (p ++ (2 * i + 1) :: q).
Proof.
  intros pre d r j H. destruct (wok_split pre d r H) as [Hp [Hd Hr]].
  rewrite tg_high by (try exact Hp; cbn [length]; lia).
  split.
  - intros [p [Hv Hj]]. cbn [idirs_h tg] in Hj. rewrite Z.eqb_refl in Hj.
    apply tg_low in Hj; [|exact Hr|lia]. destruct Hj as [q [i [Hq [Hi E]]]].
    exists p, q, i. split; [exact Hv|]. split; [exact Hq|]. split; [exact Hi|].
    rewrite s_index_app by exact Hv. cbn [s_index]. rewrite E. ring.
  - intros [p [q [i [Hv [Hq [Hi E]]]]]]. exists p. split; [exact Hv|].
    cbn [idirs_h tg]. rewrite Z.eqb_refl. apply tg_low; [exact Hr|lia|].
    exists q, i. split; [exact Hq|]. split; [exact Hi|].
    rewrite E, s_index_app by exact Hv. cbn [s_index]. ring.
Qed.

(* ================================================================ 6. vertices of a cell *)
Lemma vert_dir_even : forall d x, Z.odd x = false -> vert_dir d x = [x].
Proof. intros d x H. unfold vert_dir. rewrite H. reflexivity. Qed.
Lemma vert_dir_odd : forall d x, snd d = false -> Z.odd x = true -> vert_dir d x = [x - 1; x + 1].
Proof. intros d x Hd H. unfold vert_dir, hi, lo. rewrite H, Hd. reflexivity. Qed.

Lemma verts_even : forall hs c, evalid hs c -> s_prod vert_dir hs c = [c].
Proof.
  induction hs as [|d hs IH]; intros c H; destruct c as [|x c]; cbn [evalid] in H; try (exfalso; exact H).
  { reflexivity. }
  destruct H as [[Hx He] H]. cbn [s_prod]. rewrite vert_dir_even by (rewrite <- Z.negb_even, He; reflexivity). cbn [flat_map].
  rewrite (IH c H). reflexivity.
Qed.

Lemma odd_pm : forall x, Z.odd x = true -> Z.odd (x - 1) = false /\ Z.odd (x + 1) = false.
Proof. intros x H. rewrite Z.odd_sub, Z.odd_add, H. split; reflexivity. Qed.

Lemma M_flat_split : forall (A B C : list (list Z)),
  (forall f : list Z -> ext, M (map f A) = ext_max (M (map f B)) (M (map f C))) ->
  forall (L : list Z) (f : list Z -> ext),
  M (map f (flat_map (fun z => map (cons z) A) L)) =
  ext_max (M (map f (flat_map (fun z => map (cons z) B) L))) (M (map f (flat_map (fun z => map (cons z) C) L))).
Proof.
  intros A B C H L. induction L as [|z L IH]; intros f; cbn [flat_map map].
  - cbn. reflexivity.
  - rewrite !map_app, !M_app, !map_map, IH, (H (fun c => f (z :: c))). apply emax_swap.
Qed.

Lemma s_valid_length : forall hs c, s_valid hs c -> length c = length hs.
Proof.
  induction hs as [|d hs IH]; intros c H; destruct c as [|x c]; cbn in *; try tauto.
  f_equal. apply IH. tauto.
Qed.

Lemma verts_split : forall pre d r p x q (f : list Z -> ext), snd d = false -> Z.odd x = true ->
  length p = length pre ->
  M (map f (s_prod vert_dir (pre ++ d :: r) (p ++ x :: q))) =
  ext_max (M (map f (s_prod vert_dir (pre ++ d :: r) (p ++ (x - 1) :: q))))
          (M (map f (s_prod vert_dir (pre ++ d :: r) (p ++ (x + 1) :: q)))).
Proof.
  induction pre as [|d0 pre IH]; intros d r p x q f Hd Hx Hl.
  - destruct p; [|discriminate]. cbn [app s_prod]. destruct (odd_pm x Hx) as [H1 H2].
    rewrite (vert_dir_odd d x Hd Hx), (vert_dir_even d _ H1), (vert_dir_even d _ H2). cbn [flat_map].
    rewrite !app_nil_r, map_app, M_app. reflexivity.
  - destruct p as [|y p]; [discriminate|]. cbn [app s_prod].
    apply M_flat_split. intros f'. apply IH; [exact Hd|exact Hx|]. cbn [length] in Hl. congruence.
Qed.

Lemma app_eq_len : forall (A : Type) (p p' a b : list A), length p = length p' -> p ++ a = p' ++ b -> p = p' /\ a = b.
Proof.
  intros A p. induction p as [|x p IH]; intros p' a b Hl E; destruct p' as [|y p']; try discriminate.
  - split; [reflexivity|exact E].
  - cbn [app] in E. injection E as E1 E2. cbn [length] in Hl.
    destruct (IH p' a b (eq_add_S _ _ Hl) E2) as [-> ->]. subst y. split; reflexivity.
Qed.

(* ================================================================ 7. the invariant and one round *)
Definition maxv (hs : shape) (data0 : list ext) (c : list Z) : ext :=
  M (map (fun v => getd data0 (s_index hs v)) (s_verts hs c)).

Definition Inv (hs : shape) (data0 : list ext) (suf : shape) (data : list ext) : Prop :=
  forall pre p q, hs = pre ++ suf -> s_valid pre p -> evalid suf q ->
  getd data (s_index hs (p ++ q)) = maxv hs data0 (p ++ q).

Lemma idx_mid : forall pre d r p x q, s_valid pre p ->
  s_index (pre ++ d :: r) (p ++ x :: q) = s_index pre p * s_total (d :: r) + x * s_total r + s_index r q.
Proof. intros pre d r p x q H. rewrite s_index_app by exact H. cbn [s_index]. ring. Qed.

Lemma mid_valid : forall pre d r p x q, wok (pre ++ d :: r) -> s_valid pre p -> 0 <= x <= 2 * fst d -> s_valid r q ->
  s_valid (pre ++ d :: r) (p ++ x :: q).
Proof.
  intros pre d r p x q H Hp Hx Hq. destruct (wok_split pre d r H) as [_ [Hd _]].
  apply s_valid_app; [exact Hp|]. cbn [s_valid]. rewrite (wok_ext d Hd). split; [lia|exact Hq].
Qed.

Lemma mid_inj : forall pre d r p x q p' x' q', wok (pre ++ d :: r) ->
  s_valid pre p -> 0 <= x <= 2 * fst d -> s_valid r q ->
  s_valid pre p' -> 0 <= x' <= 2 * fst d -> s_valid r q' ->
  s_index (pre ++ d :: r) (p ++ x :: q) = s_index (pre ++ d :: r) (p' ++ x' :: q') ->
  p = p' /\ x = x' /\ q = q'.
Proof.
  intros pre d r p x q p' x' q' H Hp Hx Hq Hp' Hx' Hq' E.
  apply w_index_inj in E; [|exact H|apply mid_valid; assumption|apply mid_valid; assumption].
  apply app_eq_len in E; [|rewrite (s_valid_length pre p Hp), (s_valid_length pre p' Hp'); reflexivity].
  destruct E as [E1 E2]. injection E2 as E2 E3. tauto.
Qed.

Lemma round_ok : forall pre d r data0 data, wok (pre ++ d :: r) ->
  length data = Z.to_nat (s_total (pre ++ d :: r)) ->
  Inv (pre ++ d :: r) data0 (d :: r) data ->
  Inv (pre ++ d :: r) data0 r
      (apply_ops (s_total r) (tg (Z.of_nat (length r)) (s_total r) (fst d) (idirs_h (pre ++ d :: r)) 0) data).
Proof.
  intros pre d r data0 data H Hlen HI.
  destruct (wok_split pre d r H) as [Hwp [Hd Hwr]].
  set (hs := pre ++ d :: r) in *. set (T := s_total r).
  set (ops := tg (Z.of_nat (length r)) T (fst d) (idirs_h hs) 0).
  assert (Hrange : forall t, In t ops -> 0 <= t < Z.of_nat (length data)).
  { intros t Ht. apply tg_char in Ht; [|exact H]. destruct Ht as [p [q [i [Hp [Hq [Hi ->]]]]]].
    pose proof (w_total_pos hs H) as Hpos. rewrite Hlen, Z2Nat.id by lia.
    apply w_index_range; [exact H|]. apply mid_valid; [exact H|exact Hp|lia|apply evalid_valid; exact Hq]. }
  assert (Hnon : forall t t', In t ops -> In t' ops -> t' <> t + T).
  { intros t t' Ht Ht' E. apply tg_char in Ht; [|exact H]. apply tg_char in Ht'; [|exact H].
    destruct Ht as [p [q [i [Hp [Hq [Hi ->]]]]]]. destruct Ht' as [p' [q' [i' [Hp' [Hq' [Hi' ->]]]]]].
    assert (E' : s_index hs (p' ++ (2 * i' + 1) :: q') = s_index hs (p ++ (2 * i + 2) :: q)).
    { unfold hs in *. rewrite E. rewrite !idx_mid by assumption. unfold T. ring. }
    apply mid_inj in E'; try assumption; try lia; try (apply evalid_valid; assumption).
    }
  pose proof (apply_ops_char T ops data Hrange Hnon) as Hchar.
  intros pre' p' q Ehs Hp' Hq.
  assert (Epre : pre' = pre ++ [d]).
  { apply (app_inv_tail r). rewrite <- Ehs, <- app_assoc. reflexivity. }
  subst pre'. apply s_valid_app_inv in Hp'. destruct Hp' as [p [q0 [-> [Hp Hq0]]]].
  destruct q0 as [|x q0]; [cbn in Hq0; tauto|]. destruct q0; [|cbn in Hq0; tauto].
  cbn [s_valid] in Hq0. rewrite (wok_ext d Hd) in Hq0. destruct Hq0 as [Hx _].
  rewrite <- app_assoc. cbn [app].
  pose proof (evalid_valid r q Hq) as Hvq.
  destruct (Hchar (s_index hs (p ++ x :: q))) as [Hc1 Hc2].
  destruct (Z.odd x) eqn:Ox.
  - (* written in this round *)
    assert (Hi : exists i, x = 2 * i + 1) by (apply Z.odd_spec in Ox; destruct Ox as [i Ei]; exists i; exact Ei).
    destruct Hi as [i Ei].
    rewrite Hc1.
    2:{ apply tg_char; [exact H|]. exists p, q, i. split; [exact Hp|]. split; [exact Hq|]. split; [lia|]. subst x. reflexivity. }
    replace (s_index hs (p ++ x :: q) - T) with (s_index hs (p ++ (x - 1) :: q))
      by (unfold hs; rewrite !idx_mid by assumption; unfold T; ring).
    replace (s_index hs (p ++ x :: q) + T) with (s_index hs (p ++ (x + 1) :: q))
      by (unfold hs; rewrite !idx_mid by assumption; unfold T; ring).
    destruct (odd_pm x Ox) as [O1 O2].
    rewrite (HI pre p ((x - 1) :: q) eq_refl Hp).
    2:{ cbn [evalid]. rewrite (wok_ext d Hd), <- Z.negb_odd, O1. split; [split; [lia|reflexivity]|exact Hq]. }
    rewrite (HI pre p ((x + 1) :: q) eq_refl Hp).
    2:{ cbn [evalid]. rewrite (wok_ext d Hd), <- Z.negb_odd, O2. split; [split; [lia|reflexivity]|exact Hq]. }
    unfold maxv, s_verts, hs. symmetry. apply verts_split; [tauto|exact Ox|apply s_valid_length; exact Hp].
  - (* not written *)
    rewrite Hc2.
    + apply (HI pre p (x :: q) eq_refl Hp). cbn [evalid]. rewrite (wok_ext d Hd), <- Z.negb_odd, Ox.
      split; [split; [lia|reflexivity]|exact Hq].
    + intros Hin. apply tg_char in Hin; [|exact H]. destruct Hin as [p2 [q2 [i [Hp2 [Hq2 [Hi E]]]]]].
      apply mid_inj in E; try assumption; try lia; try (apply evalid_valid; assumption).
      destruct E as [_ [E _]]. subst x. rewrite odd_2i1 in Ox. discriminate.
Qed.

(* ================================================================ 8. all rounds *)
Lemma rounds_ok : forall hs data0 suf pre data, hs = pre ++ suf -> wok hs ->
  length data = Z.to_nat (s_total hs) ->
  Inv hs data0 suf data ->
  Inv hs data0 []
      (fold_left (fun dt (d : Z * Z * Z) => let '(cd, m, s) := d in prop_rec cd m s (idirs_h hs) 0 dt)
                 (idirs_h suf) data).
Proof.
  intros hs data0 suf. induction suf as [|d r IH]; intros pre data E H Hlen HI.
  - exact HI.
  - cbn [idirs_h fold_left]. rewrite prop_rec_ops. apply (IH (pre ++ [d])).
    + rewrite <- app_assoc. exact E.
    + exact H.
    + rewrite apply_ops_length. exact Hlen.
    + subst hs. apply round_ok; assumption.
Qed.

Lemma Inv_init : forall hs data0, Inv hs data0 hs data0.
Proof.
  intros hs data0 pre p q E Hp Hq.
  assert (E0 : pre = []) by (apply (app_inv_tail hs pre []); cbn [app]; symmetry; exact E).
  subst pre. destruct p; [|cbn in Hp; tauto]. cbn [app].
  unfold maxv, s_verts. rewrite verts_even by exact Hq. cbn [map M fold_right].
  rewrite emax_MInf_r. reflexivity.
Qed.

Lemma hshape_wok : forall sh, Forall (fun d : dirn => 0 <= fst d) sh -> wok (hshape false sh).
Proof.
  intros sh Hsh. unfold wok, hshape. rewrite Forall_forall in *. intros d Hd.
  apply in_rev in Hd. apply in_map_iff in Hd. destruct Hd as [d0 [<- Hd0]].
  cbn [norm_dir fst snd andb]. split; [apply Hsh; exact Hd0|reflexivity].
Qed.

(* the propagation from the vertices gives every cell the maximum of the values of its vertices *)
Theorem from_vertices_base_max : forall sh data0, sh <> [] -> Forall (fun d : dirn => 0 <= fst d) sh ->
  length data0 = Z.to_nat (a_size false sh) ->
  forall c, s_valid (hshape false sh) c ->
  getd (a_from_vertices_base sh data0) (s_index (hshape false sh) c) =
  fold_right ext_max MInf (map (fun v => getd data0 (s_index (hshape false sh) v)) (s_verts (hshape false sh) c)).
Proof.
  intros sh data0 _ Hsh Hlen c Hc.
  pose proof (hshape_wok sh Hsh) as H.
  unfold a_from_vertices_base. rewrite idirs_spec. rewrite a_size_total in Hlen.
  pose proof (rounds_ok (hshape false sh) data0 (hshape false sh) [] data0 eq_refl H Hlen
                (Inv_init (hshape false sh) data0)) as R.
  specialize (R (hshape false sh) c [] (eq_sym (app_nil_r (hshape false sh))) Hc I).
  rewrite app_nil_r in R. exact R.
Qed.

(* the length of the data is preserved *)
Theorem from_vertices_base_length : forall sh data0,
  length (a_from_vertices_base sh data0) = length data0.
Proof.
  intros sh data0. unfold a_from_vertices_base. cbv zeta.
  assert (G : forall ds l data, length (fold_left (fun dt (d : Z * Z * Z) =>
                let '(cd, m, s) := d in prop_rec cd m s ds 0 dt) l data) = length data).
  { intros ds l. induction l as [|[[cd m] s] l IH]; intros data; cbn [fold_left].
    - reflexivity.
    - rewrite IH, prop_rec_ops. apply apply_ops_length. }
  apply G.
Qed.

Print Assumptions from_vertices_base_max.
