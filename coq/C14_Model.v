(* C14_Model.v — models for property C14 (no proofs here).
   1. ALGORITHM MODEL of Gudhi::persistent_cohomology::compute_persistence_of_function_on_line
      (src/Persistent_cohomology/include/gudhi/Persistence_on_a_line.h): the goto state machine, label for label,
      as a one-step function [step] on an explicit state, iterated with fuel by [run].
      The vector `data` is a list whose HEAD is data.back().
   2. SPECIFICATION MODEL: the barcode of a filtered cell complex computed by the certified reduction of
      ReduceExec.v, instantiated to (a) the path complex with lower-star values (line routine) and (b) the full
      cubical complex of an n_rows x n_cols array of top-cell values, lower-star from the top cells (rectangle
      routine, which has no algorithm model). *)
From Coq Require Import ZArith List Bool Arith.
Require Import Reduce ReduceExec.
Import ListNotations.

(* ================================================================= 1. the line state machine *)
Inductive label :=
  | L1 | L1down | L12 | L12down | L132 | L132up | L312 | L312down | Lup | Ldown | Lendup | Lenddown | Linf.

Section Line.
Variable A : Type.
Variable lt : A -> A -> bool.              (* the Compare functor *)

Definition le (x y : A) : bool := negb (lt y x).      (* auto le = !lt(y, x) *)
Definition ge (x y : A) : bool := negb (lt x y).      (* auto ge = !lt(x, y) *)
Definition gt (x y : A) : bool := lt y x.             (* auto gt =  lt(y, x) *)

(* accessors on the vector; None = the C++ would index out of bounds *)
Definition bk1 (d : list A) : option A := nth_error d 0.                 (* data.back()    / data.end()[-1] *)
Definition bk2 (d : list A) : option A := nth_error d 1.                 (* data.end()[-2] *)
Definition bk3 (d : list A) : option A := nth_error d 2.                 (* data.end()[-3] *)
Definition fr0 (d : list A) : option A := nth_error d (length d - 1).    (* data[0] *)
Definition fr1 (d : list A) : option A :=                                (* data[1] *)
  if (length d <? 2)%nat then None else nth_error d (length d - 2).
Fixpoint set_nth (k : nat) (x : A) (d : list A) : list A :=
  match d, k with
  | [], _ => []
  | _ :: t, O => x :: t
  | y :: t, S k' => y :: set_nth k' x t
  end.
Definition set_fr0 (x : A) (d : list A) : list A := set_nth (length d - 1) x d.   (* data[0] = x *)
Definition set_fr1 (x : A) (d : list A) : list A := set_nth (length d - 2) x d.   (* data[1] = x *)
Definition set_bk1 (x : A) (d : list A) : list A := set_nth 0 x d.                (* data.back() = x *)
Definition erase (k : nat) (d : list A) : list A := skipn k d.           (* data.erase(data.end()-k, data.end()) *)

Record state := mk { lab : label; data : list A; cur : A; rest : list A; outp : list (A * A) }.
(* outp is the list of out(b, d) calls made so far, most recent first *)

Inductive outcome :=
  | Next (s : state)
  | Done (pairs : list (A * A)) (m : A)     (* all finite calls in order, then out(m, infinity) *)
  | Err.                                    (* out-of-bounds access / GUDHI_CHECK failure: never reached (theorem) *)

Definition goto (l : label) (s : state) : outcome := Next (mk l (data s) (cur s) (rest s) (outp s)).

Definition step (s : state) : outcome :=
  let d := data s in let v := cur s in let o := outp s in
  match lab s with
  | L1 =>                                             (* state1: data contains a single element *)
    match rest s with
    | [] => goto Linf s
    | x :: r =>
      match fr0 d with
      | None => Err
      | Some d0 => if le x d0 then Next (mk L1down d x r o)
                   else Next (mk L12 (x :: d) x r o)
      end
    end
  | L1down =>                                         (* data[0] = v; goto state1 *)
    match d with [] => Err | _ => Next (mk L1 (set_fr0 v d) v (rest s) o) end
  | L12 =>                                            (* state12 *)
    match rest s with
    | [] => goto Lendup s
    | x :: r =>
      match fr1 d with
      | None => Err
      | Some d1 => if ge x d1 then Next (mk L12 (set_fr1 x d) x r o)
                   else Next (mk L12down d x r o)
      end
    end
  | L12down =>
    match fr0 d, fr1 d with
    | Some d0, Some d1 =>
      if le v d0 then Next (mk L1 (set_fr0 v (erase 1 d)) v (rest s) ((d0, d1) :: o))
      else Next (mk L132 (v :: d) v (rest s) o)
    | _, _ => Err
    end
  | L132 =>                                           (* data[-3] < data[-1] < data[-2] *)
    match rest s with
    | [] => goto Lenddown s
    | x :: r =>
      match bk1 d, bk2 d, bk3 d with
      | Some b1, Some b2, Some b3 =>
        if le x b1 then
          if gt x b3 then Next (mk L132 (set_bk1 x d) x r o)
          else let d' := erase 3 d in
               match d' with
               | [] => Next (mk L1 [x] x r ((b3, b2) :: o))
               | _ => Next (mk Ldown d' x r ((b3, b2) :: o))
               end
        else Next (mk L132up d x r o)
      | _, _, _ => Err
      end
    end
  | L132up =>
    match bk1 d, bk2 d with
    | Some b1, Some b2 =>
      if ge v b2 then Next (mk Lup (erase 2 d) v (rest s) ((b1, b2) :: o))
      else Next (mk L312 (v :: d) v (rest s) o)
    | _, _ => Err
    end
  | L312 =>                                           (* data[-2] < data[-1] < data[-3] *)
    match rest s with
    | [] => goto Lendup s
    | x :: r =>
      match bk1 d, bk2 d, bk3 d with
      | Some b1, Some b2, Some b3 =>
        if ge x b1 then
          if lt x b3 then Next (mk L312 (set_bk1 x d) x r o)
          else let d' := erase 3 d in
               match d' with
               | [] => Err                            (* GUDHI_CHECK(!data.empty(), "Bug in Gudhi") *)
               | _ => Next (mk Lup d' x r ((b2, b3) :: o))
               end
        else Next (mk L312down d x r o)
      | _, _, _ => Err
      end
    end
  | L312down =>
    match bk1 d, bk2 d with
    | Some b1, Some b2 =>
      if le v b2 then Next (mk Ldown (erase 2 d) v (rest s) ((b2, b1) :: o))
      else Next (mk L132 (v :: d) v (rest s) o)
    | _, _ => Err
    end
  | Lup =>                                            (* data[-1] < v after a simplification *)
    if (length d =? 1)%nat then Next (mk L12 (v :: d) v (rest s) o) else goto L132up s
  | Ldown =>                                          (* v < data[-1] after a simplification *)
    match length d with
    | 1%nat => goto L1down s
    | 2%nat => goto L12down s
    | _ => goto L312down s
    end
  | Lendup =>                                         (* data.pop_back() *)
    match d with [] => Err | _ :: d' => Next (mk Lenddown d' v (rest s) o) end
  | Lenddown =>
    if (1 <? length d)%nat then
      match bk1 d, bk2 d with
      | Some b1, Some b2 => Next (mk Lenddown (erase 2 d) v (rest s) ((b1, b2) :: o))
      | _, _ => Err
      end
    else goto Linf s
  | Linf =>
    match fr0 d with Some d0 => Done (rev o) d0 | None => Err end
  end.

Fixpoint run (fuel : nat) (s : state) : outcome :=
  match fuel with
  | O => Err
  | S f => match step s with Next s' => run f s' | r => r end
  end.

Definition line_fuel (l : list A) : nat := 4 * length l + 8.

(* result: None = Err; Some (finite pairs in emission order, birth of the infinite class (None for empty input:
   the C++ returns without calling out)) *)
Definition line (l : list A) : option (list (A * A) * option A) :=
  match l with
  | [] => Some ([], None)
  | x :: r =>
    match run (line_fuel l) (mk L1 [x] x r []) with
    | Done ps m => Some (ps, Some m)
    | _ => None
    end
  end.
End Line.

Arguments mk {A}. Arguments Next {A}. Arguments Done {A}. Arguments Err {A}.
Arguments lab {A}. Arguments data {A}. Arguments cur {A}. Arguments rest {A}. Arguments outp {A}.

(* ================================================================= 2. specification: barcode of a filtered complex *)
(* generic insertion sort with a boolean strict order *)
Section Sort.
Variable B : Type.
Variable lessb : B -> B -> bool.
Fixpoint insert (x : B) (l : list B) : list B :=
  match l with
  | [] => [x]
  | y :: t => if lessb y x then y :: insert x t else x :: y :: t
  end.
Fixpoint isort (l : list B) : list B :=
  match l with [] => [] | x :: t => insert x (isort t) end.
End Sort.
Arguments insert {B}. Arguments isort {B}.

(* a cell of a complex: dimension, boundary (ids = positions in the cell list), owner = index of the input value
   that gives the cell its filtration value *)
Record cell := mkcell { c_dim : nat; c_bd : list nat; c_own : nat }.

Fixpoint index_of (x : nat) (l : list nat) : nat :=
  match l with [] => O | y :: t => if (x =? y)%nat then O else S (index_of x t) end.

(* [own_lt i j]: strict total order on the owners (input positions).  The filtration order of the cells is
   (owner, dimension, id); it is a valid filtration whenever the owner of a face is <= the owner of the cell. *)
Definition cell_lt (own_lt : nat -> nat -> bool) (cells : list cell) (i j : nat) : bool :=
  let ci := nth i cells (mkcell 0 [] 0) in let cj := nth j cells (mkcell 0 [] 0) in
  if own_lt (c_own ci) (c_own cj) then true
  else if own_lt (c_own cj) (c_own ci) then false
  else if (c_dim ci <? c_dim cj)%nat then true
  else if (c_dim cj <? c_dim ci)%nat then false
  else (i <? j)%nat.

Definition filtration_order (own_lt : nat -> nat -> bool) (cells : list cell) : list nat :=
  isort (cell_lt own_lt cells) (seq 0 (length cells)).

Definition boundary_columns (cells : list cell) (order : list nat) : list (list (nat * Z)) :=
  map (fun id => map (fun b => (index_of b order, 1%Z)) (c_bd (nth id cells (mkcell 0 [] 0)))) order.

(* persistence pairs as (dimension of the birth cell, owner of the birth cell, owner of the death cell | None);
   None overall = the certificate of the reduction failed (never observed) *)
Definition pairs_of (cells : list cell) (order : list nat) (lows : list (option nat))
  : list (nat * nat * option nat) :=
  map (fun bd =>
         let b := nth (fst bd) order O in
         let cb := nth b cells (mkcell 0 [] 0) in
         (c_dim cb, c_own cb,
          match snd bd with
          | None => None
          | Some dd => Some (c_own (nth (nth dd order O) cells (mkcell 0 [] 0)))
          end))
      (pairs_of_lows lows).

Definition barcode (own_lt : nat -> nat -> bool) (cells : list cell) : option (list (nat * nat * option nat)) :=
  let order := filtration_order own_lt cells in
  let D := dense_of_sparse (length cells) (boundary_columns cells order) in
  match certified_lows 2 D with
  | None => None
  | Some lows => Some (pairs_of cells order lows)
  end.

(* ------------------------------------------------------------------ (a) the path complex of a sequence *)
Section LineSpec.
Variable A : Type.
Variable lt : A -> A -> bool.
Variable l : list A.
Variable dflt : A.       (* only ever the first element of l, see [line_oracle] *)

Definition val (i : nat) : A := nth i l dflt.
(* ties broken by position: a total order on positions refining the values *)
Definition pos_lt (i j : nat) : bool :=
  if lt (val i) (val j) then true else if lt (val j) (val i) then false else (i <? j)%nat.
(* cells: vertices 0..n-1 (id i), then edges (id n+i) between i and i+1, owned by the larger end *)
Definition path_cells : list cell :=
  let n := length l in
  map (fun i => mkcell 0 [] i) (seq 0 n) ++
  map (fun i => mkcell 1 [i; S i] (if pos_lt i (S i) then S i else i)) (seq 0 (n - 1)).

Definition pair_lt (p q : A * A) : bool :=
  if lt (fst p) (fst q) then true else if lt (fst q) (fst p) then false else lt (snd p) (snd q).

(* finite intervals of non-zero length as values, sorted; births of the infinite classes *)
Definition line_oracle_from : option (list (A * A) * list A) :=
  match barcode pos_lt path_cells with
  | None => None
  | Some prs =>
    let fin := concat (map (fun t => match t with
                                     | (_, b, Some d) => if lt (val b) (val d) then [(val b, val d)] else []
                                     | _ => [] end) prs) in
    let ess := concat (map (fun t => match t with (_, b, None) => [val b] | _ => [] end) prs) in
    Some (isort pair_lt fin, ess)
  end.
End LineSpec.
Definition line_oracle (A : Type) (lt : A -> A -> bool) (l : list A) : option (list (A * A) * list A) :=
  match l with
  | [] => Some ([], [])
  | x :: _ => line_oracle_from A lt l x
  end.

(* the routine's answer in the same shape (pairs sorted) *)
Definition line_canon {A} (lt : A -> A -> bool) (l : list A) : option (list (A * A) * list A) :=
  match line A lt l with
  | None => None
  | Some (ps, m) => Some (isort (pair_lt A lt) ps, match m with Some x => [x] | None => [] end)
  end.

Definition line_Z (l : list Z) := line Z Z.ltb l.
Definition line_canon_Z (l : list Z) := line_canon Z.ltb l.
Definition line_oracle_Z (l : list Z) := line_oracle Z Z.ltb l.

(* ------------------------------------------------------------------ (b) the cubical complex of a rectangle of top cells *)
(* rows x cols squares, input in C order (square (x, y) = column x of row y has index y*cols + x).
   Cells of the complex: points (a, b) of the doubled grid, 0 <= a <= 2*cols, 0 <= b <= 2*rows, id = b*(2*cols+1) + a;
   a odd = extends in x, b odd = extends in y; squares are the (odd, odd) points. *)
Section RectSpec.
Variable rows cols : nat.
Variable vals : list Z.
Variable rev_ties : bool.     (* how equal values are ordered: false = smaller index first (the routine's
                                 has_larger_input), true = larger index first (used to cross-check that the
                                 value-mode answer does not depend on the rule) *)

Definition W : nat := 2 * cols + 1.
Definition H : nat := 2 * rows + 1.
Definition sq_val (s : nat) : Z := nth s vals 0%Z.
Definition sq_lt (s t : nat) : bool :=
  if (sq_val s <? sq_val t)%Z then true else if (sq_val t <? sq_val s)%Z then false
  else if rev_ties then (t <? s)%nat else (s <? t)%nat.
Definition odd (a : nat) : bool := Nat.odd a.
(* squares adjacent to the point (a, b): doubled coordinates (a', b') odd, |a - a'| <= 1, |b - b'| <= 1, in range *)
Definition around (a lim : nat) : list nat :=
  if odd a then [a] else
    (if (1 <=? a)%nat then [a - 1] else []) ++ (if (a + 1 <? lim)%nat then [a + 1] else []).
Definition adjacent_squares (a b : nat) : list nat :=
  concat (map (fun b' => map (fun a' => (b' / 2) * cols + a' / 2) (around a W)) (around b H)).
Definition min_square (l : list nat) : nat :=
  match l with
  | [] => O
  | s :: t => fold_left (fun m x => if sq_lt x m then x else m) t s
  end.
Definition rect_cell (id : nat) : cell :=
  let a := id mod W in let b := id / W in
  mkcell ((if odd a then 1 else 0) + (if odd b then 1 else 0))
         ((if odd a then [id - 1; id + 1] else []) ++ (if odd b then [id - W; id + W] else []))
         (min_square (adjacent_squares a b)).
Definition rect_cells : list cell := map rect_cell (seq 0 (W * H)).
Definition rect_barcode : option (list (nat * nat * option nat)) := barcode sq_lt rect_cells.
End RectSpec.

(* index mode: pairs of square indices with different owners; value mode: pairs of values of non-zero length.
   Output: (finite pairs as (dim, birth, death), essential classes as (dim, birth)) *)
Definition rect_oracle_idx (rows cols : nat) (vals : list Z) : option (list (nat * nat * nat) * list (nat * nat)) :=
  match rect_barcode rows cols vals false with
  | None => None
  | Some prs =>
    Some (concat (map (fun t => match t with
                                | (k, b, Some d) => if (b =? d)%nat then [] else [(k, b, d)]
                                | _ => [] end) prs),
          concat (map (fun t => match t with (k, b, None) => [(k, b)] | _ => [] end) prs))
  end.
Definition rect_oracle_val (rev_ties : bool) (rows cols : nat) (vals : list Z)
  : option (list (nat * Z * Z) * list (nat * Z)) :=
  match rect_barcode rows cols vals rev_ties with
  | None => None
  | Some prs =>
    let v := sq_val vals in
    Some (concat (map (fun t => match t with
                                | (k, b, Some d) => if (v b =? v d)%Z then [] else [(k, v b, v d)]
                                | _ => [] end) prs),
          concat (map (fun t => match t with (k, b, None) => [(k, v b)] | _ => [] end) prs))
  end.

(* pieces exposed so that the driver can swap the dense certified reduction for a fast one on big sweeps
   (the fast one is cross-checked against [certified_lows] in every run) *)
Definition rect_order (rows cols : nat) (vals : list Z) (rev_ties : bool) : list nat :=
  filtration_order (sq_lt vals rev_ties) (rect_cells rows cols vals rev_ties).
Definition rect_columns (rows cols : nat) (vals : list Z) (rev_ties : bool) : list (list (nat * Z)) :=
  boundary_columns (rect_cells rows cols vals rev_ties) (rect_order rows cols vals rev_ties).
Definition rect_pairs_of (rows cols : nat) (vals : list Z) (rev_ties : bool) (lows : list (option nat)) :=
  pairs_of (rect_cells rows cols vals rev_ties) (rect_order rows cols vals rev_ties) lows.
