(* C14_Proofs.v — theorems about the state-machine model of compute_persistence_of_function_on_line. *)
From Coq Require Import ZArith List Bool Arith Lia ZifyBool.
Require Import Reduce ReduceExec C14_Model.
Import ListNotations.

(* ================================================================= 0. insertion sort under a comparison-preserving map *)
Section SortMap.
Variables X Y : Type.
Variable g : X -> Y.
Variable lx : X -> X -> bool.
Variable ly : Y -> Y -> bool.
Variable Q : X -> Prop.
Hypothesis Hg : forall a b, Q a -> Q b -> ly (g a) (g b) = lx a b.
Lemma insert_map x l : Q x -> Forall Q l -> insert ly (g x) (map g l) = map g (insert lx x l).
Proof.
  intros Hx HF. induction l as [|y t IH]; [reflexivity|]. inversion HF; subst. cbn [map insert].
  rewrite Hg by assumption. destruct (lx y x); cbn [map]; [rewrite IH by assumption|]; reflexivity.
Qed.
Lemma insert_Q x l : Q x -> Forall Q l -> Forall Q (insert lx x l).
Proof.
  intros Hx HF. induction l as [|y t IH]; cbn [insert]; [constructor; auto|]. inversion HF; subst.
  destruct (lx y x); constructor; auto.
Qed.
Lemma isort_Q l : Forall Q l -> Forall Q (isort lx l).
Proof. induction l as [|y t IH]; intros HF; cbn [isort]; [constructor|]. inversion HF; subst. apply insert_Q; auto. Qed.
Lemma isort_map l : Forall Q l -> isort ly (map g l) = map g (isort lx l).
Proof.
  induction l as [|y t IH]; intros HF; [reflexivity|]. inversion HF; subst. cbn [map isort].
  rewrite IH by assumption. apply insert_map; [assumption|apply isort_Q; assumption].
Qed.
End SortMap.
Lemma insert_ext {X} (f g : X -> X -> bool) : (forall a b, f a b = g a b) -> forall x l, insert f x l = insert g x l.
Proof. intros H x l. induction l as [|y t IH]; [reflexivity|]. cbn [insert]. rewrite H, IH. reflexivity. Qed.
Lemma isort_ext {X} (f g : X -> X -> bool) : (forall a b, f a b = g a b) -> forall l, isort f l = isort g l.
Proof. intros H l. induction l as [|y t IH]; [reflexivity|]. cbn [isort]. rewrite IH. apply insert_ext. exact H. Qed.

(* ================================================================= A. the machine only compares *)
Section Invariance.
Variables A B : Type.
Variable ltA : A -> A -> bool.
Variable ltB : B -> B -> bool.
Variable f : A -> B.
Variable P : A -> Prop.
Hypothesis Hmono : forall x y, P x -> P y -> ltB (f x) (f y) = ltA x y.

Definition ff (p : A * A) : B * B := (f (fst p), f (snd p)).
Definition map_state (s : state A) : state B :=
  mk (lab s) (map f (data s)) (f (cur s)) (map f (rest s)) (map ff (outp s)).
Definition map_outcome (o : outcome A) : outcome B :=
  match o with
  | Next s => Next (map_state s)
  | Done ps m => Done (map ff ps) (f m)
  | Err => Err
  end.
Definition good (s : state A) : Prop := Forall P (data s) /\ P (cur s) /\ Forall P (rest s).

Lemma nth_error_map' (d : list A) k : nth_error (map f d) k = option_map f (nth_error d k).
Proof. revert k. induction d as [|a d IH]; intros [|k]; cbn; auto. Qed.
Lemma set_nth_map k x (d : list A) : set_nth B k (f x) (map f d) = map f (set_nth A k x d).
Proof. revert k. induction d as [|a d IH]; intros [|k]; cbn; auto. f_equal. apply IH. Qed.
Lemma skipn_map' k (d : list A) : skipn k (map f d) = map f (skipn k d).
Proof. revert d. induction k as [|k IH]; intros [|a d]; cbn; auto. Qed.
Lemma nth_error_P (d : list A) k x : Forall P d -> nth_error d k = Some x -> P x.
Proof. intros HF H. apply nth_error_In in H. rewrite Forall_forall in HF. auto. Qed.
Lemma set_nth_P k x (d : list A) : P x -> Forall P d -> Forall P (set_nth A k x d).
Proof.
  intros Hx. revert k. induction d as [|a d IH]; intros [|k] HF; cbn; auto; inversion HF; subst; constructor; auto.
Qed.
Lemma skipn_P k (d : list A) : Forall P d -> Forall P (skipn k d).
Proof.
  revert d. induction k as [|k IH]; intros [|a d] HF; cbn; auto. inversion HF; subst. auto.
Qed.

Lemma le_map x y : P x -> P y -> le B ltB (f x) (f y) = le A ltA x y.
Proof. intros. unfold le. rewrite Hmono; auto. Qed.
Lemma ge_map x y : P x -> P y -> ge B ltB (f x) (f y) = ge A ltA x y.
Proof. intros. unfold ge. rewrite Hmono; auto. Qed.
Lemma gt_map x y : P x -> P y -> gt B ltB (f x) (f y) = gt A ltA x y.
Proof. intros. unfold gt. rewrite Hmono; auto. Qed.

Lemma bk1_map d : bk1 B (map f d) = option_map f (bk1 A d).
Proof. apply nth_error_map'. Qed.
Lemma bk2_map d : bk2 B (map f d) = option_map f (bk2 A d).
Proof. apply nth_error_map'. Qed.
Lemma bk3_map d : bk3 B (map f d) = option_map f (bk3 A d).
Proof. apply nth_error_map'. Qed.
Lemma fr0_map d : fr0 B (map f d) = option_map f (fr0 A d).
Proof. unfold fr0. rewrite map_length. apply nth_error_map'. Qed.
Lemma fr1_map d : fr1 B (map f d) = option_map f (fr1 A d).
Proof. unfold fr1. rewrite map_length. destruct (length d <? 2)%nat; [reflexivity|apply nth_error_map']. Qed.
Lemma set_fr0_map x d : set_fr0 B (f x) (map f d) = map f (set_fr0 A x d).
Proof. unfold set_fr0. rewrite map_length. apply set_nth_map. Qed.
Lemma set_fr1_map x d : set_fr1 B (f x) (map f d) = map f (set_fr1 A x d).
Proof. unfold set_fr1. rewrite map_length. apply set_nth_map. Qed.
Lemma set_bk1_map x d : set_bk1 B (f x) (map f d) = map f (set_bk1 A x d).
Proof. apply set_nth_map. Qed.
Lemma erase_map k d : erase B k (map f d) = map f (erase A k d).
Proof. apply skipn_map'. Qed.

Lemma bk1_P d x : Forall P d -> bk1 A d = Some x -> P x. Proof. apply nth_error_P. Qed.
Lemma bk2_P d x : Forall P d -> bk2 A d = Some x -> P x. Proof. apply nth_error_P. Qed.
Lemma bk3_P d x : Forall P d -> bk3 A d = Some x -> P x. Proof. apply nth_error_P. Qed.
Lemma fr0_P d x : Forall P d -> fr0 A d = Some x -> P x. Proof. apply nth_error_P. Qed.
Lemma fr1_P d x : Forall P d -> fr1 A d = Some x -> P x.
Proof. unfold fr1. destruct (length d <? 2)%nat; [discriminate|apply nth_error_P]. Qed.
Lemma set_fr0_P x d : P x -> Forall P d -> Forall P (set_fr0 A x d). Proof. apply set_nth_P. Qed.
Lemma set_fr1_P x d : P x -> Forall P d -> Forall P (set_fr1 A x d). Proof. apply set_nth_P. Qed.
Lemma set_bk1_P x d : P x -> Forall P d -> Forall P (set_bk1 A x d). Proof. apply set_nth_P. Qed.
Lemma erase_P k d : Forall P d -> Forall P (erase A k d). Proof. apply skipn_P. Qed.

(* destruct the accessor scrutinised by the goal, remembering that the element satisfies P *)
Ltac acc d Hd :=
  repeat match goal with
  | |- context [option_map f (bk1 A d)] => let E := fresh "E" in let x := fresh "b1" in
      destruct (bk1 A d) as [x|] eqn:E; cbn [option_map]; [pose proof (bk1_P d x Hd E)|try reflexivity]
  | |- context [option_map f (bk2 A d)] => let E := fresh "E" in let x := fresh "b2" in
      destruct (bk2 A d) as [x|] eqn:E; cbn [option_map]; [pose proof (bk2_P d x Hd E)|try reflexivity]
  | |- context [option_map f (bk3 A d)] => let E := fresh "E" in let x := fresh "b3" in
      destruct (bk3 A d) as [x|] eqn:E; cbn [option_map]; [pose proof (bk3_P d x Hd E)|try reflexivity]
  | |- context [option_map f (fr0 A d)] => let E := fresh "E" in let x := fresh "d0" in
      destruct (fr0 A d) as [x|] eqn:E; cbn [option_map]; [pose proof (fr0_P d x Hd E)|try reflexivity]
  | |- context [option_map f (fr1 A d)] => let E := fresh "E" in let x := fresh "d1" in
      destruct (fr1 A d) as [x|] eqn:E; cbn [option_map]; [pose proof (fr1_P d x Hd E)|try reflexivity]
  end.
Ltac cmp := rewrite ?le_map, ?ge_map, ?gt_map, ?Hmono by assumption.
Ltac ifs := repeat match goal with |- context [if ?c then _ else _] => destruct c end.
Ltac fin := cbn [map_outcome map_state lab data cur rest outp map ff fst snd];
            repeat (rewrite erase_map || rewrite set_fr0_map || rewrite set_fr1_map || rewrite set_bk1_map);
            try reflexivity.

Lemma step_map s : good s -> step B ltB (map_state s) = map_outcome (step A ltA s).
Proof.
  destruct s as [l d v r o]. intros (Hd & Hv & Hr). cbn [data cur rest] in *.
  unfold step, goto, map_state. cbn [lab data cur rest outp].
  rewrite ?bk1_map, ?bk2_map, ?bk3_map, ?fr0_map, ?fr1_map, ?map_length.
  assert (Hr' : forall x r', r = x :: r' -> P x) by (intros x r' ->; inversion Hr; auto).
  destruct l.
  - (* L1 *) destruct r as [|x r]; [reflexivity|]. pose proof (Hr' x r eq_refl). cbn [map]. acc d Hd. cmp. ifs; fin.
  - (* L1down *) destruct d as [|a d]; [reflexivity|]. cbn [map_outcome map_state lab data cur rest outp].
    rewrite set_fr0_map. reflexivity.
  - (* L12 *) destruct r as [|x r]; [reflexivity|]. pose proof (Hr' x r eq_refl). cbn [map]. acc d Hd. cmp. ifs; fin.
  - (* L12down *) acc d Hd. cmp. ifs; fin.
  - (* L132 *) destruct r as [|x r]; [reflexivity|]. pose proof (Hr' x r eq_refl). cbn [map]. acc d Hd. cmp.
    rewrite erase_map. destruct (erase A 3 d); cbn [map]; ifs; fin.
  - (* L132up *) acc d Hd. cmp. ifs; fin.
  - (* L312 *) destruct r as [|x r]; [reflexivity|]. pose proof (Hr' x r eq_refl). cbn [map]. acc d Hd. cmp.
    rewrite erase_map. destruct (erase A 3 d); cbn [map]; ifs; fin.
  - (* L312down *) acc d Hd. cmp. ifs; fin.
  - (* Lup *) ifs; fin.
  - (* Ldown *) destruct (length d) as [|[|[|n]]]; fin.
  - (* Lendup *) destruct d as [|a d]; fin.
  - (* Lenddown *) destruct (1 <? length d)%nat; [|fin]. acc d Hd. fin.
  - (* Linf *) acc d Hd. fin. rewrite map_rev. reflexivity.
Qed.

Lemma step_good s s' : good s -> step A ltA s = Next s' -> good s'.
Proof.
  destruct s as [l d v r o]. intros (Hd & Hv & Hr). cbn [data cur rest] in *.
  unfold step, goto. cbn [lab data cur rest outp].
  assert (Hr' : forall x r', r = x :: r' -> P x /\ Forall P r') by (intros x r' ->; inversion Hr; auto).
  assert (G : forall l' d' v' r' o', Forall P d' -> P v' -> Forall P r' -> good (mk l' d' v' r' o'))
    by (intros; unfold good; cbn; auto).
  destruct l.
  all: try (destruct r as [|x r']; [intros HH; inversion HH; subst; apply G; auto|]; destruct (Hr' x r' eq_refl) as [Hx Hr2]).
  all: repeat match goal with
       | Hd : Forall P ?dd |- context [bk1 A ?dd] => let E := fresh "E" in let x := fresh "b1" in
           destruct (bk1 A dd) as [x|] eqn:E; [pose proof (bk1_P dd x Hd E)|try discriminate]
       | Hd : Forall P ?dd |- context [bk2 A ?dd] => let E := fresh "E" in let x := fresh "b2" in
           destruct (bk2 A dd) as [x|] eqn:E; [pose proof (bk2_P dd x Hd E)|try discriminate]
       | Hd : Forall P ?dd |- context [bk3 A ?dd] => let E := fresh "E" in let x := fresh "b3" in
           destruct (bk3 A dd) as [x|] eqn:E; [pose proof (bk3_P dd x Hd E)|try discriminate]
       | Hd : Forall P ?dd |- context [fr0 A ?dd] => let E := fresh "E" in let x := fresh "d0" in
           destruct (fr0 A dd) as [x|] eqn:E; [pose proof (fr0_P dd x Hd E)|try discriminate]
       | Hd : Forall P ?dd |- context [fr1 A ?dd] => let E := fresh "E" in let x := fresh "d1" in
           destruct (fr1 A dd) as [x|] eqn:E; [pose proof (fr1_P dd x Hd E)|try discriminate]
       end.
  all: try (match goal with Hd : Forall P ?dd |- context [match erase A ?k ?dd with _ => _ end] =>
              pose proof (erase_P k dd Hd); destruct (erase A k dd) end).
  all: ifs.
  all: try (match goal with |- context [match length ?dd with _ => _ end] => destruct (length dd) as [|[|[|n]]] end).
  all: try (match goal with |- context [match ?dd with [] => _ | _ => _ end] => is_var dd; destruct dd end).
  all: try discriminate.
  all: intros HH; inversion HH; subst; apply G; auto.
  all: try (apply set_fr0_P; auto); try (apply set_fr1_P; auto); try (apply set_bk1_P; auto); try (apply erase_P; auto).
  all: try (constructor; auto).
  all: try (inversion Hd; subst; auto).
  all: try (apply erase_P; auto).
  all: match goal with
       | Hd : Forall P (_ :: ?l) |- Forall P (match ?l with [] => _ | _ :: _ => _ end) =>
         inversion Hd as [|? ? ? Hd2]; subst; destruct l; [constructor|inversion Hd2; assumption]
       end.
Qed.

Definition PP (p : A * A) : Prop := P (fst p) /\ P (snd p).

Lemma step_out s : good s -> Forall PP (outp s) ->
  match step A ltA s with
  | Next s' => Forall PP (outp s')
  | Done ps m => Forall PP ps /\ P m
  | Err => True
  end.
Proof.
  destruct s as [l d v r o]. intros (Hd & Hv & Hr) Ho. cbn [data cur rest outp] in *.
  unfold step, goto. cbn [lab data cur rest outp].
  destruct l.
  all: try (destruct r as [|x r']; [exact Ho|]).
  all: repeat match goal with
       | Hd : Forall P ?dd |- context [bk1 A ?dd] => let E := fresh "E" in let x := fresh "b1" in
           destruct (bk1 A dd) as [x|] eqn:E; [pose proof (bk1_P dd x Hd E)|try exact I]
       | Hd : Forall P ?dd |- context [bk2 A ?dd] => let E := fresh "E" in let x := fresh "b2" in
           destruct (bk2 A dd) as [x|] eqn:E; [pose proof (bk2_P dd x Hd E)|try exact I]
       | Hd : Forall P ?dd |- context [bk3 A ?dd] => let E := fresh "E" in let x := fresh "b3" in
           destruct (bk3 A dd) as [x|] eqn:E; [pose proof (bk3_P dd x Hd E)|try exact I]
       | Hd : Forall P ?dd |- context [fr0 A ?dd] => let E := fresh "E" in let x := fresh "d0" in
           destruct (fr0 A dd) as [x|] eqn:E; [pose proof (fr0_P dd x Hd E)|try exact I]
       | Hd : Forall P ?dd |- context [fr1 A ?dd] => let E := fresh "E" in let x := fresh "d1" in
           destruct (fr1 A dd) as [x|] eqn:E; [pose proof (fr1_P dd x Hd E)|try exact I]
       end.
  all: try (match goal with |- context [match erase A ?k ?dd with _ => _ end] => destruct (erase A k dd) end).
  all: ifs.
  all: try (match goal with |- context [match length ?dd with _ => _ end] => destruct (length dd) as [|[|[|n]]] end).
  all: try (match goal with |- context [match ?dd with [] => _ | _ => _ end] => is_var dd; destruct dd end).
  all: cbn [outp]; try exact I; try exact Ho.
  all: try (constructor; [split; assumption|exact Ho]).
  all: try (split; [apply Forall_rev; exact Ho|assumption]).
Qed.

Lemma run_out fuel s ps m : good s -> Forall PP (outp s) -> run A ltA fuel s = Done ps m -> Forall PP ps /\ P m.
Proof.
  revert s. induction fuel as [|n IH]; intros s Hg Ho Hr; [discriminate|].
  cbn [run] in Hr. pose proof (step_out s Hg Ho) as H1.
  destruct (step A ltA s) as [s'|ps2 m2|] eqn:E; try discriminate.
  - eapply IH; [eapply step_good; eassumption|exact H1|exact Hr].
  - inversion Hr; subst. exact H1.
Qed.

Lemma line_out l ps m : Forall P l -> line A ltA l = Some (ps, m) ->
  Forall PP ps /\ match m with Some x => P x | None => True end.
Proof.
  intros HF. destruct l as [|x r]; cbn [line].
  - intros H; inversion H; subst. split; [constructor|exact I].
  - destruct (run A ltA (line_fuel A (x :: r)) (mk L1 [x] x r [])) as [s'|ps2 m2|] eqn:E; try discriminate.
    intros H; inversion H; subst.
    apply (run_out (line_fuel A (x :: r)) (mk L1 [x] x r []) ps m2); [|constructor|exact E].
    inversion HF; subst. unfold good; cbn; auto.
Qed.

Lemma run_map fuel s : good s -> run B ltB fuel (map_state s) = map_outcome (run A ltA fuel s).
Proof.
  revert s. induction fuel as [|n IH]; intros s Hg; cbn [run]; [reflexivity|].
  rewrite step_map by assumption.
  destruct (step A ltA s) as [s'| |] eqn:E; cbn [map_outcome]; try reflexivity.
  apply IH. eapply step_good; eassumption.
Qed.

Definition map_result (r : option (list (A * A) * option A)) : option (list (B * B) * option B) :=
  match r with
  | None => None
  | Some (ps, m) => Some (map ff ps, option_map f m)
  end.

Theorem line_map l : Forall P l -> line B ltB (map f l) = map_result (line A ltA l).
Proof.
  intros HF. destruct l as [|x r]; [reflexivity|].
  unfold line, line_fuel. cbn [map length]. rewrite map_length.
  change (mk L1 [f x] (f x) (map f r) []) with (map_state (mk L1 [x] x r [])).
  rewrite run_map.
  - destruct (run A ltA _ _); reflexivity.
  - inversion HF; subst. unfold good; cbn; auto.
Qed.
Definition map_res (r : option (list (A * A) * list A)) : option (list (B * B) * list B) :=
  match r with
  | None => None
  | Some (ps, e) => Some (map ff ps, map f e)
  end.

Lemma pair_lt_map p q : PP p -> PP q -> pair_lt B ltB (ff p) (ff q) = pair_lt A ltA p q.
Proof. intros [H1 H2] [H3 H4]. unfold pair_lt, ff. cbn [fst snd]. rewrite !Hmono by assumption. reflexivity. Qed.

Theorem line_canon_map l : Forall P l -> line_canon ltB (map f l) = map_res (line_canon ltA l).
Proof.
  intros HF. unfold line_canon. rewrite line_map by assumption.
  destruct (line A ltA l) as [[ps m]|] eqn:E; cbn [map_result map_res]; [|reflexivity].
  destruct (line_out l ps m HF E) as [Hps _].
  rewrite (isort_map _ _ ff (pair_lt A ltA) (pair_lt B ltB) PP pair_lt_map) by assumption.
  destruct m; reflexivity.
Qed.

Lemma barcode_ext (o1 o2 : nat -> nat -> bool) cells : (forall i j, o1 i j = o2 i j) -> barcode o1 cells = barcode o2 cells.
Proof.
  intros H. unfold barcode, filtration_order.
  rewrite (isort_ext (cell_lt o1 cells) (cell_lt o2 cells)); [reflexivity|].
  intros a b. unfold cell_lt. rewrite !H. reflexivity.
Qed.

Theorem line_oracle_map l : Forall P l -> line_oracle B ltB (map f l) = map_res (line_oracle A ltA l).
Proof.
  intros HF. destruct l as [|x r]; [reflexivity|]. cbn [map line_oracle].
  change (f x :: map f r) with (map f (x :: r)). set (l := x :: r) in *.
  assert (Hx : P x) by (inversion HF; assumption).
  assert (Hval : forall i, P (val A l x i)).
  { intros i. unfold val. destruct (nth_in_or_default i l x) as [Hin| ->]; [|exact Hx].
    rewrite Forall_forall in HF. auto. }
  assert (Hvm : forall i, val B (map f l) (f x) i = f (val A l x i)) by (intros i; unfold val; apply map_nth).
  assert (Hpos : forall i j, pos_lt B ltB (map f l) (f x) i j = pos_lt A ltA l x i j).
  { intros i j. unfold pos_lt. rewrite !Hvm, !Hmono by apply Hval. reflexivity. }
  unfold line_oracle_from.
  assert (Hcells : path_cells B ltB (map f l) (f x) = path_cells A ltA l x).
  { unfold path_cells. rewrite map_length. f_equal. apply map_ext. intros i. rewrite Hpos. reflexivity. }
  rewrite Hcells. rewrite (barcode_ext _ _ _ Hpos).
  destruct (barcode (pos_lt A ltA l x) (path_cells A ltA l x)) as [prs|]; cbn [map_res]; [|reflexivity].
  assert (Hfin : let F := (fun t : nat * nat * option nat => match t with
                     | (_, b, Some d) => if ltA (val A l x b) (val A l x d) then [(val A l x b, val A l x d)] else []
                     | _ => [] end) in
                 let F' := (fun t : nat * nat * option nat => match t with
                     | (_, b, Some d) => if ltB (val B (map f l) (f x) b) (val B (map f l) (f x) d)
                                         then [(val B (map f l) (f x) b, val B (map f l) (f x) d)] else []
                     | _ => [] end) in
                 concat (map F' prs) = map ff (concat (map F prs)) /\ Forall PP (concat (map F prs))).
  { cbv zeta. induction prs as [|[[k b] [d|]] t IH]; cbn [map concat]; [split; [reflexivity|apply Forall_nil]| |exact IH].
    destruct IH as [IH1 IH2]. rewrite !Hvm, Hmono by apply Hval.
    destruct (ltA (val A l x b) (val A l x d)); cbn [app map]; [|split; assumption].
    split; [rewrite IH1; reflexivity|constructor; [split; apply Hval|assumption]]. }
  cbv zeta in Hfin. destruct Hfin as [Hf1 Hf2].
  assert (Hess : concat (map (fun t : nat * nat * option nat => match t with (_, b, None) => [val B (map f l) (f x) b] | _ => [] end) prs)
                 = map f (concat (map (fun t : nat * nat * option nat => match t with (_, b, None) => [val A l x b] | _ => [] end) prs))).
  { clear Hf1 Hf2. induction prs as [|[[k b] [d|]] t IH]; cbn [map concat app]; [reflexivity|exact IH|].
    rewrite Hvm, IH. reflexivity. }
  rewrite Hf1.
  rewrite (isort_map _ _ ff (pair_lt A ltA) (pair_lt B ltB) PP pair_lt_map) by assumption.
  rewrite Hess. reflexivity.
Qed.
End Invariance.

(* ================================================================= B. invariants of the machine over Z *)
Local Open Scope Z_scope.

(* the comment "data contains a sequence of type 1 9 2 8 3 7 ...": each element lies strictly between the two before
   it.  [nest hi d]: d (head = back of the vector) is such a sequence, hi tells whether the back is a high (even
   length) or a low (odd length) element *)
Fixpoint nest (hi : bool) (d : list Z) : Prop :=
  match d with
  | [] => False
  | c :: t =>
    match t with
    | [] => hi = false
    | b :: t' =>
      nest (negb hi) t /\ (if hi then b < c else c < b) /\
      match t' with [] => True | a :: _ => if hi then c < a else a < c end
    end
  end.

Fixpoint front (d : list Z) : Z :=
  match d with [] => 0 | [a] => a | _ :: t => front t end.
Lemma front_one a : front [a] = a. Proof. reflexivity. Qed.
Lemma front_cons2 c b t : front (c :: b :: t) = front (b :: t). Proof. reflexivity. Qed.

Lemma nest_front hi d : nest hi d -> Forall (fun y => front d <= y) d.
Proof.
  revert hi. induction d as [|c t IH]; intros hi H; [destruct H|].
  destruct t as [|b t'].
  - constructor; [cbn; lia|constructor].
  - cbn [nest] in H. destruct H as (Hn & H1 & H2).
    specialize (IH _ Hn). rewrite front_cons2. constructor; [|exact IH].
    inversion IH as [|? ? Hb Ht]; subst. destruct t' as [|a t''].
    + cbn [nest] in Hn. cbn in *. destruct hi; [lia|discriminate].
    + inversion Ht; subst. destruct hi; lia.
Qed.

Definition strict (p : Z * Z) : Prop := fst p < snd p.

Definition hd_lt (d : list Z) (v : Z) : Prop := match d with c :: _ => c < v | [] => False end.
Definition hd_gt (d : list Z) (v : Z) : Prop := match d with c :: _ => v < c | [] => False end.

Definition shape (l : label) (d : list Z) (v : Z) : Prop :=
  match l with
  | L1 => match d with [x] => True | _ => False end
  | L1down => match d with [x] => v <= x | _ => False end
  | L12 => match d with [y; x] => x < y | _ => False end
  | L12down => match d with [y; x] => x < y /\ v < y | _ => False end
  | L132 => nest false d /\ (3 <= length d)%nat
  | L132up => nest false d /\ (3 <= length d)%nat /\ hd_lt d v
  | L312 => nest true d /\ (4 <= length d)%nat
  | L312down => nest true d /\ (4 <= length d)%nat /\ hd_gt d v
  | Lup => nest false d /\ hd_lt d v
  | Ldown => nest true d /\ hd_gt d v
  | Lendup => nest true d
  | Lenddown => nest false d
  | Linf => match d with [x] => True | _ => False end
  end.

Definition weight (l : label) : nat :=
  match l with
  | Linf => 0 | Lenddown => 1 | Lendup => 2
  | L1 | L12 | L132 | L312 => 3
  | L1down | L12down | L132up | L312down => 5
  | Lup | Ldown => 6
  end.
Definition endlab (l : label) : bool := match l with Lendup | Lenddown | Linf => true | _ => false end.
Definition potential (s : state Z) : nat := 4 * length (rest s) + length (data s) + weight (lab s).

Ltac crush :=
  repeat match goal with
  | H : _ /\ _ |- _ => destruct H
  | H : True |- _ => clear H
  | H : true = false |- _ => discriminate H
  | H : False |- _ => destruct H
  end.
Ltac cmps :=
  unfold le, ge, gt;
  repeat match goal with |- context [(?a <? ?b)] => destruct (Z.ltb_spec a b) end; cbn [negb].
Ltac fin_fold :=
  unfold potential; cbn [endlab shape length hd_lt hd_gt potential weight lab data cur rest outp erase skipn set_fr0 set_fr1 set_bk1 set_nth Nat.sub];
  repeat split; auto; try lia; try discriminate; try (constructor; [cbn; lia|assumption]).
Ltac done_shape :=
  first [ solve [fin_fold]
        | cbn [nest negb hd_lt hd_gt] in *; crush;
          unfold potential; cbn [endlab shape nest negb length hd_lt hd_gt potential weight lab data cur rest outp erase skipn set_fr0 set_fr1 set_bk1 set_nth Nat.sub];
          repeat split; auto; try lia; try discriminate; try (constructor; [cbn; lia|assumption]) ].

Lemma step_shape (s : state Z) :
  shape (lab s) (data s) (cur s) -> Forall strict (outp s) -> (endlab (lab s) = true -> rest s = []) ->
  match step Z Z.ltb s with
  | Next s' => shape (lab s') (data s') (cur s') /\ Forall strict (outp s') /\ (potential s' < potential s)%nat /\
               (endlab (lab s') = true -> rest s' = [])
  | Done ps m => Forall strict ps /\ data s = [m] /\ rest s = []
  | Err => False
  end.
Proof.
  destruct s as [l d v r o]. cbn [lab data cur rest outp]. intros Hs Ho He.
  destruct l; cbn [shape endlab] in Hs, He; try (specialize (He eq_refl); subst r).
  - (* L1 *) destruct d as [|x [|? ?]]; crush. unfold step, goto; cbn.
    destruct r as [|y r]; [done_shape|]. cmps; done_shape.
  - (* L1down *) destruct d as [|x [|? ?]]; crush. unfold step, goto; cbn. done_shape.
  - (* L12 *) destruct d as [|y [|x [|? ?]]]; crush. unfold step, goto; cbn.
    destruct r as [|z r]; [done_shape|]. cmps; done_shape.
  - (* L12down *) destruct d as [|y [|x [|? ?]]]; crush. unfold step, goto; cbn. cmps; done_shape.
  - (* L132 *) destruct Hs as [Hn Hl]. destruct d as [|c [|b [|a t]]]; cbn [length] in Hl; try lia.
    unfold step, goto; cbn [lab data cur rest outp bk1 bk2 bk3 nth_error].
    destruct r as [|x r]; [done_shape|].
    cbn [nest negb] in Hn. crush.
    cmps; try solve [done_shape].
    + cbn [erase skipn]. destruct t as [|e t']; [done_shape|].
      cbn [nest negb] in *. crush. destruct t' as [|g t'']; cbn [nest negb] in *; crush. done_shape.
  - (* L132up *) destruct Hs as (Hn & Hl & Hv). destruct d as [|c [|b [|a t]]]; cbn [length] in Hl; try lia.
    unfold step, goto; cbn [lab data cur rest outp bk1 bk2 bk3 nth_error].
    cbn [nest negb hd_lt] in *. crush.
    cmps; done_shape.
  - (* L312 *) destruct Hs as [Hn Hl]. destruct d as [|c [|b [|a [|e t]]]]; cbn [length] in Hl; try lia.
    unfold step, goto; cbn [lab data cur rest outp bk1 bk2 bk3 nth_error].
    destruct r as [|x r]; [done_shape|].
    cbn [nest negb] in Hn. crush.
    cmps; try solve [done_shape].
  - (* L312down *) destruct Hs as (Hn & Hl & Hv). destruct d as [|c [|b [|a [|e t]]]]; cbn [length] in Hl; try lia.
    unfold step, goto; cbn [lab data cur rest outp bk1 bk2 bk3 nth_error].
    cbn [nest negb hd_gt] in *. crush.
    cmps; done_shape.
  - (* Lup *) destruct Hs as (Hn & Hv). destruct d as [|c [|b [|a t]]]; cbn [nest negb hd_lt] in *; crush.
    + unfold step, goto; cbn. done_shape.
    + unfold step, goto; cbn [lab data cur rest outp length Nat.eqb]. done_shape.
  - (* Ldown *) destruct Hs as (Hn & Hv). destruct d as [|c [|b [|a [|e t]]]]; cbn [nest negb hd_gt] in *; crush.
    + unfold step, goto; cbn. done_shape.
    + unfold step, goto; cbn [lab data cur rest outp length]. done_shape.
  - (* Lendup *) destruct d as [|c [|b t]]; cbn [nest negb] in *; crush.
    unfold step, goto; cbn [lab data cur rest outp]. done_shape.
  - (* Lenddown *) destruct d as [|c [|b [|a t]]]; cbn [nest negb] in *; crush.
    + unfold step, goto; cbn. done_shape.
    + unfold step, goto; cbn [lab data cur rest outp length Nat.ltb Nat.leb bk1 bk2 nth_error]. done_shape.
  - (* Linf *) destruct d as [|x [|? ?]]; crush. unfold step; cbn. split; [apply Forall_rev; assumption|auto].
Qed.

Definition pend (l : label) : bool :=
  match l with L1down | L12down | L132up | L312down | Lup | Ldown => true | _ => false end.
(* every input value is still to be read, or not below data[0], or not below the value in flight *)
Definition cover (l : list Z) (s : state Z) : Prop :=
  forall x, In x l -> In x (rest s) \/ front (data s) <= x \/ (pend (lab s) = true /\ cur s <= x).

Ltac fr_facts :=
  repeat match goal with
  | H : Forall _ (_ :: _) |- _ => inversion H; clear H; subst
  | H : Forall _ [] |- _ => clear H
  end.
Ltac solve_cover :=
  first [ left; assumption
        | right; left; lia
        | right; right; split; [reflexivity | lia] ].
Ltac done_cover Hc :=
  let x0 := fresh "x0" in let Hx0 := fresh "Hx0" in
  intros x0 Hx0; specialize (Hc x0 Hx0);
  cbn [lab data cur rest outp pend erase skipn set_fr0 set_fr1 set_bk1 set_nth length Nat.sub] in Hc |- *;
  rewrite ?front_cons2, ?front_one in *;
  destruct Hc as [Hc | [Hc | [? Hc]]]; try discriminate;
  [ try (destruct Hc as [Hc | Hc]; [subst|]); solve_cover | solve_cover .. ].

Lemma step_cover l (s : state Z) :
  shape (lab s) (data s) (cur s) -> cover l s ->
  match step Z Z.ltb s with
  | Next s' => cover l s'
  | _ => True
  end.
Proof.
  destruct s as [lb d v r o]. cbn [lab data cur rest outp]. intros Hs Hc. unfold cover in *.
  destruct lb; cbn [shape] in Hs.
  - (* L1 *) destruct d as [|x [|? ?]]; crush. unfold step, goto; cbn [lab data cur rest outp fr0 length Nat.sub nth_error].
    destruct r as [|y r]; [done_cover Hc|]. cmps; done_cover Hc.
  - (* L1down *) destruct d as [|x [|? ?]]; crush. unfold step, goto; cbn [lab data cur rest outp]. done_cover Hc.
  - (* L12 *) destruct d as [|y [|x [|? ?]]]; crush. unfold step, goto; cbn [lab data cur rest outp fr1 length Nat.ltb Nat.leb Nat.sub nth_error].
    destruct r as [|z r]; [done_cover Hc|]. cmps; done_cover Hc.
  - (* L12down *) destruct d as [|y [|x [|? ?]]]; crush. unfold step, goto;
      cbn [lab data cur rest outp fr0 fr1 length Nat.ltb Nat.leb Nat.sub nth_error]. cmps; done_cover Hc.
  - (* L132 *) destruct Hs as [Hn Hl]. pose proof (nest_front _ _ Hn) as Hfr.
    destruct d as [|c [|b [|a t]]]; cbn [length] in Hl; try lia.
    unfold step, goto; cbn [lab data cur rest outp bk1 bk2 bk3 nth_error].
    destruct r as [|x r]; [done_cover Hc|].
    rewrite ?front_cons2 in Hfr. fr_facts. cbn [nest negb] in Hn. crush.
    cmps; try solve [done_cover Hc].
    cbn [erase skipn]. destruct t as [|e t']; done_cover Hc.
  - (* L132up *) destruct Hs as (Hn & Hl & Hv). pose proof (nest_front _ _ Hn) as Hfr.
    destruct d as [|c [|b [|a t]]]; cbn [length] in Hl; try lia.
    unfold step, goto; cbn [lab data cur rest outp bk1 bk2 bk3 nth_error].
    rewrite ?front_cons2 in Hfr. fr_facts. cbn [nest negb hd_lt] in *. crush.
    cmps; done_cover Hc.
  - (* L312 *) destruct Hs as [Hn Hl]. pose proof (nest_front _ _ Hn) as Hfr.
    destruct d as [|c [|b [|a [|e t]]]]; cbn [length] in Hl; try lia.
    unfold step, goto; cbn [lab data cur rest outp bk1 bk2 bk3 nth_error].
    destruct r as [|x r]; [done_cover Hc|].
    rewrite ?front_cons2 in Hfr. fr_facts. cbn [nest negb] in Hn. crush.
    cmps; try solve [done_cover Hc].
  - (* L312down *) destruct Hs as (Hn & Hl & Hv). pose proof (nest_front _ _ Hn) as Hfr.
    destruct d as [|c [|b [|a [|e t]]]]; cbn [length] in Hl; try lia.
    unfold step, goto; cbn [lab data cur rest outp bk1 bk2 bk3 nth_error].
    rewrite ?front_cons2 in Hfr. fr_facts. cbn [nest negb hd_gt] in *. crush.
    cmps; done_cover Hc.
  - (* Lup *) destruct Hs as (Hn & Hv). pose proof (nest_front _ _ Hn) as Hfr.
    destruct d as [|c [|b t]]; cbn [nest negb hd_lt] in *; crush.
    + unfold step, goto; cbn [lab data cur rest outp length Nat.eqb]. fr_facts. done_cover Hc.
    + unfold step, goto; cbn [lab data cur rest outp length Nat.eqb]. done_cover Hc.
  - (* Ldown *) destruct Hs as (Hn & Hv).
    destruct d as [|c [|b [|a t]]]; cbn [nest negb hd_gt] in *; crush;
      unfold step, goto; cbn [lab data cur rest outp length]; done_cover Hc.
  - (* Lendup *) pose proof (nest_front _ _ Hs) as Hfr. destruct d as [|c [|b t]]; cbn [nest negb] in *; crush.
    unfold step, goto; cbn [lab data cur rest outp]. done_cover Hc.
  - (* Lenddown *) destruct d as [|c [|b [|a t]]]; cbn [nest negb] in *; crush.
    + unfold step, goto; cbn [lab data cur rest outp length Nat.ltb Nat.leb]. done_cover Hc.
    + unfold step, goto; cbn [lab data cur rest outp length Nat.ltb Nat.leb bk1 bk2 nth_error]. done_cover Hc.
  - (* Linf *) unfold step. cbn [lab data]. destruct (fr0 Z d); exact I.
Qed.

(* ------------------------------------------------------------------ whole runs *)
Definition inv (l : list Z) (s : state Z) : Prop :=
  shape (lab s) (data s) (cur s) /\ Forall strict (outp s) /\ (endlab (lab s) = true -> rest s = []) /\ cover l s.

Lemma run_inv l fuel s : inv l s -> (potential s < fuel)%nat ->
  exists ps m, run Z Z.ltb fuel s = Done ps m /\ Forall strict ps /\ forall x, In x l -> m <= x.
Proof.
  revert s. induction fuel as [|n IH]; intros s (Hs & Ho & He & Hc) Hp; [lia|].
  cbn [run]. pose proof (step_shape s Hs Ho He) as H1. pose proof (step_cover l s Hs Hc) as H2.
  destruct (step Z Z.ltb s) as [s'|ps m|] eqn:E.
  - destruct H1 as (A1 & A2 & A3 & A4). apply IH; [repeat split; assumption|lia].
  - destruct H1 as (A1 & A2 & A3). exists ps, m. repeat split; auto.
    intros x Hx. destruct s as [lb d v r o]. cbn [data rest lab cur] in *. subst d r.
    assert (El : lb = Linf).
    { unfold step in E. cbn [lab data cur rest outp] in E.
      destruct lb; try discriminate; try reflexivity;
        repeat match type of E with
        | match ?c with _ => _ end = _ => destruct c; try discriminate
        end. }
    subst lb.
    destruct (Hc x Hx) as [Hin|[Hf|[Hf _]]]; cbn in *; [destruct Hin|exact Hf|discriminate].
  - destruct H1.
Qed.

Lemma In_min_dec : forall x (l : list Z), In x l -> True. Proof. auto. Qed.

(* the machine never fails, every emitted pair is strict, the last call carries the global minimum *)
Theorem line_Z_total (l : list Z) :
  match l with
  | [] => line_Z l = Some ([], None)
  | _ => exists ps m, line_Z l = Some (ps, Some m) /\ Forall strict ps /\ In m l /\ forall x, In x l -> m <= x
  end.
Proof.
  destruct l as [|x r]; [reflexivity|].
  set (l := x :: r).
  assert (Hi : inv l (mk L1 [x] x r [])).
  { unfold inv. cbn [lab data cur rest outp shape endlab]. split; [exact I|]. split; [constructor|]. split; [discriminate|].
    intros y Hy. cbn [lab data cur rest]. destruct Hy as [<-|Hy]; [right; left; cbn; lia|left; exact Hy]. }
  destruct (run_inv l (line_fuel Z l) _ Hi) as (ps & m & Hr & Hst & Hmin).
  { unfold potential, line_fuel, l. cbn [lab data cur rest length weight]. lia. }
  exists ps, m. unfold line_Z, line. unfold l at 1. change (x :: r) with l. rewrite Hr. repeat split; auto.
  (* m is an element of l: the machine only moves input values around (step_good with P := In _ l) *)
  assert (Hg : forall fuel s, good Z (fun y => In y l) s -> forall ps' m', run Z Z.ltb fuel s = Done ps' m' -> In m' l).
  { induction fuel as [|n IH]; intros s Hgs ps' m' Hrun; [discriminate|].
    cbn [run] in Hrun. destruct (step Z Z.ltb s) as [s'|ps2 m2|] eqn:E; try discriminate.
    - eapply IH; [eapply step_good; eassumption|eassumption].
    - inversion Hrun; subst. destruct s as [lb d v r0 o]. unfold step in E. cbn [lab data cur rest outp] in E.
      destruct Hgs as (Hd & _ & _). cbn [data] in Hd.
      destruct lb; try discriminate;
        repeat match type of E with
        | match ?c with _ => _ end = _ => let EE := fresh "EE" in destruct c eqn:EE; try discriminate
        end.
      inversion E; subst. eapply (fr0_P Z (fun y => In y l)); eassumption. }
  eapply Hg; [|exact Hr].
  unfold good; cbn [data cur rest]. repeat split.
  - constructor; [left; reflexivity|constructor].
  - left; reflexivity.
  - apply Forall_forall. intros y Hy. right. exact Hy.
Qed.

(* ================================================================= C. bounded equality with the oracle, lifted by order invariance *)
Fixpoint all_lists (vals : list Z) (n : nat) : list (list Z) :=
  match n with
  | O => [[]]
  | S k => flat_map (fun t => map (fun v => v :: t) vals) (all_lists vals k)
  end.
Fixpoint pairs_eqb (a b : list (Z * Z)) : bool :=
  match a, b with
  | [], [] => true
  | (x, y) :: a', (u, v) :: b' => (x =? u) && (y =? v) && pairs_eqb a' b'
  | _, _ => false
  end.
Fixpoint zs_eqb (a b : list Z) : bool :=
  match a, b with
  | [], [] => true
  | x :: a', u :: b' => (x =? u) && zs_eqb a' b'
  | _, _ => false
  end.
Definition res_eqb (x y : option (list (Z * Z) * list Z)) : bool :=
  match x, y with Some (a, b), Some (c, d) => pairs_eqb a c && zs_eqb b d | _, _ => false end.
Definition okb (r : list Z) : bool := res_eqb (line_canon_Z r) (line_oracle_Z r).
Definition range (n : nat) : list Z := map Z.of_nat (seq 0 n).
Definition sweep (n : nat) : bool := forallb okb (all_lists (range n) n).
Definition line_bound : nat := 6.

Lemma pairs_eqb_eq a b : pairs_eqb a b = true -> a = b.
Proof.
  revert b. induction a as [|[x y] a IH]; intros [|[u v] b] H; cbn in H; try discriminate; [reflexivity|].
  apply andb_true_iff in H. destruct H as [H H3]. apply andb_true_iff in H. destruct H as [H1 H2].
  apply Z.eqb_eq in H1. apply Z.eqb_eq in H2. subst. f_equal. apply IH. exact H3.
Qed.
Lemma zs_eqb_eq a b : zs_eqb a b = true -> a = b.
Proof.
  revert b. induction a as [|x a IH]; intros [|u b] H; cbn in H; try discriminate; [reflexivity|].
  apply andb_true_iff in H. destruct H as [H1 H2]. apply Z.eqb_eq in H1. subst. f_equal. apply IH. exact H2.
Qed.
Lemma res_eqb_eq x y : res_eqb x y = true -> x = y.
Proof.
  destruct x as [[a b]|], y as [[c d]|]; cbn; try discriminate. intros H.
  apply andb_true_iff in H. destruct H as [H1 H2]. apply pairs_eqb_eq in H1. apply zs_eqb_eq in H2. subst. reflexivity.
Qed.

Lemma all_lists_complete vals n r : length r = n -> (forall x, In x r -> In x vals) -> In r (all_lists vals n).
Proof.
  revert r. induction n as [|n IH]; intros r Hl Hin.
  - destruct r; [left; reflexivity|discriminate].
  - destruct r as [|x t]; [discriminate|]. cbn [all_lists]. apply in_flat_map. exists t. split.
    + apply IH; [cbn in Hl; lia|]. intros y Hy. apply Hin. right. exact Hy.
    + apply (in_map (fun v => v :: t) vals x). apply Hin. left. reflexivity.
Qed.

(* ranks: number of distinct smaller elements *)
Definition nd (l : list Z) : list Z := nodup Z.eq_dec l.
Definition rank (l : list Z) (x : Z) : Z := Z.of_nat (length (filter (fun y => y <? x) (nd l))).
Definition unrank (l : list Z) (i : Z) : Z := hd 0 (filter (fun x => rank l x =? i) (nd l)).

Lemma filter_len_le (p q : Z -> bool) L : (forall y, p y = true -> q y = true) ->
  (length (filter p L) <= length (filter q L))%nat.
Proof.
  intros H. induction L as [|a L IH]; [cbn; lia|]. cbn [filter].
  destruct (p a) eqn:Ep; [rewrite (H a Ep); cbn; lia|]. destruct (q a); cbn; lia.
Qed.
Lemma filter_len_lt (p q : Z -> bool) L a : (forall y, p y = true -> q y = true) ->
  In a L -> p a = false -> q a = true -> (length (filter p L) < length (filter q L))%nat.
Proof.
  intros H. induction L as [|b L IH]; intros Hin Hp Hq; [destruct Hin|]. cbn [filter].
  destruct Hin as [->|Hin].
  - rewrite Hp, Hq. cbn [length]. pose proof (filter_len_le p q L H). lia.
  - specialize (IH Hin Hp Hq). destruct (p b) eqn:Ep; [rewrite (H b Ep); cbn; lia|]. destruct (q b); cbn; lia.
Qed.
Lemma nodup_len (l : list Z) : (length (nd l) <= length l)%nat.
Proof. unfold nd. induction l as [|a l IH]; [cbn; lia|]. cbn [nodup]. destruct (in_dec Z.eq_dec a l); cbn; lia. Qed.

Lemma rank_lt l x y : In x l -> In y l -> (rank l x <? rank l y) = (x <? y).
Proof.
  intros Hx Hy. unfold rank. destruct (Z.ltb_spec x y) as [H|H].
  - apply Z.ltb_lt. apply inj_lt.
    apply (filter_len_lt _ _ (nd l) x); [intros z Hz; lia| apply nodup_In; exact Hx | lia | lia].
  - apply Z.ltb_ge. apply inj_le. apply filter_len_le. intros z Hz. lia.
Qed.
Lemma rank_inj l x y : In x l -> In y l -> rank l x = rank l y -> x = y.
Proof.
  intros Hx Hy H. pose proof (rank_lt l x y Hx Hy) as H1. pose proof (rank_lt l y x Hy Hx) as H2.
  rewrite H in *. rewrite Z.ltb_irrefl in *. lia.
Qed.
Lemma rank_range l x : In x l -> In (rank l x) (range (length l)).
Proof.
  intros Hx. unfold rank, range. apply in_map. apply in_seq. split; [lia|]. cbn.
  assert ((length (filter (fun y => (y <? x)%Z) (nd l)) < length (filter (fun _ => true) (nd l)))%nat).
  { apply (filter_len_lt _ _ (nd l) x); [auto|apply nodup_In; exact Hx|lia|reflexivity]. }
  assert (length (filter (fun _ : Z => true) (nd l)) = length (nd l)).
  { clear. induction (nd l) as [|a t IH]; cbn; [reflexivity|lia]. }
  pose proof (nodup_len l). lia.
Qed.
Lemma unrank_rank l x : In x l -> unrank l (rank l x) = x.
Proof.
  intros Hx. unfold unrank.
  assert (Hall : forall y, In y (filter (fun z => rank l z =? rank l x) (nd l)) -> y = x).
  { intros y Hy. apply filter_In in Hy. destruct Hy as [Hy1 Hy2]. apply Z.eqb_eq in Hy2.
    apply (rank_inj l); [apply (nodup_In Z.eq_dec); exact Hy1|exact Hx|exact Hy2]. }
  assert (Hne : In x (filter (fun z => rank l z =? rank l x) (nd l))).
  { apply filter_In. split; [apply nodup_In; exact Hx|apply Z.eqb_refl]. }
  destruct (filter (fun z => rank l z =? rank l x) (nd l)) as [|y t]; [destruct Hne|].
  cbn [hd]. apply Hall. left. reflexivity.
Qed.

Lemma sweep_ok : forallb sweep (seq 0 (S line_bound)) = true.
Proof. vm_compute. reflexivity. Qed.

Theorem line_small_exhaustive (l : list Z) :
  (length l <= line_bound)%nat -> line_canon_Z l = line_oracle_Z l.
Proof.
  intros Hlen.
  set (r := map (rank l) l).
  assert (Hr : In r (all_lists (range (length l)) (length l))).
  { apply all_lists_complete; [unfold r; apply map_length|].
    intros y Hy. unfold r in Hy. apply in_map_iff in Hy. destruct Hy as (x & <- & Hx). apply rank_range. exact Hx. }
  assert (Hok : okb r = true).
  { pose proof sweep_ok as Hs. rewrite forallb_forall in Hs.
    specialize (Hs (length l)). unfold sweep in Hs. rewrite forallb_forall in Hs. apply Hs; [|exact Hr].
    apply in_seq. unfold line_bound in *. lia. }
  apply res_eqb_eq in Hok.
  assert (Hl : l = map (unrank l) r).
  { unfold r. rewrite map_map. rewrite <- (map_id l) at 1. apply map_ext_in. intros x Hx. symmetry. apply unrank_rank. exact Hx. }
  assert (Hmono : forall i j, In i r -> In j r -> (unrank l i <? unrank l j) = (i <? j)).
  { intros i j Hi Hj. unfold r in Hi, Hj. apply in_map_iff in Hi. apply in_map_iff in Hj.
    destruct Hi as (x & <- & Hx). destruct Hj as (y & <- & Hy).
    rewrite !unrank_rank by assumption. symmetry. apply rank_lt; assumption. }
  assert (HF : Forall (fun i => In i r) r) by (apply Forall_forall; auto).
  unfold line_canon_Z, line_oracle_Z. rewrite Hl.
  rewrite (line_canon_map Z Z Z.ltb Z.ltb (unrank l) (fun i => In i r) Hmono r HF).
  rewrite (line_oracle_map Z Z Z.ltb Z.ltb (unrank l) (fun i => In i r) Hmono r HF).
  unfold line_canon_Z, line_oracle_Z in Hok. rewrite Hok. reflexivity.
Qed.

(* ------------------------------------------------------------------ statements as used in Properties_C14.v *)
Theorem line_never_fails (l : list Z) : line_Z l <> None.
Proof.
  pose proof (line_Z_total l) as H. destruct l as [|x r]; [rewrite H; discriminate|].
  destruct H as (ps & m & H & _). rewrite H. discriminate.
Qed.
Theorem line_outputs_strict (l : list Z) ps m : line_Z l = Some (ps, m) -> Forall (fun p => fst p < snd p) ps.
Proof.
  intros H0. pose proof (line_Z_total l) as H. destruct l as [|x r].
  - rewrite H in H0. inversion H0; subst. constructor.
  - destruct H as (ps' & m' & H & Hst & _). rewrite H in H0. inversion H0; subst. exact Hst.
Qed.
Theorem line_min_global (l : list Z) ps m : line_Z l = Some (ps, Some m) -> In m l /\ forall x, In x l -> m <= x.
Proof.
  intros H0. pose proof (line_Z_total l) as H. destruct l as [|x r].
  - rewrite H in H0. discriminate.
  - destruct H as (ps' & m' & H & _ & Hin & Hmin). rewrite H in H0. inversion H0; subst. split; assumption.
Qed.
Theorem line_empty_iff (l : list Z) ps : line_Z l = Some (ps, None) -> l = [].
Proof.
  intros H0. pose proof (line_Z_total l) as H. destruct l as [|x r]; [reflexivity|].
  destruct H as (ps' & m' & H & _). rewrite H in H0. discriminate.
Qed.
