(* C14_Proofs.v — theorems about the state-machine model of compute_persistence_of_function_on_line. *)
From Coq Require Import ZArith List Bool Arith Lia ZifyBool.
Require Import Reduce ReduceExec C14_Model.
Import ListNotations.

(* ================================================================= A. the machine only compares *)
Section Invariance.
Variables A B : Type.
Variable ltA : A -> A -> bool.
Variable ltB : B -> B -> bool.
Variable f : A -> B.
Variable P : A -> Prop.
Hypothesis Hmono : forall x y, P x -> P y -> ltB (f x) (f y) = ltA x y.

Definition ff (p : A * A) : B * B := (f (fst p), f (snd p)).
Definition map_state (s : state A) : state B :=
  mk (lab s) (map f (data s)) (f (cur s)) (map f (rest s)) (map ff (outp s)).
Definition map_outcome (o : outcome A) : outcome B :=
  match o with
  | Next s => Next (map_state s)
  | Done ps m => Done (map ff ps) (f m)
  | Err => Err
  end.
Definition good (s : state A) : Prop := Forall P (data s) /\ P (cur s) /\ Forall P (rest s).

Lemma nth_error_map' (d : list A) k : nth_error (map f d) k = option_map f (nth_error d k).
Proof. revert k. induction d as [|a d IH]; intros [|k]; cbn; auto. Qed.
Lemma set_nth_map k x (d : list A) : set_nth B k (f x) (map f d) = map f (set_nth A k x d).
Proof. revert k. induction d as [|a d IH]; intros [|k]; cbn; auto. f_equal. apply IH. Qed.
Lemma skipn_map' k (d : list A) : skipn k (map f d) = map f (skipn k d).
Proof. revert d. induction k as [|k IH]; intros [|a d]; cbn; auto. Qed.
Lemma nth_error_P (d : list A) k x : Forall P d -> nth_error d k = Some x -> P x.
Proof. intros HF H. apply nth_error_In in H. rewrite Forall_forall in HF. auto. Qed.
Lemma set_nth_P k x (d : list A) : P x -> Forall P d -> Forall P (set_nth A k x d).
Proof.
  intros Hx. revert k. induction d as [|a d IH]; intros [|k] HF; cbn; auto; inversion HF; subst; constructor; auto.
Qed.
Lemma skipn_P k (d : list A) : Forall P d -> Forall P (skipn k d).
Proof.
  revert d. induction k as [|k IH]; intros [|a d] HF; cbn; auto. inversion HF; subst. auto.
Qed.

Lemma le_map x y : P x -> P y -> le B ltB (f x) (f y) = le A ltA x y.
Proof. intros. unfold le. rewrite Hmono; auto. Qed.
Lemma ge_map x y : P x -> P y -> ge B ltB (f x) (f y) = ge A ltA x y.
Proof. intros. unfold ge. rewrite Hmono; auto. Qed.
Lemma gt_map x y : P x -> P y -> gt B ltB (f x) (f y) = gt A ltA x y.
Proof. intros. unfold gt. rewrite Hmono; auto. Qed.

Ltac acc_P :=
  repeat match goal with
  | HF : Forall P ?d, H : nth_error ?d ?k = Some ?x |- _ =>
    lazymatch goal with
    | _ : P x |- _ => fail
    | _ => pose proof (nth_error_P d k x HF H)
    end
  end.

Lemma step_map s : good s -> step B ltB (map_state s) = map_outcome (step A ltA s).
Proof.
  destruct s as [l d v r o]. intros (Hd & Hv & Hr). cbn [data cur rest] in *.
  unfold step, goto, map_state. cbn [lab data cur rest outp].
  unfold bk1, bk2, bk3, fr0, fr1, set_fr0, set_fr1, set_bk1, erase.
  rewrite ?map_length.
  destruct l.
  all: try (destruct r as [|x r]; [reflexivity|]; cbn [map]; assert (Hx : P x) by (inversion Hr; assumption)).
  all: rewrite ?nth_error_map'.
  all: repeat match goal with
       | |- context [nth_error d ?k] => let E := fresh "E" in destruct (nth_error d k) eqn:E; cbn [option_map]; try reflexivity
       | |- context [(length d <? 2)%nat] => destruct (length d <? 2)%nat; try reflexivity
       end.
  all: acc_P.
  all: rewrite ?le_map, ?ge_map, ?gt_map, ?Hmono by assumption.
  all: repeat match goal with
       | |- context [if ?c then _ else _] => destruct c; cbn [map_outcome map_state lab data cur rest outp]
       end.
  all: rewrite <- ?skipn_map', <- ?set_nth_map; cbn [map ff fst snd map_outcome map_state lab data cur rest outp].
  all: try reflexivity.
  all: try (destruct d; reflexivity).
  all: try (rewrite ?skipn_map'; destruct (skipn _ d); reflexivity).
  all: try (destruct (length d) as [|[|[|n]]]; reflexivity).
  all: try (rewrite map_rev; reflexivity).
Qed.

Lemma step_good s s' : good s -> step A ltA s = Next s' -> good s'.
Proof.
  destruct s as [l d v r o]. intros (Hd & Hv & Hr). cbn [data cur rest] in *.
  unfold step, goto. cbn [lab data cur rest outp].
  unfold bk1, bk2, bk3, fr0, fr1, set_fr0, set_fr1, set_bk1, erase.
  assert (Hr' : forall x r', r = x :: r' -> P x /\ Forall P r') by (intros x r' ->; inversion Hr; auto).
  destruct l.
  all: try (destruct r as [|x r']; [intros H; inversion H; subst; unfold good; cbn; auto|];
            destruct (Hr' x r' eq_refl) as [Hx Hr2]).
  all: repeat match goal with
       | |- context [nth_error d ?k] => let E := fresh "E" in destruct (nth_error d k) eqn:E; try discriminate
       | |- context [(length d <? 2)%nat] => destruct (length d <? 2)%nat; try discriminate
       end.
  all: acc_P.
  all: repeat match goal with
       | |- context [if ?c then _ else _] => destruct c
       end.
  all: try (destruct d as [|d0 d1] eqn:Ed; try discriminate).
  all: try (match goal with |- context [match skipn ?k ?l with _ => _ end] => destruct (skipn k l) eqn:Es end; try discriminate).
  all: try (match goal with |- context [match length ?l with _ => _ end] => destruct (length l) as [|[|[|n]]] end).
  all: intros H; inversion H; subst; unfold good; cbn [data cur rest]; repeat split; auto.
  all: try (apply set_nth_P; auto).
  all: try (apply skipn_P; auto).
  all: try (constructor; auto).
  all: try (match goal with Es : skipn ?k ?l = _ |- _ => rewrite <- Es; apply skipn_P; auto end).
  all: try (inversion Hd; subst; auto).
  all: try (apply skipn_P; auto).
Qed.

Lemma run_map fuel s : good s -> run B ltB fuel (map_state s) = map_outcome (run A ltA fuel s).
Proof.
  revert s. induction fuel as [|n IH]; intros s Hg; cbn [run]; [reflexivity|].
  rewrite step_map by assumption.
  destruct (step A ltA s) as [s'| |] eqn:E; cbn [map_outcome]; try reflexivity.
  apply IH. eapply step_good; eassumption.
Qed.

Definition map_result (r : option (list (A * A) * option A)) : option (list (B * B) * option B) :=
  match r with
  | None => None
  | Some (ps, m) => Some (map ff ps, option_map f m)
  end.

Theorem line_map l : Forall P l -> line B ltB (map f l) = map_result (line A ltA l).
Proof.
  intros HF. destruct l as [|x r]; [reflexivity|].
  unfold line. cbn [map]. unfold line_fuel. rewrite !map_length. cbn [length].
  change (mk L1 [f x] (f x) (map f r) []) with (map_state (mk L1 [x] x r [])).
  rewrite run_map.
  - destruct (run A ltA _ _); reflexivity.
  - inversion HF; subst. unfold good; cbn; auto.
Qed.
End Invariance.
