(* C15_Model.v - copies, moves, swap and (de)serialisation of Gudhi::Simplex_tree on the trie states of Trie.v /
   C01_Model.v (state = tree, dimension_ upper bound, dimension_to_be_lowered_ flag).
   ALGORITHM side, transcribed from src/Simplex_tree/include/gudhi/Simplex_tree.h:
     copy_from / move_from / the four special members (lines 463-522, 528-640): [copy_construct] .. [swap_std];
     get_serialization_size / serialize / rec_serialize (2677-2752): [ser_size], [ser_t], [serialize];
     deserialize / rec_deserialize (2802-2855): [deserialize] (fuelled; reads are bounds-checked, a read that needs
       bytes beyond the end of the buffer gives [Refused] in the repaired code (chk = true) and [OverRead] = undefined
       behaviour in the unrepaired code (chk = false));
     operator<< / operator>> (2874-2905) + read_simplex (reader_utils.h:158): [text_out], [text_in].
   The boolean [fx] selects the repaired (true) or the original (false) behaviour of the special members
   (F8: dimension_to_be_lowered_ is not carried over; move assignment leaves dimension_ of the source).
   A buffer is a list of bytes (Z in 0..255).  Vertex_handle = int: 4 bytes, little endian, two's complement.
   The encoding of Filtration_value is a parameter: [fw] bytes, [encf] / [decf] (double: 8, float: 4,
   store_filtration = false: 0 bytes and every value reads as 0).
   Definitions only; the facts are in C15_Proofs.v.
   What this model CANNOT exhibit: aliasing.  Gallina values are immutable, so a "copy" that shares storage with its
   source is indistinguishable from a deep copy here; independence of copies is a run-time matter (ASan pair mode). *)
From Coq Require Import ZArith List Lia Bool.
Import ListNotations.
Require Import Simplex Trie C01_Model.
Local Open Scope Z_scope.

(* ------------------------------------------------------------------------------------------ special members *)
Definition copy_construct (fx : bool) (src : state) : state :=
  mk (tree src) (dim_ub src) (fx && dirty src).
(* operator=(const&): root_members_recursive_deletion(); copy_from(src).  The flag of the target is not written by the
   unrepaired code *)
Definition copy_assign (fx : bool) (tgt src : state) : state :=
  mk (tree src) (dim_ub src) (if fx then dirty src else dirty tgt).
(* move constructor: (new object, moved-from source).  It resets dimension_ of the source to -1 *)
Definition move_construct (fx : bool) (src : state) : state * state :=
  (mk (tree src) (dim_ub src) (fx && dirty src), mk [] (-1) (if fx then false else dirty src)).
(* operator=(&&): the unrepaired code leaves dimension_ (and the flag) of the source as they were *)
Definition move_assign (fx : bool) (tgt src : state) : state * state :=
  (mk (tree src) (dim_ub src) (if fx then dirty src else dirty tgt),
   mk [] (if fx then -1 else dim_ub src) (if fx then false else dirty src)).
(* std::swap (there is no member swap): T tmp(move(a)); a = move(b); b = move(tmp) *)
Definition swap_std (fx : bool) (a b : state) : state * state :=
  let '(tmp, a1) := move_construct fx a in
  let '(a2, b1) := move_assign fx a1 b in
  let '(b2, _) := move_assign fx b1 tmp in
  (a2, b2).

(* what a user can observe of a state: the finite map, the value dimension() returns (which resolves the flag), the
   cached upper bound *)
Definition exact_or_ub (st : state) : Z := snd (dimension st).
Definition obs_eq (a b : state) : Prop :=
  tree a = tree b /\ exact_or_ub a = exact_or_ub b.

(* ------------------------------------------------------------------------------------------ bytes *)
Definition byte := Z.
Definition enc32 (z : Z) : list byte :=
  let u := z mod 4294967296 in
  [u mod 256; (u / 256) mod 256; (u / 65536) mod 256; (u / 16777216) mod 256].
Definition dec32 (b0 b1 b2 b3 : byte) : Z :=
  let u := b0 + 256 * b1 + 65536 * b2 + 16777216 * b3 in
  if u <? 2147483648 then u else u - 4294967296.

Inductive rd (A : Type) :=
| Got (a : A) (rest : list byte)
| Short            (* the read needs bytes beyond the end of the buffer *)
| NoFuel.
Arguments Got {A}. Arguments Short {A}. Arguments NoFuel {A}.

Definition rd32 (b : list byte) : rd Z :=
  match b with
  | b0 :: b1 :: b2 :: b3 :: r => Got (dec32 b0 b1 b2 b3) r
  | _ => Short
  end.

Inductive outcome :=
| Loaded (st : state)
| Refused             (* std::invalid_argument: wrong length *)
| NotEmpty            (* std::logic_error of GUDHI_CHECK (debug mode): the target is not empty *)
| OverRead            (* unrepaired code: bytes beyond the end of the buffer were read - undefined behaviour *)
| OutOfFuel.

Section Filtration_encoding.
  Variable fw : nat.
  Variable encf : V -> list byte.
  Variable decf : list byte -> V.

  (* ---- rec_serialize: count, (vertex, value)*, then per member the serialisation of its children (a leaf: count 0) *)
  Fixpoint ser_t (t : trie) : list byte :=
    match t with
    | Node l => enc32 (Z.of_nat (length l))
                ++ flat_map (fun e => let '(x, w, c) := e in enc32 x ++ encf w) l
                ++ flat_map (fun e => let '(x, w, c) := e in ser_t c) l
    end.
  Definition serialize (st : state) : list byte := ser_t (Node (tree st)).
  (* get_serialization_size: sizeof(Vertex_handle) + sum of the value sizes + 2 * sizeof(Vertex_handle) per simplex *)
  Definition ser_size (st : state) : Z := 4 + (Z.of_nat fw + 8) * size_t (Node (tree st)).

  Definition rdf (b : list byte) : rd V :=
    if (length b <? fw)%nat then Short else Got (decf (firstn fw b)) (skipn fw b).

  (* first loop of rec_deserialize: members_size times (vertex, value), emplace_hint(end): a label already present is
     left alone, an out-of-order label goes to its sorted place *)
  Fixpoint read_members (fuel : nat) (n : Z) (b : list byte) (acc : sibs) : rd sibs :=
    if n <=? 0 then Got acc b else
      match rd32 b with
      | Got x b1 =>
          match rdf b1 with
          | Got w b2 =>
              match fuel with
              | O => NoFuel
              | S f => read_members f (n - 1) b2 (match get x acc with None => put x w leaf acc | Some _ => acc end)
              end
          | Short => Short
          | NoFuel => NoFuel
          end
      | Short => Short
      | NoFuel => NoFuel
      end.

  (* rec_deserialize(sib, members_size, ptr): members, then for every member in label order its children count and,
     when positive, its children *)
  Fixpoint des_sibs (fuel : nat) (n : Z) (b : list byte) : rd sibs :=
    match fuel with
    | O => NoFuel
    | S f =>
        match read_members f n b [] with
        | Got l b1 =>
            (fix children (l : sibs) (b : list byte) : rd sibs :=
               match l with
               | [] => Got [] b
               | (x, w, _) :: r =>
                   match rd32 b with
                   | Got cs b2 =>
                       if 0 <? cs then
                         match des_sibs f cs b2 with
                         | Got c b3 =>
                             match children r b3 with
                             | Got r' b4 => Got ((x, w, Node c) :: r') b4
                             | Short => Short
                             | NoFuel => NoFuel
                             end
                         | Short => Short
                         | NoFuel => NoFuel
                         end
                       else
                         match children r b2 with
                         | Got r' b4 => Got ((x, w, leaf) :: r') b4
                         | Short => Short
                         | NoFuel => NoFuel
                         end
                   | Short => Short
                   | NoFuel => NoFuel
                   end
               end) l b1
        | Short => Short
        | NoFuel => NoFuel
        end
    end.

  (* deserialize(buffer, size) into the object st0.  dimension_ becomes the largest depth reached (max with the old
     value), the flag is not touched *)
  Definition deserialize (chk : bool) (st0 : state) (b : list byte) : outcome :=
    if negb (is_nil (tree st0)) then NotEmpty else
      match rd32 b with
      | Got n b1 =>
          match des_sibs (S (length b)) n b1 with
          | Got l rest =>
              if is_nil rest then Loaded (mk l (Z.max (dim_ub st0) (height_t (Node l))) (dirty st0))
              else Refused
          | Short => if chk then Refused else OverRead
          | NoFuel => OutOfFuel
          end
      | Short => if chk then Refused else OverRead
      | NoFuel => OutOfFuel
      end.
End Filtration_encoding.

(* ------------------------------------------------------------------------------------------ text form *)
(* vertices of a simplex as simplex_vertex_range delivers them: descending *)
Fixpoint revlex_lt (a b : list Z) : bool :=        (* a, b descending; reverse_lexicographic_order *)
  match a, b with
  | [], _ :: _ => true
  | _, [] => false
  | x :: a', y :: b' => if x =? y then revlex_lt a' b' else x <? y
  end.
Definition before (p q : simplex * V) : bool :=    (* is_before_in_totally_ordered_filtration *)
  if snd p =? snd q then revlex_lt (rev (fst p)) (rev (fst q)) else snd p <? snd q.
Fixpoint insert_sorted (p : simplex * V) (l : cplx) : cplx :=
  match l with
  | [] => [p]
  | q :: r => if before q p then q :: insert_sorted p r else p :: l
  end.
Definition filtration_order (K : cplx) : cplx := fold_right insert_sorted [] K.
(* operator<<: one record (dimension, vertices descending, value) per simplex, in filtration order *)
Definition text_out (st : state) : list (Z * list Z * V) :=
  map (fun p => (sdim (fst p), rev (fst p), snd p)) (filtration_order (abs (tree st))).
(* operator>>: insert_simplex per record, then set_dimension(max_dim) (exact) *)
Definition text_in (st0 : state) (recs : list (Z * list Z * V)) : state :=
  let st := fold_left (fun st r => step true st (OInsert (snd (fst r)) (snd r))) recs st0 in
  mk (tree st) (fold_left (fun m r => Z.max m (Z.of_nat (length (snd (fst r))) - 1)) recs (-1)) false.

(* a concrete fixed-width value encoding used for the non-vacuity examples: 8 bytes, little endian, two's complement
   (the runs use the IEEE-754 layout of the C++ double/float, supplied by the oracle driver) *)
Definition enc64 (z : Z) : list byte :=
  let u := z mod 18446744073709551616 in
  enc32 (u mod 4294967296) ++ enc32 (u / 4294967296).
Definition dec64 (b : list byte) : Z :=
  match b with
  | [a0; a1; a2; a3; a4; a5; a6; a7] =>
      let lo := (dec32 a0 a1 a2 a3) mod 4294967296 in
      let hi := dec32 a4 a5 a6 a7 in
      lo + 4294967296 * hi
  | _ => 0
  end.
