(* C15_Proofs.v - facts about C15_Model.v: the special members, the byte codec, serialize / deserialize round trip,
   rejection of extended and truncated buffers, fuel sufficiency. *)
From Coq Require Import ZArith List Lia Bool ZifyBool Permutation Sorting.Sorted.
Import ListNotations.
Require Import Simplex Trie C01_Model C01_Proofs C15_Model.
Local Open Scope Z_scope.

(* ------------------------------------------------------------------------------------------ special members *)
Lemma copy_construct_id : forall st, copy_construct true st = st.
Proof. intros [t d b]; reflexivity. Qed.
Lemma copy_assign_id : forall tgt src, copy_assign true tgt src = src.
Proof. intros tgt [t d b]; reflexivity. Qed.
Lemma move_construct_spec : forall st, move_construct true st = (st, empty_state).
Proof. intros [t d b]; reflexivity. Qed.
Lemma move_assign_spec : forall tgt src, move_assign true tgt src = (src, empty_state).
Proof. intros tgt [t d b]; reflexivity. Qed.
Lemma swap_std_spec : forall a b, swap_std true a b = (b, a).
Proof. intros [ta da ba] [tb db bb]; reflexivity. Qed.
Lemma copy_obs_eq : forall st, obs_eq (copy_construct true st) st.
Proof. intros st. rewrite copy_construct_id. split; reflexivity. Qed.
Lemma copy_assign_obs_eq : forall tgt src, obs_eq (copy_assign true tgt src) src.
Proof. intros tgt src. rewrite copy_assign_id. split; reflexivity. Qed.

Definition dirty_witness : list op := [OInsertSub [0; 1; 2] 0; ORemove [0; 1; 2]].
Lemma copy_drops_dirty_flag_refuted_lemma :
  ~ (forall ops, obs_eq (copy_construct false (run true ops)) (run true ops)).
Proof.
  intro H. specialize (H dirty_witness). destruct H as [_ H]. vm_compute in H. discriminate.
Qed.
Lemma copy_drops_dirty_flag_witness :
  exact_or_ub (run true dirty_witness) = 1 /\ exact_or_ub (copy_construct false (run true dirty_witness)) = 2
  /\ exact_or_ub (copy_construct true (run true dirty_witness)) = 1.
Proof. vm_compute. auto. Qed.
Lemma copy_assign_keeps_target_flag_refuted_lemma :
  ~ (forall ops, obs_eq (copy_assign false empty_state (run true ops)) (run true ops)).
Proof.
  intro H. specialize (H dirty_witness). destruct H as [_ H]. vm_compute in H. discriminate.
Qed.
Lemma move_assign_source_not_empty_refuted_lemma :
  exists tgt src, snd (move_assign false tgt src) <> empty_state.
Proof. exists empty_state, (run true [OInsert [0] 0]). vm_compute. discriminate. Qed.
Lemma move_assign_source_witness :
  let src := run true [OInsert [0] 0] in
  snd (move_assign false empty_state src) = mk [] 0 false /\ snd (move_assign true empty_state src) = empty_state.
Proof. vm_compute. auto. Qed.

(* ------------------------------------------------------------------------------------------ bytes *)
Lemma enc32_length z : length (enc32 z) = 4%nat.
Proof. reflexivity. Qed.

Lemma bytes32 u : 0 <= u < 4294967296 ->
  u mod 256 + 256 * ((u / 256) mod 256) + 65536 * ((u / 65536) mod 256) + 16777216 * ((u / 16777216) mod 256) = u.
Proof.
  intros Hu.
  replace 65536 with (256 * 256) by reflexivity. replace 16777216 with (256 * 256 * 256) by reflexivity.
  rewrite <- !Z.div_div by lia.
  set (a := u / 256). set (b := a / 256). set (c := b / 256).
  assert (Ha : u = 256 * a + u mod 256) by (apply Z.div_mod; lia).
  assert (Hb : a = 256 * b + a mod 256) by (apply Z.div_mod; lia).
  assert (Hc : b = 256 * c + b mod 256) by (apply Z.div_mod; lia).
  assert (Hu' : 0 <= u mod 256 < 256) by (apply Z.mod_pos_bound; lia).
  assert (Ha' : 0 <= a mod 256 < 256) by (apply Z.mod_pos_bound; lia).
  assert (Hb' : 0 <= b mod 256 < 256) by (apply Z.mod_pos_bound; lia).
  assert (Hcm : c mod 256 = c) by (apply Z.mod_small; lia).
  rewrite Hcm. lia.
Qed.

Lemma dec32_enc32 : forall z, -2147483648 <= z < 2147483648 ->
  exists b0 b1 b2 b3, enc32 z = [b0; b1; b2; b3] /\ dec32 b0 b1 b2 b3 = z.
Proof.
  intros z Hz. unfold enc32. do 4 eexists. split; [reflexivity|].
  unfold dec32. set (u := z mod 4294967296).
  assert (Hu : 0 <= u < 4294967296) by (apply Z.mod_pos_bound; lia).
  rewrite (bytes32 u Hu).
  destruct (Z_lt_ge_dec z 0) as [Hneg|Hpos].
  - assert (E : u = z + 4294967296).
    { unfold u. symmetry. apply Z.mod_unique with (q := -1); lia. }
    destruct (u <? 2147483648) eqn:Ec; lia.
  - assert (E : u = z) by (unfold u; apply Z.mod_small; lia).
    destruct (u <? 2147483648) eqn:Ec; lia.
Qed.

Lemma rd32_enc32 z r : -2147483648 <= z < 2147483648 -> rd32 (enc32 z ++ r) = Got z r.
Proof.
  intros Hz. destruct (dec32_enc32 z Hz) as (b0 & b1 & b2 & b3 & E & D).
  rewrite E. cbn [app rd32]. rewrite D. reflexivity.
Qed.
Lemma rd32_short p : (length p < 4)%nat -> rd32 p = Short.
Proof. destruct p as [|? [|? [|? [|? ?]]]]; cbn [length rd32]; intros; auto; lia. Qed.
Lemma rd32_len b x r : rd32 b = Got x r -> length b = (4 + length r)%nat.
Proof.
  destruct b as [|? [|? [|? [|? ?]]]]; cbn [rd32]; intros H; try discriminate.
  inversion H; subst. reflexivity.
Qed.

Lemma dec64_enc64 : forall v, -9223372036854775808 <= v < 9223372036854775808 -> dec64 (enc64 v) = v.
Proof.
  intros v Hv. unfold enc64. set (u := v mod 18446744073709551616).
  assert (Hu : 0 <= u < 18446744073709551616) by (apply Z.mod_pos_bound; lia).
  set (lo := u mod 4294967296). set (hi := u / 4294967296).
  assert (Hlo : 0 <= lo < 4294967296) by (apply Z.mod_pos_bound; lia).
  assert (Hdm : u = 4294967296 * hi + lo) by (apply Z.div_mod; lia).
  assert (Hhi : 0 <= hi < 4294967296) by lia.
  unfold enc32 at 1 2. cbn [app dec64].
  rewrite (Z.mod_small lo) by lia. rewrite (Z.mod_small hi) by lia.
  unfold dec32. rewrite (bytes32 lo Hlo), (bytes32 hi Hhi).
  assert (Elo : (if lo <? 2147483648 then lo else lo - 4294967296) mod 4294967296 = lo).
  { destruct (lo <? 2147483648) eqn:E.
    - apply Z.mod_small; lia.
    - symmetry. apply Z.mod_unique with (q := -1); lia. }
  rewrite Elo.
  destruct (Z_lt_ge_dec v 0) as [Hneg|Hpos].
  - assert (E : u = v + 18446744073709551616).
    { unfold u. symmetry. apply Z.mod_unique with (q := -1); lia. }
    destruct (hi <? 2147483648) eqn:Ec; lia.
  - assert (E : u = v) by (unfold u; apply Z.mod_small; lia).
    destruct (hi <? 2147483648) eqn:Ec; lia.
Qed.
Lemma enc64_length v : length (enc64 v) = 8%nat.
Proof. reflexivity. Qed.

(* ------------------------------------------------------------------------------------------ list helpers *)
Lemma firstn_len_app {A} (a r : list A) : firstn (length a) (a ++ r) = a.
Proof. induction a as [|x a IH]; cbn [length firstn app]; [destruct r; reflexivity | rewrite IH; reflexivity]. Qed.
Lemma skipn_len_app {A} (a r : list A) : skipn (length a) (a ++ r) = r.
Proof. induction a as [|x a IH]; cbn [length skipn app]; auto. Qed.
(* a ++ b = p ++ q: either p ends strictly inside a, or p covers a *)
Lemma app_split {A} (a b p q : list A) : a ++ b = p ++ q ->
  (exists a2, a2 <> [] /\ a = p ++ a2 /\ q = a2 ++ b) \/ (exists p2, p = a ++ p2 /\ b = p2 ++ q).
Proof.
  intros H. apply app_eq_app in H. destruct H as [l [[H1 H2]|[H1 H2]]].
  - destruct l as [|y l].
    + right. exists []. rewrite app_nil_r in H1. cbn [app] in H2. subst. rewrite app_nil_r. auto.
    + left. exists (y :: l). repeat split; auto. discriminate.
  - right. exists l. auto.
Qed.

(* ------------------------------------------------------------------------------------------ predicates on tries *)
Definition in32 (x : Z) : Prop := -2147483648 <= x < 2147483648.
(* every label is an int, every sibling list has fewer than 2^31 members *)
Fixpoint fits_t (t : trie) : Prop :=
  match t with
  | Node l => Z.of_nat (length l) < 2147483648 /\
              (fix go (l : sibs) : Prop :=
                 match l with
                 | [] => True
                 | (x, w, c) :: r => in32 x /\ fits_t c /\ go r
                 end) l
  end.
Definition fits_mem : sibs -> Prop :=
  fix go (l : sibs) : Prop :=
    match l with
    | [] => True
    | (x, w, c) :: r => in32 x /\ fits_t c /\ go r
    end.
Definition fits (l : sibs) : Prop := fits_t (Node l).
Lemma fits_t_node l : fits_t (Node l) = (Z.of_nat (length l) < 2147483648 /\ fits_mem l).
Proof. reflexivity. Qed.
Lemma fits_mem_cons x w c r : fits_mem ((x, w, c) :: r) = (in32 x /\ fits_t c /\ fits_mem r).
Proof. reflexivity. Qed.

(* number of nodes, as a nat *)
Lemma size_t_node_nil : size_t (Node []) = 0.
Proof. reflexivity. Qed.

Section Enc.
  Variable fw : nat.
  Variable encf : V -> list byte.
  Variable decf : list byte -> V.

  (* the values of the trie survive encf / decf *)
  Fixpoint vals_t (t : trie) : Prop :=
    match t with
    | Node l => (fix go (l : sibs) : Prop :=
                   match l with
                   | [] => True
                   | (x, w, c) :: r => decf (encf w) = w /\ vals_t c /\ go r
                   end) l
    end.
  Lemma vals_cons x w c r : vals_t (Node ((x, w, c) :: r)) = (decf (encf w) = w /\ vals_t c /\ vals_t (Node r)).
  Proof. reflexivity. Qed.

  Lemma vals_of_abs : forall l, (forall s v, In (s, v) (abs l) -> decf (encf v) = v) -> vals_t (Node l).
  Proof.
    apply (sibs_trie_ind (fun c => (forall s v, In (s, v) (abs_t c) -> decf (encf v) = v) -> vals_t c)
                         (fun l => (forall s v, In (s, v) (abs l) -> decf (encf v) = v) -> vals_t (Node l))).
    - intros l H. exact H.
    - intros _. exact I.
    - intros x w c r IHc IHr H. rewrite vals_cons. rewrite abs_cons in H. repeat split.
      + apply (H [x]). apply in_or_app. left. left. reflexivity.
      + apply IHc. intros s v Hin. apply (H (x :: s)). apply in_or_app. left. right.
        apply in_map_iff. exists (s, v). auto.
      + apply IHr. intros s v Hin. apply (H s). apply in_or_app. right. exact Hin.
  Qed.

  Definition memb (l : sibs) : list byte := flat_map (fun e => let '(x, w, c) := e in enc32 x ++ encf w) l.
  Definition kidb (l : sibs) : list byte := flat_map (fun e => let '(x, w, c) := e in ser_t encf c) l.
  Definition body (l : sibs) : list byte := memb l ++ kidb l.
  Lemma ser_node l : ser_t encf (Node l) = enc32 (Z.of_nat (length l)) ++ body l.
  Proof. reflexivity. Qed.
  Lemma memb_cons x w c r : memb ((x, w, c) :: r) = (enc32 x ++ encf w) ++ memb r.
  Proof. reflexivity. Qed.
  Lemma kidb_cons x w c r : kidb ((x, w, c) :: r) = ser_t encf c ++ kidb r.
  Proof. reflexivity. Qed.

  (* the nested loop of des_sibs as a function of its own *)
  Definition children (f : nat) : sibs -> list byte -> rd sibs :=
    fix children (l : sibs) (b : list byte) : rd sibs :=
    match l with
    | [] => Got [] b
    | (x, w, _) :: r =>
        match rd32 b with
        | Got cs b2 =>
            if 0 <? cs then
              match des_sibs fw decf f cs b2 with
              | Got c b3 =>
                  match children r b3 with
                  | Got r' b4 => Got ((x, w, Node c) :: r') b4
                  | Short => Short
                  | NoFuel => NoFuel
                  end
              | Short => Short
              | NoFuel => NoFuel
              end
            else
              match children r b2 with
              | Got r' b4 => Got ((x, w, leaf) :: r') b4
              | Short => Short
              | NoFuel => NoFuel
              end
        | Short => Short
        | NoFuel => NoFuel
        end
    end.
  Lemma des_sibs_S f n b :
    des_sibs fw decf (S f) n b =
    match read_members fw decf f n b [] with
    | Got l b1 => children f l b1
    | Short => Short
    | NoFuel => NoFuel
    end.
  Proof. reflexivity. Qed.
  Lemma des_sibs_0 n b : des_sibs fw decf 0 n b = NoFuel.
  Proof. reflexivity. Qed.
  Lemma read_members_eq f n b acc :
    read_members fw decf f n b acc =
    if n <=? 0 then Got acc b else
      match rd32 b with
      | Got x b1 =>
          match rdf fw decf b1 with
          | Got w b2 =>
              match f with
              | O => NoFuel
              | S f' => read_members fw decf f' (n - 1) b2
                          (match get x acc with None => put x w leaf acc | Some _ => acc end)
              end
          | Short => Short
          | NoFuel => NoFuel
          end
      | Short => Short
      | NoFuel => NoFuel
      end.
  Proof. destruct f; reflexivity. Qed.
  Lemma children_cons f x w c r b :
    children f ((x, w, c) :: r) b =
    match rd32 b with
    | Got cs b2 =>
        if 0 <? cs then
          match des_sibs fw decf f cs b2 with
          | Got c b3 =>
              match children f r b3 with
              | Got r' b4 => Got ((x, w, Node c) :: r') b4
              | Short => Short
              | NoFuel => NoFuel
              end
          | Short => Short
          | NoFuel => NoFuel
          end
        else
          match children f r b2 with
          | Got r' b4 => Got ((x, w, leaf) :: r') b4
          | Short => Short
          | NoFuel => NoFuel
          end
    | Short => Short
    | NoFuel => NoFuel
    end.
  Proof. reflexivity. Qed.

  (* ---------------------------------------------------------------------------------------- P1: the size *)
  Hypothesis Hlen : forall v, length (encf v) = fw.

  Lemma ser_length_t : forall t, Z.of_nat (length (ser_t encf t)) = 4 + (Z.of_nat fw + 8) * size_t t.
  Proof.
    apply (trie_sibs_ind (fun t => Z.of_nat (length (ser_t encf t)) = 4 + (Z.of_nat fw + 8) * size_t t)
                         (fun l => Z.of_nat (length (body l)) = (Z.of_nat fw + 8) * size_t (Node l))).
    - intros l H. rewrite ser_node, app_length, enc32_length. lia.
    - cbn. lia.
    - intros x w c r Hc Hr. unfold body in *. rewrite memb_cons, kidb_cons, size_node_cons.
      rewrite !app_length, enc32_length, Hlen in *. lia.
  Qed.
  Lemma ser_length : forall st, Z.of_nat (length (serialize encf st)) = ser_size fw st.
  Proof. intros st. unfold serialize, ser_size. apply ser_length_t. Qed.

  Lemma rdf_enc w r : rdf fw decf (encf w ++ r) = Got (decf (encf w)) r.
  Proof.
    unfold rdf. rewrite app_length, Hlen.
    destruct (fw + length r <? fw)%nat eqn:E; [lia|].
    rewrite <- (Hlen w) at 1 2. rewrite firstn_len_app, skipn_len_app. reflexivity.
  Qed.
  Lemma rdf_short p : (length p < fw)%nat -> rdf fw decf p = Short.
  Proof. intros H. unfold rdf. destruct (length p <? fw)%nat eqn:E; [reflexivity|lia]. Qed.
  Lemma rdf_len b w r : rdf fw decf b = Got w r -> (length r <= length b)%nat.
  Proof.
    unfold rdf. destruct (length b <? fw)%nat; [discriminate|]. intros H. inversion H; subst.
    rewrite skipn_length. lia.
  Qed.

  (* ---------------------------------------------------------------------------------------- P2: the key lemma *)
  Definition strip (l : sibs) : sibs := map (fun e => let '(x, w, c) := e in (x, w, leaf)) l.
  Lemma strip_cons x w c r : strip ((x, w, c) :: r) = (x, w, leaf) :: strip r.
  Proof. reflexivity. Qed.
  Lemma children_nil f b : children f [] b = Got [] b.
  Proof. reflexivity. Qed.

  (* a label above all present ones: emplace_hint(end) appends *)
  Lemma put_append x w : forall acc, (forall a, In a acc -> label a < x) ->
    get x acc = None /\ put x w leaf acc = acc ++ [(x, w, leaf)].
  Proof.
    induction acc as [|[[y wy] cy] acc IH]; intros H.
    - split; reflexivity.
    - assert (Hy : y < x) by (apply (H (y, wy, cy)); left; reflexivity).
      destruct IH as [IH1 IH2]. { intros a Ha. apply H. right. exact Ha. }
      cbn [get put app]. destruct (x ?= y) eqn:E.
      + apply Z.compare_eq in E. lia.
      + rewrite Z.compare_lt_iff in E. lia.
      + rewrite IH1, IH2. auto.
  Qed.

  Lemma read_members_ok : forall l acc rest f,
    wf l -> fits_mem l -> vals_t (Node l) ->
    (forall a, In a acc -> lb_sibs (label a) l) ->
    (length (memb l ++ rest) <= f)%nat ->
    read_members fw decf f (Z.of_nat (length l)) (memb l ++ rest) acc = Got (acc ++ strip l) rest.
  Proof.
    induction l as [|[[x w] c] r IH]; intros acc rest f Hwf Hfit Hval Hacc Hf.
    - rewrite read_members_eq. cbn. rewrite app_nil_r. reflexivity.
    - rewrite read_members_eq.
      destruct (Z.of_nat (length ((x, w, c) :: r)) <=? 0) eqn:E; [cbn [length] in E; lia|]. clear E.
      apply wf_cons in Hwf. destruct Hwf as (Hlb & Hwc & Hwr).
      rewrite fits_mem_cons in Hfit. destruct Hfit as (Hx & Hfc & Hfr).
      rewrite vals_cons in Hval. destruct Hval as (Hw & Hvc & Hvr).
      rewrite memb_cons in Hf. rewrite !app_length, enc32_length, Hlen in Hf.
      rewrite memb_cons, <- !app_assoc.
      rewrite rd32_enc32 by exact Hx. rewrite rdf_enc. rewrite Hw.
      destruct f as [|f]; [lia|].
      destruct (put_append x w acc) as [Hg Hp].
      { intros a Ha. specialize (Hacc a Ha). cbn [lb_sibs label fst] in Hacc. tauto. }
      rewrite Hg, Hp.
      replace (Z.of_nat (length ((x, w, c) :: r)) - 1) with (Z.of_nat (length r)) by (cbn [length]; lia).
      rewrite IH; auto.
      + rewrite strip_cons. rewrite <- app_assoc. reflexivity.
      + intros a Ha. apply in_app_or in Ha. destruct Ha as [Ha|[<-|[]]].
        * specialize (Hacc a Ha). cbn [lb_sibs] in Hacc. tauto.
        * exact Hlb.
      + rewrite app_length. lia.
  Qed.

  Lemma des_sibs_ok_t : forall t, wf_t t -> fits_t t -> vals_t t -> forall rest f,
    (length (body (kids t) ++ rest) <= f)%nat ->
    des_sibs fw decf (S f) (Z.of_nat (length (kids t))) (body (kids t) ++ rest) = Got (kids t) rest.
  Proof.
    apply (trie_sibs_ind
      (fun t => wf_t t -> fits_t t -> vals_t t -> forall rest f,
         (length (body (kids t) ++ rest) <= f)%nat ->
         des_sibs fw decf (S f) (Z.of_nat (length (kids t))) (body (kids t) ++ rest) = Got (kids t) rest)
      (fun l => wf l -> fits_mem l -> vals_t (Node l) -> forall rest f,
         (length (kidb l ++ rest) <= f)%nat ->
         children f (strip l) (kidb l ++ rest) = Got l rest)).
    - intros l IH Hwf Hfit Hval rest f Hf. cbn [kids] in *.
      rewrite fits_t_node in Hfit. destruct Hfit as [Hn Hfm].
      rewrite des_sibs_S. unfold body in *. rewrite <- app_assoc in *.
      rewrite read_members_ok; auto.
      + cbn [app]. apply IH; auto. rewrite app_length in Hf. lia.
      + intros a [].
    - intros _ _ _ rest f _. reflexivity.
    - intros x w c r IHc IHr Hwf Hfit Hval rest f Hf.
      apply wf_cons in Hwf. destruct Hwf as (Hlb & Hwc & Hwr).
      rewrite fits_mem_cons in Hfit. destruct Hfit as (Hx & Hfc & Hfr).
      rewrite vals_cons in Hval. destruct Hval as (Hw & Hvc & Hvr).
      rewrite strip_cons, children_cons. rewrite kidb_cons in Hf |- *.
      destruct c as [lc]. cbn [kids] in IHc. rewrite ser_node in Hf |- *. rewrite <- !app_assoc in Hf |- *.
      pose proof Hfc as Hfc'. rewrite fits_t_node in Hfc'. destruct Hfc' as [Hn _].
      rewrite rd32_enc32 by (unfold in32; lia).
      rewrite !app_length, enc32_length in Hf.
      destruct f as [|f]; [lia|].
      destruct (0 <? Z.of_nat (length lc)) eqn:E.
      + rewrite (IHc Hwc Hfc Hvc (kidb r ++ rest) f) by (rewrite !app_length; lia).
        rewrite (IHr Hwr Hfr Hvr rest (S f)) by (rewrite app_length; lia). reflexivity.
      + destruct lc as [|e lc]; [|cbn [length] in E; lia].
        unfold body. cbn [memb kidb flat_map app].
        rewrite (IHr Hwr Hfr Hvr rest (S f)) by (rewrite app_length; lia). reflexivity.
  Qed.

  Lemma des_sibs_ok : forall l, wf l -> fits l -> vals_t (Node l) -> forall rest f,
    (length (body l ++ rest) <= f)%nat ->
    des_sibs fw decf (S f) (Z.of_nat (length l)) (body l ++ rest) = Got l rest.
  Proof. intros l Hwf Hfit Hval. exact (des_sibs_ok_t (Node l) Hwf Hfit Hval). Qed.

  (* what deserialize does with a serialisation followed by anything *)
  Lemma des_ser_app : forall chk st0 l x, tree st0 = [] -> wf l -> fits l -> vals_t (Node l) ->
    deserialize fw decf chk st0 (ser_t encf (Node l) ++ x) =
    if is_nil x then Loaded (mk l (Z.max (dim_ub st0) (height_t (Node l))) (dirty st0)) else Refused.
  Proof.
    intros chk st0 l x Ht0 Hwf Hfit Hval. unfold deserialize. rewrite Ht0. cbn [is_nil negb].
    pose proof Hfit as Hfit'. unfold fits in Hfit'. rewrite fits_t_node in Hfit'. destruct Hfit' as [Hn _].
    rewrite ser_node, <- app_assoc. rewrite rd32_enc32 by lia.
    rewrite des_sibs_ok; auto. rewrite (app_length (enc32 _)). lia.
  Qed.

  Theorem des_ser : forall chk st0 st, tree st0 = [] -> wf (tree st) -> fits (tree st) ->
    (forall s v, In (s, v) (abs (tree st)) -> decf (encf v) = v) ->
    deserialize fw decf chk st0 (serialize encf st) =
    Loaded (mk (tree st) (Z.max (dim_ub st0) (exact_dim st)) (dirty st0)).
  Proof.
    intros chk st0 st Ht0 Hwf Hfit Hdec. unfold serialize.
    rewrite <- (app_nil_r (ser_t encf (Node (tree st)))).
    rewrite des_ser_app; auto using vals_of_abs.
  Qed.
  Corollary des_ser_empty : forall chk st, wf (tree st) -> fits (tree st) ->
    (forall s v, In (s, v) (abs (tree st)) -> decf (encf v) = v) ->
    deserialize fw decf chk empty_state (serialize encf st) = Loaded (mk (tree st) (exact_dim st) false).
  Proof.
    intros chk st Hwf Hfit Hdec. rewrite des_ser; auto.
    cbn [dim_ub dirty empty_state]. unfold exact_dim. pose proof (height_lb (Node (tree st))).
    rewrite Z.max_r by lia. reflexivity.
  Qed.

  (* P3 *)
  Theorem des_extension : forall chk st0 st, tree st0 = [] -> wf (tree st) -> fits (tree st) ->
    (forall s v, In (s, v) (abs (tree st)) -> decf (encf v) = v) ->
    forall x, x <> [] -> deserialize fw decf chk st0 (serialize encf st ++ x) = Refused.
  Proof.
    intros chk st0 st Ht0 Hwf Hfit Hdec x Hx. unfold serialize.
    rewrite des_ser_app; auto using vals_of_abs. destruct x; [congruence|reflexivity].
  Qed.

  (* ---------------------------------------------------------------------------------------- P5: fuel *)
  Lemma rd32_nofuel b : rd32 b <> NoFuel.
  Proof. destruct b as [|? [|? [|? [|? ?]]]]; cbn [rd32]; discriminate. Qed.
  Lemma rdf_nofuel b : rdf fw decf b <> NoFuel.
  Proof. unfold rdf. destruct (length b <? fw)%nat; discriminate. Qed.

  Lemma read_members_len : forall f n b acc l r,
    read_members fw decf f n b acc = Got l r -> (length r <= length b)%nat.
  Proof.
    induction f as [|f IH]; intros n b acc l r; rewrite read_members_eq;
      (destruct (n <=? 0); [intros H; inversion H; subst; lia|]);
      destruct (rd32 b) as [x b1| |] eqn:E1; try discriminate;
      destruct (rdf fw decf b1) as [w b2| |] eqn:E2; try discriminate.
    intros H. apply IH in H. apply rd32_len in E1. apply rdf_len in E2. lia.
  Qed.
  Lemma read_members_fuel : forall f n b acc, (length b <= f)%nat -> read_members fw decf f n b acc <> NoFuel.
  Proof.
    induction f as [|f IH]; intros n b acc Hf; rewrite read_members_eq;
      (destruct (n <=? 0); [discriminate|]);
      (destruct (rd32 b) as [x b1| |] eqn:E1; [|discriminate|exfalso; exact (rd32_nofuel _ E1)]);
      (destruct (rdf fw decf b1) as [w b2| |] eqn:E2; [|discriminate|exfalso; exact (rdf_nofuel _ E2)]);
      apply rd32_len in E1; apply rdf_len in E2.
    - lia.
    - apply IH. lia.
  Qed.

  Lemma children_len f
    (IHd : forall n b l r, des_sibs fw decf f n b = Got l r -> (length r <= length b)%nat) :
    forall l b l' r, children f l b = Got l' r -> (length r <= length b)%nat.
  Proof.
    induction l as [|[[x w] c] l IH]; intros b l' r.
    - rewrite children_nil. intros H; inversion H; subst; lia.
    - rewrite children_cons. destruct (rd32 b) as [cs b2| |] eqn:E1; try discriminate.
      apply rd32_len in E1. destruct (0 <? cs).
      + destruct (des_sibs fw decf f cs b2) as [c' b3| |] eqn:E2; try discriminate.
        destruct (children f l b3) as [r' b4| |] eqn:E3; try discriminate.
        intros H; inversion H; subst. apply IHd in E2. apply IH in E3. lia.
      + destruct (children f l b2) as [r' b4| |] eqn:E3; try discriminate.
        intros H; inversion H; subst. apply IH in E3. lia.
  Qed.
  Lemma des_sibs_len : forall f n b l r, des_sibs fw decf f n b = Got l r -> (length r <= length b)%nat.
  Proof.
    induction f as [|f IH]; intros n b l r.
    - rewrite des_sibs_0. discriminate.
    - rewrite des_sibs_S. destruct (read_members fw decf f n b []) as [l0 b1| |] eqn:E; try discriminate.
      intros H. apply read_members_len in E. apply (children_len f IH) in H. lia.
  Qed.

  Lemma children_fuel f
    (IHd : forall n b, (length b < f)%nat -> des_sibs fw decf f n b <> NoFuel) :
    forall l b, (length b <= f)%nat -> children f l b <> NoFuel.
  Proof.
    induction l as [|[[x w] c] l IH]; intros b Hf.
    - rewrite children_nil. discriminate.
    - rewrite children_cons.
      destruct (rd32 b) as [cs b2| |] eqn:E1; [|discriminate|exfalso; exact (rd32_nofuel _ E1)].
      apply rd32_len in E1. destruct (0 <? cs).
      + destruct (des_sibs fw decf f cs b2) as [c' b3| |] eqn:E2;
          [|discriminate|exfalso; apply (IHd cs b2); [lia|exact E2]].
        pose proof (des_sibs_len _ _ _ _ _ E2) as Hl.
        destruct (children f l b3) as [r' b4| |] eqn:E3;
          [discriminate|discriminate|exfalso; apply (IH b3); [lia|exact E3]].
      + destruct (children f l b2) as [r' b4| |] eqn:E3;
          [discriminate|discriminate|exfalso; apply (IH b2); [lia|exact E3]].
  Qed.
  Lemma des_sibs_fuel : forall f n b, (length b < f)%nat -> des_sibs fw decf f n b <> NoFuel.
  Proof.
    induction f as [|f IH]; intros n b Hf; [lia|].
    rewrite des_sibs_S. destruct (read_members fw decf f n b []) as [l0 b1| |] eqn:E; [|discriminate|].
    - apply read_members_len in E. apply (children_fuel f IH). lia.
    - exfalso. apply (read_members_fuel f n b []); [lia|exact E].
  Qed.

  Theorem no_fuel : forall chk st0 b, deserialize fw decf chk st0 b <> OutOfFuel.
  Proof.
    intros chk st0 b. unfold deserialize.
    destruct (negb (is_nil (tree st0))); [discriminate|].
    destruct (rd32 b) as [n b1| |] eqn:E1; [|destruct chk; discriminate|exfalso; exact (rd32_nofuel _ E1)].
    apply rd32_len in E1.
    destruct (des_sibs fw decf (S (length b)) n b1) as [l rest| |] eqn:E2.
    - destruct (is_nil rest); discriminate.
    - destruct chk; discriminate.
    - exfalso. apply (des_sibs_fuel (S (length b)) n b1); [lia|exact E2].
  Qed.

  (* ---------------------------------------------------------------------------------------- P4: truncation *)
  Lemma app_shorter {A} (a p a2 : list A) : a2 <> [] -> a = p ++ a2 -> (length p < length a)%nat.
  Proof. intros H ->. rewrite app_length. destruct a2; [congruence|cbn [length]; lia]. Qed.

  Lemma read_members_short : forall l acc p q f,
    wf l -> fits_mem l -> vals_t (Node l) ->
    (forall a, In a acc -> lb_sibs (label a) l) ->
    q <> [] -> memb l = p ++ q -> (length p <= f)%nat ->
    read_members fw decf f (Z.of_nat (length l)) p acc = Short.
  Proof.
    induction l as [|[[x w] c] r IH]; intros acc p q f Hwf Hfit Hval Hacc Hq Hpq Hf.
    - cbn in Hpq. destruct p; destruct q; try discriminate. congruence.
    - rewrite read_members_eq.
      destruct (Z.of_nat (length ((x, w, c) :: r)) <=? 0) eqn:E; [cbn [length] in E; lia|]. clear E.
      apply wf_cons in Hwf. destruct Hwf as (Hlb & Hwc & Hwr).
      rewrite fits_mem_cons in Hfit. destruct Hfit as (Hx & Hfc & Hfr).
      rewrite vals_cons in Hval. destruct Hval as (Hw & Hvc & Hvr).
      rewrite memb_cons, <- app_assoc in Hpq.
      apply app_split in Hpq. destruct Hpq as [(a2 & Ha2 & Hp & _)|(p2 & Hp & Hpq)].
      + rewrite rd32_short; [reflexivity|].
        apply (app_shorter _ _ _ Ha2) in Hp. rewrite enc32_length in Hp. exact Hp.
      + subst p. rewrite rd32_enc32 by exact Hx.
        apply app_split in Hpq. destruct Hpq as [(a2 & Ha2 & Hp & _)|(p3 & Hp & Hpq)].
        * rewrite rdf_short; [reflexivity|].
          apply (app_shorter _ _ _ Ha2) in Hp. rewrite Hlen in Hp. exact Hp.
        * subst p2. rewrite rdf_enc, Hw.
          rewrite !app_length, enc32_length, Hlen in Hf.
          destruct f as [|f]; [lia|].
          destruct (put_append x w acc) as [Hg Hp].
          { intros a Ha. specialize (Hacc a Ha). cbn [lb_sibs label fst] in Hacc. tauto. }
          rewrite Hg, Hp.
          replace (Z.of_nat (length ((x, w, c) :: r)) - 1) with (Z.of_nat (length r)) by (cbn [length]; lia).
          apply (IH _ p3 q); auto; [|lia].
          intros a Ha. apply in_app_or in Ha. destruct Ha as [Ha|[<-|[]]].
          -- specialize (Hacc a Ha). cbn [lb_sibs] in Hacc. tauto.
          -- exact Hlb.
  Qed.

  Lemma des_sibs_short_t : forall t, wf_t t -> fits_t t -> vals_t t -> forall p q f,
    q <> [] -> body (kids t) = p ++ q -> (length p <= f)%nat ->
    des_sibs fw decf (S f) (Z.of_nat (length (kids t))) p = Short.
  Proof.
    apply (trie_sibs_ind
      (fun t => wf_t t -> fits_t t -> vals_t t -> forall p q f,
         q <> [] -> body (kids t) = p ++ q -> (length p <= f)%nat ->
         des_sibs fw decf (S f) (Z.of_nat (length (kids t))) p = Short)
      (fun l => wf l -> fits_mem l -> vals_t (Node l) -> forall p q f,
         q <> [] -> kidb l = p ++ q -> (length p <= f)%nat ->
         children f (strip l) p = Short)).
    - intros l IH Hwf Hfit Hval p q f Hq Hpq Hf. cbn [kids] in *.
      rewrite fits_t_node in Hfit. destruct Hfit as [Hn Hfm].
      unfold body in Hpq. rewrite des_sibs_S.
      apply app_split in Hpq. destruct Hpq as [(a2 & Ha2 & Hp & _)|(p2 & Hp & Hpq)].
      + rewrite (read_members_short l [] p a2); auto. intros a [].
      + subst p. rewrite read_members_ok; auto; [|intros a []]. cbn [app].
        apply (IH Hwf Hfm Hval p2 q); auto. rewrite app_length in Hf. lia.
    - intros _ _ _ p q f Hq Hpq _. cbn in Hpq. destruct p; destruct q; try discriminate. congruence.
    - intros x w c r IHc IHr Hwf Hfit Hval p q f Hq Hpq Hf.
      apply wf_cons in Hwf. destruct Hwf as (Hlb & Hwc & Hwr).
      rewrite fits_mem_cons in Hfit. destruct Hfit as (Hx & Hfc & Hfr).
      rewrite vals_cons in Hval. destruct Hval as (Hw & Hvc & Hvr).
      rewrite strip_cons, children_cons. rewrite kidb_cons in Hpq.
      destruct c as [lc]. cbn [kids] in IHc.
      pose proof Hfc as Hfc'. rewrite fits_t_node in Hfc'. destruct Hfc' as [Hn _].
      apply app_split in Hpq. destruct Hpq as [(a2 & Ha2 & Hp & _)|(p2 & Hp & Hpq)].
      + (* p ends inside the serialisation of c *)
        rewrite ser_node in Hp.
        apply app_split in Hp. destruct Hp as [(a3 & Ha3 & Hp & _)|(p3 & Hp & Hpq)].
        * rewrite rd32_short; [reflexivity|].
          apply (app_shorter _ _ _ Ha3) in Hp. rewrite enc32_length in Hp. exact Hp.
        * subst p. rewrite rd32_enc32 by (unfold in32; lia).
          rewrite app_length, enc32_length in Hf.
          destruct (0 <? Z.of_nat (length lc)) eqn:E.
          -- destruct f as [|f]; [lia|].
             rewrite (IHc Hwc Hfc Hvc p3 a2); auto. lia.
          -- destruct lc as [|e lc]; [|cbn [length] in E; lia].
             cbn in Hpq. destruct p3; destruct a2; try discriminate. congruence.
      + subst p. rewrite ser_node in Hf. rewrite ser_node, <- app_assoc. rewrite rd32_enc32 by (unfold in32; lia).
        rewrite !app_length, enc32_length in Hf.
        destruct f as [|f]; [lia|].
        destruct (0 <? Z.of_nat (length lc)) eqn:E.
        * pose proof (des_sibs_ok_t (Node lc) Hwc Hfc Hvc p2 f) as Hk. cbn [kids] in Hk.
          rewrite Hk by (rewrite app_length; lia). rewrite (IHr Hwr Hfr Hvr p2 q (S f)); auto. lia.
        * destruct lc as [|e lc]; [|cbn [length] in E; lia].
          unfold body. cbn [memb kidb flat_map app].
          rewrite (IHr Hwr Hfr Hvr p2 q (S f)); auto. lia.
  Qed.

  Lemma des_truncated : forall chk st0 l p q, tree st0 = [] -> wf l -> fits l -> vals_t (Node l) ->
    q <> [] -> ser_t encf (Node l) = p ++ q ->
    deserialize fw decf chk st0 p = if chk then Refused else OverRead.
  Proof.
    intros chk st0 l p q Ht0 Hwf Hfit Hval Hq Hpq. unfold deserialize. rewrite Ht0. cbn [is_nil negb].
    pose proof Hfit as Hfit'. unfold fits in Hfit'. rewrite fits_t_node in Hfit'. destruct Hfit' as [Hn _].
    rewrite ser_node in Hpq.
    apply app_split in Hpq. destruct Hpq as [(a2 & Ha2 & Hp & _)|(p2 & Hp & Hpq)].
    - rewrite rd32_short; [reflexivity|].
      apply (app_shorter _ _ _ Ha2) in Hp. rewrite enc32_length in Hp. exact Hp.
    - subst p. rewrite rd32_enc32 by lia.
      rewrite (des_sibs_short_t (Node l) Hwf Hfit Hval p2 q); auto. rewrite app_length. lia.
  Qed.

  Theorem des_prefix : forall st0 st, tree st0 = [] -> wf (tree st) -> fits (tree st) ->
    (forall s v, In (s, v) (abs (tree st)) -> decf (encf v) = v) ->
    forall p q, q <> [] -> serialize encf st = p ++ q -> deserialize fw decf true st0 p = Refused.
  Proof.
    intros st0 st Ht0 Hwf Hfit Hdec p q Hq Hpq.
    apply (des_truncated true st0 (tree st) p q); auto using vals_of_abs.
  Qed.
  Theorem unrepaired_overreads_every_truncation : forall st0 st, tree st0 = [] -> wf (tree st) -> fits (tree st) ->
    (forall s v, In (s, v) (abs (tree st)) -> decf (encf v) = v) ->
    forall p q, q <> [] -> serialize encf st = p ++ q -> deserialize fw decf false st0 p = OverRead.
  Proof.
    intros st0 st Ht0 Hwf Hfit Hdec p q Hq Hpq.
    apply (des_truncated false st0 (tree st) p q); auto using vals_of_abs.
  Qed.
  (* ---------------------------------------------------------------------------------------- corollaries *)
  (* the key lemma without the auxiliary names: after the count, the rest of a serialisation followed by anything
     parses back to the same siblings and leaves exactly what followed *)
  Lemma des_sibs_parses : forall l, wf l -> fits l ->
    (forall s v, In (s, v) (abs l) -> decf (encf v) = v) ->
    exists bd, ser_t encf (Node l) = enc32 (Z.of_nat (length l)) ++ bd /\
      forall rest f, (length (bd ++ rest) <= f)%nat ->
        des_sibs fw decf (S f) (Z.of_nat (length l)) (bd ++ rest) = Got l rest.
  Proof.
    intros l Hwf Hfit Hdec. exists (body l). split; [apply ser_node|].
    intros rest f Hf. apply des_sibs_ok; auto using vals_of_abs.
  Qed.

  (* two trees with the same serialisation are equal; no serialisation is a strict prefix of another one *)
  Theorem ser_injective : forall st1 st2,
    wf (tree st1) -> fits (tree st1) -> (forall s v, In (s, v) (abs (tree st1)) -> decf (encf v) = v) ->
    wf (tree st2) -> fits (tree st2) -> (forall s v, In (s, v) (abs (tree st2)) -> decf (encf v) = v) ->
    serialize encf st1 = serialize encf st2 -> tree st1 = tree st2.
  Proof.
    intros st1 st2 Hw1 Hf1 Hd1 Hw2 Hf2 Hd2 E.
    pose proof (des_ser_empty true st1 Hw1 Hf1 Hd1) as H1.
    pose proof (des_ser_empty true st2 Hw2 Hf2 Hd2) as H2.
    rewrite E in H1. rewrite H1 in H2. inversion H2. reflexivity.
  Qed.
  Theorem ser_prefix_free : forall st1 st2 q,
    wf (tree st1) -> fits (tree st1) -> (forall s v, In (s, v) (abs (tree st1)) -> decf (encf v) = v) ->
    wf (tree st2) -> fits (tree st2) -> (forall s v, In (s, v) (abs (tree st2)) -> decf (encf v) = v) ->
    serialize encf st2 = serialize encf st1 ++ q -> q = [].
  Proof.
    intros st1 st2 q Hw1 Hf1 Hd1 Hw2 Hf2 Hd2 E.
    destruct q as [|y q]; [reflexivity|]. exfalso.
    pose proof (des_ser_empty true st1 Hw1 Hf1 Hd1) as H1.
    assert (Hq : y :: q <> []) by discriminate.
    pose proof (des_prefix empty_state st2 eq_refl Hw2 Hf2 Hd2 _ _ Hq E) as H2.
    rewrite H1 in H2. discriminate.
  Qed.
End Enc.

(* ------------------------------------------------------------------------------------------ reading [fits] *)
Lemma fits_nil : fits [].
Proof. unfold fits. rewrite fits_t_node. cbn. split; [lia|exact I]. Qed.
Lemma fits_cons : forall x w c r,
  fits ((x, w, c) :: r) <->
  Z.of_nat (S (length r)) < 2147483648 /\ -2147483648 <= x < 2147483648 /\ fits (kids c) /\ fits r.
Proof.
  intros x w [lc] r. unfold fits. cbn [kids]. rewrite !fits_t_node, fits_mem_cons, fits_t_node. unfold in32.
  cbn [length]. split.
  - intros (H1 & H2 & H3 & H4). repeat split; try tauto; lia.
  - intros (H1 & H2 & H3 & H4 & H5). repeat split; try tauto; lia.
Qed.
Lemma des_not_empty : forall fw decf chk st0 b, tree st0 <> [] -> deserialize fw decf chk st0 b = NotEmpty.
Proof. intros fw decf chk st0 b H. unfold deserialize. destruct (tree st0); [congruence|reflexivity]. Qed.

(* ------------------------------------------------------------------------------------------ P8: the text form *)
(* ================================================================================================ text round-trip *)
(* values monotone along prefixes: every simplex's value is >= the value of each of its (non-empty) prefixes *)
Definition tx_mono_prefix (l : sibs) : Prop :=
  forall s v p w, In (s, v) (abs l) -> In (p, w) (abs l) -> prefixb p s = true -> w <= v.
(* every word of the tree is strictly increasing ([wf] alone only sorts each sibling list) *)
Definition tx_keys_sorted (l : sibs) : Prop := forall s v, In (s, v) (abs l) -> ssorted s.

(* ---- norm is the identity on strictly increasing words ---- *)
Lemma tx_sins_below x s : Forall (Z.lt x) s -> sins x s = x :: s.
Proof.
  intro H. destruct s as [|y r]; [reflexivity|]. cbn [sins].
  inversion H as [|y' r' Hxy Hr]; subst.
  assert (x ?= y = Lt) as -> by (apply Z.compare_lt_iff; exact Hxy). reflexivity.
Qed.
Lemma tx_norm_id s : ssorted s -> norm s = s.
Proof.
  unfold ssorted, norm. induction 1 as [|x s Hs IH Hall]; cbn [fold_right]; [reflexivity|].
  rewrite IH. apply tx_sins_below; exact Hall.
Qed.

(* ---- the words of a trie are closed under non-empty prefixes ---- *)
Lemma tx_get_none_find z t l : get z l = None -> find_val (z :: t) l = None.
Proof.
  intro Hg. unfold find_val. destruct t; [rewrite find_one, Hg | rewrite find_cons2, Hg]; reflexivity.
Qed.
Lemma tx_prefix_present : forall t s l, t <> [] -> prefixb t s = true -> find_val s l <> None -> find_val t l <> None.
Proof.
  induction t as [|x [|y t'] IH]; intros s l Ht Hp Hf; [congruence| |].
  - destruct s as [|x' s']; [discriminate|]. cbn [prefixb] in Hp. apply andb_true_iff in Hp as [Hx _].
    apply Z.eqb_eq in Hx; subst x'. apply find_val_head_get in Hf.
    rewrite find_val_one. destruct (get x l); [cbn; congruence | congruence].
  - destruct s as [|x' [|y' s']]; [discriminate| |].
    + cbn [prefixb] in Hp. rewrite andb_false_r in Hp. discriminate.
    + cbn [prefixb] in Hp. apply andb_true_iff in Hp as [Hx Hp].
      apply Z.eqb_eq in Hx; subst x'.
      rewrite find_val_deep in Hf. rewrite find_val_deep. destruct (get x l) as [[w [c]]|]; [|congruence].
      apply (IH (y' :: s') c); [congruence | | exact Hf]. cbn [prefixb]. exact Hp.
Qed.

(* ---- the order [before] ---- *)
Lemma tx_revlex_asym : forall a b, revlex_lt a b = true -> revlex_lt b a = false.
Proof.
  induction a as [|x a IH]; intros [|y b] H; cbn [revlex_lt] in *; try discriminate; try reflexivity.
  revert H. destruct (x =? y) eqn:E1, (y =? x) eqn:E2; intro H; try lia.
  apply IH; exact H.
Qed.
Lemma tx_revlex_ntrans : forall a b c, revlex_lt a b = false -> revlex_lt b c = false -> revlex_lt a c = false.
Proof.
  induction a as [|x a IH]; intros [|y b] [|z c] H1 H2; cbn [revlex_lt] in *; try discriminate; try reflexivity.
  revert H1 H2. destruct (x =? y) eqn:E1, (y =? z) eqn:E2, (x =? z) eqn:E3; intros H1 H2; try lia.
  apply (IH b c); assumption.
Qed.
Lemma tx_before_asym p q : before p q = true -> before q p = false.
Proof.
  unfold before. destruct p as [a v], q as [b w]; cbn [fst snd].
  destruct (v =? w) eqn:E1, (w =? v) eqn:E2; try lia.
  intro H; apply tx_revlex_asym; exact H.
Qed.
Lemma tx_before_ntrans p q r : before p q = false -> before q r = false -> before p r = false.
Proof.
  unfold before. destruct p as [a u], q as [b v], r as [c w]; cbn [fst snd].
  destruct (u =? v) eqn:E1, (v =? w) eqn:E2, (u =? w) eqn:E3; try lia.
  apply tx_revlex_ntrans.
Qed.

Lemma tx_ssorted_app_lt a : forall b y z, ssorted (a ++ b) -> In y a -> In z b -> y < z.
Proof.
  induction a as [|x a IH]; intros b y z Hs Hy Hz; [destruct Hy|].
  cbn [app] in Hs. unfold ssorted in Hs. inversion Hs as [|x' l' Hs' Hall]; subst.
  destruct Hy as [Hy|Hy].
  - subst y. rewrite Forall_forall in Hall. apply Hall. apply in_or_app; right; exact Hz.
  - apply (IH b); assumption.
Qed.
Lemma tx_prefix_split : forall t s, prefixb t s = true -> exists u, s = t ++ u.
Proof.
  induction t as [|x t IH]; intros s H; [exists s; reflexivity|].
  destruct s as [|y s]; [discriminate|]. cbn [prefixb] in H. apply andb_true_iff in H as [H1 H2].
  apply Z.eqb_eq in H1; subst y. destruct (IH s H2) as [u ->]. exists u; reflexivity.
Qed.
(* a proper prefix of a strictly increasing word comes first: the largest vertices already differ *)
Lemma tx_revlex_prefix t s : ssorted s -> t <> [] -> t <> s -> prefixb t s = true -> revlex_lt (rev t) (rev s) = true.
Proof.
  intros Hs Ht Hne Hp. destruct (tx_prefix_split t s Hp) as [u ->].
  assert (Hu : u <> []) by (intro; subst u; rewrite app_nil_r in Hne; congruence).
  rewrite rev_app_distr.
  destruct (rev t) as [|y rt] eqn:Et.
  { exfalso. apply Ht. rewrite <- (rev_involutive t), Et. reflexivity. }
  destruct (rev u) as [|z ru] eqn:Eu.
  { exfalso. apply Hu. rewrite <- (rev_involutive u), Eu. reflexivity. }
  assert (Hy : In y t) by (apply in_rev; rewrite Et; left; reflexivity).
  assert (Hz : In z u) by (apply in_rev; rewrite Eu; left; reflexivity).
  pose proof (tx_ssorted_app_lt t u y z Hs Hy Hz) as Hlt.
  cbn [app revlex_lt].
  assert (y =? z = false) as -> by lia. lia.
Qed.
Lemma tx_before_prefix t w s v :
  ssorted s -> t <> [] -> t <> s -> prefixb t s = true -> w <= v -> before (t, w) (s, v) = true.
Proof.
  intros Hs Ht Hne Hp Hwv. unfold before; cbn [fst snd].
  destruct (w =? v) eqn:E; [apply tx_revlex_prefix; assumption | lia].
Qed.

(* ---- insertion sort: a permutation, sorted for "not (later before earlier)" ---- *)
Definition tx_R (a b : simplex * V) : Prop := before b a = false.
Lemma tx_insert_perm p l : Permutation (p :: l) (insert_sorted p l).
Proof.
  induction l as [|q r IH]; cbn [insert_sorted]; [apply Permutation_refl|].
  destruct (before q p); [|apply Permutation_refl].
  eapply perm_trans; [apply perm_swap | apply perm_skip; exact IH].
Qed.
Lemma tx_forder_perm K : Permutation K (filtration_order K).
Proof.
  unfold filtration_order. induction K as [|p K IH]; cbn [fold_right]; [constructor|].
  eapply perm_trans; [apply perm_skip; exact IH | apply tx_insert_perm].
Qed.
Lemma tx_insert_sorted p l : StronglySorted tx_R l -> StronglySorted tx_R (insert_sorted p l).
Proof.
  induction 1 as [|q r Hs IH Hall]; cbn [insert_sorted].
  - constructor; constructor.
  - destruct (before q p) eqn:E.
    + constructor; [exact IH|]. apply Forall_forall. intros x Hx.
      apply (Permutation_in _ (Permutation_sym (tx_insert_perm p r))) in Hx. destruct Hx as [Hx|Hx].
      * subst x. unfold tx_R. apply tx_before_asym; exact E.
      * rewrite Forall_forall in Hall. apply Hall; exact Hx.
    + constructor; [constructor; assumption|]. constructor; [exact E|].
      rewrite Forall_forall in Hall. apply Forall_forall. intros x Hx. unfold tx_R.
      apply (tx_before_ntrans x q p); [apply Hall; exact Hx | exact E].
Qed.
Lemma tx_forder_sorted K : StronglySorted tx_R (filtration_order K).
Proof.
  unfold filtration_order. induction K as [|p K IH]; cbn [fold_right]; [constructor|].
  apply tx_insert_sorted; exact IH.
Qed.
Lemma tx_sorted_app_tail A x B : StronglySorted tx_R (A ++ x :: B) -> Forall (tx_R x) B.
Proof. induction A as [|a A IH]; cbn [app]; intro H; inversion H; subst; auto. Qed.

(* ---- lookup in lists with distinct keys ---- *)
Lemma tx_lookup_key K t : lookup K t <> None -> In t (keys K).
Proof.
  destruct (lookup K t) as [v|] eqn:E; [|congruence]. intros _.
  apply lookup_in in E. apply (in_map fst) in E. exact E.
Qed.
Lemma tx_in_lookup K : NoDup (keys K) -> forall t v, In (t, v) K -> lookup K t = Some v.
Proof.
  induction K as [|[u w] K IH]; intros Hnd t v Hin; [destruct Hin|].
  cbn [keys map fst] in Hnd. inversion Hnd as [|u' ks Hnin Hnd']; subst. cbn [lookup].
  destruct Hin as [Hin|Hin].
  - inversion Hin; subst. rewrite seqb_refl. reflexivity.
  - destruct (seqb u t) eqn:E.
    + apply seqb_eq in E; subst u. exfalso. apply Hnin. apply (in_map fst) in Hin. exact Hin.
    + apply IH; [exact Hnd' | exact Hin].
Qed.
Lemma tx_lookup_perm K L t : NoDup (keys K) -> Permutation K L -> lookup K t = lookup L t.
Proof.
  intros Hnd Hp.
  assert (Hnd2 : NoDup (keys L)) by (apply (Permutation_NoDup (Permutation_map fst Hp)); exact Hnd).
  destruct (lookup K t) as [v|] eqn:EK.
  - apply lookup_in in EK. symmetry. apply tx_in_lookup; [exact Hnd2|]. apply (Permutation_in _ Hp); exact EK.
  - destruct (lookup L t) as [v|] eqn:EL; [|reflexivity]. apply lookup_in in EL.
    apply (Permutation_in _ (Permutation_sym Hp)) in EL. apply (tx_in_lookup K Hnd) in EL. congruence.
Qed.

(* ---- building a trie from a list in which every word comes after its proper prefixes ---- *)
Definition tx_insf (l : sibs) (p : simplex * V) : sibs := ins_raw (fst p) (snd p) l.
Definition tx_pf (L : cplx) : Prop :=
  forall A s v B t, L = A ++ (s, v) :: B -> t <> [] -> prefixb t s = true -> t <> s -> lookup A t <> None.

Lemma tx_build L : NoDup (keys L) -> (forall s v, In (s, v) L -> s <> []) -> tx_pf L ->
  forall B A T, L = A ++ B -> wf T -> (forall t, t <> [] -> find_val t T = lookup A t) ->
  wf (fold_left tx_insf B T) /\ forall t, t <> [] -> find_val t (fold_left tx_insf B T) = lookup L t.
Proof.
  intros Hnd Hne Hpf. induction B as [|[s v] B IH]; intros A T HL Hwf Hfind.
  - cbn [fold_left]. rewrite app_nil_r in HL. subst A. split; assumption.
  - cbn [fold_left]. apply (IH (A ++ [(s, v)])).
    + rewrite <- app_assoc. exact HL.
    + unfold tx_insf; cbn [fst snd]. apply wf_ins_raw; exact Hwf.
    + intros t Ht. unfold tx_insf; cbn [fst snd].
      assert (Hs : s <> []) by (apply (Hne s v); rewrite HL; apply in_or_app; right; left; reflexivity).
      assert (HAs : lookup A s = None).
      { destruct (lookup A s) eqn:E; [|reflexivity]. exfalso.
        assert (Hin : In s (keys A)) by (apply tx_lookup_key; congruence).
        rewrite HL in Hnd. unfold keys in Hnd. rewrite map_app in Hnd. cbn [map fst] in Hnd.
        apply NoDup_remove_2 in Hnd. apply Hnd. apply in_or_app; left; exact Hin. }
      rewrite find_ins_raw by assumption. rewrite lookup_app. cbn [lookup].
      destruct (seqb t s) eqn:Ets.
      * apply seqb_eq in Ets; subst t. rewrite Hfind by assumption. rewrite HAs. cbn [min_opt].
        rewrite seqb_refl. reflexivity.
      * rewrite (seqb_sym s t), Ets. rewrite Hfind by assumption.
        destruct (prefixb t s) eqn:Ep; cbn [andb].
        -- assert (Hl : lookup A t <> None).
           { apply (Hpf A s v B t HL Ht Ep). intro; subst t. rewrite seqb_refl in Ets; discriminate. }
           destruct (lookup A t) as [w|]; [cbn [is_some negb]; reflexivity | congruence].
        -- destruct (lookup A t); reflexivity.
Qed.

Lemma tx_forder_pf l : wf l -> tx_keys_sorted l -> tx_mono_prefix l -> tx_pf (filtration_order (abs l)).
Proof.
  intros Hwf Hks Hmono A s v B t HL Ht Hp Hne.
  pose proof (tx_forder_perm (abs l)) as Hperm.
  assert (HsL : In (s, v) (filtration_order (abs l))) by (rewrite HL; apply in_or_app; right; left; reflexivity).
  assert (HsK : In (s, v) (abs l)) by (apply (Permutation_in _ (Permutation_sym Hperm)); exact HsL).
  destruct (proj1 (in_abs l Hwf s v) HsK) as [Hs Hfs].
  assert (Hft : find_val t l <> None) by (apply (tx_prefix_present t s l Ht Hp); congruence).
  destruct (find_val t l) as [w|] eqn:Ew; [|congruence].
  assert (HtK : In (t, w) (abs l)) by (apply (proj2 (in_abs l Hwf t w)); split; [exact Ht | exact Ew]).
  assert (Hwv : w <= v) by (apply (Hmono s v t w HsK HtK Hp)).
  assert (Hb : before (t, w) (s, v) = true) by (apply tx_before_prefix; try assumption; apply (Hks s v HsK)).
  assert (HtL : In (t, w) (filtration_order (abs l))) by (apply (Permutation_in _ Hperm); exact HtK).
  rewrite HL in HtL. apply in_app_or in HtL. destruct HtL as [HtA|[Heq|HtB]].
  - apply (in_lookup A t w HtA).
  - inversion Heq; subst. congruence.
  - exfalso. pose proof (tx_forder_sorted (abs l)) as Hsort. rewrite HL in Hsort.
    apply tx_sorted_app_tail in Hsort. rewrite Forall_forall in Hsort. specialize (Hsort _ HtB).
    unfold tx_R in Hsort. congruence.
Qed.

(* ---- extensionality of well-formed tries ---- *)
Lemma tx_ext : forall l1, wf l1 -> forall l2, wf l2 ->
  (forall t, t <> [] -> find_val t l1 = find_val t l2) -> l1 = l2.
Proof.
  apply (sibs_trie_ind
           (fun c => wf_t c -> forall c2, wf_t c2 ->
                     (forall t, t <> [] -> find_val t (kids c) = find_val t (kids c2)) -> c = c2)
           (fun l => wf l -> forall l2, wf l2 ->
                     (forall t, t <> [] -> find_val t l = find_val t l2) -> l = l2)).
  - intros l H Hw [l2] Hw2 Hf. cbn [kids] in Hf. f_equal. apply H; auto.
  - intros _ [|[[x2 w2] c2] r2] _ Hf; [reflexivity|]. exfalso.
    specialize (Hf [x2]). rewrite find_val_nil_l, find_val_cons_eq_one in Hf.
    assert ([x2] <> []) as Hne by congruence. specialize (Hf Hne). discriminate.
  - intros x w c r IHc IHr Hw [|[[x2 w2] c2] r2] Hw2 Hf.
    + exfalso. specialize (Hf [x]). rewrite find_val_nil_l, find_val_cons_eq_one in Hf.
      assert ([x] <> []) as Hne by congruence. specialize (Hf Hne). discriminate.
    + apply wf_cons in Hw as (Hlb & Hc & Hr). apply wf_cons in Hw2 as (Hlb2 & Hc2 & Hr2).
      assert (Hx : x = x2).
      { destruct (Z.compare_spec x x2) as [E|E|E]; [exact E| |]; exfalso.
        - assert (Hf1 := Hf [x]). rewrite find_val_cons_eq_one, find_val_cons_lt in Hf1 by exact E.
          assert ([x] <> []) as Hne by congruence. specialize (Hf1 Hne). discriminate.
        - assert (Hf1 := Hf [x2]). rewrite find_val_cons_eq_one, find_val_cons_lt in Hf1 by exact E.
          assert ([x2] <> []) as Hne by congruence. specialize (Hf1 Hne). discriminate. }
      subst x2.
      assert (Hwe : w = w2).
      { assert (Hf1 := Hf [x]). rewrite !find_val_cons_eq_one in Hf1.
        assert ([x] <> []) as Hne by congruence. specialize (Hf1 Hne). congruence. }
      subst w2.
      assert (Hce : c = c2).
      { apply IHc; [exact Hc | exact Hc2 |]. intros t Ht. destruct c as [c0], c2 as [c20]. cbn [kids].
        destruct t as [|y t']; [congruence|].
        assert (Hf1 := Hf (x :: y :: t')). rewrite !find_val_cons_eq_deep in Hf1. apply Hf1. congruence. }
      assert (Hre : r = r2).
      { apply IHr; [exact Hr | exact Hr2 |]. intros t Ht. destruct t as [|z t']; [congruence|].
        destruct (Z_lt_le_dec x z) as [Hlt|Hle].
        - assert (Hf1 := Hf (z :: t')). rewrite !find_val_cons_gt in Hf1 by exact Hlt. apply Hf1. congruence.
        - rewrite !tx_get_none_find; [reflexivity | |].
          + apply lb_sibs_get_lt with (x := x); assumption.
          + apply lb_sibs_get_lt with (x := x); assumption. }
      subst c2 r2. reflexivity.
Qed.

(* ---- norm undoes the reversal of a strictly increasing word ---- *)
Lemma tx_sins_above x : forall acc, Forall (fun y => y < x) acc -> sins x acc = acc ++ [x].
Proof.
  induction acc as [|y r IH]; intro H; [reflexivity|]. cbn [sins app].
  inversion H as [|y' r' Hyx Hr]; subst.
  assert (x ?= y = Gt) as -> by (apply Z.compare_gt_iff; exact Hyx). rewrite IH by exact Hr. reflexivity.
Qed.
Lemma tx_fold_sins : forall s acc, ssorted (acc ++ s) -> fold_left (fun a x => sins x a) s acc = acc ++ s.
Proof.
  induction s as [|x s IH]; intros acc Hs; cbn [fold_left]; [rewrite app_nil_r; reflexivity|].
  assert (Hab : sins x acc = acc ++ [x]).
  { apply tx_sins_above. apply Forall_forall. intros y Hy.
    apply (tx_ssorted_app_lt acc (x :: s) y x Hs Hy). left; reflexivity. }
  rewrite Hab. rewrite IH; rewrite <- app_assoc; [reflexivity | exact Hs].
Qed.
Lemma tx_norm_rev s : ssorted s -> norm (rev s) = s.
Proof.
  intro Hs. unfold norm. rewrite fold_left_rev_right. apply (tx_fold_sins s []). exact Hs.
Qed.

(* ---- text_in on the records of a list of sorted words ---- *)
Definition tx_rec (p : simplex * V) : Z * list Z * V := (sdim (fst p), rev (fst p), snd p).
Definition tx_insr (l : sibs) (r : Z * list Z * V) : sibs := ins_raw (norm (snd (fst r))) (snd r) l.

Lemma tx_fold_tree recs : forall st0,
  tree (fold_left (fun st r => step true st (OInsert (snd (fst r)) (snd r))) recs st0)
  = fold_left tx_insr recs (tree st0).
Proof. induction recs as [|r recs IH]; intro st0; cbn [fold_left]; [reflexivity|]. rewrite IH. reflexivity. Qed.
Lemma tx_text_in_tree st0 recs : tree (text_in st0 recs) = fold_left tx_insr recs (tree st0).
Proof. unfold text_in. cbn [tree]. apply tx_fold_tree. Qed.
Lemma tx_fold_map : forall L T, (forall s v, In (s, v) L -> ssorted s) ->
  fold_left tx_insr (map tx_rec L) T = fold_left tx_insf L T.
Proof.
  induction L as [|[s v] L IH]; intros T H; cbn [map fold_left]; [reflexivity|].
  rewrite IH by (intros s' v' Hin; apply (H s' v'); right; exact Hin).
  apply (f_equal (fold_left tx_insf L)). unfold tx_insr, tx_insf, tx_rec. cbn [fst snd].
  rewrite tx_norm_rev; [reflexivity|]. apply (H s v); left; reflexivity.
Qed.

(* ---- the dimension written by text_in ---- *)
Definition tx_maxdim (L : cplx) (m : Z) : Z := fold_left (fun m p => Z.max m (sdim (fst p))) L m.
Lemma tx_dim_fold : forall L m,
  fold_left (fun m (r : Z * list Z * V) => Z.max m (Z.of_nat (length (snd (fst r))) - 1)) (map tx_rec L) m = tx_maxdim L m.
Proof.
  unfold tx_maxdim. induction L as [|[s v] L IH]; intro m; cbn [map fold_left]; [reflexivity|].
  rewrite IH. unfold tx_rec, sdim; cbn [fst snd]. rewrite rev_length. reflexivity.
Qed.
Lemma tx_maxdim_ge : forall L m, m <= tx_maxdim L m.
Proof.
  unfold tx_maxdim. induction L as [|p L IH]; intro m; cbn [fold_left]; [lia|].
  specialize (IH (Z.max m (sdim (fst p)))). lia.
Qed.
Lemma tx_maxdim_in : forall L m s v, In (s, v) L -> sdim s <= tx_maxdim L m.
Proof.
  induction L as [|p L IH]; intros m s v Hin; [destruct Hin|].
  change (tx_maxdim (p :: L) m) with (tx_maxdim L (Z.max m (sdim (fst p)))).
  destruct Hin as [Hin|Hin].
  - subst p. cbn [fst]. pose proof (tx_maxdim_ge L (Z.max m (sdim s))). lia.
  - apply (IH _ s v Hin).
Qed.
Lemma tx_maxdim_wit : forall L m, tx_maxdim L m = m \/ exists s v, In (s, v) L /\ tx_maxdim L m = sdim s.
Proof.
  induction L as [|[s v] L IH]; intro m; [left; reflexivity|].
  change (tx_maxdim ((s, v) :: L) m) with (tx_maxdim L (Z.max m (sdim s))).
  destruct (IH (Z.max m (sdim s))) as [E|(s' & v' & Hin & E)].
  - destruct (Z.max_spec m (sdim s)) as [[_ E2]|[_ E2]].
    + right. exists s, v. split; [left; reflexivity | lia].
    + left. lia.
  - right. exists s', v'. split; [right; exact Hin | exact E].
Qed.

(* ================================================================================================ the theorem *)
Theorem tx_text_roundtrip : forall st, wf (tree st) -> tx_keys_sorted (tree st) -> tx_mono_prefix (tree st) ->
  tree (text_in empty_state (text_out st)) = tree st /\ dim_ub (text_in empty_state (text_out st)) = exact_dim st.
Proof.
  intros st Hwf Hks Hmono.
  set (K := abs (tree st)). set (L := filtration_order K).
  assert (Hperm : Permutation K L) by apply tx_forder_perm.
  assert (HndK : NoDup (keys K)) by (apply nodup_abs; exact Hwf).
  assert (HndL : NoDup (keys L)) by (apply (Permutation_NoDup (Permutation_map fst Hperm)); exact HndK).
  assert (HinL : forall s v, In (s, v) L -> In (s, v) K).
  { intros s v H; apply (Permutation_in _ (Permutation_sym Hperm)); exact H. }
  change (text_out st) with (map tx_rec L).
  split.
  - rewrite tx_text_in_tree. cbn [tree empty_state].
    rewrite tx_fold_map by (intros s v H; apply (Hks s v); apply HinL; exact H).
    assert (Hne : forall s v, In (s, v) L -> s <> []).
    { intros s v H. apply HinL in H. apply (proj1 (in_abs _ Hwf s v)) in H. tauto. }
    assert (Hpf : tx_pf L) by (apply tx_forder_pf; assumption).
    assert (H0 : forall t, t <> [] -> find_val t [] = lookup [] t).
    { intros t _. rewrite find_val_nil_l. reflexivity. }
    destruct (tx_build L HndL Hne Hpf L [] [] eq_refl wf_nil H0) as [Hwf' Hfind'].
    apply tx_ext; [exact Hwf' | exact Hwf |].
    intros t Ht. rewrite (Hfind' t Ht). rewrite <- (tx_lookup_perm K L t HndK Hperm).
    apply find_abs; exact Hwf.
  - change (dim_ub (text_in empty_state (map tx_rec L)))
      with (fold_left (fun m (r : Z * list Z * V) => Z.max m (Z.of_nat (length (snd (fst r))) - 1)) (map tx_rec L) (-1)).
    rewrite tx_dim_fold. unfold exact_dim. apply Z.le_antisymm.
    + destruct (tx_maxdim_wit L (-1)) as [E|(s & v & Hin & E)]; rewrite E; [apply height_lb|].
      apply find_height. apply HinL in Hin. destruct (proj1 (in_abs _ Hwf s v) Hin) as [_ Hf].
      rewrite Hf. discriminate.
    + assert (Hcase : tree st = [] \/ tree st <> []).
      { destruct (tree st); [left; reflexivity | right; discriminate]. }
      destruct Hcase as [Hnil|Hnn].
      * rewrite Hnil, height_nil. apply tx_maxdim_ge.
      * destruct (height_witness (tree st) Hwf Hnn) as (t & Ht & Hf & Hd). rewrite <- Hd.
        destruct (find_val t (tree st)) as [w|] eqn:Ew; [|congruence].
        apply (tx_maxdim_in L (-1) t w). apply (Permutation_in _ Hperm).
        apply (proj2 (in_abs _ Hwf t w)). split; assumption.
Qed.

(* the same result before extensionality: the rebuilt tree is well formed and has the same finite map *)
Lemma tx_text_find : forall st, wf (tree st) -> tx_keys_sorted (tree st) -> tx_mono_prefix (tree st) ->
  wf (tree (text_in empty_state (text_out st))) /\
  forall t, t <> [] -> find_val t (tree (text_in empty_state (text_out st))) = find_val t (tree st).
Proof.
  intros st Hwf Hks Hmono. destruct (tx_text_roundtrip st Hwf Hks Hmono) as [E _]. rewrite E.
  split; [exact Hwf | reflexivity].
Qed.

(* ---- the hypotheses in terms of find_val; sortedness of the words is an invariant of insertions ---- *)
Lemma tx_keys_sorted_fv l : wf l -> (tx_keys_sorted l <-> forall t, find_val t l <> None -> ssorted t).
Proof.
  intro Hwf. unfold tx_keys_sorted. split.
  - intros H t Hf. destruct t as [|x t']; [constructor|].
    destruct (find_val (x :: t') l) as [w|] eqn:E; [|congruence].
    apply (H (x :: t') w). apply (proj2 (in_abs l Hwf (x :: t') w)). split; [congruence | exact E].
  - intros H s v Hin. apply H. destruct (proj1 (in_abs l Hwf s v) Hin) as [_ Hf]. rewrite Hf. discriminate.
Qed.
Lemma tx_mono_prefix_fv l : wf l ->
  (tx_mono_prefix l <->
   forall s v p w, p <> [] -> find_val s l = Some v -> find_val p l = Some w -> prefixb p s = true -> w <= v).
Proof.
  intro Hwf. unfold tx_mono_prefix. split.
  - intros H s v p w Hp Hs Hpw Hpre.
    assert (Hsn : s <> []). { intro; subst s. cbn in Hs. discriminate. }
    apply (H s v p w); [apply (proj2 (in_abs l Hwf s v)); tauto | apply (proj2 (in_abs l Hwf p w)); tauto | exact Hpre].
  - intros H s v p w Hs Hp Hpre.
    destruct (proj1 (in_abs l Hwf s v) Hs) as [_ Hfs]. destruct (proj1 (in_abs l Hwf p w) Hp) as [Hpn Hfp].
    apply (H s v p w); assumption.
Qed.
Lemma tx_keys_sorted_nil : tx_keys_sorted [].
Proof. intros s v H. destruct H. Qed.
Lemma tx_ssorted_app_l a : forall b, ssorted (a ++ b) -> ssorted a.
Proof.
  induction a as [|x a IH]; intros b H; [constructor|]. cbn [app] in H. unfold ssorted in *.
  inversion H as [|x' l' Hs Hall]; subst. constructor; [apply (IH b Hs)|]. apply Forall_app in Hall. tauto.
Qed.
Lemma tx_prefix_sorted t s : prefixb t s = true -> ssorted s -> ssorted t.
Proof. intros Hp Hs. destruct (tx_prefix_split t s Hp) as [u ->]. apply (tx_ssorted_app_l t u Hs). Qed.
Lemma tx_keys_sorted_ins_raw s v l :
  wf l -> ssorted s -> s <> [] -> tx_keys_sorted l -> tx_keys_sorted (ins_raw s v l).
Proof.
  intros Hwf Hs Hne Hks.
  assert (Hwf' : wf (ins_raw s v l)) by (apply wf_ins_raw; exact Hwf).
  apply (proj2 (tx_keys_sorted_fv _ Hwf')). intros t Hf.
  destruct t as [|x t']; [constructor|]. rewrite find_ins_raw in Hf by congruence.
  destruct (seqb (x :: t') s) eqn:E1.
  - apply seqb_eq in E1. rewrite E1. exact Hs.
  - destruct (prefixb (x :: t') s) eqn:E2.
    + apply (tx_prefix_sorted _ s E2 Hs).
    + cbn [andb] in Hf. apply (proj1 (tx_keys_sorted_fv l Hwf) Hks). exact Hf.
Qed.

(* ---- without sorted words the round-trip fails: [wf] allows the word [2;1], which the reader re-sorts ---- *)
Definition tx_cex : state := mk [(2, 0, Node [(1, 0, leaf)])] 1 false.
Lemma tx_roundtrip_needs_sorted_keys :
  wf (tree tx_cex) /\ tx_mono_prefix (tree tx_cex) /\ tree (text_in empty_state (text_out tx_cex)) <> tree tx_cex.
Proof.
  split; [|split].
  - cbn. unfold label; cbn. repeat split; lia.
  - intros s v p w Hs Hp _. cbn in Hs, Hp.
    destruct Hs as [Hs|[Hs|[]]]; destruct Hp as [Hp|[Hp|[]]]; inversion Hs; inversion Hp; lia.
  - vm_compute. discriminate.
Qed.
(* non-vacuity: a state (triangle 1 2 3 with all its faces) that satisfies the three hypotheses and round-trips *)
Definition tx_ex : state := mk [(1, 0, Node [(2, 3, Node [(3, 5, leaf)]); (3, 4, leaf)]); (2, 1, leaf); (3, 2, leaf)] 2 false.
Lemma tx_ex_roundtrip :
  tree (text_in empty_state (text_out tx_ex)) = tree tx_ex /\ dim_ub (text_in empty_state (text_out tx_ex)) = exact_dim tx_ex.
Proof. vm_compute. split; reflexivity. Qed.
Lemma tx_ex_hyps : wf (tree tx_ex) /\ tx_keys_sorted (tree tx_ex) /\ tx_mono_prefix (tree tx_ex).
Proof.
  split; [|split].
  - cbn. unfold label; cbn. repeat split; lia.
  - intros s v Hs. cbn in Hs.
    destruct Hs as [Hs|[Hs|[Hs|[Hs|[Hs|[Hs|[]]]]]]]; inversion Hs; subst; repeat constructor; lia.
  - intros s v p w Hs Hp Hpre. cbn in Hs, Hp.
    destruct Hs as [Hs|[Hs|[Hs|[Hs|[Hs|[Hs|[]]]]]]]; inversion Hs; subst;
      destruct Hp as [Hp|[Hp|[Hp|[Hp|[Hp|[Hp|[]]]]]]]; inversion Hp; subst;
      cbn in Hpre; try discriminate; lia.
Qed.

(* ---- the two hypotheses of the text round trip hold after every history that respects the documented preconditions
        (stored words strictly increasing: invariant of the specification run, as in C01_Cofaces.v, repeated here to keep
        the imports of this file to C01_Proofs) ---- *)
Definition hist_KS (K : cplx) : Prop := forall t, lookup K t <> None -> ssorted t.
Lemma hist_subseq_sorted : forall b a, ssorted b -> subseq a b = true -> ssorted a.
Proof.
  unfold ssorted. induction b as [|y b IH]; intros a Hb H.
  - rewrite subseq_nil_r in H. destruct a; [constructor | discriminate].
  - destruct a as [|x a]; [constructor|]. apply Sorted.StronglySorted_inv in Hb as [Hb Hall].
    rewrite subseq_cons in H. destruct (x =? y) eqn:E; [|apply IH; auto].
    apply Z.eqb_eq in E; subst. constructor; [apply IH; auto|].
    rewrite Forall_forall in *. intros u Hu. apply Hall. apply (subseq_incl _ _ H u Hu).
Qed.
Lemma hist_step_KS K o : hist_KS K -> refined_op o = true -> pre_op K o = true -> hist_KS (spec_step K o).
Proof.
  intros Hk Hr Hpre t. destruct o; try discriminate; cbn [spec_step].
  - destruct (list_eq_dec Z.eq_dec t (norm s)) as [->|Hne]; [intros _; apply norm_sorted|].
    rewrite spec_insert_other by auto. apply Hk.
  - destruct t as [|z t']; [intros _; constructor|].
    rewrite lookup_insert_closure by congruence.
    destruct (subseq (z :: t') (norm s)) eqn:E; [intros _; eapply hist_subseq_sorted; eauto; apply norm_sorted | apply Hk].
  - rewrite lookup_batch. destruct t as [|z [|z' t']]; try apply Hk.
    intros _. constructor; constructor.
  - destruct vw as [|w0 vw']; [apply Hk|].
    cbn [pre_op] in Hpre. apply andb_true_iff in Hpre as [_ Hok].
    intro Hf. apply (spec_graph_klen (w0 :: vw') es Hok t Hf).
  - destruct (list_eq_dec Z.eq_dec t (norm s)) as [->|Hne]; [rewrite spec_remove_same; congruence|].
    rewrite spec_remove_other by auto. apply Hk.
  - rewrite spec_prune_filt_lookup. destruct (lookup K t) eqn:E; [|congruence]. intros _. apply Hk. congruence.
  - rewrite spec_prune_dim_lookup. destruct (_ <=? _); [apply Hk | congruence].
  - cbn. congruence.
  - apply Hk.
  - apply Hk.
Qed.
Lemma hist_run_KS : forall ops K, hist_KS K -> forallb refined_op ops = true -> ok_from K ops = true ->
  hist_KS (fold_left spec_step ops K).
Proof.
  induction ops as [|o ops IH]; intros K Hk Hp Hok; cbn [fold_left]; auto.
  cbn [forallb] in Hp. apply andb_true_iff in Hp as [Hp1 Hp2].
  cbn [ok_from] in Hok. apply andb_true_iff in Hok as [Hok Hok3]. apply andb_true_iff in Hok as [Hok1 Hok2].
  apply IH; auto. apply hist_step_KS; auto.
Qed.
Lemma hist_run_good : forall ops K, good K = true -> ok_from K ops = true -> good (fold_left spec_step ops K) = true.
Proof.
  induction ops as [|o ops IH]; intros K Hg Hok; cbn [fold_left]; auto.
  cbn [ok_from] in Hok. apply andb_true_iff in Hok as [Hok Hok3]. apply andb_true_iff in Hok as [Hok1 Hok2].
  apply IH; auto.
Qed.

Theorem text_roundtrip_history : forall fx ops,
  forallb refined_op ops = true -> ok_history ops = true ->
  tree (text_in empty_state (text_out (run fx ops))) = tree (run fx ops)
  /\ dim_ub (text_in empty_state (text_out (run fx ops))) = exact_dim (run fx ops).
Proof.
  intros fx ops Hp Hok.
  destruct (history_refines fx ops Hp Hok) as (Hwf & Ha & _).
  assert (Hks : hist_KS (spec_run ops)).
  { apply hist_run_KS; auto. intros t H. cbn in H. congruence. }
  assert (Hg : good (spec_run ops) = true) by (apply hist_run_good; auto).
  apply tx_text_roundtrip; auto.
  - apply (proj2 (tx_keys_sorted_fv _ Hwf)). intros t Hf.
    destruct t as [|z t']; [constructor|]. apply Hks. rewrite <- Ha by congruence. exact Hf.
  - apply (proj2 (tx_mono_prefix_fv _ Hwf)). intros s v p w Hpn Hs Hpf Hpre.
    assert (Hsn : s <> []). { intro; subst. cbn in Hs. discriminate. }
    rewrite Ha in Hs, Hpf by auto.
    apply (good_mono (spec_run ops) s p v w); auto. apply prefixb_subseq. exact Hpre.
Qed.

Lemma text_roundtrip_unsorted_words_refuted_lemma :
  ~ (forall st, wf (tree st) ->
       (forall s v p w, In (s, v) (abs (tree st)) -> In (p, w) (abs (tree st)) -> prefixb p s = true -> w <= v) ->
       tree (text_in empty_state (text_out st)) = tree st).
Proof.
  intro H. destruct tx_roundtrip_needs_sorted_keys as (Hwf & Hm & Hne). exact (Hne (H tx_cex Hwf Hm)).
Qed.

(* ------------------------------------------------------------------------------------------ example states *)
Definition ex_state : state := run true [OInsertSub [0; 1; 2] 3; OInsert [5] (-7)].
Definition ex_state0 : state := run true [OInsertSub [0; 1; 2] 0].
