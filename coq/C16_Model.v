(* C16 - toplex maps.  Algorithm models of Gudhi::Toplex_map (eager) and Gudhi::Lazy_toplex_map (lazy)
   and the specification model (abstract complex as a characteristic function).  No proofs here.

   src/Toplex_map/include/gudhi/Toplex_map.h, Lazy_toplex_map.h.
   The C++ state  t0 : vertex -> unordered_set<shared_ptr<Simplex>> (hash/equality BY VALUE)  lists every stored
   simplex under each of its vertices; the model keeps the list of stored simplices and derives t0[v] as the
   stored simplices containing v.  Simplices are lists of labels read as sets (order and repeats are irrelevant:
   every test goes through [memv]).  Label 2^64-1 (VERTEX_UPPER_BOUND) is excluded: [None] stands for it. *)
From Coq Require Import ZArith List Bool.
Import ListNotations.
Open Scope Z_scope.

Definition simplex := list Z.
Definition memv (x : Z) (s : simplex) : bool := existsb (Z.eqb x) s.
(* included(a, b) *)
Definition subsetb (a b : simplex) : bool := forallb (fun x => memv x b) a.
(* Sptr_equal: same size and included; on sets this is mutual inclusion *)
Definition seqb (a b : simplex) : bool := subsetb a b && subsetb b a.
Definition del (x : Z) (s : simplex) : simplex := filter (fun y => negb (Z.eqb x y)) s.
Definition adds (k : Z) (s : simplex) : simplex := if memv k s then s else k :: s.
Definition nonempty (s : simplex) : bool := match s with [] => false | _ => true end.
(* facets(range): for every v of the range, the set minus v *)
Definition facets (s : simplex) : list simplex := map (fun v => del v s) s.

(* ------------------------------------------------------------------ eager variant *)
Definition state := list simplex.
Definition t0 (T : state) (v : Z) : list simplex := filter (memv v) T.     (* t0.at(v) *)
Definition has_v (T : state) (v : Z) : bool := existsb (memv v) T.          (* t0.count(v) *)
Definition cnt (T : state) (v : Z) : Z := Z.of_nat (length (t0 T v)).       (* t0.at(v).size() *)

(* best_index: first vertex absent from t0, else a vertex with the fewest stored simplices; None = VERTEX_UPPER_BOUND *)
Fixpoint best_index_aux (T : state) (s : simplex) (mn : option Z) (arg : option Z) : option Z :=
  match s with
  | [] => arg
  | v :: r =>
    if negb (has_v T v) then Some v
    else let c := cnt T v in
         match mn with
         | None => best_index_aux T r (Some c) (Some v)
         | Some m => if c <? m then best_index_aux T r (Some c) (Some v) else best_index_aux T r mn arg
         end
  end.
Definition best_index (T : state) (s : simplex) : option Z := best_index_aux T s None None.

Definition maximality (T : state) (s : simplex) : bool :=
  match best_index T s with
  | None => false
  | Some v => if has_v T v then existsb (seqb s) (t0 T v) else false
  end.

Definition membership (T : state) (s : simplex) : bool :=
  match T with
  | [] => false
  | _ => match best_index T s with
         | None => false
         | Some v => if negb (has_v T v) then false
                     else if maximality T s then true
                     else existsb (subsetb s) (t0 T v)
         end
  end.

Definition erase_maximal (T : state) (tau : simplex) : state := filter (fun r => negb (seqb r tau)) T.
Definition insert_independent (T : state) (s : simplex) : state :=
  match s with
  | [] => T
  | _ => if existsb (seqb s) T then T else T ++ [s]
  end.

Definition insert_simplex (T : state) (s : simplex) : state :=
  if membership T s then T
  else
    let fs := facets s in
    let T1 :=
      if forallb (maximality T) fs then fold_left erase_maximal fs T
      else fold_left (fun T v => if has_v T v
                                 then fold_left (fun T f => if subsetb f s then erase_maximal T f else T) (t0 T v) T
                                 else T) s T in
    insert_independent T1 s.

(* what replaces a destroyed toplex tau >= s.  Repaired code: tau minus v for v in s.  Code as found: facets(s). *)
Definition readd (fixed : bool) (s tau : simplex) : list simplex :=
  if fixed then map (fun v => del v tau) s else facets s.

Definition remove_simplex_gen (fixed : bool) (T : state) (s : simplex) : state :=
  match s with
  | [] => []
  | _ => match best_index T s with
         | None => T
         | Some v =>
           if has_v T v
           then fold_left (fun T tau =>
                  if subsetb s tau
                  then fold_left (fun T f => if membership T f then T else insert_independent T f)
                                 (readd fixed s tau) (erase_maximal T tau)
                  else T) (t0 T v) T
           else T
         end
  end.
Definition remove_simplex := remove_simplex_gen true.
Definition remove_simplex_as_found := remove_simplex_gen false.

(* remove_vertex: t0.at(x) throws when x is absent: None *)
Definition remove_vertex (T : state) (x : Z) : option state :=
  if has_v T x
  then Some (fold_left (fun T tau => insert_simplex (erase_maximal T tau) (del x tau)) (t0 T x) T)
  else None.

Definition contraction (T : state) (x y : Z) : state * Z :=
  if negb (has_v T x) then (T, y)
  else if negb (has_v T y) then (T, x)
  else let k := if cnt T y <? cnt T x then x else y in
       let d := if cnt T y <? cnt T x then y else x in
       (fold_left (fun T tau => insert_simplex (erase_maximal T tau) (adds k (del d tau))) (t0 T d) T, k).

Definition maximal_cofaces (T : state) (s : simplex) : list simplex :=
  if maximality T s then [s]
  else match s with
       | [] => T
       | _ => match best_index T s with
              | None => []
              | Some v => if has_v T v then filter (subsetb s) (t0 T v) else []
              end
       end.

Fixpoint dedup (l : list Z) : list Z :=
  match l with [] => [] | x :: r => if memv x r then dedup r else x :: dedup r end.
Definition vertices (T : list simplex) : list Z := dedup (concat T).
Definition num_vertices (T : list simplex) : Z := Z.of_nat (length (vertices T)).
Definition num_maximal (T : state) : Z := Z.of_nat (length (maximal_cofaces T [])).

(* ------------------------------------------------------------------ histories *)
Inductive op := Ins (s : simplex) | Rem (s : simplex) | RemV (x : Z) | Con (x y : Z).

(* one operation; the second component is the value returned by contraction *)
Definition step_gen (fixed : bool) (T : state) (o : op) : state * option Z :=
  match o with
  | Ins s => (insert_simplex T s, None)
  | Rem s => (remove_simplex_gen fixed T s, None)
  | RemV x => (match remove_vertex T x with Some T' => T' | None => T end, None)
  | Con x y => let (T', k) := contraction T x y in (T', Some k)
  end.
Definition step := step_gen true.

(* ------------------------------------------------------------------ specification: the abstract complex *)
(* a complex is the characteristic function of its set of (non-empty) simplices *)
Definition cplx := simplex -> bool.
Definition spec_empty : cplx := fun _ => false.
Definition spec_insert (K : cplx) (s : simplex) : cplx := fun r => K r || (nonempty r && subsetb r s).
Definition spec_remove (K : cplx) (s : simplex) : cplx := fun r => K r && negb (subsetb s r).
Definition spec_remove_vertex (K : cplx) (x : Z) : cplx := fun r => K r && negb (memv x r).
(* image of K under the vertex map d |-> k: r is in it iff one of its (at most three) preimages is in K *)
Definition spec_contract (K : cplx) (d k : Z) : cplx :=
  fun r => if Z.eqb d k then K r
           else if memv d r then false
           else if memv k r then K r || K (d :: del k r) || K (d :: r)
           else K r.

(* the abstract operation named by o; a contraction identifies the two vertices, the survivor being the one returned *)
Definition spec_step (K : cplx) (o : op) (ret : option Z) : cplx :=
  match o with
  | Ins s => spec_insert K s
  | Rem s => spec_remove K s
  | RemV x => spec_remove_vertex K x
  | Con x y => match ret with
               | Some k => spec_contract K (if Z.eqb k x then y else x) k
               | None => K
               end
  end.

(* algorithm model and specification run in lockstep over a history *)
Fixpoint run_gen (fixed : bool) (T : state) (K : cplx) (h : list op) : state * cplx :=
  match h with
  | [] => (T, K)
  | o :: r => let (T', ret) := step_gen fixed T o in run_gen fixed T' (spec_step K o ret) r
  end.
Definition run (h : list op) : state * cplx := run_gen true [] spec_empty h.
Definition run_as_found (h : list op) : state * cplx := run_gen false [] spec_empty h.

(* maximal simplices of a complex among the subsets of a label universe U *)
Definition spec_is_max (K : cplx) (U : list Z) (r : simplex) : bool :=
  K r && forallb (fun v => memv v r || negb (K (v :: r))) U.

(* ------------------------------------------------------------------ lazy variant *)
(* state: the stored simplices (maximal ones and possibly some of their faces).  The counters that decide WHEN a
   vertex is cleaned (gamma0_lbounds, size_lbound, cleaning_priority) are not modelled: cleaning is an explicit,
   arbitrary step of the history (LClean), so the theorems cover every cleaning schedule. *)
Definition l_insert (E : list simplex) (s : simplex) : list simplex :=         (* insert_simplex: no test at all *)
  match s with [] => E | _ => if existsb (seqb s) E then E else E ++ [s] end.
Definition l_erase (E : list simplex) (s : simplex) : list simplex := filter (fun r => negb (seqb r s)) E.  (* erase_max *)
Definition l_membership (E : list simplex) (s : simplex) : bool :=
  match best_index E s with
  | None => false
  | Some v => if has_v E v then existsb (subsetb s) (t0 E v) else false
  end.
Definition l_remove_gen (fixed : bool) (E : list simplex) (s : simplex) : list simplex :=
  match s with
  | [] => []
  | _ => match best_index E s with
         | None => E
         | Some v => if has_v E v
                     then fold_left (fun E tau => if subsetb s tau
                                                  then fold_left l_insert (readd fixed s tau) (l_erase E tau)
                                                  else E) (t0 E v) E
                     else E
         end
  end.
(* the survivor k is chosen by the sizes of the (uncleaned) lists: an input of the model *)
Definition l_contraction (E : list simplex) (d k : Z) : list simplex :=
  fold_left (fun E tau => l_insert (l_erase E tau) (adds k (del d tau))) (t0 E d) E.
Definition l_survivor_ok (E : list simplex) (x y k : Z) : bool :=
  if negb (has_v E x) then Z.eqb k y else if negb (has_v E y) then Z.eqb k x else Z.eqb k x || Z.eqb k y.
Definition l_contract (E : list simplex) (x y k : Z) : list simplex :=
  if negb (has_v E x) || negb (has_v E y) then E else l_contraction E (if Z.eqb k x then y else x) k.
(* clean(v): take out every stored simplex containing v, keep the maximal ones among them (built in a local eager
   map, larger simplices first), put those back *)
Definition card (s : simplex) : nat := length (dedup s).
Definition clean_tops (S : list simplex) : list simplex :=
  let mx := fold_left Nat.max (map card S) 0%nat in
  fold_left (fun acc d => fold_left (fun acc s => if membership acc s then acc else insert_independent acc s)
                                    (filter (fun s => Nat.eqb (card s) d) S) acc)
            (rev (seq 1 mx)) [].
Definition l_clean (E : list simplex) (v : Z) : list simplex :=
  let S := t0 E v in
  fold_left l_insert (clean_tops S) (fold_left l_erase S E).

Inductive lop := LOp (o : op) (k : Z) | LClean (v : Z).
Definition l_step (fixed : bool) (E : list simplex) (o : lop) : list simplex :=
  match o with
  | LOp (Ins s) _ => l_insert E s
  | LOp (Rem s) _ => l_remove_gen fixed E s
  | LOp (RemV x) _ => l_remove_gen fixed E [x]
  | LOp (Con x y) k => l_contract E x y k
  | LClean v => l_clean E v
  end.

(* the abstract operation a lazy step stands for (cleaning stands for nothing) *)
Definition l_spec (K : cplx) (o : lop) : cplx :=
  match o with LOp o k => spec_step K o (Some k) | LClean _ => K end.
(* admissible returned survivor of a lazy contraction *)
Definition l_ok (E : list simplex) (o : lop) : bool :=
  match o with LOp (Con x y) k => l_survivor_ok E x y k | _ => true end.
(* lazy model and specification in lockstep; the flag says that every contraction returned an admissible survivor *)
Fixpoint l_run_from (E : list simplex) (K : cplx) (h : list lop) : list simplex * cplx * bool :=
  match h with
  | [] => (E, K, true)
  | o :: r => let '(E', K', b) := l_run_from (l_step true E o) (l_spec K o) r in (E', K', l_ok E o && b)
  end.
Definition l_run (h : list lop) := l_run_from [] spec_empty h.

(* eager and lazy models on the same history (cleaning steps only touch the lazy one); the flag also says that the two
   contractions kept the same survivor *)
Definition same_ret (ret : option Z) (o : lop) : bool :=
  match o with
  | LOp (Con _ _) k => match ret with Some k' => Z.eqb k' k | None => false end
  | _ => true
  end.
Fixpoint both_run_from (T : state) (E : list simplex) (h : list lop) : state * list simplex * bool :=
  match h with
  | [] => (T, E, true)
  | LClean v :: r => both_run_from T (l_clean E v) r
  | LOp o k :: r =>
    let (T', ret) := step T o in
    let '(T2, E2, b) := both_run_from T' (l_step true E (LOp o k)) r in
    (T2, E2, l_ok E (LOp o k) && same_ret ret (LOp o k) && b)
  end.
Definition both_run (h : list lop) := both_run_from [] [] h.
