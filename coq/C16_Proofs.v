(* C16 - proofs about the toplex map models of C16_Model.v *)
From Coq Require Import ZArith List Bool Lia.
Require Import C16_Model.
Import ListNotations.
Open Scope Z_scope.

(* ------------------------------------------------------------------ sets of labels *)
Lemma memv_In : forall x s, memv x s = true <-> In x s.
Proof.
  intros x s; unfold memv; rewrite existsb_exists; split.
  - intros [y [Hy He]]. apply Z.eqb_eq in He. subst; auto.
  - intros H. exists x; split; auto. apply Z.eqb_refl.
Qed.

Lemma memv_false : forall x s, memv x s = false <-> ~ In x s.
Proof. intros x s. rewrite <- memv_In. destruct (memv x s); split; congruence. Qed.

Lemma subsetb_incl : forall a b, subsetb a b = true <-> incl a b.
Proof.
  intros a b; unfold subsetb; rewrite forallb_forall; split.
  - intros H x Hx. apply memv_In; auto.
  - intros H x Hx. apply memv_In; auto.
Qed.

Lemma subsetb_false : forall a b, subsetb a b = false -> exists w, In w a /\ ~ In w b.
Proof.
  induction a as [|x a IH]; intros b H; cbn in H; [discriminate|].
  apply andb_false_iff in H. destruct H as [H|H].
  - exists x; split; [left; auto | apply memv_false; auto].
  - destruct (IH b H) as [w [Hw Hn]]. exists w; split; auto. right; auto.
Qed.

Lemma seqb_iff : forall a b, seqb a b = true <-> incl a b /\ incl b a.
Proof. intros; unfold seqb; rewrite andb_true_iff, !subsetb_incl; tauto. Qed.

Lemma seqb_refl : forall a, seqb a a = true.
Proof. intros; apply seqb_iff; split; apply incl_refl. Qed.

Lemma del_In : forall x y s, In y (del x s) <-> In y s /\ x <> y.
Proof.
  intros; unfold del; rewrite filter_In, negb_true_iff, Z.eqb_neq; tauto.
Qed.

Lemma adds_In : forall k y s, In y (adds k s) <-> y = k \/ In y s.
Proof.
  intros k y s; unfold adds. destruct (memv k s) eqn:E.
  - apply memv_In in E. split; [auto|]. intros [->|H]; auto.
  - cbn. split; intros [H|H]; auto.
Qed.

Lemma del_incl : forall x s, incl (del x s) s.
Proof. intros x s y H. apply del_In in H; tauto. Qed.

Lemma nonempty_iff : forall s : simplex, nonempty s = true <-> s <> [].
Proof. destruct s; cbn; split; congruence. Qed.

Lemma incl_nil_inv : forall (r : simplex), r <> [] -> ~ incl r [].
Proof. intros r Hr H. destruct r as [|x r]; [congruence|]. apply (H x); left; auto. Qed.

(* ------------------------------------------------------------------ membership *)
Definition Mem (T : list simplex) (r : simplex) : Prop := exists tau, In tau T /\ incl r tau.

Lemma Mem_app : forall A B r, Mem (A ++ B) r <-> Mem A r \/ Mem B r.
Proof.
  intros; unfold Mem; split.
  - intros [t [Hi Hs]]. apply in_app_or in Hi. destruct Hi; [left|right]; eauto.
  - intros [[t [Hi Hs]]|[t [Hi Hs]]]; exists t; split; auto; apply in_or_app; auto.
Qed.

Lemma Mem_mono : forall T r r', Mem T r -> incl r' r -> Mem T r'.
Proof. intros T r r' [t [Hi Hs]] H. exists t; split; auto. eapply incl_tran; eauto. Qed.

Lemma has_v_iff : forall T v, has_v T v = true <-> exists tau, In tau T /\ In v tau.
Proof.
  intros; unfold has_v; rewrite existsb_exists. split; intros [t [H1 H2]]; exists t; split; auto; apply memv_In; auto.
Qed.

Lemma t0_In : forall T v tau, In tau (t0 T v) <-> In tau T /\ In v tau.
Proof. intros; unfold t0; rewrite filter_In, memv_In; tauto. Qed.

Lemma best_index_aux_res : forall T s mn arg,
  best_index_aux T s mn arg = arg \/ exists v, In v s /\ best_index_aux T s mn arg = Some v.
Proof.
  induction s as [|v r IH]; intros mn arg; cbn [best_index_aux]; [left; auto|].
  destruct (negb (has_v T v)); [right; exists v; split; [left|]; auto|].
  destruct mn as [m|].
  - destruct (cnt T v <? m).
    + destruct (IH (Some (cnt T v)) (Some v)) as [H|[w [Hw H]]]; right.
      * exists v; split; [left|]; auto.
      * exists w; split; [right|]; auto.
    + destruct (IH (Some m) arg) as [H|[w [Hw H]]]; [left; auto|right; exists w; split; [right|]; auto].
  - destruct (IH (Some (cnt T v)) (Some v)) as [H|[w [Hw H]]]; right.
    + exists v; split; [left|]; auto.
    + exists w; split; [right|]; auto.
Qed.

Lemma best_index_some : forall T s, s <> [] -> exists v, In v s /\ best_index T s = Some v.
Proof.
  intros T [|v r] Hs; [congruence|]. unfold best_index; cbn [best_index_aux].
  destruct (negb (has_v T v)); [exists v; split; [left|]; auto|].
  destruct (best_index_aux_res T r (Some (cnt T v)) (Some v)) as [H|[w [Hw H]]].
  - exists v; split; [left|]; auto.
  - exists w; split; [right|]; auto.
Qed.

Lemma best_index_nil : forall T, best_index T [] = None.
Proof. reflexivity. Qed.

Lemma maximality_iff : forall T s, s <> [] -> (maximality T s = true <-> exists tau, In tau T /\ seqb s tau = true).
Proof.
  intros T s Hs. unfold maximality. destruct (best_index_some T s Hs) as [v [Hv ->]].
  destruct (has_v T v) eqn:Hh.
  - rewrite existsb_exists. split.
    + intros [t [Ht Hq]]. apply t0_In in Ht. exists t; tauto.
    + intros [t [Ht Hq]]. exists t; split; auto. apply t0_In; split; auto.
      apply seqb_iff in Hq. apply Hq; auto.
  - split; [discriminate|]. intros [t [Ht Hq]]. apply seqb_iff in Hq.
    assert (has_v T v = true) by (apply has_v_iff; exists t; split; auto; apply Hq; auto). congruence.
Qed.

Lemma maximality_nil : forall T, maximality T [] = false.
Proof. reflexivity. Qed.

Lemma membership_iff : forall T s, s <> [] -> (membership T s = true <-> Mem T s).
Proof.
  intros T s Hs. unfold membership. destruct T as [|t0' T'].
  - split; [discriminate|]. intros [t [[] _]].
  - set (T := t0' :: T'). destruct (best_index_some T s Hs) as [v [Hv ->]].
    destruct (has_v T v) eqn:Hh; cbn [negb].
    + destruct (maximality T s) eqn:Hm.
      * split; auto. intros _. apply maximality_iff in Hm; auto. destruct Hm as [t [Ht Hq]].
        exists t; split; auto. apply seqb_iff in Hq; tauto.
      * rewrite existsb_exists. split.
        -- intros [t [Ht Hq]]. apply t0_In in Ht. exists t; split; [tauto|]. apply subsetb_incl; auto.
        -- intros [t [Ht Hq]]. exists t; split; [apply t0_In; split; auto|apply subsetb_incl; auto].
    + split; [discriminate|]. intros [t [Ht Hq]].
      assert (has_v T v = true) by (apply has_v_iff; exists t; split; auto). congruence.
Qed.

Lemma membership_nil : forall T, membership T [] = false.
Proof. intros [|a T]; reflexivity. Qed.

(* ------------------------------------------------------------------ the invariant of the eager state *)
Fixpoint Anti (T : list simplex) : Prop :=
  match T with
  | [] => True
  | a :: r => (forall b, In b r -> ~ incl a b /\ ~ incl b a) /\ Anti r
  end.
Definition Inv (T : list simplex) : Prop := (forall tau, In tau T -> tau <> []) /\ Anti T.

Lemma Anti_filter : forall f T, Anti T -> Anti (filter f T).
Proof.
  induction T as [|a T IH]; cbn; auto. intros [H1 H2]. destruct (f a); cbn; auto.
  split; auto. intros b Hb. apply filter_In in Hb. apply H1; tauto.
Qed.

Lemma Anti_snoc : forall T s, Anti T -> (forall b, In b T -> ~ incl b s /\ ~ incl s b) -> Anti (T ++ [s]).
Proof.
  induction T as [|a T IH]; cbn; intros s HA H.
  - split; auto; intros b [].
  - destruct HA as [H1 H2]. split.
    + intros b Hb. apply in_app_or in Hb. destruct Hb as [Hb|[<-|[]]]; auto.
    + apply IH; auto.
Qed.

Lemma Anti_incl_eq : forall T a b, Anti T -> In a T -> In b T -> incl a b -> a = b.
Proof.
  induction T as [|c T IH]; intros a b HA Ha Hb Hi; [destruct Ha|].
  cbn in HA. destruct HA as [H1 H2]. cbn in Ha, Hb.
  destruct Ha as [<-|Ha], Hb as [<-|Hb]; auto.
  - exfalso. destruct (H1 b Hb) as [N1 _]. exact (N1 Hi).
  - exfalso. destruct (H1 a Ha) as [_ N2]. exact (N2 Hi).
Qed.

Lemma Inv_nil : Inv [].
Proof. split; cbn; auto; intros t []. Qed.

Lemma erase_In : forall T tau r, In r (erase_maximal T tau) <-> In r T /\ seqb r tau = false.
Proof. intros; unfold erase_maximal; rewrite filter_In, negb_true_iff; tauto. Qed.

Lemma Inv_erase : forall T tau, Inv T -> Inv (erase_maximal T tau).
Proof.
  intros T tau [H1 H2]; split.
  - intros t Ht. apply erase_In in Ht. apply H1; tauto.
  - apply Anti_filter; auto.
Qed.

Lemma Inv_t0 : forall T v, Anti T -> Anti (t0 T v).
Proof. intros; apply Anti_filter; auto. Qed.

(* ------------------------------------------------------------------ insert_simplex *)
Lemma fold_erase_In : forall fs T r,
  In r (fold_left erase_maximal fs T) <-> In r T /\ forall f, In f fs -> seqb r f = false.
Proof.
  induction fs as [|f fs IH]; intros T r; cbn [fold_left].
  - split; [intros H; split; auto; intros f []|tauto].
  - rewrite IH, erase_In. split.
    + intros [[H1 H2] H3]. split; auto. intros g [<-|Hg]; auto.
    + intros [H1 H2]. split; [split|]; auto. apply H2; left; auto. intros g Hg; apply H2; right; auto.
Qed.

Lemma fold_erase_Anti : forall fs T, Anti T -> Anti (fold_left erase_maximal fs T).
Proof. induction fs; intros T H; cbn [fold_left]; auto. apply IHfs. apply Anti_filter; auto. Qed.

(* inner loop of the second branch: erase the listed simplices that are faces of s *)
Definition innerB (s : simplex) (L : list simplex) (T : state) : state :=
  fold_left (fun T f => if subsetb f s then erase_maximal T f else T) L T.

Lemma innerB_In : forall s L T r,
  In r (innerB s L T) <-> In r T /\ forall f, In f L -> incl f s -> seqb r f = false.
Proof.
  unfold innerB. induction L as [|f L IH]; intros T r; cbn [fold_left].
  - split; [intros H; split; auto; intros f []|tauto].
  - rewrite IH. destruct (subsetb f s) eqn:E.
    + rewrite erase_In. apply subsetb_incl in E. split.
      * intros [[H1 H2] H3]. split; auto. intros g [<-|Hg] Hi; auto.
      * intros [H1 H2]. split; [split|]; auto. apply H2; auto; left; auto. intros g Hg; apply H2; right; auto.
    + split.
      * intros [H1 H2]. split; auto. intros g [<-|Hg] Hi; auto.
        apply subsetb_incl in Hi. congruence.
      * intros [H1 H2]. split; auto. intros g Hg; apply H2; right; auto.
Qed.

Lemma innerB_Anti : forall s L T, Anti T -> Anti (innerB s L T).
Proof.
  unfold innerB. induction L as [|f L IH]; intros T H; cbn [fold_left]; auto.
  apply IH. destruct (subsetb f s); auto. apply Anti_filter; auto.
Qed.

Definition outerB (s : simplex) (vs : list Z) (T : state) : state :=
  fold_left (fun T v => if has_v T v then innerB s (t0 T v) T else T) vs T.

Lemma outerB_props : forall s vs T, Anti T ->
  let R := outerB s vs T in
  Anti R /\ (forall r, In r R -> In r T) /\ (forall r, In r T -> ~ incl r s -> In r R)
  /\ (forall r, In r R -> incl r s -> forall v, In v vs -> ~ In v r).
Proof.
  intros s. unfold outerB. induction vs as [|v vs IH]; intros T HA; cbn [fold_left].
  - repeat split; auto.
  - set (T1 := if has_v T v then innerB s (t0 T v) T else T).
    assert (HA1 : Anti T1) by (unfold T1; destruct (has_v T v); auto; apply innerB_Anti; auto).
    assert (Hsub : forall r, In r T1 -> In r T).
    { unfold T1; intros r Hr. destruct (has_v T v); auto. apply innerB_In in Hr; tauto. }
    assert (Hkeep : forall r, In r T -> ~ incl r s -> In r T1).
    { unfold T1; intros r Hr Hn. destruct (has_v T v); auto. apply innerB_In; split; auto.
      intros f Hf Hi. destruct (seqb r f) eqn:E; auto. apply seqb_iff in E. exfalso; apply Hn.
      eapply incl_tran; [apply E|auto]. }
    assert (Hv : forall r, In r T1 -> incl r s -> ~ In v r).
    { unfold T1; intros r Hr Hi Hvr. destruct (has_v T v) eqn:Hh.
      - apply innerB_In in Hr. destruct Hr as [Hr1 Hr2].
        assert (seqb r r = false) by (apply Hr2; auto; apply t0_In; split; auto).
        rewrite seqb_refl in H; discriminate.
      - assert (has_v T v = true) by (apply has_v_iff; exists r; split; auto). congruence. }
    destruct (IH T1 HA1) as [I1 [I2 [I3 I4]]]. repeat split; auto.
    intros r Hr Hi w [<-|Hw]; [apply Hv; auto | apply (I4 r); auto].
Qed.

Lemma insert_independent_In : forall T s r, In r (insert_independent T s) -> In r T \/ r = s.
Proof.
  intros T s r; unfold insert_independent. destruct s as [|x s]; auto.
  destruct (existsb (seqb (x :: s)) T); auto. intros H. apply in_app_or in H. destruct H as [H|[<-|[]]]; auto.
Qed.

Lemma insert_independent_keep : forall T s r, In r T -> In r (insert_independent T s).
Proof.
  intros T s r H; unfold insert_independent. destruct s as [|x s]; auto.
  destruct (existsb (seqb (x :: s)) T); auto. apply in_or_app; auto.
Qed.

(* the part of insert_simplex that erases the faces of s *)
Definition erase_faces (T : state) (s : simplex) : state :=
  if forallb (maximality T) (facets s) then fold_left erase_maximal (facets s) T else outerB s s T.

Lemma insert_simplex_unfold : forall T s,
  insert_simplex T s = if membership T s then T else insert_independent (erase_faces T s) s.
Proof. reflexivity. Qed.

Lemma facets_In : forall s f, In f (facets s) <-> exists v, In v s /\ f = del v s.
Proof.
  intros; unfold facets; rewrite in_map_iff. split; intros [v [H1 H2]]; exists v; auto.
Qed.

Lemma erase_faces_props : forall T s, Inv T -> s <> [] -> ~ Mem T s ->
  let R := erase_faces T s in
  Anti R /\ (forall r, In r R -> In r T) /\ (forall r, In r T -> ~ incl r s -> In r R)
  /\ (forall r, In r R -> ~ incl r s).
Proof.
  intros T s [HN HA] Hs Hm. unfold erase_faces. destruct (forallb (maximality T) (facets s)) eqn:Hf.
  - cbn zeta. repeat split.
    + apply fold_erase_Anti; auto.
    + intros r Hr. apply fold_erase_In in Hr; tauto.
    + intros r Hr Hn. apply fold_erase_In; split; auto. intros f Hff.
      apply facets_In in Hff. destruct Hff as [v [Hv ->]].
      destruct (seqb r (del v s)) eqn:E; auto. apply seqb_iff in E. exfalso; apply Hn.
      eapply incl_tran; [apply E|apply del_incl].
    + intros r Hr Hi. apply fold_erase_In in Hr. destruct Hr as [Hr1 Hr2].
      destruct (subsetb s r) eqn:E.
      * apply subsetb_incl in E. apply Hm. exists r; auto.
      * apply subsetb_false in E. destruct E as [w [Hw Hnw]].
        assert (Hfw : In (del w s) (facets s)) by (apply facets_In; exists w; auto).
        rewrite forallb_forall in Hf. pose proof (Hf _ Hfw) as Hmx.
        assert (Hne : del w s <> []) by (intros E0; rewrite E0, maximality_nil in Hmx; discriminate).
        apply maximality_iff in Hmx; auto. destruct Hmx as [t [Ht Hq]]. apply seqb_iff in Hq.
        assert (Hrt : incl r t).
        { intros y Hy. apply Hq. apply del_In. split; auto. intros <-; auto. }
        assert (r = t) by (eapply Anti_incl_eq; eauto). subst t.
        assert (seqb r (del w s) = false) by (apply Hr2; auto).
        assert (seqb r (del w s) = true) by (apply seqb_iff; tauto). congruence.
  - cbn zeta. destruct (outerB_props s s T HA) as [I1 [I2 [I3 I4]]]. repeat split; auto.
    intros r Hr Hi. assert (Hrn : r <> []) by (apply HN; auto).
    destruct r as [|y r]; [congruence|]. apply (I4 _ Hr Hi y); [apply Hi|]; left; auto.
Qed.

(* element-level description of insert_simplex *)
Lemma insert_simplex_props : forall T s, Inv T ->
  let R := insert_simplex T s in
  Inv R /\ (forall r, In r R -> In r T \/ r = s) /\ (forall r, In r T -> ~ incl r s -> In r R)
  /\ (s <> [] -> exists r0, In r0 R /\ incl s r0 /\ (r0 = s \/ In r0 T)).
Proof.
  intros T s HI. rewrite insert_simplex_unfold. destruct s as [|x s'].
  - rewrite membership_nil. unfold erase_faces; cbn. repeat split; try apply HI; auto. congruence.
  - set (s := x :: s'). assert (Hs : s <> []) by (unfold s; congruence).
    destruct (membership T s) eqn:Hm.
    + apply membership_iff in Hm; auto. cbn zeta. repeat split; try apply HI; auto.
      intros _. destruct Hm as [t [Ht Hi]]. exists t; auto.
    + assert (Hnm : ~ Mem T s) by (intros H; apply membership_iff in H; auto; congruence).
      destruct (erase_faces_props T s HI Hs Hnm) as [I1 [I2 [I3 I4]]]. cbn zeta.
      assert (Hnq : existsb (seqb s) (erase_faces T s) = false).
      { destruct (existsb (seqb s) (erase_faces T s)) eqn:E; auto. apply existsb_exists in E.
        destruct E as [t [Ht Hq]]. apply seqb_iff in Hq. exfalso. apply (I4 t); tauto. }
      assert (HR : insert_independent (erase_faces T s) s = erase_faces T s ++ [s]).
      { unfold insert_independent, s. fold s. rewrite Hnq. reflexivity. }
      rewrite HR. destruct HI as [HN HA]. repeat split.
      * intros t Ht. apply in_app_or in Ht. destruct Ht as [Ht|[<-|[]]]; auto.
      * apply Anti_snoc; auto. intros b Hb. split; [apply I4; auto|].
        intros Hi. apply Hnm. exists b; auto.
      * intros r Hr. apply in_app_or in Hr. destruct Hr as [Hr|[<-|[]]]; auto.
      * intros r Hr Hn. apply in_or_app; left; auto.
      * intros _. exists s. split; [apply in_or_app; right; left; auto|split; [apply incl_refl|auto]].
Qed.

Lemma insert_simplex_Mem : forall T s r, Inv T -> r <> [] ->
  (Mem (insert_simplex T s) r <-> Mem T r \/ incl r s).
Proof.
  intros T s r HI Hr. destruct (insert_simplex_props T s HI) as [_ [I2 [I3 I4]]]. split.
  - intros [t [Ht Hi]]. destruct (I2 t Ht) as [H| ->]; [left; exists t|right]; auto.
  - intros [[t [Ht Hi]]|Hi].
    + destruct (subsetb t s) eqn:E.
      * apply subsetb_incl in E. assert (Hs : s <> []).
        { intros ->. apply (incl_nil_inv r Hr). eapply incl_tran; eauto. }
        destruct (I4 Hs) as [r0 [H0 [H1 _]]]. exists r0; split; auto.
        eapply incl_tran; [eauto|]. eapply incl_tran; eauto.
      * exists t; split; auto. apply I3; auto. intros H. apply subsetb_incl in H. congruence.
    + assert (Hs : s <> []) by (intros ->; apply (incl_nil_inv r Hr); auto).
      destruct (I4 Hs) as [r0 [H0 [H1 _]]]. exists r0; split; auto. eapply incl_tran; eauto.
Qed.

(* ------------------------------------------------------------------ loops "erase tau, insert g tau" (remove_vertex, contraction; both variants) *)
Section Loop.
  Variable ins : list simplex -> simplex -> list simplex.
  Variable P : list simplex -> Prop.
  Hypothesis P_erase : forall T tau, P T -> P (erase_maximal T tau).
  Hypothesis ins_props : forall T s, P T ->
    P (ins T s) /\ (forall r, In r (ins T s) -> In r T \/ r = s) /\ (forall r, In r T -> ~ incl r s -> In r (ins T s))
    /\ (s <> [] -> exists r0, In r0 (ins T s) /\ incl s r0 /\ (r0 = s \/ In r0 T)).
  Variable g : simplex -> simplex.

  Definition loop (S : list simplex) (T : list simplex) : list simplex :=
    fold_left (fun T tau => ins (erase_maximal T tau) (g tau)) S T.
  Definition MemX (T S : list simplex) (r : simplex) : Prop :=
    exists rho, In rho T /\ (forall t, In t S -> seqb rho t = false) /\ incl r rho.

  Lemma loop_ok : forall S T, P T ->
    (forall t t', In t S -> In t' S -> incl (g t) t' -> incl (g t) (g t')) ->
    P (loop S T) /\ forall r, r <> [] -> (Mem (loop S T) r <-> MemX T S r \/ exists t, In t S /\ incl r (g t)).
  Proof.
    unfold loop. induction S as [|tau S IH]; intros T HP H2; cbn [fold_left].
    - split; auto. intros r Hr. split.
      + intros [t [Ht Hi]]. left. exists t. repeat split; auto. intros t' [].
      + intros [[t [Ht [_ Hi]]]|[t [[] _]]]. exists t; auto.
    - set (T1 := ins (erase_maximal T tau) (g tau)).
      destruct (ins_props (erase_maximal T tau) (g tau) (P_erase T tau HP)) as [HP1 [Ia [Ib Ic]]]. fold T1 in HP1, Ia, Ib, Ic.
      assert (H2' : forall t t', In t S -> In t' S -> incl (g t) t' -> incl (g t) (g t')).
      { intros t t' Ht Ht'. apply H2; right; auto. }
      destruct (IH T1 HP1 H2') as [HPL HM]. split; auto.
      intros r Hr. rewrite (HM r Hr).
      assert (Cover : incl r (g tau) -> MemX T1 S r \/ exists t, In t S /\ incl r (g t)).
      { intros Hi. assert (Hg : g tau <> []) by (intros E; rewrite E in Hi; apply (incl_nil_inv r Hr); auto).
        destruct (Ic Hg) as [r0 [H0 [H1 _]]].
        destruct (existsb (seqb r0) S) eqn:E.
        - apply existsb_exists in E. destruct E as [t' [Ht' Hq]]. apply seqb_iff in Hq.
          right. exists t'. split; auto. eapply incl_tran; [exact Hi|].
          apply (H2 tau t'); [left; auto|right; auto|]. eapply incl_tran; [exact H1|apply Hq].
        - left. exists r0. repeat split; auto.
          + intros t Ht. destruct (seqb r0 t) eqn:E'; auto.
            assert (existsb (seqb r0) S = true) by (apply existsb_exists; exists t; auto). congruence.
          + eapply incl_tran; eauto. }
      split.
      + intros [[rho [Hr1 [Hr2 Hr3]]]|[t [Ht Hi]]].
        * destruct (Ia rho Hr1) as [H| ->].
          -- apply erase_In in H. left. exists rho. repeat split; try tauto.
             intros t [<-|Ht]; [tauto|auto].
          -- right. exists tau; split; [left|]; auto.
        * right. exists t; split; [right|]; auto.
      + intros [[rho [Hr1 [Hr2 Hr3]]]|[t [[<-|Ht] Hi]]].
        * destruct (subsetb rho (g tau)) eqn:E.
          -- apply subsetb_incl in E. apply Cover. eapply incl_tran; eauto.
          -- left. exists rho. repeat split; auto.
             ++ apply Ib. apply erase_In; split; auto. apply Hr2; left; auto.
                intros H; apply subsetb_incl in H; congruence.
             ++ intros t Ht; apply Hr2; right; auto.
        * apply Cover; auto.
        * right. exists t; auto.
  Qed.
End Loop.

Lemma eager_ins_props : forall T s, Inv T ->
  Inv (insert_simplex T s) /\ (forall r, In r (insert_simplex T s) -> In r T \/ r = s)
  /\ (forall r, In r T -> ~ incl r s -> In r (insert_simplex T s))
  /\ (s <> [] -> exists r0, In r0 (insert_simplex T s) /\ incl s r0 /\ (r0 = s \/ In r0 T)).
Proof. intros T s H. exact (insert_simplex_props T s H). Qed.

Definition eloop := loop insert_simplex.

Lemma eloop_ok : forall g S T, Inv T ->
  (forall t t', In t S -> In t' S -> incl (g t) t' -> incl (g t) (g t')) ->
  Inv (eloop g S T) /\ forall r, r <> [] -> (Mem (eloop g S T) r <-> MemX T S r \/ exists t, In t S /\ incl r (g t)).
Proof. intros g S T. apply (loop_ok insert_simplex Inv Inv_erase eager_ins_props g). Qed.

(* elements of T outside the snapshot t0 T x are those not containing x *)
Lemma MemX_t0 : forall T x r, MemX T (t0 T x) r <-> exists rho, In rho T /\ ~ In x rho /\ incl r rho.
Proof.
  intros T x r; unfold MemX; split; intros [rho [H1 [H2 H3]]]; exists rho; repeat split; auto.
  - intros Hx. assert (seqb rho rho = false) by (apply H2; apply t0_In; auto). rewrite seqb_refl in H; discriminate.
  - intros t Ht. apply t0_In in Ht. destruct (seqb rho t) eqn:E; auto. apply seqb_iff in E.
    exfalso. apply H2. apply E. tauto.
Qed.

(* ------------------------------------------------------------------ remove_vertex *)
Lemma remove_vertex_ok : forall T x R, Inv T -> remove_vertex T x = Some R ->
  Inv R /\ forall r, r <> [] -> (Mem R r <-> Mem T r /\ ~ In x r).
Proof.
  intros T x R HI. unfold remove_vertex. destruct (has_v T x); [|discriminate]. intros E; inversion E; clear E.
  change (fold_left (fun T0 tau => insert_simplex (erase_maximal T0 tau) (del x tau)) (t0 T x) T) with (eloop (del x) (t0 T x) T).
  destruct (eloop_ok (del x) (t0 T x) T HI) as [H1 H2].
  { intros t t' _ _ Hi y Hy. apply del_In. split; [apply Hi; auto|]. apply del_In in Hy; tauto. }
  split; auto. intros r Hr. rewrite (H2 r Hr), MemX_t0. split.
  - intros [[rho [Ha [Hb Hc]]]|[t [Ht Hi]]].
    + split; [exists rho; auto|]. intros Hx; apply Hb; auto.
    + apply t0_In in Ht. split.
      * exists t; split; [tauto|]. eapply incl_tran; [exact Hi|apply del_incl].
      * intros Hx. apply Hi in Hx. apply del_In in Hx. tauto.
  - intros [[t [Ht Hi]] Hx]. destruct (memv x t) eqn:E.
    + apply memv_In in E. right. exists t. split; [apply t0_In; auto|].
      intros y Hy. apply del_In. split; auto. intros <-; auto.
    + apply memv_false in E. left. exists t; auto.
Qed.

(* ------------------------------------------------------------------ contraction *)
Definition gcon (k d : Z) (tau : simplex) : simplex := adds k (del d tau).

Lemma gcon_In : forall k d tau y, In y (gcon k d tau) <-> y = k \/ (In y tau /\ d <> y).
Proof. intros; unfold gcon; rewrite adds_In, del_In; tauto. Qed.

Lemma contract_loop_gen : forall (ins : list simplex -> simplex -> list simplex) (P : list simplex -> Prop)
  (P_erase : forall T tau, P T -> P (erase_maximal T tau))
  (ins_props : forall T s, P T ->
    P (ins T s) /\ (forall r, In r (ins T s) -> In r T \/ r = s) /\ (forall r, In r T -> ~ incl r s -> In r (ins T s))
    /\ (s <> [] -> exists r0, In r0 (ins T s) /\ incl s r0 /\ (r0 = s \/ In r0 T)))
  T k d, P T ->
  let R := loop ins (gcon k d) (t0 T d) T in
  P R /\ forall r, r <> [] ->
    (Mem R r <-> (exists rho, In rho T /\ ~ In d rho /\ incl r rho) \/ (exists t, In t T /\ In d t /\ incl r (gcon k d t))).
Proof.
  intros ins P P_erase ins_props T k d HI R.
  destruct (loop_ok ins P P_erase ins_props (gcon k d) (t0 T d) T HI) as [H1 H2].
  { intros t t' _ _ Hi y Hy. apply gcon_In. pose proof (Hi y Hy) as Hy'. apply gcon_In in Hy. destruct Hy as [->|[Ha Hb]]; auto. }
  split; auto. intros r Hr. unfold R. rewrite (H2 r Hr), MemX_t0. split.
  - intros [H|[t [Ht Hi]]]; auto. right. apply t0_In in Ht. exists t; tauto.
  - intros [H|[t [Ht [Hd Hi]]]]; auto. right. exists t; split; auto. apply t0_In; auto.
Qed.

(* the abstract contraction, in terms of Mem *)
Lemma contract_spec_equiv : forall T k d r, d <> k -> r <> [] ->
  ((exists rho, In rho T /\ ~ In d rho /\ incl r rho) \/ (exists t, In t T /\ In d t /\ incl r (gcon k d t)))
  <-> (~ In d r /\ (Mem T r \/ (In k r /\ (Mem T (d :: del k r) \/ Mem T (d :: r))))).
Proof.
  intros T k d r Hdk Hr. split.
  - intros [[rho [H1 [H2 H3]]]|[t [H1 [H2 H3]]]].
    + split; [intros H; apply H2; auto|]. left; exists rho; auto.
    + split.
      * intros H. apply H3 in H. apply gcon_In in H. destruct H as [H|[_ H]]; congruence.
      * destruct (memv k r) eqn:Ek.
        -- apply memv_In in Ek. right. split; auto. destruct (memv k t) eqn:Et.
           ++ apply memv_In in Et. right. exists t; split; auto. intros y [<-|Hy]; auto.
              apply H3 in Hy. apply gcon_In in Hy. destruct Hy as [->|[Hy _]]; auto.
           ++ left. exists t; split; auto. intros y [<-|Hy]; auto. apply del_In in Hy. destruct Hy as [Hy Hn].
              apply H3 in Hy. apply gcon_In in Hy. destruct Hy as [->|[Hy _]]; [congruence|auto].
        -- apply memv_false in Ek. left. exists t; split; auto. intros y Hy. pose proof (H3 y Hy) as Hy'.
           apply gcon_In in Hy'. destruct Hy' as [->|[Hy' _]]; [contradiction|auto].
  - intros [Hd [[t [H1 H2]]|[Hk [[t [H1 H2]]|[t [H1 H2]]]]]].
    + destruct (memv d t) eqn:E.
      * apply memv_In in E. right. exists t; repeat split; auto. intros y Hy. apply gcon_In. right. split; auto.
        intros <-; auto.
      * apply memv_false in E. left. exists t; auto.
    + right. exists t. split; auto. split; [apply H2; left; auto|]. intros y Hy. apply gcon_In.
      destruct (Z.eq_dec y k) as [->|Hn]; auto. right. split; [|intros <-; auto].
      apply H2. right. apply del_In; split; auto.
    + right. exists t. split; auto. split; [apply H2; left; auto|]. intros y Hy. apply gcon_In.
      right. split; [apply H2; right; auto|intros <-; auto].
Qed.

(* ------------------------------------------------------------------ remove_simplex (repaired code) *)
Lemma insert_independent_ne : forall T s, s <> [] ->
  insert_independent T s = if existsb (seqb s) T then T else T ++ [s].
Proof. intros T [|x s] H; [congruence|reflexivity]. Qed.

Definition readd_step (T : state) (f : simplex) : state := if membership T f then T else insert_independent T f.
Definition remove_one (T : state) (tau s : simplex) : state :=
  fold_left readd_step (map (fun v => del v tau) s) (erase_maximal T tau).

Lemma readd_fold_props : forall T tau s ws T0, Inv T -> In tau T -> incl s tau -> incl ws s ->
  Inv T0 -> (forall rho, In rho T0 -> (In rho T /\ seqb rho tau = false) \/ exists w, In w s /\ rho = del w tau) ->
  let R := fold_left readd_step (map (fun v => del v tau) ws) T0 in
  Inv R /\ (forall rho, In rho R -> (In rho T /\ seqb rho tau = false) \/ exists w, In w s /\ rho = del w tau)
  /\ (forall rho, In rho T0 -> In rho R) /\ (forall w, In w ws -> del w tau <> [] -> Mem R (del w tau)).
Proof.
  intros T tau s ws. induction ws as [|w ws IH]; intros T0 HI Htau Hs Hws HI0 Hel; cbn [map fold_left].
  - repeat split; try apply HI0; auto. intros w [].
  - set (f := del w tau). set (T1 := readd_step T0 f).
    assert (Hw : In w s) by (apply Hws; left; auto).
    assert (Hkeep : forall rho, In rho T0 -> In rho T1).
    { intros rho Hr. unfold T1, readd_step. destruct (membership T0 f); auto. apply insert_independent_keep; auto. }
    assert (Hel1 : forall rho, In rho T1 -> (In rho T /\ seqb rho tau = false) \/ exists w, In w s /\ rho = del w tau).
    { intros rho Hr. unfold T1, readd_step in Hr. destruct (membership T0 f); auto.
      apply insert_independent_In in Hr. destruct Hr as [Hr| ->]; auto. right; exists w; auto. }
    assert (Hf : f <> [] -> Mem T1 f).
    { intros Hne. unfold T1, readd_step. destruct (membership T0 f) eqn:E.
      - apply membership_iff in E; auto.
      - rewrite insert_independent_ne by auto.
        destruct (existsb (seqb f) T0) eqn:E2.
        + apply existsb_exists in E2. destruct E2 as [t [Ht Hq]]. apply seqb_iff in Hq. exists t; tauto.
        + exists f. split; [apply in_or_app; right; left; auto|apply incl_refl]. }
    assert (HI1 : Inv T1).
    { unfold T1, readd_step. destruct (membership T0 f) eqn:E; auto.
      destruct (list_eq_dec Z.eq_dec f []) as [E0|Hne]; [rewrite E0; exact HI0|].
      rewrite insert_independent_ne by auto.
      destruct (existsb (seqb f) T0) eqn:E2; auto.
      assert (Hnm : ~ Mem T0 f) by (intros H; apply membership_iff in H; auto; congruence).
      destruct HI0 as [HN0 HA0]. split.
      - intros t Ht. apply in_app_or in Ht. destruct Ht as [Ht|[<-|[]]]; auto.
      - apply Anti_snoc; auto. intros b Hb. split; [|intros H; apply Hnm; exists b; auto].
        intros Hbf. destruct (Hel b Hb) as [[Hb1 Hb2]|[u [Hu ->]]].
        + assert (b = tau).
          { destruct HI as [_ HA]. apply (Anti_incl_eq T b tau HA Hb1 Htau).
            eapply incl_tran; [exact Hbf|apply del_incl]. }
          subst b. rewrite seqb_refl in Hb2; discriminate.
        + destruct (Z.eq_dec u w) as [->|Hn].
          * apply Hnm. exists (del w tau); split; [exact Hb|apply incl_refl].
          * assert (In w (del u tau)) by (apply del_In; split; auto).
            apply Hbf in H. apply del_In in H. tauto. }
    assert (Hws' : incl ws s) by (intros y Hy; apply Hws; right; auto).
    destruct (IH T1 HI Htau Hs Hws' HI1 Hel1) as [J1 [J2 [J3 J4]]]. repeat split; try apply J1; auto.
    intros u [<-|Hu] Hne; auto. destruct (Hf Hne) as [t [Ht Hi]]. exists t; split; auto.
Qed.

Lemma remove_one_props : forall T tau s, Inv T -> In tau T -> incl s tau ->
  let R := remove_one T tau s in
  Inv R /\ (forall rho, In rho R -> (In rho T /\ seqb rho tau = false) \/ exists w, In w s /\ rho = del w tau)
  /\ (forall rho, In rho T -> seqb rho tau = false -> In rho R) /\ (forall w, In w s -> del w tau <> [] -> Mem R (del w tau)).
Proof.
  intros T tau s HI Htau Hs. unfold remove_one.
  destruct (readd_fold_props T tau s s (erase_maximal T tau) HI Htau Hs (incl_refl s) (Inv_erase T tau HI)) as [J1 [J2 [J3 J4]]].
  { intros rho Hr. apply erase_In in Hr. auto. }
  repeat split; try apply J1; auto. intros rho Hr Hq. apply J3. apply erase_In; auto.
Qed.

Definition rbody (s : simplex) (T : state) (tau : simplex) : state := if subsetb s tau then remove_one T tau s else T.

Lemma rloop_props : forall s S T, s <> [] -> Inv T -> Anti S -> (forall t, In t S -> incl s t -> In t T) ->
  let R := fold_left (rbody s) S T in
  Inv R /\ (forall r, r <> [] -> ~ incl s r -> (Mem R r <-> Mem T r))
  /\ (forall rho, In rho R -> incl s rho -> In rho T /\ forall t, In t S -> seqb rho t = false).
Proof.
  intros s S. induction S as [|tau S IH]; intros T Hs HI HAS HST; cbn [fold_left].
  - split; [exact HI|]. split; [intros; tauto|]. intros rho Hr Hi. split; auto. intros t [].
  - cbn in HAS. destruct HAS as [HA1 HA2].
    set (T1 := rbody s T tau).
    assert (Key : Inv T1 /\ (forall r, r <> [] -> ~ incl s r -> (Mem T1 r <-> Mem T r))
                  /\ (forall rho, In rho T1 -> incl s rho -> In rho T /\ seqb rho tau = false)
                  /\ (forall rho, In rho T -> seqb rho tau = false -> In rho T1)).
    { unfold T1, rbody. destruct (subsetb s tau) eqn:E.
      - apply subsetb_incl in E. assert (Htau : In tau T) by (apply HST; auto; left; auto).
        destruct (remove_one_props T tau s HI Htau E) as [J1 [J2 [J3 J4]]].
        split; [exact J1|]. split; [|split].
        + intros r Hr Hn. split.
          * intros [t [Ht Hi]]. destruct (J2 t Ht) as [[Ha Hb]|[w [Hw ->]]].
            -- exists t; auto.
            -- exists tau; split; auto. eapply incl_tran; [exact Hi|apply del_incl].
          * intros [t [Ht Hi]]. destruct (seqb t tau) eqn:Eq.
            -- apply seqb_iff in Eq. destruct (subsetb s r) eqn:Esr; [apply subsetb_incl in Esr; contradiction|].
               apply subsetb_false in Esr. destruct Esr as [w [Hw Hnw]].
               assert (Hi' : incl r (del w tau)).
               { intros y Hy. apply del_In. split; [apply Eq; auto|intros <-; auto]. }
               assert (Hne : del w tau <> []) by (intros E0; rewrite E0 in Hi'; apply (incl_nil_inv r); auto).
               eapply Mem_mono; [apply J4; eauto|auto].
            -- exists t; split; auto.
        + intros rho Hr Hi. destruct (J2 rho Hr) as [[Ha Hb]|[w [Hw ->]]]; auto.
          exfalso. apply Hi in Hw. apply del_In in Hw. tauto.
        + intros rho Hr Hq. apply J3; auto.
      - split; [exact HI|]. split; [intros; tauto|]. split; [|auto].
        intros rho Hr Hi. split; auto.
        destruct (seqb rho tau) eqn:Eq; auto. apply seqb_iff in Eq.
        assert (subsetb s tau = true) by (apply subsetb_incl; eapply incl_tran; [exact Hi|apply Eq]). congruence. }
    destruct Key as [K1 [K2 [K3 K4]]].
    assert (HST1 : forall t, In t S -> incl s t -> In t T1).
    { intros t Ht Hi. apply K4; [apply HST; auto; right; auto|].
      destruct (seqb t tau) eqn:Eq; auto. apply seqb_iff in Eq. exfalso. destruct (HA1 t Ht) as [_ N]. apply N. apply Eq. }
    destruct (IH T1 Hs K1 HA2 HST1) as [L1 [L2 L3]]. split; [exact L1|]. split.
    + intros r Hr Hn. rewrite (L2 r Hr Hn). apply K2; auto.
    + intros rho Hr Hi. destruct (L3 rho Hr Hi) as [M1 M2]. destruct (K3 rho M1 Hi) as [N1 N2].
      split; auto. intros t [<-|Ht]; auto.
Qed.

Lemma remove_simplex_ok : forall T s, Inv T ->
  Inv (remove_simplex T s) /\ forall r, r <> [] -> (Mem (remove_simplex T s) r <-> Mem T r /\ ~ incl s r).
Proof.
  intros T s HI. unfold remove_simplex, remove_simplex_gen. destruct s as [|x s'].
  - split; [apply Inv_nil|]. intros r Hr. split; [intros [t [[] _]]|]. intros [_ H]. exfalso. apply H. intros y [].
  - set (s := x :: s'). assert (Hs : s <> []) by (unfold s; congruence).
    destruct (best_index_some T s Hs) as [v [Hv ->]].
    destruct (has_v T v) eqn:Hh.
    + change (fold_left _ (t0 T v) T) with (fold_left (rbody s) (t0 T v) T).
      destruct (rloop_props s (t0 T v) T Hs HI) as [L1 [L2 L3]].
      { apply Inv_t0. apply HI. }
      { intros t Ht _. apply t0_In in Ht; tauto. }
      split; auto. intros r Hr. destruct (subsetb s r) eqn:E.
      * apply subsetb_incl in E. split; [|tauto]. intros [t [Ht Hi]]. exfalso.
        assert (Hst : incl s t) by (eapply incl_tran; eauto).
        destruct (L3 t Ht Hst) as [M1 M2].
        assert (seqb t t = false) by (apply M2; apply t0_In; split; auto). rewrite seqb_refl in H; discriminate.
      * assert (Hn : ~ incl s r) by (intros H; apply subsetb_incl in H; congruence).
        rewrite (L2 r Hr Hn). tauto.
    + split; auto. intros r Hr. split; [|tauto]. intros H; split; auto. intros Hi. destruct H as [t [Ht Hrt]].
      assert (has_v T v = true) by (apply has_v_iff; exists t; split; auto). congruence.
Qed.

(* ------------------------------------------------------------------ the specification side of a contraction *)
Definition Rep (T : list simplex) (K : cplx) : Prop := forall r, r <> [] -> (K r = true <-> Mem T r).

Lemma spec_contract_true : forall K d k r, d <> k ->
  (spec_contract K d k r = true <->
   ~ In d r /\ (K r = true \/ (In k r /\ (K (d :: del k r) = true \/ K (d :: r) = true)))).
Proof.
  intros K d k r Hdk. unfold spec_contract. destruct (Z.eqb d k) eqn:E; [apply Z.eqb_eq in E; contradiction|].
  destruct (memv d r) eqn:Ed.
  - apply memv_In in Ed. split; [discriminate|tauto].
  - apply memv_false in Ed. destruct (memv k r) eqn:Ek.
    + apply memv_In in Ek. rewrite !orb_true_iff. tauto.
    + apply memv_false in Ek. tauto.
Qed.

Lemma contract_final : forall T K R k d, Rep T K ->
  (forall r, r <> [] ->
    (Mem R r <-> (exists rho, In rho T /\ ~ In d rho /\ incl r rho) \/ (exists t, In t T /\ In d t /\ incl r (gcon k d t)))) ->
  Rep R (spec_contract K d k).
Proof.
  intros T K R k d HK HR r Hr. rewrite (HR r Hr). destruct (Z.eq_dec d k) as [->|Hdk].
  - unfold spec_contract. rewrite Z.eqb_refl, (HK r Hr). split.
    + intros [t [Ht Hi]]. destruct (memv k t) eqn:E.
      * apply memv_In in E. right. exists t; repeat split; auto. intros y Hy. apply gcon_In.
        destruct (Z.eq_dec y k) as [->|Hn]; auto.
      * apply memv_false in E. left. exists t; auto.
    + intros [[t [Ht [_ Hi]]]|[t [Ht [Hd Hi]]]]; exists t; split; auto.
      intros y Hy. apply Hi in Hy. apply gcon_In in Hy. destruct Hy as [->|[Hy _]]; auto.
  - rewrite (contract_spec_equiv T k d r Hdk Hr), (spec_contract_true K d k r Hdk).
    assert (N1 : d :: del k r <> []) by congruence. assert (N2 : d :: r <> []) by congruence.
    rewrite (HK r Hr), (HK _ N1), (HK _ N2). tauto.
Qed.

Lemma contract_absent : forall T K k d, Rep T K -> (forall t, In t T -> ~ In d t) -> Rep T (spec_contract K d k).
Proof.
  intros T K k d HK Hab r Hr. destruct (Z.eq_dec d k) as [->|Hdk].
  - unfold spec_contract. rewrite Z.eqb_refl. apply HK; auto.
  - rewrite (spec_contract_true K d k r Hdk).
    assert (N1 : d :: del k r <> []) by congruence. assert (N2 : d :: r <> []) by congruence.
    rewrite (HK r Hr), (HK _ N1), (HK _ N2). split.
    + intros [Hd [H|[Hk [[t [Ht Hi]]|[t [Ht Hi]]]]]]; auto; exfalso; apply (Hab t Ht); apply Hi; left; auto.
    + intros H. split; auto. intros Hd. destruct H as [t [Ht Hi]]. apply (Hab t Ht); auto.
Qed.

Lemma has_v_false : forall T v, has_v T v = false -> forall t, In t T -> ~ In v t.
Proof.
  intros T v H t Ht Hv. assert (has_v T v = true) by (apply has_v_iff; exists t; auto). congruence.
Qed.

(* the vertex the specification lets disappear is the one the algorithm lets disappear *)
Lemma other_vertex : forall (c : bool) x y,
  (if Z.eqb (if c then x else y) x then y else x) = (if c then y else x) \/
  ((if c then x else y) = (if c then y else x)).
Proof.
  intros c x y. destruct c.
  - rewrite Z.eqb_refl. auto.
  - destruct (Z.eqb y x) eqn:E; auto. apply Z.eqb_eq in E. auto.
Qed.

(* ------------------------------------------------------------------ eager: every step refines the abstract operation *)
Definition Rf (T : state) (K : cplx) : Prop := Inv T /\ Rep T K.

Lemma Rep_ext : forall T K K', Rep T K -> (forall r, K' r = K r) -> Rep T K'.
Proof. intros T K K' H E r Hr. rewrite E. apply H; auto. Qed.

Lemma contraction_refines : forall T K x y, Rf T K ->
  Rf (fst (contraction T x y)) (spec_contract K (if Z.eqb (snd (contraction T x y)) x then y else x) (snd (contraction T x y))).
Proof.
  intros T K x y [HI HK]. unfold contraction.
  destruct (has_v T x) eqn:Hx; cbn [negb].
  - destruct (has_v T y) eqn:Hy; cbn [negb fst snd].
    + set (c := cnt T y <? cnt T x).
      change (fold_left _ (t0 T (if c then y else x)) T)
        with (loop insert_simplex (gcon (if c then x else y) (if c then y else x)) (t0 T (if c then y else x)) T).
      destruct (contract_loop_gen insert_simplex Inv Inv_erase eager_ins_props T (if c then x else y) (if c then y else x) HI) as [H1 H2].
      split; auto.
      destruct (other_vertex c x y) as [E|E].
      * rewrite E. eapply contract_final; eauto.
      * (* x = y: the specification identifies a vertex with itself *)
        assert (Exy : x = y) by (destruct c; congruence).
        subst y. assert (E2 : (if c then x else x) = x) by (destruct c; auto). rewrite !E2 in *. rewrite Z.eqb_refl.
        eapply contract_final; eauto.
    + rewrite Z.eqb_refl. split; auto. apply contract_absent; auto. apply has_v_false; auto.
  - cbn [fst snd]. split; auto. destruct (Z.eqb y x) eqn:E.
    + apply Z.eqb_eq in E. subst y. apply contract_absent; auto. apply has_v_false; auto.
    + apply contract_absent; auto. apply has_v_false; auto.
Qed.

Lemma step_refines : forall T K o, Rf T K -> Rf (fst (step T o)) (spec_step K o (snd (step T o))).
Proof.
  intros T K o [HI HK]. destruct o as [s|s|x|x y]; unfold step, step_gen.
  - cbn [fst snd spec_step]. destruct (insert_simplex_props T s HI) as [H1 _]. split; auto.
    intros r Hr. unfold spec_insert. rewrite orb_true_iff, andb_true_iff, (HK r Hr), nonempty_iff, subsetb_incl.
    rewrite (insert_simplex_Mem T s r HI Hr). tauto.
  - cbn [fst snd spec_step]. destruct (remove_simplex_ok T s HI) as [H1 H2]. split; auto.
    intros r Hr. unfold spec_remove. rewrite andb_true_iff, negb_true_iff, (HK r Hr).
    change (remove_simplex_gen true T s) with (remove_simplex T s). rewrite (H2 r Hr).
    rewrite <- not_true_iff_false, subsetb_incl. tauto.
  - cbn [fst snd spec_step]. destruct (remove_vertex T x) as [R|] eqn:E.
    + destruct (remove_vertex_ok T x R HI E) as [H1 H2]. split; auto.
      intros r Hr. unfold spec_remove_vertex. rewrite andb_true_iff, negb_true_iff, (HK r Hr), (H2 r Hr).
      rewrite <- not_true_iff_false, memv_In. tauto.
    + split; auto. intros r Hr. unfold spec_remove_vertex. rewrite andb_true_iff, negb_true_iff, (HK r Hr).
      rewrite <- not_true_iff_false, memv_In. unfold remove_vertex in E. destruct (has_v T x) eqn:Hx; [discriminate|].
      split; [tauto|]. intros H; split; auto. destruct H as [t [Ht Hi]]. intros Hxr.
      apply (has_v_false T x Hx t Ht); auto.
  - pose proof (contraction_refines T K x y (conj HI HK)) as H.
    destruct (contraction T x y) as [T' k]. exact H.
Qed.

Lemma Rf_init : Rf [] spec_empty.
Proof. split; [apply Inv_nil|]. intros r Hr. unfold spec_empty. split; [discriminate|]. intros [t [[] _]]. Qed.

Lemma run_gen_refines : forall h T K, Rf T K -> Rf (fst (run_gen true T K h)) (snd (run_gen true T K h)).
Proof.
  induction h as [|o h IH]; intros T K H; cbn [run_gen]; auto.
  pose proof (step_refines T K o H) as H1. change (step_gen true T o) with (step T o).
  destruct (step T o) as [T' ret]. apply IH. exact H1.
Qed.

Lemma run_refines : forall h, Rf (fst (run h)) (snd (run h)).
Proof. intros h. apply run_gen_refines. apply Rf_init. Qed.

Theorem membership_spec : forall h r, r <> [] -> membership (fst (run h)) r = snd (run h) r.
Proof.
  intros h r Hr. destruct (run_refines h) as [_ HK]. apply eq_true_iff_eq.
  rewrite (HK r Hr). apply membership_iff; auto.
Qed.

Lemma Anti_NoDup : forall T, Anti T -> NoDup T.
Proof.
  induction T as [|a T IH]; cbn; intros H; constructor.
  - intros Ha. destruct H as [H _]. destruct (H a Ha) as [N _]. apply N. apply incl_refl.
  - apply IH. apply H.
Qed.

Theorem antichain_invariant : forall h,
  let T := fst (run h) in
  NoDup T /\ (forall t, In t T -> t <> []) /\ (forall a b, In a T -> In b T -> incl a b -> a = b).
Proof.
  intros h T. destruct (run_refines h) as [[HN HA] _]. fold T in HN, HA. repeat split; auto.
  - apply Anti_NoDup; auto.
  - intros a b; apply Anti_incl_eq; auto.
Qed.

(* a non-empty simplex is stored iff it is a maximal simplex of the abstract complex *)
Theorem toplexes_are_maximal_simplices : forall h t, t <> [] ->
  let T := fst (run h) in let K := snd (run h) in
  (maximality T t = true <-> K t = true /\ forall r, K r = true -> incl t r -> incl r t).
Proof.
  intros h t Ht T K. destruct (run_refines h) as [[HN HA] HK]. fold T in HN, HA, HK. fold K in HK.
  rewrite (maximality_iff T t Ht). split.
  - intros [tau [Htau Hq]]. apply seqb_iff in Hq. destruct Hq as [Q1 Q2]. split.
    + apply HK; auto. exists tau; auto.
    + intros r Hr Hi. assert (Hrn : r <> []) by (intros ->; apply (incl_nil_inv t Ht); auto).
      apply HK in Hr; auto. destruct Hr as [t2 [H2 Hi2]].
      assert (tau = t2). { apply (Anti_incl_eq T tau t2 HA Htau H2). eapply incl_tran; [exact Q2|]. eapply incl_tran; eauto. }
      subst t2. eapply incl_tran; eauto.
  - intros [Hk Hmax]. apply HK in Hk; auto. destruct Hk as [tau [Htau Hi]]. exists tau; split; auto.
    apply seqb_iff; split; auto. apply Hmax; auto. apply HK; [apply HN; auto|]. exists tau; split; auto. apply incl_refl.
Qed.

Theorem stored_are_maximal : forall h t, In t (fst (run h)) -> 
  snd (run h) t = true /\ forall r, snd (run h) r = true -> incl t r -> incl r t.
Proof.
  intros h t Ht. destruct (run_refines h) as [[HN HA] HK].
  apply (toplexes_are_maximal_simplices h t (HN t Ht)). apply maximality_iff; [apply HN; auto|].
  exists t; split; auto. apply seqb_refl.
Qed.

(* maximal_cofaces(s) lists, up to equality of sets, the stored simplices containing s; maximal_simplices() = the state *)
Theorem maximal_cofaces_spec : forall h s rho, s <> [] ->
  let T := fst (run h) in
  ((exists c, In c (maximal_cofaces T s) /\ seqb rho c = true) <-> (exists t, In t T /\ seqb rho t = true /\ incl s t)).
Proof.
  intros h s rho Hs T. destruct (run_refines h) as [[HN HA] _]. fold T in HN, HA.
  unfold maximal_cofaces. destruct (maximality T s) eqn:Hm.
  - apply maximality_iff in Hm; auto. destruct Hm as [tau [Htau Hq]]. apply seqb_iff in Hq. split.
    + intros [c [[<-|[]] Hc]]. apply seqb_iff in Hc. exists tau. split; auto. split; [|tauto].
      apply seqb_iff. split; eapply incl_tran; try apply Hc; tauto.
    + intros [t [Ht [Hqt Hi]]]. assert (tau = t). { apply (Anti_incl_eq T tau t HA Htau Ht). eapply incl_tran; [apply Hq|auto]. }
      subst t. exists s. split; [left; auto|]. apply seqb_iff in Hqt. apply seqb_iff. split; eapply incl_tran; try apply Hqt; tauto.
  - destruct s as [|x s']; [congruence|]. set (s := x :: s') in *.
    destruct (best_index_some T s Hs) as [v [Hv ->]]. destruct (has_v T v) eqn:Hh.
    + split.
      * intros [c [Hc Hq]]. apply filter_In in Hc. destruct Hc as [Hc1 Hc2]. apply t0_In in Hc1. apply subsetb_incl in Hc2.
        exists c; tauto.
      * intros [t [Ht [Hq Hi]]]. exists t. split; auto. apply filter_In. split; [apply t0_In; split; auto|apply subsetb_incl; auto].
    + split; [intros [c [[] _]]|]. intros [t [Ht [Hq Hi]]]. exfalso. apply (has_v_false T v Hh t Ht); auto.
Qed.

Theorem maximal_simplices_is_state : forall T, maximal_cofaces T [] = T.
Proof. reflexivity. Qed.

(* the code as found: removing {1} from the complex of {1,2,3} also removes {2,3} *)
Theorem remove_simplex_as_found_refuted :
  exists h r, r <> [] /\ membership (fst (run_as_found h)) r <> snd (run_as_found h) r.
Proof.
  exists [Ins [1; 2; 3]; Rem [1]], [2; 3]. split; [congruence|]. vm_compute. congruence.
Qed.

(* ================================================================== lazy variant *)
Lemma l_membership_iff : forall E s, s <> [] -> (l_membership E s = true <-> Mem E s).
Proof.
  intros E s Hs. unfold l_membership. destruct (best_index_some E s Hs) as [v [Hv ->]].
  destruct (has_v E v) eqn:Hh.
  - rewrite existsb_exists. split.
    + intros [t [Ht Hq]]. apply t0_In in Ht. exists t; split; [tauto|]. apply subsetb_incl; auto.
    + intros [t [Ht Hq]]. exists t; split; [apply t0_In; split; auto|apply subsetb_incl; auto].
  - split; [discriminate|]. intros [t [Ht Hq]]. exfalso. apply (has_v_false E v Hh t Ht); auto.
Qed.

Lemma l_insert_ne : forall E s, s <> [] -> l_insert E s = if existsb (seqb s) E then E else E ++ [s].
Proof. intros E [|x s] H; [congruence|reflexivity]. Qed.

Lemma l_insert_props : forall E s, True ->
  True /\ (forall r, In r (l_insert E s) -> In r E \/ r = s) /\ (forall r, In r E -> ~ incl r s -> In r (l_insert E s))
  /\ (s <> [] -> exists r0, In r0 (l_insert E s) /\ incl s r0 /\ (r0 = s \/ In r0 E)).
Proof.
  intros E s _. split; auto. destruct (list_eq_dec Z.eq_dec s []) as [->|Hs].
  - cbn. repeat split; auto. congruence.
  - rewrite (l_insert_ne E s Hs). destruct (existsb (seqb s) E) eqn:Eq.
    + repeat split; auto. intros _. apply existsb_exists in Eq. destruct Eq as [t [Ht Hq]]. apply seqb_iff in Hq.
      exists t; tauto.
    + repeat split.
      * intros r Hr. apply in_app_or in Hr. destruct Hr as [Hr|[<-|[]]]; auto.
      * intros r Hr _. apply in_or_app; auto.
      * intros _. exists s. split; [apply in_or_app; right; left; auto|split; [apply incl_refl|auto]].
Qed.

Lemma l_insert_keep : forall E s r, In r E -> In r (l_insert E s).
Proof.
  intros E s r Hr. destruct (list_eq_dec Z.eq_dec s []) as [->|Hs]; auto.
  rewrite (l_insert_ne E s Hs). destruct (existsb (seqb s) E); auto. apply in_or_app; auto.
Qed.

Lemma l_insert_Mem : forall E s r, r <> [] -> (Mem (l_insert E s) r <-> Mem E r \/ incl r s).
Proof.
  intros E s r Hr. destruct (l_insert_props E s I) as [_ [I2 [_ I4]]]. split.
  - intros [t [Ht Hi]]. destruct (I2 t Ht) as [H| ->]; [left; exists t|right]; auto.
  - intros [[t [Ht Hi]]|Hi].
    + exists t; split; auto. apply l_insert_keep; auto.
    + assert (Hs : s <> []) by (intros ->; apply (incl_nil_inv r Hr); auto).
      destruct (I4 Hs) as [r0 [H0 [H1 _]]]. exists r0; split; auto. eapply incl_tran; eauto.
Qed.

Lemma l_insert_fold_Mem : forall fs E r, r <> [] ->
  (Mem (fold_left l_insert fs E) r <-> Mem E r \/ exists f, In f fs /\ incl r f).
Proof.
  induction fs as [|f fs IH]; intros E r Hr; cbn [fold_left].
  - split; auto. intros [H|[f [[] _]]]; auto.
  - rewrite (IH _ r Hr), (l_insert_Mem E f r Hr). split.
    + intros [[H|H]|[g [Hg Hi]]]; auto; right; [exists f|exists g]; split; auto; [left|right]; auto.
    + intros [H|[g [[<-|Hg] Hi]]]; auto. right; exists g; auto.
Qed.

Lemma l_insert_fold_In : forall fs E r, In r (fold_left l_insert fs E) -> In r E \/ In r fs.
Proof.
  induction fs as [|f fs IH]; intros E r H; cbn [fold_left] in H; auto.
  destruct (IH _ _ H) as [H1|H1]; [|right; right; auto].
  destruct (l_insert_props E f I) as [_ [I2 _]]. destruct (I2 r H1) as [H2| ->]; auto. right; left; auto.
Qed.

Lemma l_insert_fold_keep : forall fs E r, In r E -> In r (fold_left l_insert fs E).
Proof. induction fs as [|f fs IH]; intros E r H; cbn [fold_left]; auto. apply IH. apply l_insert_keep; auto. Qed.

(* remove_simplex *)
Definition lbody (s : simplex) (E : list simplex) (tau : simplex) : list simplex :=
  if subsetb s tau then fold_left l_insert (map (fun v => del v tau) s) (l_erase E tau) else E.

Lemma l_erase_In : forall E tau r, In r (l_erase E tau) <-> In r E /\ seqb r tau = false.
Proof. intros; unfold l_erase; rewrite filter_In, negb_true_iff; tauto. Qed.

Lemma lloop_props : forall s S E, s <> [] ->
  (forall t, In t S -> incl s t -> forall w, In w s -> del w t <> [] -> Mem E (del w t)) ->
  let R := fold_left (lbody s) S E in
  (forall r, r <> [] -> ~ incl s r -> (Mem R r <-> Mem E r))
  /\ (forall rho, In rho R -> incl s rho -> In rho E /\ forall t, In t S -> seqb rho t = false).
Proof.
  intros s S. induction S as [|tau S IH]; intros E Hs HS; cbn [fold_left].
  - split; [intros; tauto|]. intros rho Hr Hi. split; auto. intros t [].
  - set (E1 := lbody s E tau).
    assert (Key : (forall r, r <> [] -> ~ incl s r -> (Mem E1 r <-> Mem E r))
                  /\ (forall rho, In rho E1 -> incl s rho -> In rho E /\ seqb rho tau = false)).
    { unfold E1, lbody. destruct (subsetb s tau) eqn:Est.
      - apply subsetb_incl in Est. split.
        + intros r Hr Hn. rewrite (l_insert_fold_Mem _ _ r Hr). split.
          * intros [[t [Ht Hi]]|[f [Hf Hi]]].
            -- apply l_erase_In in Ht. exists t; tauto.
            -- apply in_map_iff in Hf. destruct Hf as [w [<- Hw]].
               assert (Hne : del w tau <> []) by (intros E0; rewrite E0 in Hi; apply (incl_nil_inv r); auto).
               eapply Mem_mono; [exact (HS tau (or_introl eq_refl) Est w Hw Hne)|auto].
          * intros [t [Ht Hi]]. destruct (seqb t tau) eqn:Eq.
            -- apply seqb_iff in Eq. destruct (subsetb s r) eqn:Esr; [apply subsetb_incl in Esr; contradiction|].
               apply subsetb_false in Esr. destruct Esr as [w [Hw Hnw]].
               right. exists (del w tau). split; [apply in_map_iff; exists w; auto|].
               intros y Hy. apply del_In. split; [apply Eq; auto|intros <-; auto].
            -- left. exists t; split; auto. apply l_erase_In; auto.
        + intros rho Hr Hi. apply l_insert_fold_In in Hr. destruct Hr as [Hr|Hr].
          * apply l_erase_In in Hr; auto.
          * apply in_map_iff in Hr. destruct Hr as [w [<- Hw]]. exfalso. apply Hi in Hw. apply del_In in Hw. tauto.
      - split; [intros; tauto|]. intros rho Hr Hi. split; auto.
        destruct (seqb rho tau) eqn:Eq; auto. apply seqb_iff in Eq.
        assert (subsetb s tau = true) by (apply subsetb_incl; eapply incl_tran; [exact Hi|apply Eq]). congruence. }
    destruct Key as [K1 K2].
    assert (HS1 : forall t, In t S -> incl s t -> forall w, In w s -> del w t <> [] -> Mem E1 (del w t)).
    { intros t Ht Hi w Hw Hne. apply K1; auto.
      - intros H. apply H in Hw. apply del_In in Hw. tauto.
      - apply HS; auto. right; auto. }
    destruct (IH E1 Hs HS1) as [L1 L2]. split.
    + intros r Hr Hn. rewrite (L1 r Hr Hn). apply K1; auto.
    + intros rho Hr Hi. destruct (L2 rho Hr Hi) as [M1 M2]. destruct (K2 rho M1 Hi) as [N1 N2].
      split; auto. intros t [<-|Ht]; auto.
Qed.

Lemma l_remove_ok : forall E s r, r <> [] -> (Mem (l_remove_gen true E s) r <-> Mem E r /\ ~ incl s r).
Proof.
  intros E s r Hr. unfold l_remove_gen. destruct s as [|x s'].
  - split; [intros [t [[] _]]|]. intros [_ H]. exfalso. apply H. intros y [].
  - set (s := x :: s'). assert (Hs : s <> []) by (unfold s; congruence).
    destruct (best_index_some E s Hs) as [v [Hv ->]]. destruct (has_v E v) eqn:Hh.
    + change (fold_left _ (t0 E v) E) with (fold_left (lbody s) (t0 E v) E).
      destruct (lloop_props s (t0 E v) E Hs) as [L1 L2].
      { intros t Ht _ w _ _. apply t0_In in Ht. exists t; split; [tauto|apply del_incl]. }
      destruct (subsetb s r) eqn:Esr.
      * apply subsetb_incl in Esr. split; [|tauto]. intros [t [Ht Hi]]. exfalso.
        assert (Hst : incl s t) by (eapply incl_tran; eauto).
        destruct (L2 t Ht Hst) as [M1 M2].
        assert (seqb t t = false) by (apply M2; apply t0_In; split; auto). rewrite seqb_refl in H; discriminate.
      * assert (Hn : ~ incl s r) by (intros H; apply subsetb_incl in H; congruence).
        rewrite (L1 r Hr Hn). tauto.
    + split; [|tauto]. intros H; split; auto. intros Hi. destruct H as [t [Ht Hrt]].
      apply (has_v_false E v Hh t Ht); auto.
Qed.

(* clean(v) is invisible *)
Lemma fold_max_ge : forall l a x, (In x l \/ (x <= a)%nat) -> (x <= fold_left Nat.max l a)%nat.
Proof.
  induction l as [|y l IH]; intros a x H; cbn [fold_left].
  - destruct H as [[]|H]; auto.
  - apply IH. destruct H as [[->|H]|H]; auto; right; lia.
Qed.

Lemma dedup_nonempty : forall l, l <> [] -> dedup l <> [].
Proof.
  induction l as [|x l IH]; intros H; [congruence|]. cbn. destruct (memv x l) eqn:E; [|congruence].
  apply IH. intros ->. cbn in E. discriminate.
Qed.

Definition tops_step (acc : state) (s : simplex) : state := if membership acc s then acc else insert_independent acc s.

Lemma tops_step_keep : forall acc s r, In r acc -> In r (tops_step acc s).
Proof. intros; unfold tops_step. destruct (membership acc s); auto. apply insert_independent_keep; auto. Qed.

Lemma tops_step_In : forall acc s r, In r (tops_step acc s) -> In r acc \/ r = s.
Proof. intros acc s r; unfold tops_step. destruct (membership acc s); auto. apply insert_independent_In. Qed.

Lemma tops_step_Mem : forall acc s, s <> [] -> Mem (tops_step acc s) s.
Proof.
  intros acc s Hs. unfold tops_step. destruct (membership acc s) eqn:E.
  - apply membership_iff in E; auto.
  - rewrite insert_independent_ne by auto. destruct (existsb (seqb s) acc) eqn:E2.
    + apply existsb_exists in E2. destruct E2 as [t [Ht Hq]]. apply seqb_iff in Hq. exists t; tauto.
    + exists s; split; [apply in_or_app; right; left; auto|apply incl_refl].
Qed.

Lemma tops_inner : forall L acc,
  let R := fold_left tops_step L acc in
  (forall r, In r acc -> In r R) /\ (forall r, In r R -> In r acc \/ In r L) /\ (forall s, In s L -> s <> [] -> Mem R s).
Proof.
  induction L as [|s L IH]; intros acc; cbn [fold_left].
  - repeat split; auto. intros s [].
  - destruct (IH (tops_step acc s)) as [I1 [I2 I3]]. repeat split.
    + intros r Hr. apply I1. apply tops_step_keep; auto.
    + intros r Hr. destruct (I2 r Hr) as [H|H]; [|right; right; auto].
      destruct (tops_step_In _ _ _ H) as [H1| ->]; auto. right; left; auto.
    + intros u [<-|Hu] Hne; auto. destruct (tops_step_Mem acc s Hne) as [t [Ht Hi]]. exists t; split; auto.
Qed.

Lemma tops_outer : forall (S : list simplex) ds acc,
  let R := fold_left (fun acc d => fold_left tops_step (filter (fun s => Nat.eqb (card s) d) S) acc) ds acc in
  (forall r, In r acc -> In r R) /\ (forall r, In r R -> In r acc \/ In r S)
  /\ (forall s, In s S -> s <> [] -> In (card s) ds -> Mem R s).
Proof.
  intros S. induction ds as [|d ds IH]; intros acc; cbn [fold_left].
  - repeat split; auto. intros s _ _ [].
  - set (acc1 := fold_left tops_step (filter (fun s => Nat.eqb (card s) d) S) acc).
    destruct (tops_inner (filter (fun s => Nat.eqb (card s) d) S) acc) as [J1 [J2 J3]]. fold acc1 in J1, J2, J3.
    destruct (IH acc1) as [I1 [I2 I3]]. repeat split.
    + intros r Hr. apply I1. apply J1; auto.
    + intros r Hr. destruct (I2 r Hr) as [H|H]; auto. destruct (J2 r H) as [H1|H1]; auto.
      apply filter_In in H1. tauto.
    + intros s Hs Hne [Hd|Hd]; auto. subst d.
      assert (Mem acc1 s). { apply J3; auto. apply filter_In. split; auto. apply Nat.eqb_refl. }
      destruct H as [t [Ht Hi]]. exists t; split; auto.
Qed.

Lemma clean_tops_props : forall S,
  (forall r, In r (clean_tops S) -> In r S) /\ (forall s, In s S -> s <> [] -> Mem (clean_tops S) s).
Proof.
  intros S. unfold clean_tops.
  destruct (tops_outer S (rev (seq 1 (fold_left Nat.max (map card S) 0%nat))) []) as [I1 [I2 I3]]. split.
  - intros r Hr. destruct (I2 r Hr) as [[]|H]; auto.
  - intros s Hs Hne. apply I3; auto. apply in_rev. rewrite rev_involutive. apply in_seq.
    assert (1 <= card s)%nat.
    { unfold card. pose proof (dedup_nonempty s Hne). destruct (dedup s); [congruence|cbn; lia]. }
    assert (card s <= fold_left Nat.max (map card S) 0)%nat by (apply fold_max_ge; left; apply in_map; auto).
    lia.
Qed.

Lemma fold_l_erase_In : forall S E r, In r (fold_left l_erase S E) <-> In r E /\ forall t, In t S -> seqb r t = false.
Proof.
  induction S as [|t S IH]; intros E r; cbn [fold_left].
  - split; [intros H; split; auto; intros t []|tauto].
  - rewrite IH, l_erase_In. split.
    + intros [[H1 H2] H3]. split; auto. intros g [<-|Hg]; auto.
    + intros [H1 H2]. split; [split|]; auto. apply H2; left; auto. intros g Hg; apply H2; right; auto.
Qed.

Lemma l_clean_ok : forall E v r, r <> [] -> (Mem (l_clean E v) r <-> Mem E r).
Proof.
  intros E v r Hr. unfold l_clean. rewrite (l_insert_fold_Mem _ _ r Hr).
  destruct (clean_tops_props (t0 E v)) as [C1 C2]. split.
  - intros [[t [Ht Hi]]|[f [Hf Hi]]].
    + apply fold_l_erase_In in Ht. exists t; tauto.
    + apply C1 in Hf. apply t0_In in Hf. exists f; tauto.
  - intros [t [Ht Hi]]. destruct (existsb (seqb t) (t0 E v)) eqn:Eq.
    + apply existsb_exists in Eq. destruct Eq as [u [Hu Hq]]. apply seqb_iff in Hq.
      assert (Hun : u <> []). { intros ->. apply (incl_nil_inv r Hr). eapply incl_tran; [exact Hi|apply Hq]. }
      destruct (C2 u Hu Hun) as [c [Hc Hic]]. right. exists c; split; auto.
      eapply incl_tran; [exact Hi|]. eapply incl_tran; [apply Hq|auto].
    + left. exists t; split; auto. apply fold_l_erase_In. split; auto.
      intros u Hu. destruct (seqb t u) eqn:E2; auto.
      assert (existsb (seqb t) (t0 E v) = true) by (apply existsb_exists; exists u; auto). congruence.
Qed.

(* contraction *)
Lemma l_contract_ok : forall E K x y k, Rep E K -> l_survivor_ok E x y k = true ->
  Rep (l_contract E x y k) (spec_contract K (if Z.eqb k x then y else x) k).
Proof.
  intros E K x y k HK Hok. unfold l_contract, l_survivor_ok in *.
  destruct (has_v E x) eqn:Hx; cbn [negb orb] in *.
  - destruct (has_v E y) eqn:Hy; cbn [negb] in *.
    + unfold l_contraction.
      change (fold_left _ (t0 E (if Z.eqb k x then y else x)) E)
        with (loop l_insert (gcon k (if Z.eqb k x then y else x)) (t0 E (if Z.eqb k x then y else x)) E).
      destruct (contract_loop_gen l_insert (fun _ => True) (fun _ _ _ => I) l_insert_props E k (if Z.eqb k x then y else x) I) as [_ H2].
      eapply contract_final; eauto.
    + apply Z.eqb_eq in Hok. subst k. rewrite Z.eqb_refl. apply contract_absent; auto. apply has_v_false; auto.
  - apply Z.eqb_eq in Hok. subst k. destruct (Z.eqb y x) eqn:Eyx.
    + apply Z.eqb_eq in Eyx. subst y. apply contract_absent; auto. apply has_v_false; auto.
    + apply contract_absent; auto. apply has_v_false; auto.
Qed.

Lemma l_step_refines : forall E K o, Rep E K -> l_ok E o = true -> Rep (l_step true E o) (l_spec K o).
Proof.
  intros E K o HK Hok. destruct o as [[s|s|x|x y] k|v]; cbn [l_step l_spec spec_step].
  - intros r Hr. unfold spec_insert. rewrite orb_true_iff, andb_true_iff, (HK r Hr), nonempty_iff, subsetb_incl.
    rewrite (l_insert_Mem E s r Hr). tauto.
  - intros r Hr. unfold spec_remove. rewrite andb_true_iff, negb_true_iff, (HK r Hr), (l_remove_ok E s r Hr).
    rewrite <- not_true_iff_false, subsetb_incl. tauto.
  - intros r Hr. unfold spec_remove_vertex. rewrite andb_true_iff, negb_true_iff, (HK r Hr), (l_remove_ok E [x] r Hr).
    rewrite <- not_true_iff_false, memv_In. split; intros [H1 H2]; split; auto.
    + intros Hi. apply H2. apply Hi; left; auto.
    + intros Hx. apply H2. intros y [<-|[]]; auto.
  - apply l_contract_ok; auto.
  - intros r Hr. rewrite (l_clean_ok E v r Hr). apply HK; auto.
Qed.

Lemma l_run_from_refines : forall h E K, Rep E K ->
  let '(E', K', b) := l_run_from E K h in b = true -> Rep E' K'.
Proof.
  induction h as [|o h IH]; intros E K HK; cbn [l_run_from]; auto.
  specialize (IH (l_step true E o) (l_spec K o)).
  destruct (l_run_from (l_step true E o) (l_spec K o) h) as [[E' K'] b].
  intros Hb. apply andb_true_iff in Hb. destruct Hb as [Hb1 Hb2]. apply IH; auto. apply l_step_refines; auto.
Qed.

Theorem lazy_membership_spec : forall h E K b, l_run h = (E, K, b) -> b = true ->
  forall r, r <> [] -> l_membership E r = K r.
Proof.
  intros h E K b Hrun Hb r Hr. pose proof (l_run_from_refines h [] spec_empty (proj2 Rf_init)) as H.
  unfold l_run in Hrun. rewrite Hrun in H. apply eq_true_iff_eq. rewrite (H Hb r Hr). apply l_membership_iff; auto.
Qed.

(* both variants on the same history, cleaning steps interleaved arbitrarily *)
Lemma both_run_refines : forall h T E K, Rf T K -> Rep E K ->
  let '(T', E', b) := both_run_from T E h in b = true -> exists K', Rf T' K' /\ Rep E' K'.
Proof.
  induction h as [|o h IH]; intros T E K HT HE; cbn [both_run_from].
  - intros _. exists K; auto.
  - destruct o as [o k|v].
    + pose proof (step_refines T K o HT) as H1. destruct (step T o) as [T1 ret] eqn:Est. cbn [fst snd] in H1.
      specialize (IH T1 (l_step true E (LOp o k)) (spec_step K o ret) H1).
      destruct (both_run_from T1 (l_step true E (LOp o k)) h) as [[T2 E2] b].
      intros Hb. apply andb_true_iff in Hb. destruct Hb as [Hb Hb3]. apply andb_true_iff in Hb. destruct Hb as [Hb1 Hb2].
      apply IH; auto.
      assert (Esp : spec_step K o ret = l_spec K (LOp o k)).
      { destruct o as [s|s|x|x y]; cbn [l_spec spec_step]; auto. cbn [same_ret] in Hb2.
        destruct ret as [k'|]; [|discriminate]. apply Z.eqb_eq in Hb2. subst k'. reflexivity. }
      rewrite Esp. apply l_step_refines; auto.
    + specialize (IH T (l_clean E v) K HT). destruct (both_run_from T (l_clean E v) h) as [[T2 E2] b].
      apply IH. intros r Hr. rewrite (l_clean_ok E v r Hr). apply HE; auto.
Qed.

Theorem lazy_eq_eager : forall h T E b, both_run h = (T, E, b) -> b = true ->
  forall r, r <> [] -> l_membership E r = membership T r.
Proof.
  intros h T E b Hrun Hb r Hr. pose proof (both_run_refines h [] [] spec_empty Rf_init (proj2 Rf_init)) as H.
  unfold both_run in Hrun. rewrite Hrun in H. destruct (H Hb) as [K [[_ H1] H2]].
  apply eq_true_iff_eq. rewrite (l_membership_iff E r Hr), (membership_iff T r Hr), <- (H1 r Hr), <- (H2 r Hr). tauto.
Qed.

Theorem lazy_cleaning_invisible : forall E v r, r <> [] -> l_membership (l_clean E v) r = l_membership E r.
Proof.
  intros E v r Hr. apply eq_true_iff_eq. rewrite !l_membership_iff by auto. apply l_clean_ok; auto.
Qed.

(* the closed form of spec_contract is the image of the complex under the vertex map d |-> k *)
Definition vmap (d k : Z) (t : simplex) : simplex := map (fun v => if Z.eqb v d then k else v) t.
Definition Respects (K : cplx) : Prop := forall a b, incl a b -> incl b a -> K a = K b.

Lemma vmap_In : forall d k t y, In y (vmap d k t) <-> exists v, In v t /\ y = (if Z.eqb v d then k else v).
Proof. intros; unfold vmap; rewrite in_map_iff. split; intros [v [H1 H2]]; exists v; auto. Qed.

Theorem spec_contract_is_image : forall K d k r, d <> k -> Respects K ->
  (spec_contract K d k r = true <-> exists t, K t = true /\ incl (vmap d k t) r /\ incl r (vmap d k t)).
Proof.
  intros K d k r Hdk HR. rewrite (spec_contract_true K d k r Hdk). split.
  - intros [Hd [H|[Hk [H|H]]]].
    + exists r. split; auto. split; intros y Hy.
      * apply vmap_In in Hy. destruct Hy as [v [Hv ->]]. destruct (Z.eqb v d) eqn:E; auto. apply Z.eqb_eq in E; subst; contradiction.
      * apply vmap_In. exists y. split; auto. destruct (Z.eqb y d) eqn:E; auto. apply Z.eqb_eq in E; subst; contradiction.
    + exists (d :: del k r). split; auto. split; intros y Hy.
      * apply vmap_In in Hy. destruct Hy as [v [[<-|Hv] ->]]; [rewrite Z.eqb_refl; auto|].
        apply del_In in Hv. destruct (Z.eqb v d) eqn:E; [auto|tauto].
      * apply vmap_In. destruct (Z.eq_dec y k) as [->|Hn].
        -- exists d. split; [left; auto|rewrite Z.eqb_refl; auto].
        -- exists y. split; [right; apply del_In; auto|]. destruct (Z.eqb y d) eqn:E; auto. apply Z.eqb_eq in E; subst; contradiction.
    + exists (d :: r). split; auto. split; intros y Hy.
      * apply vmap_In in Hy. destruct Hy as [v [[<-|Hv] ->]]; [rewrite Z.eqb_refl; auto|].
        destruct (Z.eqb v d) eqn:E; auto.
      * apply vmap_In. exists y. split; [right; auto|]. destruct (Z.eqb y d) eqn:E; auto. apply Z.eqb_eq in E; subst; contradiction.
  - intros [t [Ht [H1 H2]]].
    assert (Hd : ~ In d r).
    { intros Hd. apply H2 in Hd. apply vmap_In in Hd. destruct Hd as [v [Hv E]]. destruct (Z.eqb v d) eqn:E2; [congruence|].
      apply Z.eqb_neq in E2. congruence. }
    split; auto.
    assert (Hsub : forall y, In y t -> y <> d -> In y r).
    { intros y Hy Hn. apply H1. apply vmap_In. exists y. split; auto. apply Z.eqb_neq in Hn. rewrite Hn; auto. }
    assert (Hback : forall y, In y r -> y <> k -> In y t).
    { intros y Hy Hn. apply H2 in Hy. apply vmap_In in Hy. destruct Hy as [v [Hv E]]. destruct (Z.eqb v d); congruence. }
    destruct (memv d t) eqn:Edt.
    + apply memv_In in Edt. assert (Hk : In k r).
      { apply H1. apply vmap_In. exists d. split; auto. rewrite Z.eqb_refl; auto. }
      right. split; auto. destruct (memv k t) eqn:Ekt.
      * apply memv_In in Ekt. right. rewrite <- Ht. apply HR; intros y Hy.
        -- destruct Hy as [<-|Hy]; auto. destruct (Z.eq_dec y k) as [->|Hn]; auto.
        -- destruct (Z.eq_dec y d) as [->|Hn]; [left; auto|right; auto].
      * apply memv_false in Ekt. left. rewrite <- Ht. apply HR; intros y Hy.
        -- destruct Hy as [<-|Hy]; auto. apply del_In in Hy. apply Hback; [tauto|]. intros ->; tauto.
        -- destruct (Z.eq_dec y d) as [->|Hn]; [left; auto|right]. apply del_In. split; auto. intros <-; auto.
    + apply memv_false in Edt. left. rewrite <- Ht. apply HR; intros y Hy.
      * destruct (Z.eq_dec y k) as [->|Hn]; auto.
        apply H2 in Hy. apply vmap_In in Hy. destruct Hy as [v [Hv E]]. destruct (Z.eqb v d) eqn:E2.
        -- apply Z.eqb_eq in E2; subst; contradiction.
        -- subst; auto.
      * apply Hsub; auto. intros ->; auto.
Qed.

(* the vertices counted by num_vertices are the vertices of the abstract complex, each once *)
Lemma dedup_In : forall l x, In x (dedup l) <-> In x l.
Proof.
  induction l as [|y l IH]; intros x; cbn; [tauto|]. destruct (memv y l) eqn:E.
  - rewrite IH. apply memv_In in E. split; auto. intros [<-|H]; auto.
  - cbn. rewrite IH. tauto.
Qed.

Lemma dedup_NoDup : forall l, NoDup (dedup l).
Proof.
  induction l as [|y l IH]; cbn; [constructor|]. destruct (memv y l) eqn:E; auto.
  constructor; auto. rewrite dedup_In. apply memv_false; auto.
Qed.

Theorem vertices_spec : forall h v,
  NoDup (vertices (fst (run h))) /\ (In v (vertices (fst (run h))) <-> snd (run h) [v] = true).
Proof.
  intros h v. split; [apply dedup_NoDup|]. destruct (run_refines h) as [_ HK].
  assert (Hv : [v] <> []) by congruence. rewrite (HK [v] Hv). unfold vertices. rewrite dedup_In, in_concat. split.
  - intros [t [Ht Hi]]. exists t; split; auto. intros y [<-|[]]; auto.
  - intros [t [Ht Hi]]. exists t; split; auto. apply Hi; left; auto.
Qed.
