(* C17 - skeleton-blocker complexes.  Model file: definitions only (no proofs), everything here is extracted.

   Part 1  finite sets of vertices as lists of Z (simplices are kept strictly increasing by the operations)
   Part 2  ALGORITHM MODEL: transcription of Skeleton_blocker_complex.h / Skeleton_blocker_simplifiable_complex.h /
           Skeleton_blocker_link_complex.h / Skeleton_blocker_sub_complex.h (what the C++ does, including the
           over-eager blocker update of remove_star(vertex/edge))
   Part 3  SPECIFICATION MODEL: the abstract simplicial complex as the list of its simplices, the operations as
           set-theoretic definitions, the minimal non-faces, Betti numbers through the certified reduction of
           ReduceExec.v *)
From Coq Require Import ZArith List Bool.
Require Import ReduceExec.
Import ListNotations.
Open Scope Z_scope.

(* ------------------------------------------------------------------ Part 1: vertex sets *)
Definition simplex := list Z.

Definition smem (v : Z) (s : simplex) : bool := existsb (Z.eqb v) s.
Definition ssub (a b : simplex) : bool := forallb (fun v => smem v b) a.          (* a included in b *)
Definition sdiff (a b : simplex) : simplex := filter (fun v => negb (smem v b)) a.
Definition sinter (a b : simplex) : simplex := filter (fun v => smem v b) a.
Definition sremove (v : Z) (s : simplex) : simplex := filter (fun x => negb (x =? v)) s.
Fixpoint sinsert (v : Z) (s : simplex) : simplex :=
  match s with
  | [] => [v]
  | x :: r => if v <? x then v :: s else if v =? x then s else x :: sinsert v r
  end.
Definition sunion (a b : simplex) : simplex := fold_right sinsert b a.
Definition sort_set (l : list Z) : simplex := fold_right sinsert [] l.
Fixpoint seqb (a b : simplex) : bool :=
  match a, b with
  | [], [] => true
  | x :: a', y :: b' => (x =? y) && seqb a' b'
  | _, _ => false
  end.
Definition lmem (s : simplex) (l : list simplex) : bool := existsb (seqb s) l.
Definition zlen (s : simplex) : Z := Z.of_nat (length s).
Definition dim (s : simplex) : Z := zlen s - 1.
Definition hdz (s : simplex) : Z := hd (-1) s.
(* faces of codimension one *)
Definition facets (s : simplex) : list simplex := map (fun v => sremove v s) s.
(* all sub-lists (the faces, including the empty one) *)
Fixpoint sublists (s : simplex) : list simplex :=
  match s with
  | [] => [[]]
  | x :: r => let t := sublists r in map (cons x) t ++ t
  end.
Definition nonempty (s : simplex) : bool := match s with [] => false | _ => true end.
Definition faces (s : simplex) : list simplex := filter nonempty (sublists s).
Fixpoint remove_first (s : simplex) (l : list simplex) : list simplex :=
  match l with
  | [] => []
  | x :: r => if seqb s x then r else x :: remove_first s r
  end.
Fixpoint dedup (l : list simplex) : list simplex :=
  match l with
  | [] => []
  | x :: r => if lmem x r then dedup r else x :: dedup r
  end.

(* ------------------------------------------------------------------ Part 2: algorithm model *)
(* slots = boost::num_vertices(skeleton) (vertices are never erased, only deactivated);
   act = active vertices; edg = edges (a,b) with a < b; blk = the blockers in insertion order (blocker_map_ as a set) *)
Record cplx := mkC { slots : Z; act : list Z; edg : list (Z * Z); blk : list simplex }.
Definition empty_cplx : cplx := mkC 0 [] [] [].

Definition edge_is (a b : Z) (e : Z * Z) : bool := (fst e =? Z.min a b) && (snd e =? Z.max a b).
Definition has_edge (c : cplx) (a b : Z) : bool := existsb (edge_is a b) (edg c).
Definition contains_vertex (c : cplx) (v : Z) : bool := (0 <=? v) && (v <? slots c) && smem v (act c).
Definition nbrs (c : cplx) (v : Z) : simplex :=
  sort_set (flat_map (fun e => if fst e =? v then [snd e] else if snd e =? v then [fst e] else []) (edg c)).
Definition degree (c : cplx) (v : Z) : Z := zlen (nbrs c v).
Definition blockers_at (c : cplx) (v : Z) : list simplex := filter (smem v) (blk c).   (* blocker_range(v) *)

Definition add_vertex (c : cplx) : cplx := mkC (slots c + 1) (act c ++ [slots c]) (edg c) (blk c).
Definition add_edge_without_blockers (c : cplx) (a b : Z) : cplx :=
  if has_edge c a b then c else mkC (slots c) (act c) (edg c ++ [(Z.min a b, Z.max a b)]) (blk c).
Definition remove_edge (c : cplx) (a b : Z) : cplx :=
  mkC (slots c) (act c) (filter (fun e => negb (edge_is a b e)) (edg c)) (blk c).
Definition remove_vertex (c : cplx) (v : Z) : cplx :=        (* boost::clear_vertex + deactivate *)
  mkC (slots c) (sremove v (act c)) (filter (fun e => negb ((fst e =? v) || (snd e =? v))) (edg c)) (blk c).

(* contains_blocker(const Simplex&): false below dimension 2, otherwise looked up among the blockers of the first vertex *)
Definition contains_blocker (c : cplx) (s : simplex) : bool :=
  if dim s <? 2 then false else lmem s (blockers_at c (hdz s)).
Definition add_blocker (c : cplx) (s : simplex) : cplx :=
  if contains_blocker c s then c else mkC (slots c) (act c) (edg c) (blk c ++ [s]).
Definition delete_blocker (c : cplx) (s : simplex) : cplx := mkC (slots c) (act c) (edg c) (remove_first s (blk c)).

(* blocks(sigma): some blocker through a vertex of sigma is a face of sigma *)
Definition blocks (c : cplx) (s : simplex) : bool :=
  existsb (fun v => existsb (fun b => ssub b s) (blockers_at c v)) s.
Fixpoint all_pairs (f : Z -> Z -> bool) (s : simplex) : bool :=
  match s with
  | [] => true
  | x :: r => forallb (f x) r && all_pairs f r
  end.
Definition contains_edges (c : cplx) (s : simplex) : bool :=
  forallb (contains_vertex c) s && all_pairs (has_edge c) s.
Definition contains (c : cplx) (s : simplex) : bool :=
  match s with
  | [] => false
  | [v] => contains_vertex c v
  | _ => contains_edges c s && negb (blocks c s)
  end.

(* Skeleton_blocker_link_complex::compute_link_vertices (only_superior = false) *)
Definition link_vertices (c : cplx) (alpha : simplex) : simplex :=
  match alpha with
  | [a] => nbrs c a
  | _ =>
    let cand := filter (fun v => forallb (fun x => smem v (nbrs c x)) alpha) (nbrs c (hdz alpha)) in
    filter (fun v => negb (existsb (fun beta => ssub (sremove v beta) alpha) (blockers_at c v))) cand
  end.
Definition coboundary (c : cplx) (s : simplex) : list simplex := map (fun v => sinsert v s) (link_vertices c s).

Definition add_blockers_after_simplex_insertion (c : cplx) (s : simplex) : cplx :=
  if dim s <? 1 then c else fold_left add_blocker (coboundary c s) c.
Definition add_edge (c : cplx) (a b : Z) : cplx :=
  if has_edge c a b then c
  else add_blockers_after_simplex_insertion (add_edge_without_blockers c a b) [Z.min a b; Z.max a b].
Fixpoint pairs_of (s : simplex) : list (Z * Z) :=
  match s with
  | [] => []
  | x :: r => map (fun y => (x, y)) r ++ pairs_of r
  end.
Definition add_edges_of_simplex (c : cplx) (s : simplex) : cplx :=
  fold_left (fun c e => add_edge c (fst e) (snd e)) (pairs_of s) c.

Definition remove_blocker_include_in_simplex (c : cplx) (sigma : simplex) : cplx :=
  let to_remove := filter (fun b => ssub b sigma) (blk c) in
  fold_left (fun c b =>
               let c1 := delete_blocker c b in
               fold_left (fun c x => if ssub x sigma then c else add_blocker c x) (coboundary c1 b) c1)
            to_remove c.
(* add_simplex: precondition (asserted by the C++): dimension > 1, not yet a simplex.  Vertices of sigma that do not exist yet
   (numbers >= slots) are created first, together with the slots below them ("Some vertices were not present in the complex,
   adding them"); the count is last_vertex - <number of slots> + 1 after the repair (the source as found subtracted
   num_vertices(), the number of ACTIVE vertices, and so created one spurious vertex per deactivated slot). *)
Definition add_vertices (c : cplx) (n : nat) : cplx := Nat.iter n add_vertex c.
Definition add_simplex (c : cplx) (sigma : simplex) : cplx :=
  let c0 := if forallb (contains_vertex c) sigma then c
            else add_vertices c (Z.to_nat (last sigma (-1) - slots c + 1)) in
  let c1 := if contains_edges c0 sigma then c0 else add_edges_of_simplex c0 sigma in
  let c2 := remove_blocker_include_in_simplex c1 sigma in
  add_blockers_after_simplex_insertion c2 sigma.

(* update_blockers_after_remove_star_of_vertex_or_edge.  thr is the threshold of
   (blocker.dimension() - simplex.dimension()) >= thr : 2 in the unrepaired code (registers edges and vertices as
   blockers), 3 after the repair (the sub-blocker has dimension >= 2, as the comment in the source says) *)
Definition update_blockers_after_remove_star (thr : Z) (c : cplx) (s : simplex) : cplx :=
  match s with
  | [] => c
  | v0 :: _ =>
    let to_update := filter (fun b => ssub s b) (blockers_at c v0) in
    fold_left (fun c b =>
                 let need := (dim b - dim s) >=? thr in
                 let c1 := delete_blocker c b in
                 if need then add_blocker c1 (sdiff b s) else c1) to_update c
  end.
Definition remove_star_vertex (thr : Z) (c : cplx) (v : Z) : cplx :=
  let c1 := update_blockers_after_remove_star thr c [v] in
  let c2 := fold_left (fun c w => remove_edge c v w) (nbrs c1 v) c1 in
  remove_vertex c2 v.
Definition remove_star_edge (thr : Z) (c : cplx) (a b : Z) : cplx :=
  remove_edge (update_blockers_after_remove_star thr c [Z.min a b; Z.max a b]) a b.
Definition remove_blocker_containing_simplex (c : cplx) (sigma : simplex) : cplx :=
  fold_left delete_blocker (filter (fun b => ssub sigma b) (blockers_at c (hdz sigma))) c.
Definition remove_star_simplex (thr : Z) (c : cplx) (sigma : simplex) : cplx :=
  if dim sigma =? 0 then remove_star_vertex thr c (hdz sigma)
  else if dim sigma =? 1 then remove_star_edge thr c (hdz sigma) (last sigma (-1))
  else add_blocker (remove_blocker_containing_simplex c sigma) sigma.

(* ---- links (Skeleton_blocker_link_complex::build_link); link vertices keep their identifiers of the parent *)
Definition link_edges (c : cplx) (alpha lv : simplex) : list (Z * Z) :=
  filter (fun e => let x := fst e in let y := snd e in
                   has_edge c x y &&
                   negb (existsb (fun b => smem y b && ssub (sdiff b [x; y]) alpha) (blockers_at c x)))
         (pairs_of lv).
Definition link_blockers (c : cplx) (alpha lv : simplex) : list simplex :=
  fold_left (fun acc x =>
    fold_left (fun acc bp =>
      let sigma := sdiff bp alpha in
      if (dim sigma >=? 2) && (hdz sigma =? x) && ssub sigma lv then
        let shadowed := existsb (fun a => existsb (fun eta =>
                            let ema := sdiff eta alpha in negb (seqb ema sigma) && ssub ema sigma)
                          (blockers_at c a)) alpha in
        if shadowed then acc else if lmem sigma acc then acc else acc ++ [sigma]
      else acc) (blockers_at c x) acc) lv [].
Definition build_link (c : cplx) (alpha : simplex) : cplx :=
  let lv := link_vertices c alpha in
  mkC (slots c) lv (link_edges c alpha lv) (link_blockers c alpha lv).
(* contains() of a sub-complex: a vertex is present iff it has an address in the link *)
Definition link_contains (l : cplx) (s : simplex) : bool :=
  match s with
  | [] => false
  | [v] => smem v (act l)
  | _ => forallb (fun v => smem v (act l)) s && all_pairs (has_edge l) s && negb (blocks l s)
  end.
Definition proper_face_in_union (l : cplx) (sigma : simplex) (v : Z) : bool :=
  let f := sremove v sigma in forallb (fun x => smem x (act l)) f && link_contains l f.
Definition proper_faces_in_union (sigma : simplex) (l1 l2 : cplx) : bool :=
  forallb (fun v => proper_face_in_union l1 sigma v || proper_face_in_union l2 sigma v) sigma.

Definition link_condition (c : cplx) (a b : Z) : bool := negb (existsb (smem b) (blockers_at c a)).
Definition tip_blockers (c : cplx) (a b : Z) : list simplex :=
  map (sremove a) (blockers_at c a) ++ map (fun y => [y]) (sremove a (sdiff (nbrs c b) (nbrs c a))).
Definition get_blockers_to_be_added_after_contraction (c : cplx) (a b : Z) : list simplex :=
  let la := build_link c [a] in
  let lb := build_link c [b] in
  let va := tip_blockers c a b in
  let vb := tip_blockers c b a in
  dedup (flat_map (fun alpha => flat_map (fun beta =>
           let sigma := sunion alpha beta in
           if contains c sigma && proper_faces_in_union sigma la lb then [sinsert a sigma] else []) vb) va).
Definition delete_blockers_around_edge (c : cplx) (a b : Z) : cplx :=
  mkC (slots c) (act c) (edg c) (filter (fun s => negb (smem a s && smem b s)) (blk c)).
Definition delete_blockers_around_vertices (c : cplx) (a b : Z) : cplx :=
  mkC (slots c) (act c) (edg c) (filter (fun s => negb (smem a s || smem b s)) (blk c)).
Definition update_edges_after_contraction (c : cplx) (a b : Z) : cplx :=
  let c1 := remove_edge c a b in
  fold_left (fun c x => if has_edge c a x then remove_edge c b x
                        else remove_edge (add_edge_without_blockers c a x) b x) (nbrs c1 b) c1.
Definition contract_edge (c : cplx) (a b : Z) : cplx :=
  let c1 := if link_condition c a b then c else delete_blockers_around_edge c a b in
  let to_add := get_blockers_to_be_added_after_contraction c1 a b in
  let c2 := delete_blockers_around_vertices c1 a b in
  let c3 := update_edges_after_contraction c2 a b in
  let c4 := remove_vertex c3 b in
  fold_left add_blocker to_add c4.

(* connected components of the 1-skeleton on the active vertices: label propagation *)
Definition relabel (lab : list (Z * Z)) (e : Z * Z) : list (Z * Z) :=
  let get v := match find (fun p => fst p =? v) lab with Some p => snd p | None => v end in
  let la := get (fst e) in let lb := get (snd e) in
  let m := Z.min la lb in
  map (fun p => if (snd p =? la) || (snd p =? lb) then (fst p, m) else p) lab.
Definition num_connected_components (c : cplx) : Z :=
  let lab := fold_left relabel (edg c) (map (fun v => (v, v)) (act c)) in
  Z.of_nat (length (filter (fun p => fst p =? snd p) lab)).

(* ------------------------------------------------------------------ Part 3: specification model *)
(* an abstract complex: number of vertex slots handed out so far, and the list of its simplices *)
Definition acplx := (Z * list simplex)%type.
Definition kmem (s : simplex) (k : list simplex) : bool := lmem s k.
Definition spec_empty : acplx := (0, []).
Definition spec_add_vertex (k : acplx) : acplx := (fst k + 1, snd k ++ [[fst k]]).
Definition spec_add_edge (k : acplx) (a b : Z) : acplx :=
  let e := [Z.min a b; Z.max a b] in if kmem e (snd k) then k else (fst k, snd k ++ [e]).
(* add the edge ab and every simplex all of whose faces missing a or missing b are present
   (what add_edge_without_blockers means on the abstract complex) *)
Definition spec_fill (k : list simplex) (a b : Z) : list simplex :=
  let news := flat_map (fun t => if smem b t && negb (smem a t) && kmem (sinsert a (sremove b t)) k
                                 then (let n := sinsert a t in if kmem n k then [] else [n]) else []) k in
  k ++ news.
Definition spec_add_edge_fill (k : acplx) (a b : Z) : acplx :=
  if kmem [Z.min a b; Z.max a b] (snd k) then k else (fst k, spec_fill (snd k) a b).
(* the vertices of s numbered >= slots are created, with all slots below them (vertex numbers are contiguous) *)
Definition spec_add_simplex (k : acplx) (s : simplex) : acplx :=
  let k0 := Nat.iter (Z.to_nat (last s (-1) - fst k + 1)) spec_add_vertex k in
  (fst k0, snd k0 ++ filter (fun f => negb (kmem f (snd k0))) (faces s)).
Definition spec_remove_star (k : acplx) (s : simplex) : acplx :=
  (fst k, filter (fun t => negb (ssub s t)) (snd k)).
(* contraction of ab = image of the complex under the vertex map b |-> a (the simplices that the C++ frees first by
   deleting the blockers through ab all contain a and b; their images are already images of simplices of k) *)
Definition vmap (a b : Z) (t : simplex) : simplex := if smem b t then sinsert a (sremove b t) else t.
Definition spec_contract (k : acplx) (a b : Z) : acplx := (fst k, dedup (map (vmap a b) (snd k))).
Definition spec_vertices (k : list simplex) : simplex :=
  sort_set (flat_map (fun s => match s with [v] => [v] | _ => [] end) k).
(* minimal non-faces of dimension >= 2: not a simplex, every face of codimension one is *)
Definition is_minimal_nonface (k : list simplex) (s : simplex) : bool :=
  negb (kmem s k) && forallb (fun f => kmem f k) (facets s).
Definition spec_blockers (k : list simplex) : list simplex :=
  filter (fun s => (dim s >=? 2) && is_minimal_nonface k s) (sublists (spec_vertices k)).
(* the link of alpha in the abstract complex: simplices disjoint from alpha whose union with alpha is a simplex *)
Definition spec_link (k : list simplex) (alpha : simplex) : list simplex :=
  filter (fun t => forallb (fun v => negb (smem v alpha)) t && kmem (sunion alpha t) k) k.
Definition spec_link_condition (k : list simplex) (a b : Z) : bool :=
  negb (existsb (fun s => smem a s && smem b s) (spec_blockers k)).
(* closedness of a list of simplices: every facet of a simplex of dimension >= 1 is there *)
Definition spec_closed (k : list simplex) : bool :=
  forallb (fun s => nonempty s && ((dim s <? 1) || forallb (fun f => kmem f k) (facets s))) k.

(* ---- homology of an abstract complex over Z_p through the certified reduction *)
Fixpoint index_of (s : simplex) (l : list simplex) (i : nat) : option nat :=
  match l with
  | [] => None
  | x :: r => if seqb s x then Some i else index_of s r (S i)
  end.
Fixpoint insert_by_dim (s : simplex) (l : list simplex) : list simplex :=
  match l with
  | [] => [s]
  | x :: r => if (length s <=? length x)%nat then s :: l else x :: insert_by_dim s r
  end.
Definition filtration_order (k : list simplex) : list simplex := fold_right insert_by_dim [] k.
Fixpoint boundary_col (p : Z) (order : list simplex) (pre post : simplex) (sign : Z) : list (nat * Z) :=
  match post with
  | [] => []
  | v :: r =>
    let f := pre ++ r in
    let rest := boundary_col p order (pre ++ [v]) r (- sign) in
    match f with
    | [] => rest
    | _ => match index_of f order 0 with Some i => (i, sign mod p) :: rest | None => rest end
    end
  end.
Definition boundary_matrix (p : Z) (order : list simplex) : dmat :=
  dense_of_sparse (length order) (map (fun s => boundary_col p order [] s 1) order).
Definition count_dim (order : list simplex) (idx : list nat) (d : nat) : Z :=
  Z.of_nat (length (filter (fun i => (length (nth i order []) =? S d)%nat) idx)).
(* Betti numbers b_0..b_maxd over Z_p; None if the certificate of the reduction fails *)
Definition betti (p : Z) (k : list simplex) (maxd : nat) : option (list Z) :=
  let order := filtration_order k in
  match certified_lows p (boundary_matrix p order) with
  | None => None
  | Some l =>
    let ess := flat_map (fun bd => match snd bd with None => [fst bd] | Some _ => [] end) (pairs_of_lows l) in
    Some (map (fun d => count_dim order ess d) (seq 0 (S maxd)))
  end.
Definition euler (k : list simplex) : Z :=
  fold_left (fun acc s => if Z.even (dim s) then acc + 1 else acc - 1) k 0.
